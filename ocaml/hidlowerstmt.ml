(* Thin driver around the extracted model of hidc's statement lowering
   (coq/Codegen/LowerStmtModel.v: gen_stmts / gen_block for the fragment F_stmt).
   stdin : one function body per line:   <w> <nparams> ret|noret S ... S
           (noret: the front end found that the body cannot complete and added no implicit return)
           S ::= (decli A) | (assi <i> A) | (declb E) | (assb <j> E)
               | (write (lit z)) | (write (chr c)) | (write (byte A)) | (writeln)
               | (writei 0|1 A) | (writeb 0|1 E)      write / writeln (1) of an int / a bool
               | (if E (S ...) (S ...)) | (while E (S ...) (S ...)) | (block S ...)
               | (break) | (continue)
               | (decldiv div|mod A A) | (assdiv <i> div|mod A A)     int x = a / b;  xi = a % b;
               | (call none <f> A ...) | (call decl <f> A ...) | (call assign <i> <f> A ...)
               | (return) | (return A)
           E ::= (lit 0|1) | (bvar j) | (bglob h) | (cmp OP A A) | (not E) | (and E E) | (or E E)
           A ::= (i k) | (n z) | (ar add|sub|mul A A) | (un neg|pos A) | (glob g)
               | (byte j)      the j-th byte-sized local (bool locals so far: `(q is byte) is int`) read as an int
               | (low i)       the low byte of the i-th int local read as an int: `(x is byte) is int`
               | (c z)         a char literal used as an int (printed 'c'), 0 <= z <= 255
               | (trunc A)     `(A is byte) is int` for A a global or a computed value (not at the root of a
                               declaration initialiser / call or write argument)
           globals: (glob g) reads the g-th int global, (bglob h) the h-th bool global;
               S ::= ... | (assg g A) | (assgdiv g div|mod A A) | (call assigng g <f> A ...) | (assbg h E)
               `prog` and `run` lines take (ginit z ...) (binit 0|1 ...) before the functions: the
               initial values of the int / bool globals
           int locals are numbered in declaration order (the parameters first), bool locals
           likewise; a block's locals go out of scope at its end.
           or a whole program:           prog <w> <stack_size> (fun <nparams> S ...) ...
           (function 0 is the entry point; bodies are checked trees, with the final `return;`)
           or a run of the SOURCE SEMANTICS (LowerStmtSem.icall, the fuelled interpreter):
                                         run <w> <stack_size> <fuel> (args z ...) (fun ...) ...
           -> "unchecked" when Model.run_ok_b (the static hypotheses of the program theorem: scoping,
           literals that are words, guard constants, sizes) fails, else
           "ret" | "fault division_by_zero" | "fault stack_overflow" | "nofuel", then the output
           bytes in decimal, tab-separated; the entry point is called with
           (stack_size + nargs + 1) * w bytes of stack
   stdout: for a program: the lines of the state section (Model.state_section) and of the code
           section up to the runtime library (Model.lower_program), tab-separated;
           one line per body: "need <N>" (Model.need_stmts: the largest frame offset reached),
           then the lines of Model.lower_body (statements + implicit return), tab-separated,
           each rendered by Model.print_aline. *)
open Hidlowerstmt_core

type sx = Atom of string | L of sx list

let tokenize (s : string) : string list =
  let n = String.length s in
  let rec go i acc =
    if i >= n then List.rev acc
    else match s.[i] with
      | ' ' | '\t' | '\r' | '\n' -> go (i + 1) acc
      | '(' -> go (i + 1) ("(" :: acc)
      | ')' -> go (i + 1) (")" :: acc)
      | _ ->
        let j = ref i in
        while !j < n && not (List.mem s.[!j] [' '; '\t'; '('; ')'; '\r'; '\n']) do incr j done;
        go !j (String.sub s i (!j - i) :: acc)
  in go 0 []

let rec parse_sx (toks : string list) : sx * string list =
  match toks with
  | [] -> failwith "unexpected end of input"
  | "(" :: r ->
    let rec items ts acc = match ts with
      | ")" :: r' -> (L (List.rev acc), r')
      | _ -> let (x, r') = parse_sx ts in items r' (x :: acc)
    in items r []
  | ")" :: _ -> failwith "unexpected )"
  | a :: r -> (Atom a, r)

let rec parse_all toks = match toks with
  | [] -> []
  | _ -> let (x, r) = parse_sx toks in x :: parse_all r

let rec nat_of_int n = if n <= 0 then O else S (nat_of_int (n - 1))
let rec pos_of_int n =
  if n = 1 then XH else if n land 1 = 0 then XO (pos_of_int (n lsr 1)) else XI (pos_of_int (n lsr 1))
let z_of_int n = if n = 0 then Z0 else if n > 0 then Zpos (pos_of_int n) else Zneg (pos_of_int (- n))
let z_of_string (s : string) : z =
  let neg = String.length s > 0 && s.[0] = '-' in
  let ten = z_of_int 10 in
  let acc = ref Z0 in
  String.iteri (fun i c ->
      if i = 0 && (c = '-' || c = '+') then ()
      else if c >= '0' && c <= '9' then acc := Z.add (Z.mul !acc ten) (z_of_int (Char.code c - 48))
      else failwith ("bad integer " ^ s)) s;
  if neg then Z.opp !acc else !acc
let rec int_of_pos = function XH -> 1 | XO p -> 2 * int_of_pos p | XI p -> 2 * int_of_pos p + 1
let string_of_z = function Z0 -> "0" | Zpos p -> string_of_int (int_of_pos p) | Zneg p -> "-" ^ string_of_int (int_of_pos p)

let string_of_chars (l : char list) : string =
  let b = Buffer.create 32 in List.iter (Buffer.add_char b) l; Buffer.contents b

let op_of = function
  | "lt" -> SLt | "gt" -> SGt | "le" -> SLe | "ge" -> SGe | "eq" -> SEq | "ne" -> SNe
  | s -> failwith ("bad comparison " ^ s)
let aop_of = function
  | "add" -> SAdd | "sub" -> SSub | "mul" -> SMul
  | s -> failwith ("bad arithmetic operator " ^ s)
let dop_of = function
  | "div" -> SDiv | "mod" -> SMod
  | s -> failwith ("bad division operator " ^ s)
let rec opd_of = function
  | L [Atom "i"; Atom k] -> OVar (nat_of_int (int_of_string k))
  | L [Atom "glob"; Atom k] -> OGlob (nat_of_int (int_of_string k))
  | L [Atom "byte"; Atom j] -> OByte (YSlot (nat_of_int (int_of_string j)))
  | L [Atom "low"; Atom i] -> OByte (YLow (nat_of_int (int_of_string i)))
  | L [Atom "trunc"; x] -> OTrunc (opd_of x)
  | L [Atom "n"; Atom z] -> OLit (false, z_of_string z)
  | L [Atom "c"; Atom z] -> OLit (true, z_of_string z)
  | L [Atom "ar"; Atom op; x; y] -> OArith (aop_of op, opd_of x, opd_of y)
  | L [Atom "un"; Atom "neg"; x] -> OUn (UNeg, opd_of x)
  | L [Atom "un"; Atom "pos"; x] -> OUn (UPos, opd_of x)
  | _ -> failwith "bad operand"
let rec expr_of = function
  | L [Atom "lit"; Atom "0"] -> BLit false
  | L [Atom "lit"; Atom "1"] -> BLit true
  | L [Atom "bvar"; Atom j] -> BVar (BLocal (nat_of_int (int_of_string j)))
  | L [Atom "bglob"; Atom h] -> BVar (BGlobal (nat_of_int (int_of_string h)))
  | L [Atom "cmp"; Atom op; a; b] -> BCmp (op_of op, opd_of a, opd_of b)
  | L [Atom "not"; e] -> BNot (expr_of e)
  | L [Atom "and"; a; b] -> BAnd (expr_of a, expr_of b)
  | L [Atom "or"; a; b] -> BOr (expr_of a, expr_of b)
  | _ -> failwith "bad expression"
let wexpr_of = function
  | L [Atom "lit"; Atom z] -> WrLit (z_of_string z)
  | L [Atom "chr"; Atom c] -> WrChar (z_of_string c)
  | L [Atom "byte"; a] -> WrByte (opd_of a)
  | _ -> failwith "bad write argument"

let rec stmt_of = function
  | L [Atom "decli"; a] -> SDeclI (opd_of a)
  | L [Atom "assi"; Atom i; a] -> SAssignI (nat_of_int (int_of_string i), opd_of a)
  | L [Atom "declb"; e] -> SDeclB (expr_of e)
  | L [Atom "assb"; Atom j; e] -> SAssignB (nat_of_int (int_of_string j), expr_of e)
  | L [Atom "write"; x] -> SWrite (wexpr_of x)
  | L [Atom "writeln"] -> SWriteln
  | L [Atom "writei"; Atom ln; a] -> SWriteI (ln = "1", opd_of a)
  | L [Atom "writeb"; Atom ln; e] -> SWriteB (ln = "1", expr_of e)
  | L [Atom "if"; e; L s1; L s2] -> SIf (expr_of e, stmts_of s1, stmts_of s2)
  | L [Atom "while"; e; L b; L k] -> SWhile (expr_of e, stmts_of b, stmts_of k)
  | L (Atom "block" :: ss) -> SBlock (stmts_of ss)
  | L [Atom "break"] -> SBreak
  | L [Atom "continue"] -> SContinue
  | L [Atom "decldiv"; Atom op; a; b] -> SDeclDiv (dop_of op, opd_of a, opd_of b)
  | L [Atom "assdiv"; Atom i; Atom op; a; b] -> SAssignDiv (nat_of_int (int_of_string i), dop_of op, opd_of a, opd_of b)
  | L (Atom "call" :: Atom "none" :: Atom f :: args) -> SCall (DNone, nat_of_int (int_of_string f), List.map opd_of args)
  | L (Atom "call" :: Atom "decl" :: Atom f :: args) -> SCall (DDecl, nat_of_int (int_of_string f), List.map opd_of args)
  | L (Atom "call" :: Atom "assign" :: Atom i :: Atom f :: args) ->
    SCall (DAssign (nat_of_int (int_of_string i)), nat_of_int (int_of_string f), List.map opd_of args)
  | L (Atom "call" :: Atom "assigng" :: Atom g :: Atom f :: args) ->
    SCall (DAssignG (nat_of_int (int_of_string g)), nat_of_int (int_of_string f), List.map opd_of args)
  | L [Atom "assg"; Atom g; a] -> SAssignG (nat_of_int (int_of_string g), opd_of a)
  | L [Atom "assbg"; Atom h; e] -> SAssignBG (nat_of_int (int_of_string h), expr_of e)
  | L [Atom "assgdiv"; Atom g; Atom op; a; b] -> SAssignGDiv (nat_of_int (int_of_string g), dop_of op, opd_of a, opd_of b)
  | L [Atom "return"] -> SReturn None
  | L [Atom "return"; a] -> SReturn (Some (opd_of a))
  | _ -> failwith "bad statement"
and stmts_of = function
  | [] -> SNil
  | s :: r -> SCons (stmt_of s, stmts_of r)

let fun_of = function
  | L (Atom "fun" :: Atom np :: ss) -> { fn_params = nat_of_int (int_of_string np); fn_body = stmts_of ss }
  | _ -> failwith "bad function"

let rec nat_of_fuel n = nat_of_int n

let run_line (line : string) : string =
  match tokenize line with
  | "run" :: w :: stack :: fuel :: rest ->
    let wz = z_of_int (int_of_string w) in
    (match parse_all rest with
     | L (Atom "args" :: av) :: fs0 ->
       let args = List.map (function Atom a -> z_of_string a | _ -> failwith "bad argument") av in
       let (gi, fs) = (match fs0 with
           | L (Atom "ginit" :: gv) :: fs -> (List.map (function Atom a -> z_of_string a | _ -> failwith "bad initialiser") gv, fs)
           | fs -> ([], fs)) in
       let (bi, fs) = (match fs with
           | L (Atom "binit" :: gv) :: fs -> (List.map (function Atom a -> z_of_string a | _ -> failwith "bad initialiser") gv, fs)
           | fs -> ([], fs)) in
       let funs = List.map fun_of fs in
       let d = Z.mul (Z.add (Z.add (z_of_int (int_of_string stack)) (z_of_int (List.length args))) (z_of_int 1)) wz in
       if not (run_ok_b wz (nat_of_int (List.length gi)) (nat_of_int (List.length bi)) funs (z_of_int (int_of_string stack)) (nat_of_int (List.length args))) then "unchecked" else
       (match icall wz funs (nat_of_fuel (int_of_string fuel)) d O args (gi, bi) with
        | None -> "nofuel"
        | Some (evs, res) ->
          String.concat "\t"
            ((match res with
              | CRet (_, _) -> "ret"
              | CFault FDivZero -> "fault division_by_zero"
              | CFault FStackOverflow -> "fault stack_overflow")
             :: List.map string_of_z evs))
     | _ -> failwith "bad run line")
  | "prog" :: w :: stack :: rest ->
    let wz = z_of_int (int_of_string w) in
    let (gi, fs) = (match parse_all rest with
        | L (Atom "ginit" :: gv) :: fs -> (List.map (function Atom a -> z_of_string a | _ -> failwith "bad initialiser") gv, fs)
        | fs -> ([], fs)) in
    let (bi, fs) = (match fs with
        | L (Atom "binit" :: gv) :: fs -> (List.map (function Atom a -> z_of_string a | _ -> failwith "bad initialiser") gv, fs)
        | fs -> ([], fs)) in
    let funs = List.map fun_of fs in
    let np = match funs with f :: _ -> f.fn_params | [] -> failwith "no entry point" in
    let ginit g = (let rec nth l k = match l, k with x :: _, O -> x | _ :: r, S k' -> nth r k' | [], _ -> Z0 in nth gi g) in
    let binit g = (let rec nth l k = match l, k with x :: _, O -> x | _ :: r, S k' -> nth r k' | [], _ -> Z0 in nth bi g) in
    String.concat "\t"
      (List.map (fun d -> string_of_chars (print_dline d)) (state_section_g (z_of_int (int_of_string stack)) np funs ginit binit)
       @ ("%section code" :: List.map (fun l -> string_of_chars (print_aline l)) (lower_program wz funs)))
  | w :: np :: rt :: rest ->
    let s0 = is_you_senv (z_of_int (int_of_string w)) (nat_of_int (int_of_string np)) in
    let ss = stmts_of (parse_all rest) in
    let st0 : lstate = fun _ -> O in
    let c = if rt = "ret" then fst (lower_body s0 ss st0)
            else (match lower_stmts s0 None ss st0 with (((c, _), _), _) -> c) in
    String.concat "\t" (("need " ^ string_of_z (need_stmts s0 ss))
                        :: List.map (fun l -> string_of_chars (print_aline l)) c)
  | _ -> failwith "bad line"

let () =
  try
    while true do
      let line = input_line stdin in
      if String.trim line <> "" then
        print_endline (try run_line line with Failure m -> "ERROR " ^ m)
    done
  with End_of_file -> ()
