(* Thin driver around the extracted model of hidc's bool_expr_branch / truth_is_defeat
   (coq/Codegen/LowerBoolModel.v).
   stdin : one program per line: functions with int parameters and bool locals, as
             <w> <nparams> <stmt> ... <stmt>
           stmt ::= (decl E)           `bool x = E;`                       (Model.declare_bool)
                  | (assign <j> E)     `bj = E;`, bj the j-th bool local   (Model.assign_bool)
                  | (if E)             IfBlock condition                   (Model.if_block)
                  | (val <r> E)        BooleanOp in value position into register r0|r1|r2
                                                                           (Model.value_lowering)
                  | (defeat s|v E)     `!truth_is_defeat(E);` with static / virtual defeat
                                                                           (Model.lower_defeat)
                  | (skip)             a statement that does not lower a boolean expression
                  | (newfun <nparams>) start of the next function: the frame offset is reset,
                                       the label counters continue; no output segment
           E    ::= (lit 0|1) | (bvar j) | (cmp OP A A) | (not E) | (and E E) | (or E E)
           OP   ::= lt | gt | le | ge | eq | ne
           A    ::= (i k)   k-th int parameter   | (n z)   integer literal
                  | (ar add|sub|mul A A) | (un neg|pos A)
           The label counters start at 0 and the frame offset at (nparams+1)*w; both are threaded
           through the statements in order (a declaration reserves one byte).
   stdout: one line per program: the statements' segments separated by " @@ ", the lines of a
           segment separated by tabs, each line rendered by Model.print_aline. *)
open Hidlower_core

type sx = Atom of string | L of sx list

let tokenize (s : string) : string list =
  let n = String.length s in
  let rec go i acc =
    if i >= n then List.rev acc
    else match s.[i] with
      | ' ' | '\t' | '\r' | '\n' -> go (i + 1) acc
      | '(' -> go (i + 1) ("(" :: acc)
      | ')' -> go (i + 1) (")" :: acc)
      | _ ->
        let j = ref i in
        while !j < n && not (List.mem s.[!j] [' '; '\t'; '('; ')'; '\r'; '\n']) do incr j done;
        go !j (String.sub s i (!j - i) :: acc)
  in go 0 []

let rec parse_sx (toks : string list) : sx * string list =
  match toks with
  | [] -> failwith "unexpected end of input"
  | "(" :: r ->
    let rec items ts acc = match ts with
      | ")" :: r' -> (L (List.rev acc), r')
      | _ -> let (x, r') = parse_sx ts in items r' (x :: acc)
    in items r []
  | ")" :: _ -> failwith "unexpected )"
  | a :: r -> (Atom a, r)

let rec parse_all toks = match toks with
  | [] -> []
  | _ -> let (x, r) = parse_sx toks in x :: parse_all r

let rec nat_of_int n = if n <= 0 then O else S (nat_of_int (n - 1))
let rec pos_of_int n =
  if n = 1 then XH else if n land 1 = 0 then XO (pos_of_int (n lsr 1)) else XI (pos_of_int (n lsr 1))
let z_of_int n = if n = 0 then Z0 else if n > 0 then Zpos (pos_of_int n) else Zneg (pos_of_int (- n))

(* arbitrary-size decimal literal (the front end folds constants on unbounded integers) *)
let z_of_string (s : string) : z =
  let neg = String.length s > 0 && s.[0] = '-' in
  let ten = z_of_int 10 in
  let acc = ref Z0 in
  String.iteri (fun i c ->
      if i = 0 && (c = '-' || c = '+') then ()
      else if c >= '0' && c <= '9' then acc := Z.add (Z.mul !acc ten) (z_of_int (Char.code c - 48))
      else failwith ("bad integer " ^ s)) s;
  if neg then Z.opp !acc else !acc

let string_of_chars (l : char list) : string =
  let b = Buffer.create 32 in List.iter (Buffer.add_char b) l; Buffer.contents b

let op_of = function
  | "lt" -> SLt | "gt" -> SGt | "le" -> SLe | "ge" -> SGe | "eq" -> SEq | "ne" -> SNe
  | s -> failwith ("bad comparison " ^ s)

let aop_of = function
  | "add" -> SAdd | "sub" -> SSub | "mul" -> SMul
  | s -> failwith ("bad arithmetic operator " ^ s)

let rec opd_of = function
  | L [Atom "i"; Atom k] -> OVar (nat_of_int (int_of_string k))
  | L [Atom "n"; Atom z] -> OLit (false, z_of_string z)
  | L [Atom "ar"; Atom op; x; y] -> OArith (aop_of op, opd_of x, opd_of y)
  | L [Atom "un"; Atom "neg"; x] -> OUn (UNeg, opd_of x)
  | L [Atom "un"; Atom "pos"; x] -> OUn (UPos, opd_of x)
  | _ -> failwith "bad operand"

let rec expr_of = function
  | L [Atom "lit"; Atom "0"] -> BLit false
  | L [Atom "lit"; Atom "1"] -> BLit true
  | L [Atom "bvar"; Atom j] -> BVar (BLocal (nat_of_int (int_of_string j)))
  | L [Atom "cmp"; Atom op; a; b] -> BCmp (op_of op, opd_of a, opd_of b)
  | L [Atom "not"; e] -> BNot (expr_of e)
  | L [Atom "and"; a; b] -> BAnd (expr_of a, expr_of b)
  | L [Atom "or"; a; b] -> BOr (expr_of a, expr_of b)
  | _ -> failwith "bad expression"

let reg_of = function "r0" -> R0 | "r1" -> R1 | "r2" -> R2 | s -> failwith ("bad register " ^ s)

let render (c : aline list) : string =
  String.concat "\t" (List.map (fun l -> string_of_chars (print_aline l)) c)

let run_line (line : string) : string =
  match tokenize line with
  | w :: np :: rest ->
    let env0 = is_you_env (z_of_int (int_of_string w)) (nat_of_int (int_of_string np)) in
    let st0 : lstate = fun _ -> O in
    let bump env = with_top env (Z.add env.stack_top (Zpos XH)) in
    let step (env, st, acc) s = match s with
      | L [Atom "decl"; e] ->
        let (c, st') = declare_bool env (expr_of e) st in
        (bump env, st', render c :: acc)
      | L [Atom "assign"; Atom j; e] ->
        let (c, st') = assign_bool env (env.bool_off (nat_of_int (int_of_string j))) (expr_of e) st in
        (env, st', render c :: acc)
      | L [Atom "skip"] -> (env, st, "" :: acc)
      | L [Atom "newfun"; Atom np'] ->
        (is_you_env (z_of_int (int_of_string w)) (nat_of_int (int_of_string np')), st, acc)
      | L [Atom "if"; e] ->
        let (((c, _), _), st') = if_block env (expr_of e) st in
        (env, st', render c :: acc)
      | L [Atom "val"; Atom r; e] ->
        let (c, st') = value_lowering env (expr_of e) (reg_of r) st in
        (env, st', render c :: acc)
      | L [Atom "defeat"; Atom k; e] ->
        let (c, st') = lower_defeat env (k = "v") (expr_of e) st in
        (env, st', render c :: acc)
      | _ -> failwith "bad statement" in
    let (_, _, segs) = List.fold_left step (env0, st0, []) (parse_all rest) in
    String.concat " @@ " (List.rev segs)
  | _ -> failwith "bad line"

let () =
  try
    while true do
      let line = input_line stdin in
      if String.trim line <> "" then
        print_endline (try run_line line with Failure m -> "ERROR " ^ m)
    done
  with End_of_file -> ()
