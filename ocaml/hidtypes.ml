(* Thin driver around the extracted models HiD/Fold.v + HiD/Types.v (hidtypes_core.ml).
   One S-expression command per input line, one S-expression result per output line.

   commands:
     (elab PROGRAM)                    -> checked tree | (Error ...)
     (wt PROGRAM)                      -> T | F   (the documented rules, Types.wt_program)
     (coercible TEXPR TYPE)            -> T | F
     (cast TEXPR TYPE) (coerce TEXPR TYPE) -> TEXPR | (Error ...)
     (typeof TEXPR)                    -> TYPE
     (resolve (decls (fname ret t...)...) fname TEXPR...) -> (sig fname ret t...) | (Error ...)
     (fold2 Op a b) (fold1 Op a)       -> (val n) | (err msg) | (crash)
     (foldb2 Op a b) (foldb1 Op a)     -> (val T|F) | (err msg) | (crash)
   The syntax of PROGRAM / TEXPR / the checked tree is documented in tools/treeser.py.
   Integers are decimal; all arithmetic on them uses the extracted Z. *)
open Hidtypes_core

(* ---------- S-expressions ---------- *)
type sx = A of string | L of sx list

let parse_sx (s : string) : sx =
  let n = String.length s in
  let pos = ref 0 in
  let rec skip () = if !pos < n && (s.[!pos] = ' ' || s.[!pos] = '\t' || s.[!pos] = '\r') then (incr pos; skip ()) in
  let rec item () =
    skip ();
    if !pos >= n then failwith "sexp: eof"
    else if s.[!pos] = '(' then begin
      incr pos;
      let rec items acc =
        skip ();
        if !pos >= n then failwith "sexp: unclosed"
        else if s.[!pos] = ')' then (incr pos; List.rev acc)
        else let x = item () in items (x :: acc) in
      L (items [])
    end else begin
      let st = !pos in
      while !pos < n && s.[!pos] <> ' ' && s.[!pos] <> '(' && s.[!pos] <> ')' do incr pos done;
      A (String.sub s st (!pos - st))
    end in
  item ()

let rec show = function
  | A a -> a
  | L l -> "(" ^ String.concat " " (List.map show l) ^ ")"

(* ---------- strings ---------- *)
let cl_of_string (s : string) : char list = List.init (String.length s) (String.get s)
let string_of_cl (l : char list) : string = String.of_seq (List.to_seq l)

let hex_of_cl (l : char list) : string =
  if l = [] then "-" else String.concat "" (List.map (fun c -> Printf.sprintf "%02x" (Char.code c)) l)
let cl_of_hex (s : string) : char list =
  if s = "-" then [] else
  List.init (String.length s / 2) (fun i -> Char.chr (int_of_string ("0x" ^ String.sub s (2 * i) 2)))

(* ---------- integers (extracted Z) ---------- *)
let rec pos_of_int (i : int) : positive =
  if i = 1 then XH else if i land 1 = 0 then XO (pos_of_int (i lsr 1)) else XI (pos_of_int (i lsr 1))
let z_of_small (i : int) : z = if i = 0 then Z0 else if i > 0 then Zpos (pos_of_int i) else Zneg (pos_of_int (- i))
let ten = z_of_small 10

let z_of_dec (s : string) : z =
  let neg = String.length s > 0 && s.[0] = '-' in
  let st = if neg then 1 else 0 in
  let acc = ref Z0 in
  if String.length s = st then failwith ("bad int " ^ s);
  for i = st to String.length s - 1 do
    let c = s.[i] in
    if c < '0' || c > '9' then failwith ("bad int " ^ s);
    acc := Z.add (Z.mul !acc ten) (z_of_small (Char.code c - 48))
  done;
  if neg then Z.opp !acc else !acc

let rec int_of_pos = function XH -> 1 | XO p -> 2 * int_of_pos p | XI p -> 2 * int_of_pos p + 1
let small_of_z = function Z0 -> 0 | Zpos p -> int_of_pos p | Zneg p -> - (int_of_pos p)

let dec_of_z (v : z) : string =
  let rec go v acc =
    match v with
    | Z0 -> acc
    | _ -> let (q, r) = Z.div_eucl v ten in go q (string_of_int (small_of_z r) ^ acc) in
  match v with
  | Z0 -> "0"
  | Zpos _ -> go v ""
  | Zneg _ -> "-" ^ go (Z.opp v) ""

(* ---------- names ---------- *)
let find_by_name all name_of what (s : string) =
  try List.find (fun x -> string_of_cl (name_of x) = s) all
  with Not_found -> failwith ("unknown " ^ what ^ " " ^ s)
let dty_of_string = find_by_name dty_all dty_name "type"
let op_of_string = find_by_name opclass_all opclass_name "operator"
let is_op (s : string) = List.exists (fun x -> string_of_cl (opclass_name x) = s) opclass_all
let is_castkind (s : string) = List.exists (fun x -> string_of_cl (castkind_name x) = s) castkind_all
let castkind_of_string = find_by_name castkind_all castkind_name "cast"

let bool_of_sx = function A "T" -> true | A "F" -> false | x -> failwith ("bool: " ^ show x)
let sx_of_bool b = A (if b then "T" else "F")

let ty_of_sx = function
  | A d -> TData (dty_of_string d)
  | L [A "arr"; A d] -> TArr (dty_of_string d, false)
  | L [A "carr"; A d] -> TArr (dty_of_string d, true)
  | x -> failwith ("type: " ^ show x)
let sx_of_dty d = A (string_of_cl (dty_name d))
let sx_of_ty = function
  | TData d -> sx_of_dty d
  | TArr (d, false) -> L [A "arr"; sx_of_dty d]
  | TArr (d, true) -> L [A "carr"; sx_of_dty d]

let ident_of_string (s : string) : ident =
  if String.length s > 0 && s.[0] = '@' then { id_name = cl_of_string (String.sub s 1 (String.length s - 1)); id_flavor = FL_YOU }
  else if String.length s > 0 && s.[0] = '!' then { id_name = cl_of_string (String.sub s 1 (String.length s - 1)); id_flavor = FL_DEFEAT }
  else { id_name = cl_of_string s; id_flavor = FL_NONE }
let string_of_ident (i : ident) = string_of_cl (flavor_text i.id_flavor) ^ string_of_cl i.id_name

let var_of_sx n t c = { v_name = cl_of_string n; v_type = ty_of_sx t; v_const = bool_of_sx c }
let sx_of_var (v : var) = [A (string_of_cl v.v_name); sx_of_ty v.v_type; sx_of_bool v.v_const]

(* ---------- checked expressions ---------- *)
let is_arith_op c = match op_family c with FamBinArith | FamUnArith -> true | _ -> false

let rec texpr_of_sx (x : sx) : texpr =
  match x with
  | L [A "IntValue"; A n; s; c] -> TInt (z_of_dec n, bool_of_sx s, bool_of_sx c)
  | L [A "ByteValue"; A n; s; c] -> TByte (z_of_dec n, bool_of_sx s, bool_of_sx c)
  | L [A "BoolValue"; b] -> TBool (bool_of_sx b)
  | L [A "StringValue"; A h] -> TStr (cl_of_hex h)
  | L [A "VariableLookup"; A n; t; c] -> TVar (var_of_sx n t c)
  | L [A "Parameter"; A n; t; c] -> TParam (var_of_sx n t c)
  | L (A "ArrayLiteral" :: t :: lk :: vs) -> TArrLit (List.map texpr_of_sx vs, ty_of_sx t, bool_of_sx lk)
  | L [A "ArrayLookup"; s; i] -> TIndex (texpr_of_sx s, texpr_of_sx i)
  | L [A "LengthLookup"; s] -> TLen (texpr_of_sx s)
  | L (A "FuncCall" :: A f :: L (A "sig" :: _) :: ret :: args) ->
      TCall (ident_of_string f, List.map texpr_of_sx args, ty_of_sx ret)
  | L [A "Volatile"; e] -> TVolatile (texpr_of_sx e)
  | L [A "Speculation"; l; r] -> TSpec (texpr_of_sx l, texpr_of_sx r)
  | L [A "ArrayInitializer"; t; len] -> TArrInit (ty_of_sx t, texpr_of_sx len)
  | L [A k; e] when is_castkind k -> TCast (castkind_of_string k, texpr_of_sx e)
  | L [A o; s; l; r] when is_op o && is_arith_op (op_of_string o) ->
      TBin (op_of_string o, texpr_of_sx l, texpr_of_sx r, bool_of_sx s)
  | L [A o; s; e] when is_op o && is_arith_op (op_of_string o) ->
      TUn (op_of_string o, texpr_of_sx e, bool_of_sx s)
  | L [A o; l; r] when is_op o -> TBin (op_of_string o, texpr_of_sx l, texpr_of_sx r, false)
  | L [A o; e] when is_op o -> TUn (op_of_string o, texpr_of_sx e, false)
  | _ -> failwith ("texpr: " ^ show x)

let rec sx_of_texpr (e : texpr) : sx =
  match e with
  | TInt (d, s, c) -> L [A "IntValue"; A (dec_of_z d); sx_of_bool s; sx_of_bool c]
  | TByte (d, s, c) -> L [A "ByteValue"; A (dec_of_z d); sx_of_bool s; sx_of_bool c]
  | TBool b -> L [A "BoolValue"; sx_of_bool b]
  | TStr s -> L [A "StringValue"; A (hex_of_cl s)]
  | TVar v -> L (A "VariableLookup" :: sx_of_var v)
  | TParam v -> L (A "Parameter" :: sx_of_var v)
  | TArrLit (vs, t, lk) -> L (A "ArrayLiteral" :: sx_of_ty t :: sx_of_bool lk :: List.map sx_of_texpr vs)
  | TIndex (s, i) -> L [A "ArrayLookup"; sx_of_texpr s; sx_of_texpr i]
  | TLen s -> L [A "LengthLookup"; sx_of_texpr s]
  | TCall (f, args, ret) ->
      L (A "FuncCall" :: A (string_of_ident f) :: L (A "sig" :: List.map (fun a -> sx_of_ty (ty_of a)) args)
         :: sx_of_ty ret :: List.map sx_of_texpr args)
  | TCast (k, x) -> L [A (string_of_cl (castkind_name k)); sx_of_texpr x]
  | TVolatile x -> L [A "Volatile"; sx_of_texpr x]
  | TUn (c, x, s) ->
      if is_arith_op c then L [A (string_of_cl (opclass_name c)); sx_of_bool s; sx_of_texpr x]
      else L [A (string_of_cl (opclass_name c)); sx_of_texpr x]
  | TBin (c, l, r, s) ->
      if is_arith_op c then L [A (string_of_cl (opclass_name c)); sx_of_bool s; sx_of_texpr l; sx_of_texpr r]
      else L [A (string_of_cl (opclass_name c)); sx_of_texpr l; sx_of_texpr r]
  | TSpec (l, r) -> L [A "Speculation"; sx_of_texpr l; sx_of_texpr r]
  | TArrInit (t, len) -> L [A "ArrayInitializer"; sx_of_ty t; sx_of_texpr len]

(* ---------- source programs ---------- *)
let rec expr_of_sx (x : sx) : expr =
  match x with
  | L [A "Int"; A n] -> EInt (z_of_dec n)
  | L [A "Char"; A n] -> EChar (z_of_dec n)
  | L [A "Bool"; b] -> EBool (bool_of_sx b)
  | L [A "Str"; A h] -> EStr (cl_of_hex h)
  | L [A "Var"; A n] -> EVar (cl_of_string n)
  | L (A "Arr" :: es) -> EArr (List.map expr_of_sx es)
  | L [A "Index"; s; i] -> EIndex (expr_of_sx s, expr_of_sx i)
  | L [A "Len"; s] -> ELen (expr_of_sx s)
  | L (A "Call" :: A f :: args) -> ECall (ident_of_string f, List.map expr_of_sx args)
  | L [A "Un"; A o; e] -> EUn (op_of_string o, expr_of_sx e)
  | L [A "Bin"; A o; l; r] -> EBin (op_of_string o, expr_of_sx l, expr_of_sx r)
  | L [A "Is"; e; t] -> EIs (expr_of_sx e, ty_of_sx t)
  | L [A "Spec"; l; r] -> ESpec (expr_of_sx l, expr_of_sx r)
  | L [A "ArrInit"; t; len] -> EArrInit (ty_of_sx t, expr_of_sx len)
  | _ -> failwith ("expr: " ^ show x)

let rec stmt_of_sx (x : sx) : stmt =
  match x with
  | L [A "Decl"; A n; t; c; init] -> SDecl (var_of_sx n t c, expr_of_sx init)
  | L [A "Assign"; l; r] -> SAssign (expr_of_sx l, expr_of_sx r)
  | L [A "IncAssign"; A o; l; r] -> SIncAssign (expr_of_sx l, op_of_string o, expr_of_sx r)
  | L [A "Return"] -> SReturn None
  | L [A "Return"; e] -> SReturn (Some (expr_of_sx e))
  | L [A "Break"] -> SBreak
  | L [A "Continue"] -> SContinue
  | L [A "Expr"; e] -> SExpr (expr_of_sx e)
  | L (A "Block" :: ss) -> SBlock (List.map stmt_of_sx ss)
  | L [A "If"; c; b; e] -> SIf (expr_of_sx c, stmt_of_sx b, stmt_of_sx e)
  | L [A "Loop"; b; c; k] -> SLoop (stmt_of_sx b, expr_of_sx c, stmt_of_sx k)
  | L [A "Try"; b; A u; h] -> STry (stmt_of_sx b, (u = "U"), stmt_of_sx h)
  | L [A "Preempt"; b] -> SPreempt (stmt_of_sx b)
  | _ -> failwith ("stmt: " ^ show x)

let func_of_sx = function
  | L (A "Func" :: A ret :: A name :: L (A "params" :: ps) :: body) ->
      { fd_ret = dty_of_string ret; fd_name = ident_of_string name;
        fd_params = List.map (function L [A n; t; c] -> var_of_sx n t c | x -> failwith ("param: " ^ show x)) ps;
        fd_body = List.map stmt_of_sx body }
  | x -> failwith ("func: " ^ show x)

let program_of_sx = function
  | L [A "Program"; u; L (A "vars" :: vs); L (A "funcs" :: fs)] ->
      (bool_of_sx u, { p_vars = List.map stmt_of_sx vs; p_funcs = List.map func_of_sx fs })
  | x -> failwith ("program: " ^ show x)

(* ---------- checked statements ---------- *)
let sx_of_mode (m : emode) =
  L (A "mode" :: List.concat [
    (if m.m_none then [A "NONE"] else []); (if m.m_break then [A "BREAK"] else []);
    (if m.m_loop then [A "LOOP"] else []); (if m.m_defeat then [A "DEFEAT"] else []);
    (if m.m_return then [A "RETURN"] else [])])

let rec sx_of_tstmt (s : tstmt) : sx =
  match s with
  | TSDecl (v, i) -> L (A "Declaration" :: sx_of_var v @ [sx_of_texpr i])
  | TSAssign (l, r) -> L [A "Assignment"; sx_of_texpr l; sx_of_texpr r]
  | TSIncAssign (l, r, c) -> L [A "IncAssignment"; A (string_of_cl (opclass_name c)); sx_of_texpr l; sx_of_texpr r]
  | TSReturn None -> L [A "ReturnStatement"]
  | TSReturn (Some e) -> L [A "ReturnStatement"; sx_of_texpr e]
  | TSBreak -> L [A "BreakStatement"]
  | TSContinue -> L [A "ContinueStatement"]
  | TSExpr e -> sx_of_texpr e
  | TSBlock (ss, m) -> L (A "CodeBlock" :: sx_of_mode m :: List.map sx_of_tstmt ss)
  | TSIf (b, c, e) -> L [A "IfBlock"; sx_of_tstmt b; sx_of_texpr c; sx_of_tstmt e]
  | TSLoop (b, c, k) -> L [A "LoopBlock"; sx_of_tstmt b; sx_of_texpr c; sx_of_tstmt k]
  | TSTry (b, u, h) -> L [A "TryBlock"; sx_of_tstmt b; L [A (if u then "UndoBlock" else "StopBlock"); sx_of_tstmt h]]
  | TSPreempt b -> L [A "PreemptBlock"; sx_of_tstmt b]

let sx_of_tfunc (f : tfdecl) =
  L [A "FuncDeclaration"; sx_of_dty f.tf_ret; A (string_of_ident f.tf_name);
     L (A "params" :: List.map (fun v -> L (A "Parameter" :: sx_of_var v)) f.tf_params);
     sx_of_tstmt f.tf_body]

let sx_of_tprogram (p : tprogram) =
  L [A "Program"; L (A "vars" :: List.map sx_of_tstmt p.tp_vars); L (A "funcs" :: List.map sx_of_tfunc p.tp_funcs)]

let under s = String.map (fun c -> if c = ' ' then '_' else c) s

let sx_of_err (e : err) : sx =
  let k name args = L (A "Error" :: A name :: args) in
  match e with
  | ENotType (a, b) -> k "NotType" [sx_of_ty a; sx_of_ty b]
  | EUndeclared x -> k "Undeclared" [A (string_of_cl x)]
  | EMustBeArrayOrString -> k "MustBeArrayOrString" []
  | EArrayAmbiguous -> k "ArrayAmbiguous" []
  | ENestedArray -> k "NestedArray" []
  | EArrayUnresolvable -> k "ArrayUnresolvable" []
  | EArrayEmptyElement -> k "ArrayEmptyElement" []
  | ENoMatchingFunction (f, ts) -> k "NoMatchingFunction" [A (string_of_ident f); L (A "sig" :: List.map sx_of_ty ts)]
  | EFold m -> k "Fold" [A (under (string_of_cl m))]
  | ESpeculateType t -> k "SpeculateType" [sx_of_ty t]
  | ERedeclaration x -> k "Redeclaration" [A (string_of_cl x)]
  | EConstVolatileDecl x -> k "ConstVolatileDecl" [A (string_of_cl x)]
  | EAssignConst -> k "AssignConst" []
  | EUnexpectedReturn -> k "UnexpectedReturn" []
  | EUnexpectedReturnValue -> k "UnexpectedReturnValue" []
  | EMissingReturnValue -> k "MissingReturnValue" []
  | EMissingReturnStatement -> k "MissingReturnStatement" []
  | EUnreachable -> k "Unreachable" []
  | ERedefinition (f, ts) -> k "Redefinition" [A (string_of_ident f); L (A "sig" :: List.map sx_of_ty ts)]
  | ECrash w -> k "Crash" [A (under (string_of_cl w))]

let sx_of_result f = function OK a -> f a | Err e -> sx_of_err e

let sx_of_fres f = function
  | FVal a -> L [A "val"; f a]
  | FErr m -> L [A "err"; A (under (string_of_cl m))]
  | FCrash -> L [A "crash"]

let sig_of_sx = function
  | L (A f :: A ret :: ts) -> { f_id = ident_of_string f; f_params = List.map ty_of_sx ts; f_ret = dty_of_string ret }
  | x -> failwith ("sig: " ^ show x)
let sx_of_sig (s : fsig) = L (A "sig" :: A (string_of_ident s.f_id) :: sx_of_dty s.f_ret :: List.map sx_of_ty s.f_params)

let run (x : sx) : sx =
  match x with
  | L [A "elab"; p] -> let (u, prog) = program_of_sx p in sx_of_result sx_of_tprogram (elab_program u prog)
  | L [A "wt"; p] -> let (_, prog) = program_of_sx p in sx_of_bool (wt_program prog)
  | L [A "coercible"; e; t] -> sx_of_bool (coercible (texpr_of_sx e) (ty_of_sx t))
  | L [A "cast"; e; t] -> sx_of_result sx_of_texpr (cast (texpr_of_sx e) (ty_of_sx t))
  | L [A "coerce"; e; t] -> sx_of_result sx_of_texpr (coerce (texpr_of_sx e) (ty_of_sx t))
  | L [A "typeof"; e] -> sx_of_ty (ty_of (texpr_of_sx e))
  | L (A "resolve" :: L (A "decls" :: ds) :: A f :: args) ->
      sx_of_result sx_of_sig (resolve (List.map sig_of_sx ds) (ident_of_string f) (List.map texpr_of_sx args))
  | L [A "fold2"; A o; A a; A b] -> sx_of_fres (fun v -> A (dec_of_z v)) (fold_arith2 (op_of_string o) (z_of_dec a) (z_of_dec b))
  | L [A "fold1"; A o; A a] -> sx_of_fres (fun v -> A (dec_of_z v)) (fold_arith1 (op_of_string o) (z_of_dec a))
  | L [A "foldb2"; A o; A a; A b] -> sx_of_fres sx_of_bool (fold_bool2 (op_of_string o) (z_of_dec a) (z_of_dec b))
  | L [A "foldb1"; A o; A a] -> sx_of_fres sx_of_bool (fold_bool1 (op_of_string o) (z_of_dec a))
  | _ -> failwith ("command: " ^ show x)

let () =
  try
    while true do
      let line = input_line stdin in
      if String.trim line <> "" then begin
        (try print_string (show (run (parse_sx line)))
         with Failure m -> print_string ("(DriverError " ^ under m ^ ")")
            | Stack_overflow -> print_string "(DriverError stack_overflow)");
        print_newline ()
      end
    done
  with End_of_file -> ()
