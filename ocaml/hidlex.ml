(* Thin driver around the extracted lexer model (hidlex_core.ml, from coq/HiD/Lexer.v).

   stdin, one record per line (all numbers decimal):
     S <cp>*            code points >= 128 that Python's re classifies as \s   (oracle table)
     W <cp>*            ... as \w
     D <cp>:<val>*      ... as \d, with the digit value int() gives
     T <cp>*            one input text as a list of code points (10 = line feed) -> lex it
   stdout, one line per T record:
     <lexeme>;<lexeme>;...|<outcome>
     lexeme  := E <class>.<member> @l:c0:c1 | I <N|Y|D> <cp>,<cp>,.. @.. | N <bin> @.. |
                C <bin> @.. | S <bin>,<bin>,.. @..
     outcome := DONE l c | ERR <kind> [<bin>] l c | CRASH <kind> | FUEL
   Values that are mathematical integers are printed in binary (Z stays the extracted inductive
   type; no OCaml int arithmetic on them). *)
open Hidlex_core

let rec pos_of_int (n : int) : positive =
  if n = 1 then XH
  else if n land 1 = 0 then XO (pos_of_int (n lsr 1))
  else XI (pos_of_int (n lsr 1))

let z_of_int (n : int) : z =
  if n = 0 then Z0 else if n > 0 then Zpos (pos_of_int n) else Zneg (pos_of_int (-n))

(* code points / positions are small; anything that does not fit returns -1 *)
let int_of_z (v : z) : int =
  let rec go p depth =
    if depth > 40 then raise Exit
    else match p with
      | XH -> 1
      | XO q -> 2 * go q (depth + 1)
      | XI q -> 2 * go q (depth + 1) + 1 in
  match v with
  | Z0 -> 0
  | Zpos p -> (try go p 0 with Exit -> -1)
  | Zneg _ -> -1

let rec bits_of_pos (p : positive) (acc : char list) : char list =
  match p with
  | XH -> '1' :: acc
  | XO q -> bits_of_pos q ('0' :: acc)
  | XI q -> bits_of_pos q ('1' :: acc)

let string_of_chars l = String.of_seq (List.to_seq l)

let bin_of_z (v : z) : Stdlib.String.t =
  match v with
  | Z0 -> "0"
  | Zpos p -> string_of_chars (bits_of_pos p [])
  | Zneg p -> "-" ^ string_of_chars (bits_of_pos p [])

let char_of_ascii (a : ascii) : char =
  match a with
  | Ascii (b0, b1, b2, b3, b4, b5, b6, b7) ->
    let bit b k = if b then 1 lsl k else 0 in
    Char.chr (bit b0 0 + bit b1 1 + bit b2 2 + bit b3 3 + bit b4 4 + bit b5 5 + bit b6 6 + bit b7 7)

let rec ocaml_string (s : Hidlex_core.string) : Stdlib.String.t =
  match s with
  | EmptyString -> ""
  | String (a, r) -> String.make 1 (char_of_ascii a) ^ ocaml_string r

let spaces : (int, unit) Hashtbl.t = Hashtbl.create 64
let words : (int, unit) Hashtbl.t = Hashtbl.create 64
let digits : (int, int) Hashtbl.t = Hashtbl.create 64

let uni_space (c : z) : bool = Hashtbl.mem spaces (int_of_z c)
let uni_word (c : z) : bool = Hashtbl.mem words (int_of_z c)
let uni_digit (c : z) : z option =
  match Hashtbl.find_opt digits (int_of_z c) with
  | Some v -> Some (z_of_int v)
  | None -> None

let fields (line : Stdlib.String.t) : Stdlib.String.t list =
  List.filter (fun s -> s <> "") (String.split_on_char ' ' line)

let span_str (sp : (z * z) * z) : Stdlib.String.t =
  let ((l, c0), c1) = sp in
  Printf.sprintf "@%d:%d:%d" (int_of_z l) (int_of_z c0) (int_of_z c1)

let flavor_str = function FNone -> "N" | FYou -> "Y" | FDefeat -> "D"

let lexeme_str ((t, sp) : token * ((z * z) * z)) : Stdlib.String.t =
  let body = match t with
    | TEnum (c, m) -> "E " ^ ocaml_string c ^ "." ^ ocaml_string m
    | TIdent (f, name) ->
      "I " ^ flavor_str f ^ " " ^ String.concat "," (List.map (fun c -> string_of_int (int_of_z c)) name)
    | TInt v -> "N " ^ bin_of_z v
    | TChar b -> "C " ^ bin_of_z b
    | TString bs -> "S " ^ String.concat "," (List.map bin_of_z bs) in
  body ^ " " ^ span_str sp

let err_str (e : errkind) : Stdlib.String.t =
  match e with
  | EInvalidSyntax -> "InvalidSyntax"
  | EExpectedCharacter -> "ExpectedCharacter"
  | EExpectedQuote -> "ExpectedQuote"
  | EBadByteEscape -> "BadByteEscape"
  | EBadCodepoint cp -> "BadCodepoint " ^ bin_of_z cp
  | EBadUnicodeEscape -> "BadUnicodeEscape"
  | EBadEscape c -> "BadEscape " ^ bin_of_z c
  | ESurrogate cp -> "Surrogate " ^ bin_of_z cp
  | EUnclosedChar -> "UnclosedChar"
  | EUnclosedString -> "UnclosedString"
  | EUnicodeInChar -> "UnicodeInChar"
  | EBadFlavorIdent f -> "BadFlavorIdent " ^ flavor_str f
  | EIntTooLarge -> "IntTooLarge"

(* `crash` has a single constant constructor (CEncodeRaw); extraction erases such a type, so
   OCrash arrives without an argument *)
let crash_str () = "EncodeRaw"

let outcome_str (o : outcome) : Stdlib.String.t =
  match o with
  | ODone (l, c) -> Printf.sprintf "DONE %d %d" (int_of_z l) (int_of_z c)
  | OErr (e, l, c) -> Printf.sprintf "ERR %s %d %d" (err_str e) (int_of_z l) (int_of_z c)
  | OCrash -> "CRASH " ^ crash_str ()
  | OFuel -> "FUEL"

let () =
  (try
     while true do
       let line = input_line stdin in
       if String.length line > 0 then begin
         let rest = String.sub line 1 (String.length line - 1) in
         match line.[0] with
         | 'S' -> List.iter (fun s -> Hashtbl.replace spaces (int_of_string s) ()) (fields rest)
         | 'W' -> List.iter (fun s -> Hashtbl.replace words (int_of_string s) ()) (fields rest)
         | 'D' ->
           List.iter (fun s ->
               match String.split_on_char ':' s with
               | [a; b] -> Hashtbl.replace digits (int_of_string a) (int_of_string b)
               | _ -> failwith ("bad D field " ^ s)) (fields rest)
         | 'T' ->
           let cps = List.map (fun s -> z_of_int (int_of_string s)) (fields rest) in
           let (lexs, o) = lex_text uni_space uni_word uni_digit cps in
           print_string (String.concat ";" (List.map lexeme_str lexs));
           print_string "|";
           print_endline (outcome_str o)
         | _ -> failwith ("bad record " ^ line)
       end
     done
   with End_of_file -> ());
  flush stdout
