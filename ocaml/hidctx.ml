(* Thin driver around the extracted context model (hidctx_core.ml, from coq/HiD/Context.v).
   Reads one abstract program per line from stdin (S-expression, see below), prints one verdict
   per line:  "ok"  or  "err <Kind>".

   program := (prog top* )
   top     := (G expr) | (F fl item* )                 fl := o | y | d
   expr    := L | (C fl expr* ) | (S expr expr) | (N expr* )
   plain   := (PE expr) | (PA expr expr) | (PD expr)
   stmt    := plain | B | K | (R) | (R expr)            B = break, K = continue
   block   := (code item* ) | (if expr block block) | (while expr block)
            | (for oplain oexpr oplain block) | (try block u|s block) | (preempt block)
   item    := stmt | block                              o... := _ | ...                        *)
open Hidctx_core

type sx = A of string | Lst of sx list

let parse_sx (s : string) : sx =
  let n = String.length s in
  let pos = ref 0 in
  let rec skip () = if !pos < n && (s.[!pos] = ' ' || s.[!pos] = '\t') then (incr pos; skip ()) in
  let rec one () =
    skip ();
    if !pos >= n then failwith "unexpected end";
    if s.[!pos] = '(' then begin
      incr pos;
      let rec items acc =
        skip ();
        if !pos >= n then failwith "unclosed (";
        if s.[!pos] = ')' then (incr pos; List.rev acc) else items (one () :: acc) in
      Lst (items [])
    end else if s.[!pos] = ')' then failwith "unexpected )"
    else begin
      let st = !pos in
      while !pos < n && s.[!pos] <> ' ' && s.[!pos] <> '(' && s.[!pos] <> ')' do incr pos done;
      A (String.sub s st (!pos - st))
    end in
  let r = one () in
  skip ();
  if !pos <> n then failwith "trailing input";
  r

let flav = function
  | A "o" -> Ordinary | A "y" -> You | A "d" -> Defeat | _ -> failwith "bad flavour"

let rec expr = function
  | A "L" -> ELeaf
  | Lst (A "C" :: fl :: args) -> ECall (flav fl, List.map expr args)
  | Lst [A "S"; l; r] -> ESpec (expr l, expr r)
  | Lst (A "N" :: subs) -> ENode (List.map expr subs)
  | _ -> failwith "bad expr"

let plain = function
  | Lst [A "PE"; e] -> PExpr (expr e)
  | Lst [A "PA"; t; v] -> PAssign (expr t, expr v)
  | Lst [A "PD"; i] -> PDecl (expr i)
  | _ -> failwith "bad plain"

let oplain = function A "_" -> None | x -> Some (plain x)
let oexpr = function A "_" -> None | x -> Some (expr x)

let rec block = function
  | Lst (A "code" :: items) -> BCode (List.map item items)
  | Lst [A "if"; c; t; e] -> BIf (expr c, block t, block e)
  | Lst [A "while"; c; b] -> BWhile (expr c, block b)
  | Lst [A "for"; i; c; k; b] -> BFor (oplain i, oexpr c, oplain k, block b)
  | Lst [A "try"; b; A "u"; h] -> BTry (block b, Undo, block h)
  | Lst [A "try"; b; A "s"; h] -> BTry (block b, Stop, block h)
  | Lst [A "preempt"; b] -> BPreempt (block b)
  | _ -> failwith "bad block"

and item = function
  | A "B" -> IStmt SBreak
  | A "K" -> IStmt SContinue
  | Lst [A "R"] -> IStmt (SReturn None)
  | Lst [A "R"; e] -> IStmt (SReturn (Some (expr e)))
  | Lst (A ("PE" | "PA" | "PD") :: _) as p -> IStmt (SPlain (plain p))
  | b -> IBlock (block b)

let top = function
  | Lst [A "G"; e] -> TGlobal (expr e)
  | Lst (A "F" :: fl :: items) -> TFunc (flav fl, List.map item items)
  | _ -> failwith "bad top"

let program = function
  | Lst (A "prog" :: tops) -> List.map top tops
  | _ -> failwith "bad program"

let err_name = function
  | ErrIdent -> "Ident" | ErrSyntax -> "Syntax" | ErrSpec -> "Spec" | ErrBreak -> "Break"
  | ErrContinue -> "Continue" | ErrTry -> "Try" | ErrPreempt -> "Preempt"

let () =
  try
    while true do
      let line = input_line stdin in
      if String.trim line <> "" then begin
        let p = program (parse_sx (String.trim line)) in
        let v = check_program p in
        (* [accepts] is the function the theorems are about; it must agree with the verdict *)
        (match v, accepts p with
         | None, true -> print_string "ok\n"
         | Some e, false -> print_string ("err " ^ err_name e ^ "\n")
         | _ -> failwith "accepts and check_program disagree")
      end
    done
  with End_of_file -> ()
