(* Thin driver around the extracted idiom classifier (hidpat_core.ml, from Sphinx/Patterns.v).
   Reads programs from stdin in the line format of hidvm.ml (tools/sasm.py to_driver):

   program :=  "P" <id> newline
               "W" <bin> newline
               "D" <bin> newline             address of the `defeat` word (optional)
               "S" ... / "C" ... / "T" ... / "R" ...   ignored
               "I" ... newline               one per instruction
               "K" newline                   -> classify every j and print
   result  :=  <id> <n_Goto> <n_GotoReg> <n_Branch> <n_BranchBool> <n_BoolNormalise> <n_Guard>
               <n_GuardEntry> <n_GuardVla> <n_Undo> <n_PreemptStatic> <n_PreemptVirtual>
               <n_Speculation> <n_SpeculationNoMov> <n_DefeatVirtual> <n_DefeatVirtualCond>
               <n_StopInstall> <n_ReturnProtection> <n_Call> <sequential_only:0|1> | <unclassified pcs, decimal>
   Numbers in the input are binary strings with optional '-' (Z stays the extracted type). *)
open Hidpat_core

let pos_of_bits (s : string) : positive =
  let n = String.length s in
  let rec go i acc =
    if i >= n then acc
    else go (i + 1) (if s.[i] = '1' then XI acc else XO acc) in
  go 1 XH

let z_of_bin (s : string) : z =
  if s = "0" then Z0
  else if s.[0] = '-' then Zneg (pos_of_bits (String.sub s 1 (String.length s - 1)))
  else Zpos (pos_of_bits s)

let rec int_of_pos = function XH -> 1 | XO p -> 2 * int_of_pos p | XI p -> 2 * int_of_pos p + 1
let int_of_z = function Z0 -> 0 | Zpos p -> int_of_pos p | Zneg p -> - (int_of_pos p)

let operand (s : string) : operand =
  let v = z_of_bin (String.sub s 1 (String.length s - 1)) in
  match s.[0] with
  | 'i' -> Imm v | 's' -> St v | 'c' -> Cn v
  | _ -> failwith ("bad operand " ^ s)

let cond = function
  | "eq" -> Ceq | "ne" -> Cne | "lt" -> Clt | "ltu" -> Cltu | "gt" -> Cgt | "gtu" -> Cgtu
  | "le" -> Cle | "leu" -> Cleu | "ge" -> Cge | "geu" -> Cgeu | s -> failwith ("bad cond " ^ s)
let aop = function
  | "add" -> Aadd | "sub" -> Asub | "mul" -> Amul | "div" -> Adiv | "mod" -> Amod
  | "and" -> Aand | "or" -> Aor | "xor" -> Axor | "asl" -> Aasl | "asr" -> Aasr
  | s -> failwith ("bad aop " ^ s)
let width = function "W" -> WWord | "B" -> WByte | s -> failwith ("bad width " ^ s)
let sect = function "S" -> SState | "C" -> SConst | s -> failwith ("bad sect " ^ s)

let instr (toks : string list) : instr =
  match toks with
  | ["H"] -> IHalt
  | ["HC"; c; a; b] -> IHc (cond c, operand a, operand b)
  | ["J"; a] -> IJ (operand a)
  | ["MOV"; d; v] -> IMov (operand d, operand v)
  | ["AR"; op; d; a; b] -> IArith (aop op, operand d, operand a, operand b)
  | ["LD"; wd; sc; d; a] -> ILoad (width wd, sect sc, operand d, operand a)
  | ["LDO"; wd; sc; d; b; o] -> ILoadO (width wd, sect sc, operand d, operand b, operand o)
  | ["ST"; wd; a; v] -> IStore (width wd, operand a, operand v)
  | ["STO"; wd; b; o; v] -> IStoreO (width wd, operand b, operand o, operand v)
  | ["Y"; a] -> IYield (operand a)
  | ["SL"; a] -> ISleep (operand a)
  | ["F"; f] -> IFlag (z_of_bin f)
  | _ -> failwith ("bad instr " ^ String.concat " " toks)

let tag = function
  | Goto _ -> 0 | GotoReg _ -> 1 | Branch _ -> 2 | BranchBool _ -> 3 | BoolNormalise _ -> 4
  | Guard _ -> 5 | GuardEntry _ -> 6 | GuardVla _ -> 7 | Undo _ -> 8 | PreemptStatic _ -> 9
  | PreemptVirtual _ -> 10 | Speculation _ -> 11 | SpeculationNoMov _ -> 12 | DefeatVirtual -> 13
  | DefeatVirtualCond _ -> 14 | StopInstall _ -> 15 | ReturnProtection _ -> 16 | Call _ -> 17

let () =
  let id = ref "" and w = ref Z0 and dfa = ref None and code = ref [] in
  (try
    while true do
      let line = input_line stdin in
      let toks = List.filter (fun s -> s <> "") (String.split_on_char ' ' line) in
      match toks with
      | [] -> ()
      | "P" :: i :: _ -> id := i; dfa := None; code := []
      | "W" :: [v] -> w := z_of_bin v
      | "D" :: [v] -> dfa := Some (z_of_bin v)
      | "S" :: _ | "C" :: _ | "T" :: _ | "R" :: _ -> ()
      | "I" :: l -> code := instr l :: !code
      | "K" :: _ ->
          let c = { cw = !w; cdefeat = !dfa } in
          let prog = List.rev !code in
          let res = classify_all c prog in
          let counts = Array.make 18 0 in
          let bad = ref [] and seq = ref true in
          List.iter (fun (pc, r) ->
            match r with
            | Some i -> counts.(tag i) <- counts.(tag i) + 1;
                        if not (sequential_idiom i) then seq := false
            | None -> bad := int_of_z pc :: !bad; seq := false) res;
          Printf.printf "%s %s %d | %s\n" !id
            (String.concat " " (Array.to_list (Array.map string_of_int counts)))
            (if !seq then 1 else 0)
            (String.concat " " (List.map string_of_int (List.rev !bad)));
          flush stdout
      | _ -> failwith ("bad line " ^ line)
    done
  with End_of_file -> ())
