(* Thin driver around the extracted model of hidc's exit analysis (coq/HiD/Exit.v).
   stdin : one function per line:   <ue> <is_defeat_func> <ret: e|v> <stmts>
           stmts ::= ( s ... )
           s     ::= plain | opaque | is_defeat | win | broken | calld | break | continue
                   | ret00 | ret10 | ret01 | ret11            (ret<has value><opaque value>)
                   | (code s ...) | (if C B B) | (loop C B K) | (try B undo B) | (try B stop B)
                   | (preempt B)
           C     ::= unknown | true | false | opaque
           K     ::= none | plain | opaque | is_defeat | win | broken | calld
   stdout: one line per function:
           A <len> <mode> [<tag>:<len>:<mode> ...]   accepted: final body, then every block of
                                                     the analysed tree in pre-order
           R <error>                                 rejected
           X                                         an assert of FuncDeclaration.evaluate fails *)
open Hidexit_core

type sx = Atom of string | L of sx list

let tokenize (s : string) : string list =
  let n = String.length s in
  let rec go i acc =
    if i >= n then List.rev acc
    else match s.[i] with
      | ' ' | '\t' | '\r' | '\n' -> go (i + 1) acc
      | '(' -> go (i + 1) ("(" :: acc)
      | ')' -> go (i + 1) (")" :: acc)
      | _ ->
        let j = ref i in
        while !j < n && not (List.mem s.[!j] [' '; '\t'; '('; ')'; '\r'; '\n']) do incr j done;
        go !j (String.sub s i (!j - i) :: acc)
  in go 0 []

let rec parse_sx (toks : string list) : sx * string list =
  match toks with
  | [] -> failwith "unexpected end of input"
  | "(" :: r ->
    let rec items ts acc = match ts with
      | ")" :: r' -> (L (List.rev acc), r')
      | _ -> let (x, r') = parse_sx ts in items r' (x :: acc)
    in items r []
  | ")" :: _ -> failwith "unexpected )"
  | a :: r -> (Atom a, r)

let simple_of = function
  | "plain" -> Plain | "opaque" -> Opaque | "is_defeat" -> IsDefeat | "win" -> AllIsWin
  | "broken" -> AllIsBroken | "calld" -> CallDefeat
  | s -> failwith ("bad simple statement " ^ s)

let cond_of = function
  | Atom "unknown" -> CUnknown | Atom "true" -> CTrue | Atom "false" -> CFalse
  | Atom "opaque" -> COpaque | _ -> failwith "bad condition"

let atom_of (s : string) : atom =
  match s with
  | "break" -> ABreak | "continue" -> AContinue
  | "ret00" -> AReturn (false, false) | "ret10" -> AReturn (true, false)
  | "ret01" -> AReturn (false, true) | "ret11" -> AReturn (true, true)
  | _ -> ASimple (simple_of s)

let rec block_of (x : sx) : block =
  match x with
  | L (Atom "code" :: ss) -> BCode (stmts_of ss)
  | L [Atom "if"; c; t; e] -> BIf (cond_of c, block_of t, block_of e)
  | L [Atom "loop"; c; b; Atom k] ->
    BLoop (cond_of c, block_of b, (if k = "none" then None else Some (simple_of k)))
  | L [Atom "try"; b; Atom "undo"; h] -> BTry (block_of b, Undo, block_of h)
  | L [Atom "try"; b; Atom "stop"; h] -> BTry (block_of b, Stop, block_of h)
  | L [Atom "preempt"; b] -> BPreempt (block_of b)
  | _ -> failwith "bad block"
and stmts_of (l : sx list) : stmts =
  match l with
  | [] -> SNil
  | Atom a :: r -> SAtom (atom_of a, stmts_of r)
  | b :: r -> SBlock (block_of b, stmts_of r)

let rec int_of_nat = function O -> 0 | S n -> 1 + int_of_nat n
let rec int_of_pos = function XH -> 1 | XO p -> 2 * int_of_pos p | XI p -> 2 * int_of_pos p + 1
let int_of_n = function N0 -> 0 | Npos p -> int_of_pos p

let err_name = function
  | ErrUnreachable -> "unreachable" | ErrMissingReturnValue -> "missing_return_value"
  | ErrUnexpectedReturnValue -> "unexpected_return_value" | ErrMissingReturn -> "missing_return"

let bool_of = function "1" -> true | "0" -> false | s -> failwith ("bad flag " ^ s)

let process (line : string) : string =
  match tokenize line with
  | ue :: d :: ret :: rest ->
    let (x, tail) = parse_sx rest in
    if tail <> [] then failwith "junk after function";
    let body = (match x with L ss -> stmts_of ss | _ -> failwith "body is not a list") in
    let ret = (match ret with "e" -> RetEmpty | "v" -> RetValue | _ -> failwith "bad return kind") in
    (match elab_func (bool_of ue) (bool_of d) ret body with
     | Accepted (ss, m) ->
       let items = survey_stmts ss in
       String.concat " "
         (Printf.sprintf "A %d %d" (int_of_nat (stmts_len ss)) (int_of_n (m_value m))
          :: List.map (fun ((tag, len), md) ->
              Printf.sprintf "%d:%d:%d" (int_of_nat tag) (int_of_nat len) (int_of_n (m_value md))) items)
     | Rejected e -> "R " ^ err_name e
     | AssertionFailed -> "X")
  | _ -> failwith "bad line"

let () =
  try
    while true do
      let line = input_line stdin in
      if String.trim line <> "" then
        print_endline (try process line with Failure msg -> "E " ^ msg)
    done
  with End_of_file -> ()
