(* Thin driver around the extracted model of hidc/codegen/tracker.py (coq/Codegen/Tracker.v),
   instantiated with the regenerated choices (Gen/GenTracker.v: add_bisect, update_bisect,
   pop_reversed).
   stdin : one operation sequence per line, tokens separated by blanks:
             A <int>   checkpoints.add(<int>)        U <int>   checkpoints.update(<int>)
             P         push_level()                  Q         pop_level()
   stdout: one line per sequence:
             <ok|IndexError> F <id>:<value> ... M <max_vals ...> L <level>|<level>|...  R <id>:<value> ...
           F: the finalisations in the order they happen (id = position of the add in the sequence)
           M: final max_vals;  L: final levels, oldest level first, each level oldest entry first,
              entries written <idx>.<id>
           R: the finalisations of the reference model (every live checkpoint carries its max)
           `IndexError`: some max_vals.pop(idx) of the sequence is out of range (the values
           printed after it are then meaningless) *)
open Hidtracker_core

let rec nat_of_int n = if n <= 0 then O else S (nat_of_int (n - 1))
let rec int_of_nat = function O -> 0 | S n -> 1 + int_of_nat n
let rec pos_of_int n =
  if n = 1 then XH else if n land 1 = 0 then XO (pos_of_int (n lsr 1)) else XI (pos_of_int (n lsr 1))
let z_of_int n = if n = 0 then Z0 else if n > 0 then Zpos (pos_of_int n) else Zneg (pos_of_int (-n))
let rec int_of_pos = function XH -> 1 | XO p -> 2 * int_of_pos p | XI p -> 2 * int_of_pos p + 1
let int_of_z = function Z0 -> 0 | Zpos p -> int_of_pos p | Zneg p -> - (int_of_pos p)

let rec parse_ops (toks : string list) : op list =
  match toks with
  | [] -> []
  | "A" :: n :: r -> Add (z_of_int (int_of_string n)) :: parse_ops r
  | "U" :: n :: r -> Update (z_of_int (int_of_string n)) :: parse_ops r
  | "P" :: r -> Push :: parse_ops r
  | "Q" :: r -> Pop :: parse_ops r
  | t :: _ -> failwith ("bad token " ^ t)

let fins_str l =
  String.concat " " (List.map (fun (i, v) -> Printf.sprintf "%d:%d" (int_of_nat i) (int_of_z v)) l)

let process (line : string) : string =
  let toks = List.filter (fun s -> s <> "") (String.split_on_char ' ' (String.trim line)) in
  let ops = parse_ops toks in
  let (t, fins) = run gen_choices ops in
  let ok = run_ok gen_choices ops in
  let (_, rfins) = arun ops in
  let mv = String.concat " " (List.map (fun v -> string_of_int (int_of_z v)) (max_vals t)) in
  let lv = String.concat "|"
      (List.rev_map (fun lvl ->
           String.concat " " (List.rev_map (fun (idx, i) ->
               Printf.sprintf "%d.%d" (int_of_nat idx) (int_of_nat i)) lvl))
          (levels t)) in
  Printf.sprintf "%s F %s M %s L %s R %s" (if ok then "ok" else "IndexError") (fins_str fins) mv lv (fins_str rfins)

let () =
  try
    while true do
      let line = input_line stdin in
      print_endline (try process line with Failure msg -> "E " ^ msg)
    done
  with End_of_file -> ()
