(* Thin driver around the extracted verified VM (hidvm_core.ml).
   Reads programs from stdin in a line format produced by tools/sasm.py, runs each, prints one
   result line per program.  Numbers are binary strings with optional '-' (no OCaml int
   arithmetic on machine values: Z stays the extracted inductive type).

   program :=  "P" <id> newline
               "W" <bin> newline
               "S" <bin>* newline            state bytes
               "C" <bin>* newline            const bytes
               "I" ... newline               one per instruction
               "T" <bin>* newline            watched pcs (optional)
               "R" <fuel:decimal int> newline   -> run and print
   result  :=  <id> <HALT|ABSORBED|FAULT|STOP|FUEL> <pc|-> | events | snaps
               events: o<bin> f<bin> s<bin>;  snaps: pc:ap:fp (binary)  *)
open Hidvm_core

let pos_of_bits (s : string) : positive =
  (* s is a binary string, first char '1' *)
  let n = String.length s in
  let rec go i acc =
    if i >= n then acc
    else go (i + 1) (if s.[i] = '1' then XI acc else XO acc) in
  go 1 XH

let z_of_bin (s : string) : z =
  if s = "0" then Z0
  else if s.[0] = '-' then Zneg (pos_of_bits (String.sub s 1 (String.length s - 1)))
  else Zpos (pos_of_bits s)

let rec bits_of_pos (p : positive) (acc : char list) : char list =
  match p with
  | XH -> '1' :: acc
  | XO q -> bits_of_pos q ('0' :: acc)
  | XI q -> bits_of_pos q ('1' :: acc)

let string_of_chars l = String.of_seq (List.to_seq l)

let bin_of_z (v : z) : string =
  match v with
  | Z0 -> "0"
  | Zpos p -> string_of_chars (bits_of_pos p [])
  | Zneg p -> "-" ^ string_of_chars (bits_of_pos p [])

let rec nat_of_int n acc = if n <= 0 then acc else nat_of_int (n - 1) (S acc)

let operand (s : string) : operand =
  let v = z_of_bin (String.sub s 1 (String.length s - 1)) in
  match s.[0] with
  | 'i' -> Imm v | 's' -> St v | 'c' -> Cn v
  | _ -> failwith ("bad operand " ^ s)

let cond = function
  | "eq" -> Ceq | "ne" -> Cne | "lt" -> Clt | "ltu" -> Cltu | "gt" -> Cgt | "gtu" -> Cgtu
  | "le" -> Cle | "leu" -> Cleu | "ge" -> Cge | "geu" -> Cgeu | s -> failwith ("bad cond " ^ s)
let aop = function
  | "add" -> Aadd | "sub" -> Asub | "mul" -> Amul | "div" -> Adiv | "mod" -> Amod
  | "and" -> Aand | "or" -> Aor | "xor" -> Axor | "asl" -> Aasl | "asr" -> Aasr
  | s -> failwith ("bad aop " ^ s)
let width = function "W" -> WWord | "B" -> WByte | s -> failwith ("bad width " ^ s)
let sect = function "S" -> SState | "C" -> SConst | s -> failwith ("bad sect " ^ s)

let instr (toks : string list) : instr =
  match toks with
  | ["H"] -> IHalt
  | ["HC"; c; a; b] -> IHc (cond c, operand a, operand b)
  | ["J"; a] -> IJ (operand a)
  | ["MOV"; d; v] -> IMov (operand d, operand v)
  | ["AR"; op; d; a; b] -> IArith (aop op, operand d, operand a, operand b)
  | ["LD"; wd; sc; d; a] -> ILoad (width wd, sect sc, operand d, operand a)
  | ["LDO"; wd; sc; d; b; o] -> ILoadO (width wd, sect sc, operand d, operand b, operand o)
  | ["ST"; wd; a; v] -> IStore (width wd, operand a, operand v)
  | ["STO"; wd; b; o; v] -> IStoreO (width wd, operand b, operand o, operand v)
  | ["Y"; a] -> IYield (operand a)
  | ["SL"; a] -> ISleep (operand a)
  | ["F"; f] -> IFlag (z_of_bin f)
  | _ -> failwith ("bad instr " ^ String.concat " " toks)

let ev_str = function
  | EOut b -> "o" ^ bin_of_z b
  | EFlag f -> "f" ^ bin_of_z f
  | ESleep d -> "s" ^ bin_of_z d

exception Timeout

let () =
  (* per-program CPU limit: the depth-first search can take exponential time on programs that
     keep re-entering speculation; a timeout is reported like exhausted fuel (no verdict) *)
  let limit = try float_of_string (Sys.getenv "HIDVM_TIMEOUT") with _ -> 20.0 in
  Sys.set_signal Sys.sigvtalrm (Sys.Signal_handle (fun _ -> raise Timeout));
  let id = ref "" and w = ref Z0 and st = ref [] and cn = ref [] and code = ref [] and watch = ref [] and lay = ref None in
  (try
    while true do
      let line = input_line stdin in
      let toks = List.filter (fun s -> s <> "") (String.split_on_char ' ' line) in
      match toks with
      | [] -> ()
      | "P" :: i :: _ -> id := i; st := []; cn := []; code := []; watch := []; lay := None
      | "M" :: [a; b; c] -> lay := Some (z_of_bin a, z_of_bin b, z_of_bin c)
      | "W" :: [v] -> w := z_of_bin v
      | "S" :: l -> st := List.map z_of_bin l
      | "C" :: l -> cn := List.map z_of_bin l
      | "I" :: l -> code := instr l :: !code
      | "T" :: l -> watch := List.map z_of_bin l
      | "R" :: [f] ->
          let fuel = nat_of_int (int_of_string f) O in
          let arm t = ignore (Unix.setitimer Unix.ITIMER_VIRTUAL { Unix.it_interval = 0.0; Unix.it_value = t }) in
          let res = (try arm limit; let r = (let prog = List.rev !code in let m = (match !lay with None -> mon_none | Some (a, b, c) -> mon_entitled !w !cn prog a b c) in run_program !w !st !cn prog !watch m fuel) in arm 0.0; r
                     with Timeout -> arm 0.0; OFuel ([], [])
                        | Stack_overflow -> arm 0.0; OFuel ([], [])) in
          let snap_str (s : state) =
            bin_of_z s.pc ^ ":" ^ bin_of_z (lw !w s.mm Z0) ^ ":" ^ bin_of_z (lw !w s.mm !w) in
          let out kind pcs evs snaps =
            Printf.printf "%s %s %s | %s | %s\n" !id kind pcs
              (String.concat " " (List.map ev_str evs))
              (String.concat " " (List.map snap_str snaps)) in
          (match res with
           | OHalt -> out "HALT" "-" [] []
           | OAbsorbed (evs, s, sn) -> out "ABSORBED" (bin_of_z s.pc) evs sn
           | OFault (evs, s, sn) -> out "FAULT" (bin_of_z s.pc) evs sn
           | OStop (evs, s, sn) -> out "STOP" (bin_of_z s.pc) evs sn
           | OFuel (evs, sn) -> out "FUEL" "-" evs sn);
          flush stdout
      | _ -> failwith ("bad line " ^ line)
    done
  with End_of_file -> ())
