(* Thin driver around the extracted C11 model (exprparser_core.ml).  One request per line:
     P <you:0|1> tok ...   -> model_parse (fuel = #tokens + 1): "OK <sexp> | <rest>" | NONE | ERR | FUEL | UNSUP
     R <prefix tree>       -> model_print: the token list of tokens_min
   tokens: i<bin> (Z, binary, optional '-')  t  f  v<n>  o<OPTOKEN>  y<DTYPE>  ( ) [ ] . ,
   prefix tree: Int <bin> | Bool 0/1 | Var n | Pos/Neg/Not e | Is e <type> 0/1 | <Binop> l r
                | Spec l r | Len e | Idx e i *)
open Exprparser_core

let pos_of_bits s = let n = String.length s in
  let rec go i acc = if i >= n then acc else go (i+1) (if s.[i] = '1' then XI acc else XO acc) in go 1 XH
let z_of_bin s = if s = "0" then Z0 else if s.[0] = '-'
  then Zneg (pos_of_bits (String.sub s 1 (String.length s - 1))) else Zpos (pos_of_bits s)
let rec bits p acc = match p with XH -> "1" ^ acc | XO q -> bits q ("0" ^ acc) | XI q -> bits q ("1" ^ acc)
let bin_of_z = function Z0 -> "0" | Zpos p -> bits p "" | Zneg p -> "-" ^ bits p ""
let rec nat_of_int n = if n <= 0 then O else S (nat_of_int (n - 1))
let rec int_of_nat = function O -> 0 | S n -> 1 + int_of_nat n

let ops = ["ADD",ADD;"SUB",SUB;"MUL",MUL;"DIV",DIV;"MOD",MOD;"EQ",EQ;"NE",NE;"LT",LT;"GT",GT;
  "LE",LE;"GE",GE;"OR",OR;"AND",AND;"NOT",NOT;"IS",IS;"SPECULATION",SPECULATION]
let tys = ["int",DInt;"bool",DBool;"byte",DByte;"string",DString;"empty",DEmpty]
let bins = ["Mul",Mul;"Div",Div;"Mod",Mod;"Add",Add;"Sub",Sub;"Lt",Lt;"Le",Le;"Gt",Gt;"Ge",Ge;
  "Eq",Eq;"Ne",Ne;"And",And;"Or",Or]
let uns = ["Pos",Pos;"Neg",Neg;"Not",Not]
let rassoc v l = fst (List.find (fun (_, x) -> x = v) l)
let tl1 s = String.sub s 1 (String.length s - 1)

let tok_of s = match s.[0] with
  | 'i' -> TInt (z_of_bin (tl1 s)) | 't' -> TBool true | 'f' -> TBool false
  | 'v' -> TId (nat_of_int (int_of_string (tl1 s))) | 'o' -> TOp (List.assoc (tl1 s) ops)
  | 'y' -> TType (List.assoc (tl1 s) tys) | '(' -> TLParen | ')' -> TRParen | '[' -> TLSquare
  | ']' -> TRSquare | '.' -> TDot | ',' -> TComma | _ -> failwith ("bad token " ^ s)
let str_of_tok = function
  | TInt z -> "i" ^ bin_of_z z | TBool true -> "t" | TBool false -> "f"
  | TId n -> "v" ^ string_of_int (int_of_nat n) | TOp o -> "o" ^ rassoc o ops
  | TType t -> "y" ^ rassoc t tys | TLParen -> "(" | TRParen -> ")" | TLSquare -> "["
  | TRSquare -> "]" | TDot -> "." | TComma -> ","
let str_of_toks l = String.concat " " (List.map str_of_tok l)

let rec sexp = function
  | EInt z -> "(Int " ^ bin_of_z z ^ ")" | EBool b -> if b then "(Bool 1)" else "(Bool 0)"
  | EVar n -> "(Var " ^ string_of_int (int_of_nat n) ^ ")"
  | EUn (u, a) -> "(" ^ rassoc u uns ^ " " ^ sexp a ^ ")"
  | EIs (a, t, arr) -> "(Is " ^ sexp a ^ " " ^ rassoc t tys ^ (if arr then " 1)" else " 0)")
  | EBin (b, l, r) -> "(" ^ rassoc b bins ^ " " ^ sexp l ^ " " ^ sexp r ^ ")"
  | ESpec (l, r) -> "(Spec " ^ sexp l ^ " " ^ sexp r ^ ")"
  | ELen a -> "(Len " ^ sexp a ^ ")" | EIdx (a, i) -> "(Idx " ^ sexp a ^ " " ^ sexp i ^ ")"

(* prefix reader: returns (tree, remaining words) *)
let rec rd = function
  | "Int" :: z :: r -> (EInt (z_of_bin z), r) | "Bool" :: b :: r -> (EBool (b = "1"), r)
  | "Var" :: n :: r -> (EVar (nat_of_int (int_of_string n)), r)
  | "Is" :: r -> let (a, r) = rd r in
      (match r with t :: arr :: r -> (EIs (a, List.assoc t tys, arr = "1"), r) | _ -> failwith "Is")
  | "Spec" :: r -> let (l, r) = rd r in let (x, r) = rd r in (ESpec (l, x), r)
  | "Len" :: r -> let (a, r) = rd r in (ELen a, r)
  | "Idx" :: r -> let (a, r) = rd r in let (i, r) = rd r in (EIdx (a, i), r)
  | w :: r when List.mem_assoc w uns -> let (a, r) = rd r in (EUn (List.assoc w uns, a), r)
  | w :: r when List.mem_assoc w bins ->
      let (l, r) = rd r in let (x, r) = rd r in (EBin (List.assoc w bins, l, x), r)
  | _ -> failwith "bad tree"

let () =
  try while true do
    let ws = List.filter (fun s -> s <> "") (String.split_on_char ' ' (input_line stdin)) in
    (match ws with
     | "P" :: you :: ts ->
         let toks = List.map tok_of ts in
         print_endline (match model_parse (nat_of_int (List.length toks + 1)) (you = "1") toks with
           | POk (e, rest) -> "OK " ^ sexp e ^ " | " ^ str_of_toks rest
           | PNone -> "NONE" | PErr -> "ERR" | PFuel -> "FUEL" | PUnsup -> "UNSUP")
     | "R" :: ws -> print_endline (str_of_toks (model_print (fst (rd ws))))
     | _ -> print_endline "BADREQ")
  done with End_of_file -> ()
