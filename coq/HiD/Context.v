(* Component `context` (property C06): flavour and context rules.

   - abstract syntax sufficient for the context rules;
   - [check_program] / [accepts]: executable model of how hidc/parser/grammar.py threads
     [BlockContext] through the parser.  Every context value and every test comes from the
     REGENERATED site functions of Gen/GenContext.v; nothing about flags is written here;
   - [Rules.well_contexted]: the rules of the property text / README table, written with an
     explicit abstract context and no bit-vectors;
   - [context_model_iff_rules], [defeat_only_in_try]. *)
From Coq Require Import NArith List Bool.
From HidV Require Import GenContext.
Import ListNotations.

Set Implicit Arguments.

(* ------------------------------------------------------------------------------------------ *)
(** * Abstract syntax                                                                          *)

Inductive flavour : Set := Ordinary | You | Defeat.

Inductive expr : Set :=
| ELeaf                                            (* literal or variable *)
| ECall (fl : flavour) (args : list expr)          (* f(..)  @f(..)  !f(..) *)
| ESpec (l r : expr)                               (* l ?? r *)
| ENode (subs : list expr).                        (* operator, index, array literal, parentheses *)

Inductive plain : Set :=                           (* ps_plain_stmt *)
| PExpr (e : expr)
| PAssign (target value : expr)                    (* =  +=  -= ... *)
| PDecl (init : expr).                             (* T x = init;   T x[init]; *)

Inductive stmt : Set :=                            (* ps_stmt *)
| SPlain (p : plain)
| SBreak
| SContinue
| SReturn (e : option expr).

Inductive hkind : Set := Undo | Stop.

Inductive block : Set :=                           (* ps_block *)
| BCode (items : list item)
| BIf (cond : expr) (thn els : block)              (* no else = [BCode []] *)
| BWhile (cond : expr) (body : block)
| BFor (init : option plain) (cond : option expr) (cont : option plain) (body : block)
| BTry (body : block) (k : hkind) (handler : block)
| BPreempt (body : block)
with item : Set :=                                 (* entries of a code block *)
| IStmt (s : stmt)
| IBlock (b : block).

Inductive top : Set :=
| TGlobal (init : expr)                            (* global declaration: its initialiser *)
| TFunc (fl : flavour) (body : list item).         (* function declaration: flavour of the name *)

Definition program : Set := list top.

(* ------------------------------------------------------------------------------------------ *)
(** * Induction principles for the nested types                                                *)

Section ExprInd.
  Variable P : expr -> Prop.
  Hypothesis HLeaf : P ELeaf.
  Hypothesis HCall : forall fl args, Forall P args -> P (ECall fl args).
  Hypothesis HSpec : forall l r, P l -> P r -> P (ESpec l r).
  Hypothesis HNode : forall subs, Forall P subs -> P (ENode subs).

  Fixpoint expr_ind' (e : expr) : P e :=
    let all := fix all (l : list expr) : Forall P l :=
      match l with
      | [] => Forall_nil P
      | x :: l' => Forall_cons x (expr_ind' x) (all l')
      end in
    match e with
    | ELeaf => HLeaf
    | ECall fl args => HCall fl (all args)
    | ESpec l r => HSpec (expr_ind' l) (expr_ind' r)
    | ENode subs => HNode (all subs)
    end.
End ExprInd.

Section BlockInd.
  Variable P : block -> Prop.
  Variable Q : item -> Prop.
  Hypothesis HCode : forall items, Forall Q items -> P (BCode items).
  Hypothesis HIf : forall c t e, P t -> P e -> P (BIf c t e).
  Hypothesis HWhile : forall c b, P b -> P (BWhile c b).
  Hypothesis HFor : forall i c k b, P b -> P (BFor i c k b).
  Hypothesis HTry : forall b k h, P b -> P h -> P (BTry b k h).
  Hypothesis HPreempt : forall b, P b -> P (BPreempt b).
  Hypothesis HStmt : forall s, Q (IStmt s).
  Hypothesis HBlock : forall b, P b -> Q (IBlock b).

  Fixpoint block_ind' (b : block) : P b :=
    match b with
    | BCode items =>
        HCode ((fix all (l : list item) : Forall Q l :=
                  match l with
                  | [] => Forall_nil Q
                  | x :: l' => Forall_cons x (item_ind' x) (all l')
                  end) items)
    | BIf c t e => HIf c (block_ind' t) (block_ind' e)
    | BWhile c body => HWhile c (block_ind' body)
    | BFor i c k body => HFor i c k (block_ind' body)
    | BTry body k h => HTry k (block_ind' body) (block_ind' h)
    | BPreempt body => HPreempt (block_ind' body)
    end
  with item_ind' (it : item) : Q it :=
    match it with
    | IStmt s => HStmt s
    | IBlock b => HBlock (block_ind' b)
    end.
End BlockInd.

(* ------------------------------------------------------------------------------------------ *)
(** * The executable model of grammar.py                                                       *)

(* Kinds of ParserError (the first one raised, in parse order). *)
Inductive err : Set :=
| ErrIdent        (* ps_ident: "Improper use of identifier" *)
| ErrSyntax       (* call syntax where ps_func_call is skipped: "Expected ..., got unexpected token: (" *)
| ErrSpec         (* "speculation outside of you" *)
| ErrBreak        (* "break outside of loop" *)
| ErrContinue     (* "continue outside of loop" *)
| ErrTry          (* "try outside of you context" *)
| ErrPreempt.     (* "preempt outside of defeat context" *)

Definition verdict : Set := option err.         (* None: parsed *)

Definition andthen (a b : verdict) : verdict :=
  match a with None => b | Some _ => a end.

Section ChkList.
  Variable A : Type.
  Variable f : A -> verdict.
  Fixpoint chk_list (l : list A) : verdict :=
    match l with
    | [] => None
    | x :: l' => andthen (f x) (chk_list l')
    end.
End ChkList.

Definition chk_opt (A : Type) (f : A -> verdict) (o : option A) : verdict :=
  match o with None => None | Some x => f x end.

(* the token flavour of an identifier *)
Definition gfl (fl : flavour) : flavor :=
  match fl with Ordinary => Flavor_NONE | You => Flavor_YOU | Defeat => Flavor_DEFEAT end.

(* ps_expr, ps_expr8 .. ps_expr0, ps_func_call.
   A call is first offered to ps_func_call (unless skipped), whose ps_ident raises on a flavour
   outside [call_flavors ctx]; when ps_func_call is skipped the name is read by the variable
   alternative (raises on a flavour outside [var_flavors]) and the following "(" is a syntax
   error.  For l ?? r the left operand is first parsed in [spec_first_ctx ctx], then the test,
   then BOTH operands are parsed again in their own contexts. *)
Fixpoint chk_expr (ctx : N) (e : expr) : verdict :=
  match e with
  | ELeaf => None
  | ECall fl args =>
      if call_skip ctx then
        (if allowed var_flavors (gfl fl) then Some ErrSyntax else Some ErrIdent)
      else if allowed (call_flavors ctx) (gfl fl) then
        chk_list (chk_expr (call_arg_ctx ctx)) args
      else Some ErrIdent
  | ESpec l r =>
      andthen (chk_expr (spec_first_ctx ctx) l)
        (if spec_reject ctx then Some ErrSpec
         else andthen (chk_expr (spec_left_ctx ctx) l) (chk_expr (spec_right_ctx ctx) r))
  | ENode subs => chk_list (chk_expr ctx) subs
  end.

(* ps_plain_stmt / ps_assignment / ps_vdecl forward ctx unchanged (checked by the translator) *)
Definition chk_plain (ctx : N) (p : plain) : verdict :=
  match p with
  | PExpr e => chk_expr ctx e
  | PAssign t v => andthen (chk_expr ctx t) (chk_expr ctx v)
  | PDecl i => chk_expr ctx i
  end.

(* ps_stmt *)
Definition chk_stmt (ctx : N) (s : stmt) : verdict :=
  match s with
  | SBreak => if break_reject ctx then Some ErrBreak else None
  | SContinue => if continue_reject ctx then Some ErrContinue else None
  | SReturn e => chk_opt (chk_expr (return_ctx ctx)) e
  | SPlain p => chk_plain (plain_ctx ctx) p
  end.

(* ps_block / ps_code_block *)
Fixpoint chk_block (ctx : N) (b : block) : verdict :=
  match b with
  | BCode items => chk_list (chk_item (code_ctx ctx)) items
  | BIf c t e =>
      andthen (chk_expr (if_cond_ctx ctx) c)
        (andthen (chk_block (if_then_ctx ctx) t) (chk_block (if_else_ctx ctx) e))
  | BWhile c body =>
      andthen (chk_expr (while_cond_ctx ctx) c) (chk_block (while_body_ctx ctx) body)
  | BFor i c k body =>
      andthen (chk_opt (chk_plain (for_init_ctx ctx)) i)
        (andthen (chk_opt (chk_expr (for_cond_ctx ctx)) c)
           (andthen (chk_opt (chk_plain (for_cont_ctx ctx)) k)
              (chk_block (for_body_ctx ctx) body)))
  | BTry body _ h =>
      if try_reject ctx then Some ErrTry
      else andthen (chk_block (try_body_ctx ctx) body) (chk_block (handler_ctx ctx) h)
  | BPreempt body =>
      if preempt_reject ctx then Some ErrPreempt
      else chk_block (preempt_body_ctx ctx) body
  end
with chk_item (ctx : N) (it : item) : verdict :=
  match it with
  | IStmt s => chk_stmt ctx s
  | IBlock b => chk_block ctx b
  end.

(* ps_func / ps_program *)
Definition chk_top (t : top) : verdict :=
  match t with
  | TGlobal init => chk_expr global_ctx init
  | TFunc fl body => chk_list (chk_item (func_body_ctx (func_ctx (gfl fl)))) body
  end.

Definition check_program (p : program) : verdict := chk_list chk_top p.

Definition accepts (p : program) : bool :=
  match check_program p with None => true | Some _ => false end.

(* unfolding equations (the nested fixpoints do not reduce nicely under cbn) *)
Lemma chk_expr_call ctx fl args :
  chk_expr ctx (ECall fl args) =
    if call_skip ctx then
      (if allowed var_flavors (gfl fl) then Some ErrSyntax else Some ErrIdent)
    else if allowed (call_flavors ctx) (gfl fl) then
      chk_list (chk_expr (call_arg_ctx ctx)) args
    else Some ErrIdent.
Proof. reflexivity. Qed.

Lemma chk_expr_spec ctx l r :
  chk_expr ctx (ESpec l r) =
    andthen (chk_expr (spec_first_ctx ctx) l)
      (if spec_reject ctx then Some ErrSpec
       else andthen (chk_expr (spec_left_ctx ctx) l) (chk_expr (spec_right_ctx ctx) r)).
Proof. reflexivity. Qed.

Lemma chk_expr_node ctx subs : chk_expr ctx (ENode subs) = chk_list (chk_expr ctx) subs.
Proof. reflexivity. Qed.

Lemma chk_block_code ctx items :
  chk_block ctx (BCode items) = chk_list (chk_item (code_ctx ctx)) items.
Proof. reflexivity. Qed.

(* ------------------------------------------------------------------------------------------ *)
(** * The rules (specification)                                                                *)

Module Rules.

  (* Where a piece of program text stands. *)
  Inductive kind : Set :=
  | KGlobal          (* initialiser of a global declaration *)
  | KOrdinary        (* ordinary function *)
  | KYou             (* you-function, outside every try body (handlers included) *)
  | KDefeatFn        (* defeat function *)
  | KTryBody         (* body of a try block *)
  | KSpecOperand.    (* operand of ?? *)

  Record actx : Set := { kind_of : kind; in_loop : bool }.

  Definition defeat_context (k : kind) : Prop := k = KDefeatFn \/ k = KTryBody.

  (* README, "Summary of what's allowed in different blocks": which functions may be called *)
  Definition may_call (k : kind) (fl : flavour) : Prop :=
    match fl with
    | Ordinary => k <> KGlobal                (* anywhere but in a global initialiser *)
    | You => k = KYou                         (* only directly from you, not in try, not in ?? *)
    | Defeat => defeat_context k              (* only in try bodies and defeat functions *)
    end.

  Definition operand (c : actx) : actx := {| kind_of := KSpecOperand; in_loop := in_loop c |}.
  Definition loop_body (c : actx) : actx := {| kind_of := kind_of c; in_loop := true |}.
  Definition try_body (c : actx) : actx := {| kind_of := KTryBody; in_loop := in_loop c |}.

  Definition opt (A : Type) (P : A -> Prop) (o : option A) : Prop :=
    match o with None => True | Some x => P x end.

  Inductive wc_expr : actx -> expr -> Prop :=
  | WLeaf c : wc_expr c ELeaf
  | WNode c subs : Forall (wc_expr c) subs -> wc_expr c (ENode subs)
  | WCall c fl args :
      may_call (kind_of c) fl -> Forall (wc_expr c) args -> wc_expr c (ECall fl args)
  | WSpec c l r :
      (* only by you, outside try bodies and outside operands of another ?? ... *)
      kind_of c = KYou ->
      (* ... and both operands are ordinary expressions *)
      wc_expr (operand c) l -> wc_expr (operand c) r -> wc_expr c (ESpec l r).

  Inductive wc_plain : actx -> plain -> Prop :=
  | WPExpr c e : wc_expr c e -> wc_plain c (PExpr e)
  | WPAssign c t v : wc_expr c t -> wc_expr c v -> wc_plain c (PAssign t v)
  | WPDecl c i : wc_expr c i -> wc_plain c (PDecl i).

  Inductive wc_stmt : actx -> stmt -> Prop :=
  | WSPlain c p : wc_plain c p -> wc_stmt c (SPlain p)
  | WSBreak c : in_loop c = true -> wc_stmt c SBreak
  | WSContinue c : in_loop c = true -> wc_stmt c SContinue
  | WSReturn c e : opt (wc_expr c) e -> wc_stmt c (SReturn e).

  Inductive wc_block : actx -> block -> Prop :=
  | WCode c items : Forall (wc_item c) items -> wc_block c (BCode items)
  | WIf c cond t e : wc_expr c cond -> wc_block c t -> wc_block c e -> wc_block c (BIf cond t e)
  | WWhile c cond body :
      wc_expr c cond -> wc_block (loop_body c) body -> wc_block c (BWhile cond body)
  | WFor c i cond k body :
      opt (wc_plain c) i -> opt (wc_expr c) cond -> opt (wc_plain c) k ->
      wc_block (loop_body c) body -> wc_block c (BFor i cond k body)
  | WTry c body k h :
      kind_of c = KYou ->                       (* only in you, never inside a try body *)
      wc_block (try_body c) body ->             (* the body is a defeat context; loops stay loops *)
      wc_block c h ->                           (* the handler stands where the try stands *)
      wc_block c (BTry body k h)
  | WPreempt c body :
      defeat_context (kind_of c) -> wc_block c body -> wc_block c (BPreempt body)
  with wc_item : actx -> item -> Prop :=
  | WIStmt c s : wc_stmt c s -> wc_item c (IStmt s)
  | WIBlock c b : wc_block c b -> wc_item c (IBlock b).

  Definition function_ctx (fl : flavour) : actx :=
    {| kind_of := match fl with Ordinary => KOrdinary | You => KYou | Defeat => KDefeatFn end;
       in_loop := false |}.
  Definition global_actx : actx := {| kind_of := KGlobal; in_loop := false |}.

  Inductive wc_top : top -> Prop :=
  | WGlobal init : wc_expr global_actx init -> wc_top (TGlobal init)
  | WFunc fl body : Forall (wc_item (function_ctx fl)) body -> wc_top (TFunc fl body).

  Inductive well_contexted : program -> Prop :=
  | WProgram p : Forall wc_top p -> well_contexted p.

End Rules.
Import Rules.

(* ------------------------------------------------------------------------------------------ *)
(** * The bit-vector of an abstract context, and what every site does to it                    *)

Definition kind_bits (k : kind) : N :=
  match k with
  | KGlobal => BC_NONE
  | KOrdinary => BC_FUNC
  | KYou => BC_YOU
  | KDefeatFn => BC_DEFEAT
  | KTryBody => BC_TRY
  | KSpecOperand => BC_FUNC
  end.

Definition bits (c : actx) : N :=
  N.lor (kind_bits (kind_of c)) (if in_loop c then BC_LOOP else 0%N).

Definition may_callb (k : kind) (fl : flavour) : bool :=
  match fl, k with
  | Ordinary, KGlobal => false
  | Ordinary, _ => true
  | You, KYou => true
  | Defeat, KDefeatFn => true
  | Defeat, KTryBody => true
  | _, _ => false
  end.

Definition is_global (k : kind) : bool := match k with KGlobal => true | _ => false end.
Definition is_you (k : kind) : bool := match k with KYou => true | _ => false end.
Definition is_defeat_context (k : kind) : bool :=
  match k with KDefeatFn | KTryBody => true | _ => false end.

Ltac by_cases c := destruct c as [[] []]; reflexivity.

(* All of these are re-proved against the regenerated definitions on every build. *)
Lemma site_call_skip c : call_skip (bits c) = is_global (kind_of c).
Proof. by_cases c. Qed.
Lemma site_call_allowed c fl :
  is_global (kind_of c) = false ->
  allowed (call_flavors (bits c)) (gfl fl) = may_callb (kind_of c) fl.
Proof. destruct c as [[] []], fl; intros H; try discriminate H; reflexivity. Qed.
Lemma site_call_arg c : call_arg_ctx (bits c) = bits c.
Proof. by_cases c. Qed.
Lemma site_spec_first c : spec_first_ctx (bits c) = bits c.
Proof. by_cases c. Qed.
Lemma site_spec_reject c : spec_reject (bits c) = negb (is_you (kind_of c)).
Proof. by_cases c. Qed.
Lemma site_spec_left c : kind_of c = KYou -> spec_left_ctx (bits c) = bits (operand c).
Proof. destruct c as [[] []]; intros H; try discriminate H; reflexivity. Qed.
Lemma site_spec_right c : kind_of c = KYou -> spec_right_ctx (bits c) = bits (operand c).
Proof. destruct c as [[] []]; intros H; try discriminate H; reflexivity. Qed.
Lemma site_break c : break_reject (bits c) = negb (in_loop c).
Proof. by_cases c. Qed.
Lemma site_continue c : continue_reject (bits c) = negb (in_loop c).
Proof. by_cases c. Qed.
Lemma site_return c : return_ctx (bits c) = bits c.
Proof. by_cases c. Qed.
Lemma site_plain c : plain_ctx (bits c) = bits c.
Proof. by_cases c. Qed.
Lemma site_code c : code_ctx (bits c) = bits c.
Proof. by_cases c. Qed.
Lemma site_if_cond c : if_cond_ctx (bits c) = bits c.
Proof. by_cases c. Qed.
Lemma site_if_then c : if_then_ctx (bits c) = bits c.
Proof. by_cases c. Qed.
Lemma site_if_else c : if_else_ctx (bits c) = bits c.
Proof. by_cases c. Qed.
Lemma site_while_cond c : while_cond_ctx (bits c) = bits c.
Proof. by_cases c. Qed.
Lemma site_while_body c : while_body_ctx (bits c) = bits (loop_body c).
Proof. by_cases c. Qed.
Lemma site_for_init c : for_init_ctx (bits c) = bits c.
Proof. by_cases c. Qed.
Lemma site_for_cond c : for_cond_ctx (bits c) = bits c.
Proof. by_cases c. Qed.
Lemma site_for_cont c : for_cont_ctx (bits c) = bits c.
Proof. by_cases c. Qed.
Lemma site_for_body c : for_body_ctx (bits c) = bits (loop_body c).
Proof. by_cases c. Qed.
Lemma site_try_reject c : try_reject (bits c) = negb (is_you (kind_of c)).
Proof. by_cases c. Qed.
Lemma site_try_body c : kind_of c = KYou -> try_body_ctx (bits c) = bits (try_body c).
Proof. destruct c as [[] []]; intros H; try discriminate H; reflexivity. Qed.
Lemma site_handler c : handler_ctx (bits c) = bits c.
Proof. by_cases c. Qed.
Lemma site_preempt_reject c : preempt_reject (bits c) = negb (is_defeat_context (kind_of c)).
Proof. by_cases c. Qed.
Lemma site_preempt_body c : preempt_body_ctx (bits c) = bits c.
Proof. by_cases c. Qed.
Lemma site_func fl : func_body_ctx (func_ctx (gfl fl)) = bits (function_ctx fl).
Proof. destruct fl; reflexivity. Qed.
Lemma site_global : global_ctx = bits global_actx.
Proof. reflexivity. Qed.
Lemma site_var_flavors fl :
  allowed var_flavors (gfl fl) = match fl with Ordinary => true | _ => false end.
Proof. destruct fl; reflexivity. Qed.

(* No context the parser can construct trips BlockContext._missing_ (ValueError). *)
Lemma bits_valid c : invalid_ctx (bits c) = false.
Proof. by_cases c. Qed.

(* reflection of the small tables *)
Lemma may_callb_iff k fl : may_callb k fl = true <-> may_call k fl.
Proof.
  unfold may_call, defeat_context.
  destruct fl, k; simpl; split; intros H;
    try reflexivity; try discriminate H; try congruence; auto;
    try (destruct H as [H | H]; discriminate H).
Qed.
Lemma is_you_iff k : is_you k = true <-> k = KYou.
Proof. destruct k; simpl; split; intros H; try reflexivity; try discriminate H. Qed.
Lemma is_defeat_context_iff k : is_defeat_context k = true <-> defeat_context k.
Proof.
  unfold defeat_context.
  destruct k; simpl; split; intros H; try reflexivity; try discriminate H; auto;
    destruct H as [H | H]; discriminate H.
Qed.

(* ------------------------------------------------------------------------------------------ *)
(** * Model <-> rules                                                                          *)

Lemma andthen_none a b : andthen a b = None <-> a = None /\ b = None.
Proof.
  destruct a; simpl; split.
  - intros H; discriminate H.
  - intros [H _]; discriminate H.
  - auto.
  - intros [_ H]; exact H.
Qed.

Lemma chk_list_none (A : Type) (f : A -> verdict) (l : list A) :
  chk_list f l = None <-> Forall (fun x => f x = None) l.
Proof.
  induction l as [| x l IH]; simpl.
  - split; auto.
  - rewrite andthen_none, IH. split.
    + intros [H1 H2]. constructor; assumption.
    + intros H. inversion H; subst. split; assumption.
Qed.

Lemma Forall_iff (A : Type) (P Q : A -> Prop) (l : list A) :
  Forall (fun x => P x <-> Q x) l -> (Forall P l <-> Forall Q l).
Proof.
  induction 1 as [| x l Hx _ IH].
  - split; constructor.
  - split; intros H; inversion H; subst; constructor; try tauto.
Qed.

Lemma chk_opt_none (A : Type) (f : A -> verdict) (P : A -> Prop) (o : option A) :
  (forall x, f x = None <-> P x) -> (chk_opt f o = None <-> opt P o).
Proof. intros H. destruct o; simpl; [apply H | tauto]. Qed.

(* An ordinary expression (operand of ??) may stand anywhere a you-expression may. *)
Lemma wc_operand_weaken : forall e c,
  kind_of c = KYou -> wc_expr (operand c) e -> wc_expr c e.
Proof.
  induction e as [| fl args IH | l r IHl IHr | subs IH] using expr_ind'; intros c Hc H.
  - constructor.
  - inversion H as [| | c' fl' args' Hcall Hargs |]; subst. constructor.
    + destruct fl; simpl in *.
      * rewrite Hc. discriminate.
      * discriminate Hcall.
      * destruct Hcall as [Hk | Hk]; discriminate Hk.
    + rewrite Forall_forall in *. intros x Hx. apply (IH x Hx c Hc). apply Hargs, Hx.
  - inversion H as [| | | c' l' r' Hk _ _]; subst. simpl in Hk. discriminate Hk.
  - inversion H as [| c' subs' Hsubs | |]; subst. constructor.
    rewrite Forall_forall in *. intros x Hx. apply (IH x Hx c Hc). apply Hsubs, Hx.
Qed.

Lemma chk_expr_iff : forall e c, chk_expr (bits c) e = None <-> wc_expr c e.
Proof.
  induction e as [| fl args IH | l r IHl IHr | subs IH] using expr_ind'; intros c.
  - simpl. split; [constructor | reflexivity].
  - rewrite chk_expr_call, site_call_skip, site_var_flavors, site_call_arg.
    destruct (is_global (kind_of c)) eqn:Hg.
    + split.
      * destruct fl; intros H; discriminate H.
      * intros H. inversion H as [| | c' fl' args' Hcall _ |]; subst. exfalso.
        apply may_callb_iff in Hcall.
        destruct (kind_of c); try discriminate Hg. destruct fl; discriminate Hcall.
    + rewrite (site_call_allowed c fl Hg).
      assert (Hargs : chk_list (chk_expr (bits c)) args = None <-> Forall (wc_expr c) args).
      { rewrite chk_list_none. apply Forall_iff.
        rewrite Forall_forall in *. intros x Hx. apply (IH x Hx). }
      split.
      * destruct (may_callb (kind_of c) fl) eqn:Hm; [| intros H; discriminate H].
        intros H. constructor; [apply may_callb_iff, Hm | apply Hargs, H].
      * intros H. inversion H as [| | c' fl' args' Hcall Ha |]; subst.
        apply may_callb_iff in Hcall. rewrite Hcall. apply Hargs, Ha.
  - rewrite chk_expr_spec, site_spec_first, site_spec_reject. split.
    + intros H. apply andthen_none in H. destruct H as [_ H].
      destruct (is_you (kind_of c)) eqn:Hy; simpl in H; [| discriminate H].
      apply is_you_iff in Hy. rewrite (site_spec_left c Hy), (site_spec_right c Hy) in H.
      apply andthen_none in H. destruct H as [Hl Hr].
      constructor; [exact Hy | apply IHl, Hl | apply IHr, Hr].
    + intros H. inversion H as [| | | c' l' r' Hy Hl Hr]; subst.
      apply andthen_none. split.
      * apply IHl. apply wc_operand_weaken; assumption.
      * rewrite (proj2 (is_you_iff _) Hy). simpl.
        rewrite (site_spec_left c Hy), (site_spec_right c Hy).
        apply andthen_none. split; [apply IHl, Hl | apply IHr, Hr].
  - rewrite chk_expr_node, chk_list_none.
    assert (Hs : Forall (fun x => chk_expr (bits c) x = None) subs <-> Forall (wc_expr c) subs).
    { apply Forall_iff. rewrite Forall_forall in *. intros x Hx. apply (IH x Hx). }
    split.
    + intros H. constructor. apply Hs, H.
    + intros H. inversion H as [| c' subs' Hsubs | |]; subst. apply Hs, Hsubs.
Qed.

Lemma chk_plain_iff : forall p c, chk_plain (bits c) p = None <-> wc_plain c p.
Proof.
  intros [e | t v | i] c; simpl.
  - rewrite chk_expr_iff. split; intros H; [constructor; exact H | inversion H; assumption].
  - rewrite andthen_none, !chk_expr_iff. split.
    + intros [H1 H2]. constructor; assumption.
    + intros H. inversion H; subst. split; assumption.
  - rewrite chk_expr_iff. split; intros H; [constructor; exact H | inversion H; assumption].
Qed.

Lemma chk_stmt_iff : forall s c, chk_stmt (bits c) s = None <-> wc_stmt c s.
Proof.
  intros [p | | | e] c; simpl.
  - rewrite site_plain, chk_plain_iff.
    split; intros H; [constructor; exact H | inversion H; assumption].
  - rewrite site_break. split.
    + destruct (in_loop c) eqn:Hl; simpl; intros H; [constructor; exact Hl | discriminate H].
    + intros H. inversion H as [| c' Hl | |]; subst. rewrite Hl. reflexivity.
  - rewrite site_continue. split.
    + destruct (in_loop c) eqn:Hl; simpl; intros H; [constructor; exact Hl | discriminate H].
    + intros H. inversion H as [| | c' Hl |]; subst. rewrite Hl. reflexivity.
  - rewrite site_return.
    rewrite (chk_opt_none (chk_expr (bits c)) (wc_expr c) e (fun x => chk_expr_iff x c)).
    split; intros H; [constructor; exact H | inversion H; assumption].
Qed.

Lemma chk_block_item_iff :
  (forall b c, chk_block (bits c) b = None <-> wc_block c b).
Proof.
  apply (@block_ind'
           (fun b => forall c, chk_block (bits c) b = None <-> wc_block c b)
           (fun it => forall c, chk_item (bits c) it = None <-> wc_item c it)).
  - (* code *)
    intros items IH c. rewrite chk_block_code, site_code, chk_list_none.
    assert (Hs : Forall (fun x => chk_item (bits c) x = None) items <-> Forall (wc_item c) items).
    { apply Forall_iff. rewrite Forall_forall in *. intros x Hx. apply (IH x Hx). }
    split.
    + intros H. constructor. apply Hs, H.
    + intros H. inversion H; subst. apply Hs. assumption.
  - (* if *)
    intros cond t e IHt IHe c. simpl.
    rewrite site_if_cond, site_if_then, site_if_else, !andthen_none, chk_expr_iff, IHt, IHe.
    split.
    + intros [H1 [H2 H3]]. constructor; assumption.
    + intros H. inversion H; subst. tauto.
  - (* while *)
    intros cond body IHb c. simpl.
    rewrite site_while_cond, site_while_body, andthen_none, chk_expr_iff, IHb.
    split.
    + intros [H1 H2]. constructor; assumption.
    + intros H. inversion H; subst. tauto.
  - (* for *)
    intros i cond k body IHb c. simpl.
    rewrite site_for_init, site_for_cond, site_for_cont, site_for_body, !andthen_none, IHb.
    rewrite (chk_opt_none (chk_plain (bits c)) (wc_plain c) i (fun x => chk_plain_iff x c)).
    rewrite (chk_opt_none (chk_plain (bits c)) (wc_plain c) k (fun x => chk_plain_iff x c)).
    rewrite (chk_opt_none (chk_expr (bits c)) (wc_expr c) cond (fun x => chk_expr_iff x c)).
    split.
    + intros [H1 [H2 [H3 H4]]]. constructor; assumption.
    + intros H. inversion H; subst. tauto.
  - (* try *)
    intros body k h IHb IHh c. simpl. rewrite site_try_reject, site_handler. split.
    + destruct (is_you (kind_of c)) eqn:Hy; simpl; intros H; [| discriminate H].
      apply is_you_iff in Hy. rewrite (site_try_body c Hy) in H.
      apply andthen_none in H. destruct H as [H1 H2].
      constructor; [exact Hy | apply IHb, H1 | apply IHh, H2].
    + intros H. inversion H as [| | | | c' b' k' h' Hy Hb Hh |]; subst.
      rewrite (proj2 (is_you_iff _) Hy). simpl. rewrite (site_try_body c Hy).
      apply andthen_none. split; [apply IHb, Hb | apply IHh, Hh].
  - (* preempt *)
    intros body IHb c. simpl. rewrite site_preempt_reject, site_preempt_body. split.
    + destruct (is_defeat_context (kind_of c)) eqn:Hd; simpl; intros H; [| discriminate H].
      constructor; [apply is_defeat_context_iff, Hd | apply IHb, H].
    + intros H. inversion H as [| | | | | c' b' Hd Hb]; subst.
      rewrite (proj2 (is_defeat_context_iff _) Hd). simpl. apply IHb, Hb.
  - (* statement item *)
    intros s c. simpl. rewrite chk_stmt_iff.
    split; intros H; [constructor; exact H | inversion H; assumption].
  - (* block item *)
    intros b IHb c. simpl. rewrite IHb.
    split; intros H; [constructor; exact H | inversion H; assumption].
Qed.

Lemma chk_item_iff : forall it c, chk_item (bits c) it = None <-> wc_item c it.
Proof.
  intros [s | b] c; simpl.
  - rewrite chk_stmt_iff. split; intros H; [constructor; exact H | inversion H; assumption].
  - rewrite chk_block_item_iff. split; intros H; [constructor; exact H | inversion H; assumption].
Qed.

Lemma chk_top_iff : forall t, chk_top t = None <-> wc_top t.
Proof.
  intros [init | fl body]; simpl.
  - rewrite site_global, chk_expr_iff.
    split; intros H; [constructor; exact H | inversion H; assumption].
  - rewrite site_func, chk_list_none.
    assert (Hs : Forall (fun x => chk_item (bits (function_ctx fl)) x = None) body
                 <-> Forall (wc_item (function_ctx fl)) body).
    { apply Forall_iff. rewrite Forall_forall. intros x _. apply chk_item_iff. }
    split.
    + intros H. constructor. apply Hs, H.
    + intros H. inversion H; subst. apply Hs. assumption.
Qed.

Theorem context_model_iff_rules : forall p : program,
  accepts p = true <-> well_contexted p.
Proof.
  intros p. unfold accepts, check_program.
  assert (Hs : chk_list chk_top p = None <-> Forall wc_top p).
  { rewrite chk_list_none. apply Forall_iff. rewrite Forall_forall. intros x _. apply chk_top_iff. }
  split.
  - destruct (chk_list chk_top p) eqn:E; intros H; [discriminate H |].
    constructor. apply Hs. reflexivity.
  - intros H. inversion H; subst. rewrite (proj2 Hs); [reflexivity | assumption].
Qed.

(* ------------------------------------------------------------------------------------------ *)
(** * Lexical positions; defeat is only used under a try body or in a defeat function          *)

Inductive frame : Set :=
| FGlobal (i : nat)                    (* initialiser of the i-th top-level declaration *)
| FFunc (i : nat) (fl : flavour)       (* body of the i-th top-level declaration, a function *)
| FItem (i : nat)                      (* i-th entry of a code block *)
| FIfCond | FThen | FElse
| FWhileCond | FWhileBody
| FForInit | FForCond | FForCont | FForBody
| FTryBody | FHandler (k : hkind)
| FPreemptBody
| FStmtExpr | FAssignTarget | FAssignValue | FDeclInit | FReturnValue
| FArg (i : nat) | FSpecLeft | FSpecRight | FSub (i : nat).

Inductive node : Set :=
| NE (e : expr)
| NS (s : stmt)
| NB (b : block).

(* [child n f n']: n' is the immediate constituent of n at position f *)
Inductive child : node -> frame -> node -> Prop :=
| c_arg fl args i a : nth_error args i = Some a -> child (NE (ECall fl args)) (FArg i) (NE a)
| c_spec_l l r : child (NE (ESpec l r)) FSpecLeft (NE l)
| c_spec_r l r : child (NE (ESpec l r)) FSpecRight (NE r)
| c_sub subs i a : nth_error subs i = Some a -> child (NE (ENode subs)) (FSub i) (NE a)
| c_stmt_expr e : child (NS (SPlain (PExpr e))) FStmtExpr (NE e)
| c_assign_t t v : child (NS (SPlain (PAssign t v))) FAssignTarget (NE t)
| c_assign_v t v : child (NS (SPlain (PAssign t v))) FAssignValue (NE v)
| c_decl i : child (NS (SPlain (PDecl i))) FDeclInit (NE i)
| c_return e : child (NS (SReturn (Some e))) FReturnValue (NE e)
| c_item_s items i s : nth_error items i = Some (IStmt s) -> child (NB (BCode items)) (FItem i) (NS s)
| c_item_b items i b : nth_error items i = Some (IBlock b) -> child (NB (BCode items)) (FItem i) (NB b)
| c_if_c c t e : child (NB (BIf c t e)) FIfCond (NE c)
| c_if_t c t e : child (NB (BIf c t e)) FThen (NB t)
| c_if_e c t e : child (NB (BIf c t e)) FElse (NB e)
| c_while_c c b : child (NB (BWhile c b)) FWhileCond (NE c)
| c_while_b c b : child (NB (BWhile c b)) FWhileBody (NB b)
| c_for_i p c k b : child (NB (BFor (Some p) c k b)) FForInit (NS (SPlain p))
| c_for_c i e k b : child (NB (BFor i (Some e) k b)) FForCond (NE e)
| c_for_k i c p b : child (NB (BFor i c (Some p) b)) FForCont (NS (SPlain p))
| c_for_b i c k b : child (NB (BFor i c k b)) FForBody (NB b)
| c_try_b b k h : child (NB (BTry b k h)) FTryBody (NB b)
| c_try_h b k h : child (NB (BTry b k h)) (FHandler k) (NB h)
| c_preempt b : child (NB (BPreempt b)) FPreemptBody (NB b).

Inductive descends : node -> list frame -> node -> Prop :=
| d_here n : descends n [] n
| d_down n f n' path n'' : child n f n' -> descends n' path n'' -> descends n (f :: path) n''.

(* [occurs p path n]: n occurs in program p at the lexical position path (outermost first) *)
Inductive occurs : program -> list frame -> node -> Prop :=
| o_global p i init path n :
    nth_error p i = Some (TGlobal init) -> descends (NE init) path n ->
    occurs p (FGlobal i :: path) n
| o_func p i fl body path n :
    nth_error p i = Some (TFunc fl body) -> descends (NB (BCode body)) path n ->
    occurs p (FFunc i fl :: path) n.

(* a use of defeat: a call of a defeat function, or a preempt block *)
Inductive uses_defeat : node -> Prop :=
| u_call args : uses_defeat (NE (ECall Defeat args))
| u_preempt body : uses_defeat (NB (BPreempt body)).

(* the position lies lexically inside a try body or inside (the body of) a defeat function *)
Definition inside_try_or_defeat_function (path : list frame) : Prop :=
  In FTryBody path \/ exists i, In (FFunc i Defeat) path.

Definition wc_node (c : actx) (n : node) : Prop :=
  match n with
  | NE e => wc_expr c e
  | NS s => wc_stmt c s
  | NB b => wc_block c b
  end.

Lemma Forall_nth (A : Type) (P : A -> Prop) (l : list A) i x :
  Forall P l -> nth_error l i = Some x -> P x.
Proof. intros H E. rewrite Forall_forall in H. apply H. eapply nth_error_In, E. Qed.

Lemma child_wc n f n' c :
  child n f n' -> wc_node c n ->
  exists c', wc_node c' n' /\
             (defeat_context (kind_of c') -> defeat_context (kind_of c) \/ f = FTryBody).
Proof.
  intros Hc H. destruct Hc; simpl in H.
  - inversion H; subst. exists c. simpl. split; [eapply Forall_nth; eassumption | auto].
  - inversion H; subst. exists (operand c). split; [assumption |].
    intros [D | D]; discriminate D.
  - inversion H; subst. exists (operand c). split; [assumption |].
    intros [D | D]; discriminate D.
  - inversion H; subst. exists c. simpl. split; [eapply Forall_nth; eassumption | auto].
  - inversion H as [c' p' Hp | | |]; subst. inversion Hp; subst. exists c. simpl. auto.
  - inversion H as [c' p' Hp | | |]; subst. inversion Hp; subst. exists c. simpl. auto.
  - inversion H as [c' p' Hp | | |]; subst. inversion Hp; subst. exists c. simpl. auto.
  - inversion H as [c' p' Hp | | |]; subst. inversion Hp; subst. exists c. simpl. auto.
  - inversion H as [| | | c' e' Ho]; subst. exists c. simpl. auto.
  - inversion H as [c' its Hi | | | | |]; subst.
    assert (Hx : wc_item c (IStmt s)) by (eapply Forall_nth; eassumption).
    inversion Hx; subst. exists c. simpl. auto.
  - inversion H as [c' its Hi | | | | |]; subst.
    assert (Hx : wc_item c (IBlock b)) by (eapply Forall_nth; eassumption).
    inversion Hx; subst. exists c. simpl. auto.
  - inversion H; subst. exists c. simpl. auto.
  - inversion H; subst. exists c. simpl. auto.
  - inversion H; subst. exists c. simpl. auto.
  - inversion H; subst. exists c. simpl. auto.
  - inversion H; subst. exists (loop_body c). simpl. auto.
  - inversion H as [| | | c' i' cd' k' b' Hi Hcd Hk Hb | |]; subst.
    exists c. simpl. split; [constructor; exact Hi | auto].
  - inversion H as [| | | c' i' cd' k' b' Hi Hcd Hk Hb | |]; subst. exists c. simpl. auto.
  - inversion H as [| | | c' i' cd' k' b' Hi Hcd Hk Hb | |]; subst.
    exists c. simpl. split; [constructor; exact Hk | auto].
  - inversion H; subst. exists (loop_body c). simpl. auto.
  - inversion H; subst. exists (try_body c). simpl. auto.
  - inversion H; subst. exists c. simpl. auto.
  - inversion H; subst. exists c. simpl. auto.
Qed.

Lemma descends_wc n path n' :
  descends n path n' -> forall c, wc_node c n ->
  exists c', wc_node c' n' /\
             (defeat_context (kind_of c') -> defeat_context (kind_of c) \/ In FTryBody path).
Proof.
  induction 1 as [n | n f n1 path n2 Hch _ IH]; intros c H.
  - exists c. auto.
  - destruct (@child_wc _ _ _ c Hch H) as [c1 [H1 D1]].
    destruct (IH c1 H1) as [c2 [H2 D2]].
    exists c2. split; [exact H2 |]. intros D.
    destruct (D2 D) as [D' | D'].
    + destruct (D1 D') as [D'' | D'']; [left; exact D'' | right; left; exact D''].
    + right. right. exact D'.
Qed.

Lemma uses_defeat_wc c n : uses_defeat n -> wc_node c n -> defeat_context (kind_of c).
Proof.
  intros U H. destruct U; simpl in H; inversion H; subst; assumption.
Qed.

Theorem defeat_only_in_try : forall p : program,
  accepts p = true ->
  forall path n, occurs p path n -> uses_defeat n -> inside_try_or_defeat_function path.
Proof.
  intros p Hacc path n Hocc U.
  apply context_model_iff_rules in Hacc. inversion Hacc as [p' Htops]; subst.
  unfold inside_try_or_defeat_function.
  destruct Hocc as [p i init path n Hnth Hd | p i fl body path n Hnth Hd].
  - assert (Ht : wc_top (TGlobal init)) by (eapply Forall_nth; eassumption).
    inversion Ht; subst.
    destruct (descends_wc Hd global_actx) as [c' [H' D]]; [assumption |].
    destruct (D (@uses_defeat_wc _ _ U H')) as [[D' | D'] | D'].
    + discriminate D'.
    + discriminate D'.
    + left. right. exact D'.
  - assert (Ht : wc_top (TFunc fl body)) by (eapply Forall_nth; eassumption).
    inversion Ht; subst.
    destruct (descends_wc Hd (function_ctx fl)) as [c' [H' D]]; [constructor; assumption |].
    destruct (D (@uses_defeat_wc _ _ U H')) as [D' | D'].
    + right. exists i. left. destruct fl; destruct D' as [D' | D']; simpl in D'; try discriminate D'; reflexivity.
    + left. right. exact D'.
Qed.

(* ------------------------------------------------------------------------------------------ *)
(** * Examples                                                                                 *)

Definition call0 (fl : flavour) : expr := ECall fl [].
Definition estmt (e : expr) : item := IStmt (SPlain (PExpr e)).

(* int g = 1;
   int f() { return 1; }
   empty !d() { preempt { !d(); } f(); }
   empty @is_you() {
     while (c) {
       try { !d(); f(); preempt { break; } while (c) { continue; } }
       undo { @is_you(); x = f() ?? g(f()); try { } stop { continue; } }
     }
   } *)
Definition ex_accepted : program :=
  [ TGlobal ELeaf;
    TFunc Ordinary [IStmt (SReturn (Some ELeaf))];
    TFunc Defeat [IBlock (BPreempt (BCode [estmt (call0 Defeat)])); estmt (call0 Ordinary)];
    TFunc You
      [IBlock (BWhile ELeaf (BCode
         [IBlock (BTry
            (BCode [estmt (call0 Defeat); estmt (call0 Ordinary);
                    IBlock (BPreempt (BCode [IStmt SBreak]));
                    IBlock (BWhile ELeaf (BCode [IStmt SContinue]))])
            Undo
            (BCode [estmt (call0 You);
                    IStmt (SPlain (PAssign ELeaf
                      (ESpec (call0 Ordinary) (ECall Ordinary [call0 Ordinary]))));
                    IBlock (BTry (BCode []) Stop (BCode [IStmt SContinue]))]))]))] ].

Example ex_accepted_ok : accepts ex_accepted = true.
Proof. reflexivity. Qed.
Example ex_accepted_rules : well_contexted ex_accepted.
Proof. apply context_model_iff_rules. reflexivity. Qed.

(* rejected programs, one per rule, with the error hidc reports *)
Definition in_fn (fl : flavour) (its : list item) : program := [TFunc fl its].
Definition tryb (body handler : list item) : item := IBlock (BTry (BCode body) Undo (BCode handler)).

Example ex_global_call : check_program [TGlobal (call0 Ordinary)] = Some ErrSyntax.
Proof. reflexivity. Qed.
Example ex_global_you_call : check_program [TGlobal (call0 You)] = Some ErrIdent.
Proof. reflexivity. Qed.
Example ex_global_spec : check_program [TGlobal (ESpec ELeaf ELeaf)] = Some ErrSpec.
Proof. reflexivity. Qed.
Example ex_defeat_in_you : check_program (in_fn You [estmt (call0 Defeat)]) = Some ErrIdent.
Proof. reflexivity. Qed.
Example ex_defeat_in_handler :
  check_program (in_fn You [tryb [] [estmt (call0 Defeat)]]) = Some ErrIdent.
Proof. reflexivity. Qed.
Example ex_you_in_try : check_program (in_fn You [tryb [estmt (call0 You)] []]) = Some ErrIdent.
Proof. reflexivity. Qed.
Example ex_nested_try : check_program (in_fn You [tryb [tryb [] []] []]) = Some ErrTry.
Proof. reflexivity. Qed.
Example ex_try_in_ordinary : check_program (in_fn Ordinary [tryb [] []]) = Some ErrTry.
Proof. reflexivity. Qed.
Example ex_try_in_defeat : check_program (in_fn Defeat [tryb [] []]) = Some ErrTry.
Proof. reflexivity. Qed.
Example ex_spec_in_try :
  check_program (in_fn You [tryb [estmt (ESpec ELeaf ELeaf)] []]) = Some ErrSpec.
Proof. reflexivity. Qed.
Example ex_spec_in_spec :
  check_program (in_fn You [estmt (ESpec (ENode [ESpec ELeaf ELeaf]) ELeaf)]) = Some ErrSpec.
Proof. reflexivity. Qed.
Example ex_you_in_spec_right :
  check_program (in_fn You [estmt (ESpec ELeaf (ECall Ordinary [call0 You]))]) = Some ErrIdent.
Proof. reflexivity. Qed.
Example ex_defeat_in_spec_in_ordinary :    (* the right operand is never parsed in ctx *)
  check_program (in_fn Ordinary [estmt (ESpec ELeaf (call0 Defeat))]) = Some ErrSpec.
Proof. reflexivity. Qed.
Example ex_preempt_in_you : check_program (in_fn You [IBlock (BPreempt (BCode []))]) = Some ErrPreempt.
Proof. reflexivity. Qed.
Example ex_preempt_in_handler :
  check_program (in_fn You [tryb [] [IBlock (BPreempt (BCode []))]]) = Some ErrPreempt.
Proof. reflexivity. Qed.
Example ex_break_outside : check_program (in_fn Ordinary [IStmt SBreak]) = Some ErrBreak.
Proof. reflexivity. Qed.
Example ex_break_after_loop :
  check_program (in_fn You [tryb [IBlock (BWhile ELeaf (BCode [])); IStmt SContinue] []])
  = Some ErrContinue.
Proof. reflexivity. Qed.
Example ex_break_in_for_header_is_not_in_loop :   (* for-header positions are outside the loop *)
  check_program (in_fn You
    [IBlock (BFor None (Some (ESpec ELeaf ELeaf)) None (BCode [tryb [IStmt SBreak] []]))]) = None.
Proof. reflexivity. Qed.
Example ex_rejected_rules : ~ well_contexted (in_fn You [tryb [tryb [] []] []]).
Proof. intros H. apply context_model_iff_rules in H. discriminate H. Qed.

(* the corollary is not vacuous: an accepted program with a defeat call and a preempt, and the
   positions at which they occur *)
Example ex_positions :
  occurs ex_accepted [FFunc 3 You; FItem 0; FWhileBody; FItem 0; FTryBody; FItem 0; FStmtExpr]
         (NE (call0 Defeat))
  /\ occurs ex_accepted [FFunc 2 Defeat; FItem 0] (NB (BPreempt (BCode [estmt (call0 Defeat)]))).
Proof.
  split.
  - eapply o_func; [reflexivity |].
    eapply d_down; [apply c_item_b; reflexivity |].
    eapply d_down; [apply c_while_b |].
    eapply d_down; [apply c_item_b; reflexivity |].
    eapply d_down; [apply c_try_b |].
    eapply d_down; [apply c_item_s; reflexivity |].
    eapply d_down; [apply c_stmt_expr |].
    apply d_here.
  - eapply o_func; [reflexivity |].
    eapply d_down; [apply c_item_b; reflexivity |].
    apply d_here.
Qed.
