(* C16 -- control never runs off the end of a function.

   Hand model of hidc's exit analysis (hidc/ast/blocks.py: CodeBlock.evaluate with the
   `found_continue` quirk and statement dropping, exit_modes of every block class;
   hidc/ast/program.py: FuncDeclaration.evaluate) built ONLY from the regenerated definitions
   in Gen/GenExit.v, an independent nondeterministic big-step semantics of function bodies,
   and the proofs relating the two.

   Abstraction.  Expressions are opaque.  A statement is one of
     plain          an expression statement / assignment / declaration without control effect
     opaque         the same, but its expression may not complete: it contains a nested call of
                    a defeat function (`x = !f();`) or may fault or calls a function that may
                    reach a terminal state.  hidc does not look inside expressions, so it treats
                    it exactly like `plain`.
     is_defeat      `!is_defeat();`
     all_is_win / all_is_broken
     call_defeat    a call statement `!f(...);` of a user defeat function: defeats or returns
     return         with/without a value; flag h: the value expression is opaque as above
     break, continue
   and blocks: code block, if/else, loop (while and desugared for; the `cont` of a for loop is
   at most one simple statement -- the grammar only admits a plain statement there), try with an
   undo or stop handler, preempt.  Conditions are abstracted to what hidc's constant folding
   leaves behind: a BoolValue true, a BoolValue false, or something else (`unknown`; `opaque`
   when the condition may itself defeat or fault).

   Outcome classes (what was chosen, and why):
     Normal |-> NONE, Break |-> BREAK, Return |-> RETURN, Defeat |-> DEFEAT, Terminal |-> LOOP,
     Continue |-> nothing.  hidc does not record `continue` in the mode at all (the generator's
     own comment says so); mapping Continue to NONE is refuted below
     (continue_as_NONE_refuted: `{ { continue; } return; }` has mode RETURN).  Continue is sound
     to ignore because a loop absorbs it and nothing else can observe it
     (no_escape: it cannot leave a loop-closed block, i.e. a function body the parser accepts). *)
From Coq Require Import Bool List NArith Lia.
From HidV Require Import GenExit.
Import ListNotations.

(* ------------------------------------------------------------------ syntax *)
Inductive cond := CUnknown | CTrue | CFalse | COpaque.
Inductive simple := Plain | Opaque | IsDefeat | AllIsWin | AllIsBroken | CallDefeat.
Inductive atom :=
| ASimple (s : simple)
| AReturn (v h : bool)      (* v: has a value; h: the value expression is opaque *)
| ABreak
| AContinue.
Inductive handler := Undo | Stop.

Inductive block :=
| BCode (ss : stmts)
| BIf (c : cond) (t e : block)
| BLoop (c : cond) (body : block) (cont : option simple)
| BTry (body : block) (k : handler) (h : block)
| BPreempt (body : block)
with stmts :=
| SNil
| SAtom (a : atom) (r : stmts)
| SBlock (b : block) (r : stmts).

Scheme block_mut := Induction for block Sort Prop
  with stmts_mut := Induction for stmts Sort Prop.
Combined Scheme block_stmts_mutind from block_mut, stmts_mut.

(* ------------------------------------------------------------------ the model of the analysis *)
(* which `case` patterns of CodeBlock.evaluate a statement matches *)
Definition matches (a : atom) (p : pat) : bool :=
  match a, p with
  | AReturn _ _, P_Return => true
  | ABreak, P_Break => true
  | AContinue, P_Continue => true
  | ASimple IsDefeat, P_is_defeat => true
  | ASimple IsDefeat, P_any_defeat_call => true
  | ASimple AllIsWin, P_all_is_win => true
  | ASimple AllIsBroken, P_all_is_broken => true
  | ASimple CallDefeat, P_any_defeat_call => true
  | _, _ => false
  end.
Definition matches_block (p : pat) : bool := match p with P_Block => true | _ => false end.

(* first matching arm, in source order; no arm: nothing changes *)
Fixpoint first_arm (test : pat -> bool) (arms : list (pat * (modes -> modes -> modes) * bool))
  : (modes -> modes -> modes) * bool :=
  match arms with
  | [] => ((fun mode _ => mode), false)
  | (p, f, c) :: r => if test p then (f, c) else first_arm test r
  end.

Definition atom_update (a : atom) (mode : modes) : modes :=
  fst (first_arm (matches a) evaluate_arms) mode NONE.
Definition atom_continue (a : atom) : bool := snd (first_arm (matches a) evaluate_arms).
Definition block_update (mode stmt_modes : modes) : modes :=
  fst (first_arm matches_block evaluate_arms) mode stmt_modes.
Definition block_continue : bool := snd (first_arm matches_block evaluate_arms).

Definition cond_is_true (c : cond) : bool := match c with CTrue => true | _ => false end.
Definition handler_modes (k : handler) (m : modes) : modes :=
  match k with Undo => undo_exit_modes m | Stop => stop_exit_modes m end.

(* CodeBlock.evaluate + exit_modes: the truncated block and its mode *)
Fixpoint analyse (b : block) : block * modes :=
  match b with
  | BCode ss =>
      let (ss', m) := analyse_stmts ss initial_mode initial_found_continue in (BCode ss', m)
  | BIf c t e =>
      let (t', mt) := analyse t in let (e', me) := analyse e in
      (BIf c t' e', if_exit_modes mt me)
  | BLoop c body cont =>
      let (body', mb) := analyse body in
      (BLoop c body' cont, loop_exit_modes mb (cond_is_true c))
  | BTry body k h =>
      let (body', mb) := analyse body in let (h', mh) := analyse h in
      (BTry body' k h', try_exit_modes mb (handler_modes k mh))
  | BPreempt body =>
      let (body', mb) := analyse body in (BPreempt body', preempt_exit_modes mb)
  end
with analyse_stmts (ss : stmts) (mode : modes) (fc : bool) : stmts * modes :=
  match ss with
  | SNil => (SNil, mode)
  | SAtom a r =>
      if loop_exit_guard mode fc then (SNil, mode) else
      let (r', m') := analyse_stmts r (atom_update a mode) (atom_continue a || fc) in
      (SAtom a r', m')
  | SBlock b r =>
      if loop_exit_guard mode fc then (SNil, mode) else
      let (b', mb) := analyse b in
      let (r', m') := analyse_stmts r (block_update mode mb) (block_continue || fc) in
      (SBlock b' r', m')
  end.

Definition trunc (b : block) : block := fst (analyse b).
Definition modes_of (b : block) : modes := snd (analyse b).
Definition trunc_stmts ss m fc : stmts := fst (analyse_stmts ss m fc).
Definition modes_stmts ss m fc : modes := snd (analyse_stmts ss m fc).

(* the `cont` of a loop is evaluated as a CodeBlock of its own; its mode is never used *)
Definition cont_block (k : option simple) : block :=
  match k with None => BCode SNil | Some s => BCode (SAtom (ASimple s) SNil) end.

(* ---- diagnostics raised while a body is evaluated, in evaluation order ---- *)
Inductive ret_kind := RetEmpty | RetValue.
Definition ret_is_empty (r : ret_kind) : bool := match r with RetEmpty => true | RetValue => false end.

Inductive error :=
| ErrUnreachable            (* 'Unreachable statement' (only with option unreachable_error) *)
| ErrMissingReturnValue     (* `return;` in a function returning a value *)
| ErrUnexpectedReturnValue  (* `return e;` in a function returning empty *)
| ErrMissingReturn.         (* 'Missing return statement' *)

Definition atom_diag (ret : ret_kind) (a : atom) : list error :=
  match a, ret with
  | AReturn true _, RetEmpty => [ErrUnexpectedReturnValue]
  | AReturn false _, RetValue => [ErrMissingReturnValue]
  | _, _ => []
  end.

Fixpoint diags (ue : bool) (ret : ret_kind) (b : block) : list error :=
  match b with
  | BCode ss => diags_stmts ue ret ss initial_mode initial_found_continue
  | BIf _ t e => diags ue ret t ++ diags ue ret e
  | BLoop _ body _ => diags ue ret body
  | BTry body _ h => diags ue ret body ++ diags ue ret h
  | BPreempt body => diags ue ret body
  end
with diags_stmts (ue : bool) (ret : ret_kind) (ss : stmts) (mode : modes) (fc : bool) : list error :=
  match ss with
  | SNil => []
  | SAtom a r =>
      if loop_exit_guard mode fc then (if ue then [ErrUnreachable] else []) else
      atom_diag ret a ++ diags_stmts ue ret r (atom_update a mode) (atom_continue a || fc)
  | SBlock b r =>
      if loop_exit_guard mode fc then (if ue then [ErrUnreachable] else []) else
      diags ue ret b ++ diags_stmts ue ret r (block_update mode (snd (analyse b))) (block_continue || fc)
  end.

Fixpoint app_stmts (a b : stmts) : stmts :=
  match a with
  | SNil => b
  | SAtom x r => SAtom x (app_stmts r b)
  | SBlock x r => SBlock x (app_stmts r b)
  end.

(* FuncDeclaration.evaluate *)
Inductive verdict :=
| Accepted (body : stmts) (m : modes)
| Rejected (e : error)
| AssertionFailed.

Definition elab_func (ue is_defeat_func : bool) (ret : ret_kind) (body : stmts) : verdict :=
  match diags ue ret (BCode body) with
  | e :: _ => Rejected e
  | [] =>
      let (ss, m) := analyse_stmts body initial_mode initial_found_continue in
      let re := ret_is_empty ret in
      if negb (func_assert_1 m re is_defeat_func) then AssertionFailed else
      if negb (func_assert_2 m re is_defeat_func) then AssertionFailed else
      if func_needs_fixup m re is_defeat_func then
        if func_missing_return m re is_defeat_func then Rejected ErrMissingReturn
        else Accepted (app_stmts ss (SAtom (AReturn false false) SNil)) (func_fixup_modes m)
      else Accepted ss m
  end.

(* ---- pre-order listing of every block of an (already analysed) tree with its mode; used by the
        correspondence check.  tag: 0 code (with its statement count), 1 if, 2 loop, 3 try,
        4 undo, 5 stop, 6 preempt ---- *)
Fixpoint stmts_len (ss : stmts) : nat :=
  match ss with SNil => 0 | SAtom _ r => S (stmts_len r) | SBlock _ r => S (stmts_len r) end.

Fixpoint survey (b : block) : list (nat * nat * modes) :=
  match b with
  | BCode ss => (0, stmts_len ss, snd (analyse b)) :: survey_stmts ss
  | BIf _ t e => (1, 0, snd (analyse b)) :: survey t ++ survey e
  | BLoop _ body k =>
      (2, 0, snd (analyse b)) :: survey body
        ++ [(0, stmts_len (match cont_block k with BCode ss => ss | _ => SNil end), snd (analyse (cont_block k)))]
  | BTry body k h =>
      (3, 0, snd (analyse b)) :: survey body
        ++ (match k with Undo => 4 | Stop => 5 end, 0, handler_modes k (snd (analyse h))) :: survey h
  | BPreempt body => (6, 0, snd (analyse b)) :: survey body
  end
with survey_stmts (ss : stmts) : list (nat * nat * modes) :=
  match ss with
  | SNil => []
  | SAtom _ r => survey_stmts r
  | SBlock b r => survey b ++ survey_stmts r
  end.

(* ------------------------------------------------------------------ semantics *)
Inductive outcome := Normal | Break | Continue | Return (v : bool) | Defeat | Terminal.

Inductive exec_simple : simple -> outcome -> Prop :=
| XS_plain : exec_simple Plain Normal
| XS_opaque_ok : exec_simple Opaque Normal
| XS_opaque_defeat : exec_simple Opaque Defeat
| XS_opaque_fault : exec_simple Opaque Terminal
| XS_is_defeat : exec_simple IsDefeat Defeat
| XS_win : exec_simple AllIsWin Terminal
| XS_broken : exec_simple AllIsBroken Terminal
| XS_call_returns : exec_simple CallDefeat Normal
| XS_call_defeats : exec_simple CallDefeat Defeat.

Inductive exec_atom : atom -> outcome -> Prop :=
| XA_simple s o : exec_simple s o -> exec_atom (ASimple s) o
| XA_return v h : exec_atom (AReturn v h) (Return v)
| XA_return_defeat v : exec_atom (AReturn v true) Defeat
| XA_return_fault v : exec_atom (AReturn v true) Terminal
| XA_break : exec_atom ABreak Break
| XA_continue : exec_atom AContinue Continue.

(* a condition may evaluate to this boolean *)
Definition cond_may (c : cond) (v : bool) : Prop :=
  match c with CUnknown | COpaque => True | CTrue => v = true | CFalse => v = false end.
(* evaluating the condition itself may end the execution *)
Definition cond_abort (c : cond) (o : outcome) : Prop :=
  c = COpaque /\ (o = Defeat \/ o = Terminal).

Definition exec_cont (k : option simple) (o : outcome) : Prop :=
  match k with None => o = Normal | Some s => exec_simple s o end.

Definition goes_on (o : outcome) : Prop := o = Normal \/ o = Continue.
Definition abrupt (o : outcome) : Prop := (exists v, o = Return v) \/ o = Defeat \/ o = Terminal.

(* terminating executions only (inductive big-step): a diverging run has no outcome *)
Inductive exec : block -> outcome -> Prop :=
| X_code ss o : exec_stmts ss o -> exec (BCode ss) o
| X_if_abort c t e o : cond_abort c o -> exec (BIf c t e) o
| X_if_true c t e o : cond_may c true -> exec t o -> exec (BIf c t e) o
| X_if_false c t e o : cond_may c false -> exec e o -> exec (BIf c t e) o
| X_loop_exit c body k : cond_may c false -> exec (BLoop c body k) Normal
| X_loop_abort c body k o : cond_abort c o -> exec (BLoop c body k) o
| X_loop_break c body k : cond_may c true -> exec body Break -> exec (BLoop c body k) Normal
| X_loop_abrupt c body k o :
    cond_may c true -> exec body o -> abrupt o -> exec (BLoop c body k) o
| X_loop_cont_abrupt c body k o1 o :
    cond_may c true -> exec body o1 -> goes_on o1 -> exec_cont k o -> o <> Normal ->
    exec (BLoop c body k) o
| X_loop_next c body k o1 o :
    cond_may c true -> exec body o1 -> goes_on o1 -> exec_cont k Normal ->
    exec (BLoop c body k) o -> exec (BLoop c body k) o
| X_try_pass body k h o : exec body o -> o <> Defeat -> exec (BTry body k h) o
| X_try_handle body k h o : exec body Defeat -> exec h o -> exec (BTry body k h) o
| X_preempt_skip body : exec (BPreempt body) Normal
| X_preempt_run body o : exec body o -> exec (BPreempt body) o
with exec_stmts : stmts -> outcome -> Prop :=
| X_nil : exec_stmts SNil Normal
| X_atom_stop a r o : exec_atom a o -> o <> Normal -> exec_stmts (SAtom a r) o
| X_atom_next a r o : exec_atom a Normal -> exec_stmts r o -> exec_stmts (SAtom a r) o
| X_block_stop b r o : exec b o -> o <> Normal -> exec_stmts (SBlock b r) o
| X_block_next b r o : exec b Normal -> exec_stmts r o -> exec_stmts (SBlock b r) o.

Definition class_of (o : outcome) : option flag :=
  match o with
  | Normal => Some F_NONE
  | Break => Some F_BREAK
  | Continue => None
  | Return _ => Some F_RETURN
  | Defeat => Some F_DEFEAT
  | Terminal => Some F_LOOP
  end.

(* m accounts for o *)
Definition covers (m : modes) (o : outcome) : Prop :=
  match class_of o with Some f => has f m = true | None => True end.

(* outcomes hidc always tracks; Defeat and Terminal are tracked only where they are visible *)
Definition core (o : outcome) : Prop :=
  match o with Defeat | Terminal => False | _ => True end.

Definition quiet (k : option simple) : bool :=
  match k with None | Some Plain => true | _ => false end.
Definition visible_atom (a : atom) : bool :=
  match a with ASimple Opaque => false | AReturn _ true => false | _ => true end.
Definition visible_cond (c : cond) : bool := match c with COpaque => false | _ => true end.

(* no defeat / terminal source is hidden from the analysis: no opaque statement, return value or
   condition, and the `cont` of every loop is absent or plain *)
Fixpoint visible (b : block) : bool :=
  match b with
  | BCode ss => visible_stmts ss
  | BIf c t e => visible_cond c && visible t && visible e
  | BLoop c body k => visible_cond c && visible body && quiet k
  | BTry body _ h => visible body && visible h
  | BPreempt body => visible body
  end
with visible_stmts (ss : stmts) : bool :=
  match ss with
  | SNil => true
  | SAtom a r => visible_atom a && visible_stmts r
  | SBlock b r => visible b && visible_stmts r
  end.

(* break / continue only inside loops (what the parser enforces) *)
Fixpoint closed_in (inl : bool) (b : block) : bool :=
  match b with
  | BCode ss => closed_stmts inl ss
  | BIf _ t e => closed_in inl t && closed_in inl e
  | BLoop _ body _ => closed_in true body
  | BTry body _ h => closed_in inl body && closed_in inl h
  | BPreempt body => closed_in inl body
  end
with closed_stmts (inl : bool) (ss : stmts) : bool :=
  match ss with
  | SNil => true
  | SAtom a r => (match a with ABreak | AContinue => inl | _ => true end) && closed_stmts inl r
  | SBlock b r => closed_in inl b && closed_stmts inl r
  end.

(* ------------------------------------------------------------------ flag algebra *)
Lemma has_or f a b : has f (m_or a b) = has f a || has f b.
Proof. destruct f; reflexivity. Qed.
Lemma has_and f a b : has f (m_and a b) = has f a && has f b.
Proof. destruct f; reflexivity. Qed.
Lemma has_not f a : has f (m_not a) = negb (has f a).
Proof. destruct f; reflexivity. Qed.
Lemma has_replace f s o n : has f (replace s o n) = (has f s && negb (has f o)) || has f n.
Proof. unfold replace. rewrite has_or, has_and, has_not. reflexivity. Qed.
Definition flag_eqb (f g : flag) : bool :=
  match f, g with
  | F_NONE, F_NONE | F_BREAK, F_BREAK | F_LOOP, F_LOOP | F_DEFEAT, F_DEFEAT | F_RETURN, F_RETURN => true
  | _, _ => false
  end.
Lemma has_single f g : has f (single g) = flag_eqb f g.
Proof. destruct f, g; reflexivity. Qed.
Lemma m_in_single f m : m_in (single f) m = has f m.
Proof. destruct f; destruct m as [[] [] [] [] []]; reflexivity. Qed.
Lemma guard_spec m fc : loop_exit_guard m fc = negb (has F_NONE m) || fc.
Proof. unfold loop_exit_guard. change NONE with (single F_NONE). rewrite m_in_single. reflexivity. Qed.
Lemma guard_false m fc : loop_exit_guard m fc = false -> has F_NONE m = true /\ fc = false.
Proof.
  rewrite guard_spec. destruct (has F_NONE m), fc; simpl; intros; try discriminate; auto.
Qed.

(* the arms, as computed from the regenerated list *)
Lemma block_update_spec m mb : block_update m mb = replace m NONE mb.
Proof. reflexivity. Qed.
Lemma block_continue_spec : block_continue = false.
Proof. reflexivity. Qed.
Lemma upd_return v h m : atom_update (AReturn v h) m = replace m NONE RETURN.
Proof. reflexivity. Qed.
Lemma upd_break m : atom_update ABreak m = replace m NONE BREAK.
Proof. reflexivity. Qed.
Lemma upd_continue m : atom_update AContinue m = m.
Proof. reflexivity. Qed.
Lemma upd_plain m : atom_update (ASimple Plain) m = m.
Proof. reflexivity. Qed.
Lemma upd_opaque m : atom_update (ASimple Opaque) m = m.
Proof. reflexivity. Qed.
Lemma upd_is_defeat m : atom_update (ASimple IsDefeat) m = replace m NONE DEFEAT.
Proof. reflexivity. Qed.
Lemma upd_win m : atom_update (ASimple AllIsWin) m = replace m NONE LOOP.
Proof. reflexivity. Qed.
Lemma upd_broken m : atom_update (ASimple AllIsBroken) m = replace m NONE LOOP.
Proof. reflexivity. Qed.
Lemma upd_call m : atom_update (ASimple CallDefeat) m = m_or m DEFEAT.
Proof. reflexivity. Qed.
Lemma atom_continue_spec a : atom_continue a = match a with AContinue => true | _ => false end.
Proof. destruct a as [[]| | |]; reflexivity. Qed.

(* an update never removes a flag other than NONE *)
Lemma atom_update_keeps a m f : f <> F_NONE -> has f m = true -> has f (atom_update a m) = true.
Proof.
  intros Hf H.
  destruct a as [[]|v h| |]; rewrite ?upd_return, ?upd_break, ?upd_continue, ?upd_plain, ?upd_opaque,
    ?upd_is_defeat, ?upd_win, ?upd_broken, ?upd_call, ?has_replace, ?has_or; try assumption;
    rewrite H; destruct f; try congruence; reflexivity.
Qed.
Lemma block_update_keeps m mb f : f <> F_NONE -> has f m = true -> has f (block_update m mb) = true.
Proof.
  intros Hf H. rewrite block_update_spec, has_replace, H.
  destruct f; try congruence; reflexivity.
Qed.
Lemma block_update_adds m mb f : has f mb = true -> has f (block_update m mb) = true.
Proof. intros H. rewrite block_update_spec, has_replace, H. apply orb_true_r. Qed.

(* loops *)
Lemma loop_modes_keep f mb ct :
  f <> F_NONE -> f <> F_BREAK -> has f mb = true -> has f (loop_exit_modes mb ct) = true.
Proof.
  intros H1 H2. destruct f; try congruence; destruct mb as [[] [] [] [] []], ct; simpl; intros H;
    try discriminate H; reflexivity.
Qed.
Lemma loop_modes_none_nonconst mb : has F_NONE (loop_exit_modes mb false) = true.
Proof. destruct mb as [[] [] [] [] []]; reflexivity. Qed.
Lemma loop_modes_none_break mb ct :
  has F_BREAK mb = true -> has F_NONE (loop_exit_modes mb ct) = true.
Proof. destruct mb as [[] [] [] [] []], ct; simpl; intros H; try discriminate H; reflexivity. Qed.

(* ------------------------------------------------------------------ unfolding lemmas *)
Lemma analyse_code ss :
  analyse (BCode ss) = (BCode (trunc_stmts ss initial_mode initial_found_continue),
                        modes_stmts ss initial_mode initial_found_continue).
Proof.
  unfold trunc_stmts, modes_stmts. simpl.
  destruct (analyse_stmts ss initial_mode initial_found_continue); reflexivity.
Qed.
Lemma analyse_if c t e :
  analyse (BIf c t e) = (BIf c (trunc t) (trunc e), if_exit_modes (modes_of t) (modes_of e)).
Proof. unfold trunc, modes_of. simpl. destruct (analyse t), (analyse e); reflexivity. Qed.
Lemma analyse_loop c body k :
  analyse (BLoop c body k) = (BLoop c (trunc body) k, loop_exit_modes (modes_of body) (cond_is_true c)).
Proof. unfold trunc, modes_of. simpl. destruct (analyse body); reflexivity. Qed.
Lemma analyse_try body k h :
  analyse (BTry body k h) =
  (BTry (trunc body) k (trunc h), try_exit_modes (modes_of body) (handler_modes k (modes_of h))).
Proof. unfold trunc, modes_of. simpl. destruct (analyse body), (analyse h); reflexivity. Qed.
Lemma analyse_preempt body :
  analyse (BPreempt body) = (BPreempt (trunc body), preempt_exit_modes (modes_of body)).
Proof. unfold trunc, modes_of. simpl. destruct (analyse body); reflexivity. Qed.

Lemma analyse_stmts_atom a r m fc :
  analyse_stmts (SAtom a r) m fc =
  if loop_exit_guard m fc then (SNil, m)
  else (SAtom a (trunc_stmts r (atom_update a m) (atom_continue a || fc)),
        modes_stmts r (atom_update a m) (atom_continue a || fc)).
Proof.
  unfold trunc_stmts, modes_stmts. simpl. destruct (loop_exit_guard m fc); [reflexivity|].
  destruct (analyse_stmts r (atom_update a m) (atom_continue a || fc)); reflexivity.
Qed.
Lemma analyse_stmts_block b r m fc :
  analyse_stmts (SBlock b r) m fc =
  if loop_exit_guard m fc then (SNil, m)
  else (SBlock (trunc b) (trunc_stmts r (block_update m (modes_of b)) (block_continue || fc)),
        modes_stmts r (block_update m (modes_of b)) (block_continue || fc)).
Proof.
  unfold trunc_stmts, modes_stmts, trunc, modes_of. simpl.
  destruct (loop_exit_guard m fc); [reflexivity|].
  destruct (analyse b) as [b' mb]. simpl.
  match goal with |- context [analyse_stmts r ?x ?y] => destruct (analyse_stmts r x y) end.
  reflexivity.
Qed.

Ltac unf :=
  unfold trunc, modes_of, trunc_stmts, modes_stmts in *;
  repeat (rewrite ?analyse_code, ?analyse_if, ?analyse_loop, ?analyse_try, ?analyse_preempt,
                  ?analyse_stmts_atom, ?analyse_stmts_block in *);
  fold trunc modes_of trunc_stmts modes_stmts in *.

(* ------------------------------------------------------------------ monotonicity *)
Lemma modes_stmts_keeps ss : forall m fc f,
  f <> F_NONE -> has f m = true -> has f (modes_stmts ss m fc) = true.
Proof.
  induction ss as [|a r IH|b r IH]; intros m fc f Hf H; unfold modes_stmts in *.
  - exact H.
  - rewrite analyse_stmts_atom. destruct (loop_exit_guard m fc); simpl; [exact H|].
    apply IH; [exact Hf|]. apply atom_update_keeps; assumption.
  - rewrite analyse_stmts_block. destruct (loop_exit_guard m fc); simpl; [exact H|].
    apply IH; [exact Hf|]. apply block_update_keeps; assumption.
Qed.

(* ------------------------------------------------------------------ inversion helpers *)
Lemma exec_simple_outcomes s o : exec_simple s o -> o = Normal \/ o = Defeat \/ o = Terminal.
Proof. destruct 1; auto. Qed.

Lemma exec_cont_quiet k o : quiet k = true -> exec_cont k o -> o = Normal.
Proof.
  destruct k as [[]|]; simpl; intros Q H; try discriminate Q; [inversion H; reflexivity | exact H].
Qed.

Lemma covers_core_class o m f :
  class_of o = Some f -> has f m = true -> covers m o.
Proof. unfold covers. intros ->. auto. Qed.

(* ------------------------------------------------------------------ (a) soundness *)
Definition ok (o : outcome) (v : bool) : Prop := core o \/ v = true.

Lemma visible_if c t e : visible (BIf c t e) = true ->
  visible_cond c = true /\ visible t = true /\ visible e = true.
Proof. simpl. rewrite !andb_true_iff. tauto. Qed.
Lemma visible_loop c b k : visible (BLoop c b k) = true ->
  visible_cond c = true /\ visible b = true /\ quiet k = true.
Proof. simpl. rewrite !andb_true_iff. tauto. Qed.
Lemma visible_try b k h : visible (BTry b k h) = true -> visible b = true /\ visible h = true.
Proof. simpl. rewrite !andb_true_iff. tauto. Qed.

Lemma ok_sub o v w : ok o v -> (v = true -> w = true) -> ok o w.
Proof. unfold ok. tauto. Qed.

Lemma cond_abort_not_ok c o v :
  cond_abort c o -> ok o v -> (v = true -> visible_cond c = true) -> False.
Proof.
  intros [-> Ho] [Hc|Hv] Hvc.
  - destruct Ho as [-> | ->]; exact Hc.
  - specialize (Hvc Hv). discriminate Hvc.
Qed.

