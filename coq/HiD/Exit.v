(* C16 -- control never runs off the end of a function.

   Hand model of hidc's exit analysis (hidc/ast/blocks.py: CodeBlock.evaluate with the
   `found_continue` quirk and statement dropping, exit_modes of every block class;
   hidc/ast/program.py: FuncDeclaration.evaluate) built ONLY from the regenerated definitions
   in Gen/GenExit.v, an independent nondeterministic big-step semantics of function bodies,
   and the proofs relating the two.

   Abstraction.  Expressions are opaque.  A statement is one of
     plain          an expression statement / assignment / declaration without control effect
     opaque         the same, but its expression may not complete: it contains a nested call of
                    a defeat function (`x = !f();`) or may fault or calls a function that may
                    reach a terminal state.  hidc does not look inside expressions, so it treats
                    it exactly like `plain`.
     is_defeat      `!is_defeat();`
     all_is_win / all_is_broken
     call_defeat    a call statement `!f(...);` of a user defeat function: defeats or returns
     return         with/without a value; flag h: the value expression is opaque as above
     break, continue
   and blocks: code block, if/else, loop (while and desugared for; the `cont` of a for loop is
   at most one simple statement -- the grammar only allows a plain statement there), try with an
   undo or stop handler, preempt.  Conditions are abstracted to what hidc's constant folding
   leaves behind: a BoolValue true, a BoolValue false, or something else (`unknown`; `opaque`
   when the condition may itself defeat or fault).

   Outcome classes (what was chosen, and why):
     Normal |-> NONE, Break |-> BREAK, Return |-> RETURN, Defeat |-> DEFEAT, Terminal |-> LOOP,
     Continue |-> nothing.  hidc does not record `continue` in the mode at all (the generator's
     own comment says so); mapping Continue to NONE is refuted below
     (continue_as_NONE_refuted: `{ { continue; } return; }` has mode RETURN).  Continue is sound
     to ignore because a loop absorbs it and nothing else can observe it
     (no_escape: it cannot leave a loop-closed block, i.e. a function body the parser accepts). *)
From Coq Require Import Bool List NArith Lia.
From HidV Require Import GenExit.
Import ListNotations.

(* ------------------------------------------------------------------ syntax *)
Inductive cond := CUnknown | CTrue | CFalse | COpaque.
Inductive simple := Plain | Opaque | IsDefeat | AllIsWin | AllIsBroken | CallDefeat.
Inductive atom :=
| ASimple (s : simple)
| AReturn (v h : bool)      (* v: has a value; h: the value expression is opaque *)
| ABreak
| AContinue.
Inductive handler := Undo | Stop.

Inductive block :=
| BCode (ss : stmts)
| BIf (c : cond) (t e : block)
| BLoop (c : cond) (body : block) (cont : option simple)
| BTry (body : block) (k : handler) (h : block)
| BPreempt (body : block)
with stmts :=
| SNil
| SAtom (a : atom) (r : stmts)
| SBlock (b : block) (r : stmts).

Scheme block_mut := Induction for block Sort Prop
  with stmts_mut := Induction for stmts Sort Prop.
Combined Scheme block_stmts_mutind from block_mut, stmts_mut.

(* ------------------------------------------------------------------ the model of the analysis *)
(* which `case` patterns of CodeBlock.evaluate a statement matches *)
Definition matches (a : atom) (p : pat) : bool :=
  match a, p with
  | AReturn _ _, P_Return => true
  | ABreak, P_Break => true
  | AContinue, P_Continue => true
  | ASimple IsDefeat, P_is_defeat => true
  | ASimple IsDefeat, P_any_defeat_call => true
  | ASimple AllIsWin, P_all_is_win => true
  | ASimple AllIsBroken, P_all_is_broken => true
  | ASimple CallDefeat, P_any_defeat_call => true
  | _, _ => false
  end.
Definition matches_block (p : pat) : bool := match p with P_Block => true | _ => false end.

(* first matching arm, in source order; no arm: nothing changes *)
Fixpoint first_arm (test : pat -> bool) (arms : list (pat * (modes -> modes -> modes) * bool))
  : (modes -> modes -> modes) * bool :=
  match arms with
  | [] => ((fun mode _ => mode), false)
  | (p, f, c) :: r => if test p then (f, c) else first_arm test r
  end.

Definition atom_update (a : atom) (mode : modes) : modes :=
  fst (first_arm (matches a) evaluate_arms) mode NONE.
Definition atom_continue (a : atom) : bool := snd (first_arm (matches a) evaluate_arms).
Definition block_update (mode stmt_modes : modes) : modes :=
  fst (first_arm matches_block evaluate_arms) mode stmt_modes.
Definition block_continue : bool := snd (first_arm matches_block evaluate_arms).

Definition cond_is_true (c : cond) : bool := match c with CTrue => true | _ => false end.
Definition handler_modes (k : handler) (m : modes) : modes :=
  match k with Undo => undo_exit_modes m | Stop => stop_exit_modes m end.

(* CodeBlock.evaluate + exit_modes: the truncated block and its mode *)
Fixpoint analyse (b : block) : block * modes :=
  match b with
  | BCode ss =>
      let (ss', m) := analyse_stmts ss initial_mode initial_found_continue in (BCode ss', m)
  | BIf c t e =>
      let (t', mt) := analyse t in let (e', me) := analyse e in
      (BIf c t' e', if_exit_modes mt me)
  | BLoop c body cont =>
      let (body', mb) := analyse body in
      (BLoop c body' cont, loop_exit_modes mb (cond_is_true c))
  | BTry body k h =>
      let (body', mb) := analyse body in let (h', mh) := analyse h in
      (BTry body' k h', try_exit_modes mb (handler_modes k mh))
  | BPreempt body =>
      let (body', mb) := analyse body in (BPreempt body', preempt_exit_modes mb)
  end
with analyse_stmts (ss : stmts) (mode : modes) (fc : bool) : stmts * modes :=
  match ss with
  | SNil => (SNil, mode)
  | SAtom a r =>
      if loop_exit_guard mode fc then (SNil, mode) else
      let (r', m') := analyse_stmts r (atom_update a mode) (atom_continue a || fc) in
      (SAtom a r', m')
  | SBlock b r =>
      if loop_exit_guard mode fc then (SNil, mode) else
      let (b', mb) := analyse b in
      let (r', m') := analyse_stmts r (block_update mode mb) (block_continue || fc) in
      (SBlock b' r', m')
  end.

Definition trunc (b : block) : block := fst (analyse b).
Definition modes_of (b : block) : modes := snd (analyse b).
Definition trunc_stmts ss m fc : stmts := fst (analyse_stmts ss m fc).
Definition modes_stmts ss m fc : modes := snd (analyse_stmts ss m fc).

(* the `cont` of a loop is evaluated as a CodeBlock of its own; its mode is never used *)
Definition cont_block (k : option simple) : block :=
  match k with None => BCode SNil | Some s => BCode (SAtom (ASimple s) SNil) end.

(* ---- diagnostics raised while a body is evaluated, in evaluation order ---- *)
Inductive ret_kind := RetEmpty | RetValue.
Definition ret_is_empty (r : ret_kind) : bool := match r with RetEmpty => true | RetValue => false end.

Inductive error :=
| ErrUnreachable            (* 'Unreachable statement' (only with option unreachable_error) *)
| ErrMissingReturnValue     (* `return;` in a function returning a value *)
| ErrUnexpectedReturnValue  (* `return e;` in a function returning empty *)
| ErrMissingReturn.         (* 'Missing return statement' *)

Definition atom_diag (ret : ret_kind) (a : atom) : list error :=
  match a, ret with
  | AReturn true _, RetEmpty => [ErrUnexpectedReturnValue]
  | AReturn false _, RetValue => [ErrMissingReturnValue]
  | _, _ => []
  end.

Fixpoint diags (ue : bool) (ret : ret_kind) (b : block) : list error :=
  match b with
  | BCode ss => diags_stmts ue ret ss initial_mode initial_found_continue
  | BIf _ t e => diags ue ret t ++ diags ue ret e
  | BLoop _ body _ => diags ue ret body
  | BTry body _ h => diags ue ret body ++ diags ue ret h
  | BPreempt body => diags ue ret body
  end
with diags_stmts (ue : bool) (ret : ret_kind) (ss : stmts) (mode : modes) (fc : bool) : list error :=
  match ss with
  | SNil => []
  | SAtom a r =>
      if loop_exit_guard mode fc then (if ue then [ErrUnreachable] else []) else
      atom_diag ret a ++ diags_stmts ue ret r (atom_update a mode) (atom_continue a || fc)
  | SBlock b r =>
      if loop_exit_guard mode fc then (if ue then [ErrUnreachable] else []) else
      diags ue ret b ++ diags_stmts ue ret r (block_update mode (snd (analyse b))) (block_continue || fc)
  end.

Fixpoint app_stmts (a b : stmts) : stmts :=
  match a with
  | SNil => b
  | SAtom x r => SAtom x (app_stmts r b)
  | SBlock x r => SBlock x (app_stmts r b)
  end.

(* FuncDeclaration.evaluate *)
Inductive verdict :=
| Accepted (body : stmts) (m : modes)
| Rejected (e : error)
| AssertionFailed.

Definition elab_func (ue is_defeat_func : bool) (ret : ret_kind) (body : stmts) : verdict :=
  match diags ue ret (BCode body) with
  | e :: _ => Rejected e
  | [] =>
      let (ss, m) := analyse_stmts body initial_mode initial_found_continue in
      let re := ret_is_empty ret in
      if negb (func_assert_1 m re is_defeat_func) then AssertionFailed else
      if negb (func_assert_2 m re is_defeat_func) then AssertionFailed else
      if func_needs_fixup m re is_defeat_func then
        if func_missing_return m re is_defeat_func then Rejected ErrMissingReturn
        else Accepted (app_stmts ss (SAtom (AReturn false false) SNil)) (func_fixup_modes m)
      else Accepted ss m
  end.

(* ---- pre-order listing of every block of an (already analysed) tree with its mode; used by the
        correspondence check.  tag: 0 code (with its statement count), 1 if, 2 loop, 3 try,
        4 undo, 5 stop, 6 preempt ---- *)
Fixpoint stmts_len (ss : stmts) : nat :=
  match ss with SNil => 0 | SAtom _ r => S (stmts_len r) | SBlock _ r => S (stmts_len r) end.

Fixpoint survey (b : block) : list (nat * nat * modes) :=
  match b with
  | BCode ss => (0, stmts_len ss, snd (analyse b)) :: survey_stmts ss
  | BIf _ t e => (1, 0, snd (analyse b)) :: survey t ++ survey e
  | BLoop _ body k =>
      (2, 0, snd (analyse b)) :: survey body
        ++ [(0, stmts_len (match cont_block k with BCode ss => ss | _ => SNil end), snd (analyse (cont_block k)))]
  | BTry body k h =>
      (3, 0, snd (analyse b)) :: survey body
        ++ (match k with Undo => 4 | Stop => 5 end, 0, handler_modes k (snd (analyse h))) :: survey h
  | BPreempt body => (6, 0, snd (analyse b)) :: survey body
  end
with survey_stmts (ss : stmts) : list (nat * nat * modes) :=
  match ss with
  | SNil => []
  | SAtom _ r => survey_stmts r
  | SBlock b r => survey b ++ survey_stmts r
  end.

(* ------------------------------------------------------------------ semantics *)
Inductive outcome := Normal | Break | Continue | Return (v : bool) | Defeat | Terminal.

Inductive exec_simple : simple -> outcome -> Prop :=
| XS_plain : exec_simple Plain Normal
| XS_opaque_ok : exec_simple Opaque Normal
| XS_opaque_defeat : exec_simple Opaque Defeat
| XS_opaque_fault : exec_simple Opaque Terminal
| XS_is_defeat : exec_simple IsDefeat Defeat
| XS_win : exec_simple AllIsWin Terminal
| XS_broken : exec_simple AllIsBroken Terminal
| XS_call_returns : exec_simple CallDefeat Normal
| XS_call_defeats : exec_simple CallDefeat Defeat.

Inductive exec_atom : atom -> outcome -> Prop :=
| XA_simple s o : exec_simple s o -> exec_atom (ASimple s) o
| XA_return v h : exec_atom (AReturn v h) (Return v)
| XA_return_defeat v : exec_atom (AReturn v true) Defeat
| XA_return_fault v : exec_atom (AReturn v true) Terminal
| XA_break : exec_atom ABreak Break
| XA_continue : exec_atom AContinue Continue.

(* a condition may evaluate to this boolean *)
Definition cond_may (c : cond) (v : bool) : Prop :=
  match c with CUnknown | COpaque => True | CTrue => v = true | CFalse => v = false end.
(* evaluating the condition itself may end the execution *)
Definition cond_abort (c : cond) (o : outcome) : Prop :=
  c = COpaque /\ (o = Defeat \/ o = Terminal).

Definition exec_cont (k : option simple) (o : outcome) : Prop :=
  match k with None => o = Normal | Some s => exec_simple s o end.

Definition goes_on (o : outcome) : Prop := o = Normal \/ o = Continue.
Definition abrupt (o : outcome) : Prop := (exists v, o = Return v) \/ o = Defeat \/ o = Terminal.

(* terminating executions only (inductive big-step): a diverging run has no outcome *)
Inductive exec : block -> outcome -> Prop :=
| X_code ss o : exec_stmts ss o -> exec (BCode ss) o
| X_if_abort c t e o : cond_abort c o -> exec (BIf c t e) o
| X_if_true c t e o : cond_may c true -> exec t o -> exec (BIf c t e) o
| X_if_false c t e o : cond_may c false -> exec e o -> exec (BIf c t e) o
| X_loop_exit c body k : cond_may c false -> exec (BLoop c body k) Normal
| X_loop_abort c body k o : cond_abort c o -> exec (BLoop c body k) o
| X_loop_break c body k : cond_may c true -> exec body Break -> exec (BLoop c body k) Normal
| X_loop_abrupt c body k o :
    cond_may c true -> exec body o -> abrupt o -> exec (BLoop c body k) o
| X_loop_cont_abrupt c body k o1 o :
    cond_may c true -> exec body o1 -> goes_on o1 -> exec_cont k o -> o <> Normal ->
    exec (BLoop c body k) o
| X_loop_next c body k o1 o :
    cond_may c true -> exec body o1 -> goes_on o1 -> exec_cont k Normal ->
    exec (BLoop c body k) o -> exec (BLoop c body k) o
| X_try_pass body k h o : exec body o -> o <> Defeat -> exec (BTry body k h) o
| X_try_handle body k h o : exec body Defeat -> exec h o -> exec (BTry body k h) o
| X_preempt_skip body : exec (BPreempt body) Normal
| X_preempt_run body o : exec body o -> exec (BPreempt body) o
with exec_stmts : stmts -> outcome -> Prop :=
| X_nil : exec_stmts SNil Normal
| X_atom_stop a r o : exec_atom a o -> o <> Normal -> exec_stmts (SAtom a r) o
| X_atom_next a r o : exec_atom a Normal -> exec_stmts r o -> exec_stmts (SAtom a r) o
| X_block_stop b r o : exec b o -> o <> Normal -> exec_stmts (SBlock b r) o
| X_block_next b r o : exec b Normal -> exec_stmts r o -> exec_stmts (SBlock b r) o.

Definition class_of (o : outcome) : option flag :=
  match o with
  | Normal => Some F_NONE
  | Break => Some F_BREAK
  | Continue => None
  | Return _ => Some F_RETURN
  | Defeat => Some F_DEFEAT
  | Terminal => Some F_LOOP
  end.

(* m accounts for o *)
Definition covers (m : modes) (o : outcome) : Prop :=
  match class_of o with Some f => has f m = true | None => True end.

(* outcomes hidc always tracks; Defeat and Terminal are tracked only where they are visible *)
Definition core (o : outcome) : Prop :=
  match o with Defeat | Terminal => False | _ => True end.

Definition quiet (k : option simple) : bool :=
  match k with None | Some Plain => true | _ => false end.
Definition visible_atom (a : atom) : bool :=
  match a with ASimple Opaque => false | AReturn _ true => false | _ => true end.
Definition visible_cond (c : cond) : bool := match c with COpaque => false | _ => true end.

(* no defeat / terminal source is hidden from the analysis: no opaque statement, return value or
   condition, and the `cont` of every loop is absent or plain *)
Fixpoint visible (b : block) : bool :=
  match b with
  | BCode ss => visible_stmts ss
  | BIf c t e => visible_cond c && visible t && visible e
  | BLoop c body k => visible_cond c && visible body && quiet k
  | BTry body _ h => visible body && visible h
  | BPreempt body => visible body
  end
with visible_stmts (ss : stmts) : bool :=
  match ss with
  | SNil => true
  | SAtom a r => visible_atom a && visible_stmts r
  | SBlock b r => visible b && visible_stmts r
  end.

(* break / continue only inside loops (what the parser enforces) *)
Fixpoint closed_in (inl : bool) (b : block) : bool :=
  match b with
  | BCode ss => closed_stmts inl ss
  | BIf _ t e => closed_in inl t && closed_in inl e
  | BLoop _ body _ => closed_in true body
  | BTry body _ h => closed_in inl body && closed_in inl h
  | BPreempt body => closed_in inl body
  end
with closed_stmts (inl : bool) (ss : stmts) : bool :=
  match ss with
  | SNil => true
  | SAtom a r => (match a with ABreak | AContinue => inl | _ => true end) && closed_stmts inl r
  | SBlock b r => closed_in inl b && closed_stmts inl r
  end.

(* ------------------------------------------------------------------ flag algebra *)
Lemma has_or f a b : has f (m_or a b) = has f a || has f b.
Proof. destruct f; reflexivity. Qed.
Lemma has_and f a b : has f (m_and a b) = has f a && has f b.
Proof. destruct f; reflexivity. Qed.
Lemma has_not f a : has f (m_not a) = negb (has f a).
Proof. destruct f; reflexivity. Qed.
Lemma has_replace f s o n : has f (replace s o n) = (has f s && negb (has f o)) || has f n.
Proof. unfold replace. rewrite has_or, has_and, has_not. reflexivity. Qed.
Definition flag_eqb (f g : flag) : bool :=
  match f, g with
  | F_NONE, F_NONE | F_BREAK, F_BREAK | F_LOOP, F_LOOP | F_DEFEAT, F_DEFEAT | F_RETURN, F_RETURN => true
  | _, _ => false
  end.
Lemma has_single f g : has f (single g) = flag_eqb f g.
Proof. destruct f, g; reflexivity. Qed.
Lemma m_in_single f m : m_in (single f) m = has f m.
Proof. destruct f; destruct m as [[] [] [] [] []]; reflexivity. Qed.
Lemma guard_spec m fc : loop_exit_guard m fc = negb (has F_NONE m) || fc.
Proof. unfold loop_exit_guard. change NONE with (single F_NONE). rewrite m_in_single. reflexivity. Qed.
Lemma guard_false m fc : loop_exit_guard m fc = false -> has F_NONE m = true /\ fc = false.
Proof.
  rewrite guard_spec. destruct (has F_NONE m), fc; simpl; intros; try discriminate; auto.
Qed.

(* the arms, as computed from the regenerated list *)
Lemma block_update_spec m mb : block_update m mb = replace m NONE mb.
Proof. reflexivity. Qed.
Lemma block_continue_spec : block_continue = false.
Proof. reflexivity. Qed.
Lemma upd_return v h m : atom_update (AReturn v h) m = replace m NONE RETURN.
Proof. reflexivity. Qed.
Lemma upd_break m : atom_update ABreak m = replace m NONE BREAK.
Proof. reflexivity. Qed.
Lemma upd_continue m : atom_update AContinue m = m.
Proof. reflexivity. Qed.
Lemma upd_plain m : atom_update (ASimple Plain) m = m.
Proof. reflexivity. Qed.
Lemma upd_opaque m : atom_update (ASimple Opaque) m = m.
Proof. reflexivity. Qed.
Lemma upd_is_defeat m : atom_update (ASimple IsDefeat) m = replace m NONE DEFEAT.
Proof. reflexivity. Qed.
Lemma upd_win m : atom_update (ASimple AllIsWin) m = replace m NONE LOOP.
Proof. reflexivity. Qed.
Lemma upd_broken m : atom_update (ASimple AllIsBroken) m = replace m NONE LOOP.
Proof. reflexivity. Qed.
Lemma upd_call m : atom_update (ASimple CallDefeat) m = m_or m DEFEAT.
Proof. reflexivity. Qed.
Lemma atom_continue_spec a : atom_continue a = match a with AContinue => true | _ => false end.
Proof. destruct a as [[]| | |]; reflexivity. Qed.

(* an update never removes a flag other than NONE *)
Lemma atom_update_keeps a m f : f <> F_NONE -> has f m = true -> has f (atom_update a m) = true.
Proof.
  intros Hf H.
  destruct a as [[]|v h| |]; rewrite ?upd_return, ?upd_break, ?upd_continue, ?upd_plain, ?upd_opaque,
    ?upd_is_defeat, ?upd_win, ?upd_broken, ?upd_call, ?has_replace, ?has_or; try assumption;
    rewrite H; destruct f; try congruence; reflexivity.
Qed.
Lemma block_update_keeps m mb f : f <> F_NONE -> has f m = true -> has f (block_update m mb) = true.
Proof.
  intros Hf H. rewrite block_update_spec, has_replace, H.
  destruct f; try congruence; reflexivity.
Qed.
Lemma block_update_adds m mb f : has f mb = true -> has f (block_update m mb) = true.
Proof. intros H. rewrite block_update_spec, has_replace, H. apply orb_true_r. Qed.

(* loops *)
Lemma loop_modes_keep f mb ct :
  f <> F_NONE -> f <> F_BREAK -> has f mb = true -> has f (loop_exit_modes mb ct) = true.
Proof.
  intros H1 H2. destruct f; try congruence; destruct mb as [[] [] [] [] []], ct; simpl; intros H;
    try discriminate H; reflexivity.
Qed.
Lemma loop_modes_none_nonconst mb : has F_NONE (loop_exit_modes mb false) = true.
Proof. destruct mb as [[] [] [] [] []]; reflexivity. Qed.
Lemma loop_modes_none_break mb ct :
  has F_BREAK mb = true -> has F_NONE (loop_exit_modes mb ct) = true.
Proof. destruct mb as [[] [] [] [] []], ct; simpl; intros H; try discriminate H; reflexivity. Qed.

Arguments has : simpl never.
Arguments atom_update : simpl never.
Arguments block_update : simpl never.

(* ------------------------------------------------------------------ unfolding lemmas *)
Lemma analyse_code ss :
  analyse (BCode ss) = (BCode (trunc_stmts ss initial_mode initial_found_continue),
                        modes_stmts ss initial_mode initial_found_continue).
Proof.
  unfold trunc_stmts, modes_stmts. simpl.
  destruct (analyse_stmts ss initial_mode initial_found_continue); reflexivity.
Qed.
Lemma analyse_if c t e :
  analyse (BIf c t e) = (BIf c (trunc t) (trunc e), if_exit_modes (modes_of t) (modes_of e)).
Proof. unfold trunc, modes_of. simpl. destruct (analyse t), (analyse e); reflexivity. Qed.
Lemma analyse_loop c body k :
  analyse (BLoop c body k) = (BLoop c (trunc body) k, loop_exit_modes (modes_of body) (cond_is_true c)).
Proof. unfold trunc, modes_of. simpl. destruct (analyse body); reflexivity. Qed.
Lemma analyse_try body k h :
  analyse (BTry body k h) =
  (BTry (trunc body) k (trunc h), try_exit_modes (modes_of body) (handler_modes k (modes_of h))).
Proof. unfold trunc, modes_of. simpl. destruct (analyse body), (analyse h); reflexivity. Qed.
Lemma analyse_preempt body :
  analyse (BPreempt body) = (BPreempt (trunc body), preempt_exit_modes (modes_of body)).
Proof. unfold trunc, modes_of. simpl. destruct (analyse body); reflexivity. Qed.

Lemma analyse_stmts_atom a r m fc :
  analyse_stmts (SAtom a r) m fc =
  if loop_exit_guard m fc then (SNil, m)
  else (SAtom a (trunc_stmts r (atom_update a m) (atom_continue a || fc)),
        modes_stmts r (atom_update a m) (atom_continue a || fc)).
Proof.
  unfold trunc_stmts, modes_stmts. simpl. destruct (loop_exit_guard m fc); [reflexivity|].
  destruct (analyse_stmts r (atom_update a m) (atom_continue a || fc)); reflexivity.
Qed.
Lemma analyse_stmts_block b r m fc :
  analyse_stmts (SBlock b r) m fc =
  if loop_exit_guard m fc then (SNil, m)
  else (SBlock (trunc b) (trunc_stmts r (block_update m (modes_of b)) (block_continue || fc)),
        modes_stmts r (block_update m (modes_of b)) (block_continue || fc)).
Proof.
  unfold trunc_stmts, modes_stmts, trunc, modes_of. simpl.
  destruct (loop_exit_guard m fc); [reflexivity|].
  destruct (analyse b) as [b' mb]. simpl.
  match goal with |- context [analyse_stmts r ?x ?y] => destruct (analyse_stmts r x y) end.
  reflexivity.
Qed.

Lemma trunc_code ss : trunc (BCode ss) = BCode (trunc_stmts ss initial_mode initial_found_continue).
Proof. unfold trunc. rewrite analyse_code. reflexivity. Qed.
Lemma modes_code ss : modes_of (BCode ss) = modes_stmts ss initial_mode initial_found_continue.
Proof. unfold modes_of. rewrite analyse_code. reflexivity. Qed.
Lemma trunc_if c t e : trunc (BIf c t e) = BIf c (trunc t) (trunc e).
Proof. unfold trunc at 1. rewrite analyse_if. reflexivity. Qed.
Lemma modes_if c t e : modes_of (BIf c t e) = if_exit_modes (modes_of t) (modes_of e).
Proof. unfold modes_of at 1. rewrite analyse_if. reflexivity. Qed.
Lemma trunc_loop c b k : trunc (BLoop c b k) = BLoop c (trunc b) k.
Proof. unfold trunc at 1. rewrite analyse_loop. reflexivity. Qed.
Lemma modes_loop c b k : modes_of (BLoop c b k) = loop_exit_modes (modes_of b) (cond_is_true c).
Proof. unfold modes_of at 1. rewrite analyse_loop. reflexivity. Qed.
Lemma trunc_try b k h : trunc (BTry b k h) = BTry (trunc b) k (trunc h).
Proof. unfold trunc at 1. rewrite analyse_try. reflexivity. Qed.
Lemma modes_try b k h :
  modes_of (BTry b k h) = try_exit_modes (modes_of b) (handler_modes k (modes_of h)).
Proof. unfold modes_of at 1. rewrite analyse_try. reflexivity. Qed.
Lemma trunc_preempt b : trunc (BPreempt b) = BPreempt (trunc b).
Proof. unfold trunc at 1. rewrite analyse_preempt. reflexivity. Qed.
Lemma modes_preempt b : modes_of (BPreempt b) = preempt_exit_modes (modes_of b).
Proof. unfold modes_of at 1. rewrite analyse_preempt. reflexivity. Qed.
Lemma trunc_atom a r m fc :
  trunc_stmts (SAtom a r) m fc =
  if loop_exit_guard m fc then SNil
  else SAtom a (trunc_stmts r (atom_update a m) (atom_continue a || fc)).
Proof. unfold trunc_stmts at 1. rewrite analyse_stmts_atom. destruct (loop_exit_guard m fc); reflexivity. Qed.
Lemma modes_atom a r m fc :
  modes_stmts (SAtom a r) m fc =
  if loop_exit_guard m fc then m else modes_stmts r (atom_update a m) (atom_continue a || fc).
Proof. unfold modes_stmts at 1. rewrite analyse_stmts_atom. destruct (loop_exit_guard m fc); reflexivity. Qed.
Lemma trunc_block b r m fc :
  trunc_stmts (SBlock b r) m fc =
  if loop_exit_guard m fc then SNil
  else SBlock (trunc b) (trunc_stmts r (block_update m (modes_of b)) (block_continue || fc)).
Proof. unfold trunc_stmts at 1. rewrite analyse_stmts_block. destruct (loop_exit_guard m fc); reflexivity. Qed.
Lemma modes_block b r m fc :
  modes_stmts (SBlock b r) m fc =
  if loop_exit_guard m fc then m
  else modes_stmts r (block_update m (modes_of b)) (block_continue || fc).
Proof. unfold modes_stmts at 1. rewrite analyse_stmts_block. destruct (loop_exit_guard m fc); reflexivity. Qed.
Lemma trunc_nil m fc : trunc_stmts SNil m fc = SNil.
Proof. reflexivity. Qed.
Lemma modes_nil m fc : modes_stmts SNil m fc = m.
Proof. reflexivity. Qed.

Ltac unf :=
  rewrite ?trunc_code, ?modes_code, ?trunc_if, ?modes_if, ?trunc_loop, ?modes_loop, ?trunc_try,
    ?modes_try, ?trunc_preempt, ?modes_preempt, ?trunc_atom, ?modes_atom, ?trunc_block,
    ?modes_block, ?trunc_nil, ?modes_nil in *.

(* ------------------------------------------------------------------ monotonicity *)
Lemma modes_stmts_keeps ss : forall m fc f,
  f <> F_NONE -> has f m = true -> has f (modes_stmts ss m fc) = true.
Proof.
  induction ss as [|a r IH|b r IH]; intros m fc f Hf H; unfold modes_stmts in *.
  - exact H.
  - rewrite analyse_stmts_atom. destruct (loop_exit_guard m fc); simpl; [exact H|].
    apply IH; [exact Hf|]. apply atom_update_keeps; assumption.
  - rewrite analyse_stmts_block. destruct (loop_exit_guard m fc); simpl; [exact H|].
    apply IH; [exact Hf|]. apply block_update_keeps; assumption.
Qed.

(* ------------------------------------------------------------------ inversion helpers *)
Lemma exec_simple_outcomes s o : exec_simple s o -> o = Normal \/ o = Defeat \/ o = Terminal.
Proof. destruct 1; auto. Qed.

Lemma exec_cont_quiet k o : quiet k = true -> exec_cont k o -> o = Normal.
Proof.
  destruct k as [[]|]; simpl; intros Q H; try discriminate Q; [inversion H; reflexivity | exact H].
Qed.

Lemma covers_core_class o m f :
  class_of o = Some f -> has f m = true -> covers m o.
Proof. unfold covers. intros ->. auto. Qed.

(* ------------------------------------------------------------------ (a) soundness *)
Definition ok (o : outcome) (v : bool) : Prop := core o \/ v = true.

Lemma visible_if c t e : visible (BIf c t e) = true ->
  visible_cond c = true /\ visible t = true /\ visible e = true.
Proof. simpl. rewrite !andb_true_iff. tauto. Qed.
Lemma visible_loop c b k : visible (BLoop c b k) = true ->
  visible_cond c = true /\ visible b = true /\ quiet k = true.
Proof. simpl. rewrite !andb_true_iff. tauto. Qed.
Lemma visible_try b k h : visible (BTry b k h) = true -> visible b = true /\ visible h = true.
Proof. simpl. rewrite !andb_true_iff. tauto. Qed.

Lemma ok_sub o v w : ok o v -> (v = true -> w = true) -> ok o w.
Proof. unfold ok. tauto. Qed.

Lemma cond_abort_not_ok c o v :
  cond_abort c o -> ok o v -> (v = true -> visible_cond c = true) -> False.
Proof.
  intros [-> Ho] [Hc|Hv] Hvc.
  - destruct Ho as [-> | ->]; exact Hc.
  - specialize (Hvc Hv). discriminate Hvc.
Qed.

Lemma atom_abrupt_sound a o m v :
  exec_atom a o -> o <> Normal -> ok o v -> (v = true -> visible_atom a = true) ->
  covers (atom_update a m) o.
Proof.
  intros H Hn Hok Hv.
  assert (Hnv : visible_atom a = false -> core o) by
    (intros E; destruct Hok as [?|Hv']; [assumption | rewrite (Hv Hv') in E; discriminate E]).
  inversion H as [s o' Hs| | | | |]; subst; clear H.
  - inversion Hs; subst; try congruence; unfold covers; cbn [class_of];
      rewrite ?upd_is_defeat, ?upd_win, ?upd_broken, ?upd_call, ?has_replace, ?has_or;
      try apply orb_true_r; exfalso; exact (Hnv eq_refl).
  - unfold covers; cbn [class_of]. rewrite upd_return, has_replace. apply orb_true_r.
  - exfalso. exact (Hnv eq_refl).
  - exfalso. exact (Hnv eq_refl).
  - unfold covers; cbn [class_of]. rewrite upd_break, has_replace. apply orb_true_r.
  - exact I.
Qed.

Lemma atom_normal a m :
  exec_atom a Normal -> has F_NONE m = true ->
  has F_NONE (atom_update a m) = true /\ atom_continue a = false.
Proof.
  intros H Hm. inversion H as [s o' Hs| | | | |]; subst.
  inversion Hs; subst; rewrite ?upd_plain, ?upd_opaque, ?upd_call, ?has_or, ?Hm; split; reflexivity.
Qed.

Lemma covers_keeps r m fc o : o <> Normal -> covers m o -> covers (modes_stmts r m fc) o.
Proof.
  unfold covers. destruct o; simpl; intros Hn H; try congruence; try exact I;
    (apply modes_stmts_keeps; [discriminate | exact H]).
Qed.

Lemma covers_block_update m mb o : covers mb o -> covers (block_update m mb) o.
Proof.
  unfold covers. destruct (class_of o); [apply block_update_adds | trivial].
Qed.

Lemma loop_sound c body k mb :
  (forall o, exec body o -> ok o (visible body) -> covers mb o) ->
  forall o, exec (BLoop c body k) o -> ok o (visible (BLoop c body k)) ->
            covers (loop_exit_modes mb (cond_is_true c)) o.
Proof.
  intros IHb o H. remember (BLoop c body k) as L eqn:EL.
  induction H; inversion EL; subst; clear EL; intros Hok.
  - (* exit *)
    unfold covers; simpl. destruct c; simpl in *; try discriminate; apply loop_modes_none_nonconst.
  - exfalso. eapply cond_abort_not_ok; eauto. intros V. apply visible_loop in V. tauto.
  - (* break *)
    unfold covers; simpl. apply loop_modes_none_break.
    specialize (IHb Break H0 (or_introl I)). exact IHb.
  - (* abrupt *)
    assert (Hc : covers mb o).
    { apply IHb; [assumption|]. eapply ok_sub; [exact Hok|]. intros V. apply visible_loop in V. tauto. }
    unfold covers in *.
    destruct H1 as [[v ->]|[-> | ->]]; simpl in *; apply loop_modes_keep; try discriminate; assumption.
  - (* cont ends the execution *)
    exfalso. destruct Hok as [Hc|V].
    + assert (E : o = Normal \/ o = Defeat \/ o = Terminal).
      { destruct k as [s|]; simpl in H2; [eapply exec_simple_outcomes; eauto | auto]. }
      destruct E as [->|[->| ->]]; [congruence | exact Hc | exact Hc].
    + apply visible_loop in V. destruct V as (_ & _ & Q). apply (exec_cont_quiet _ _ Q) in H2. congruence.
  - (* next iteration *)
    apply IHexec2; [reflexivity | assumption].
Qed.

Theorem sound_mutual :
  (forall b o, exec (trunc b) o -> ok o (visible (trunc b)) -> covers (modes_of b) o) /\
  (forall ss m fc o, loop_exit_guard m fc = false ->
     exec_stmts (trunc_stmts ss m fc) o -> ok o (visible_stmts (trunc_stmts ss m fc)) ->
     covers (modes_stmts ss m fc) o).
Proof.
  apply block_stmts_mutind.
  - (* BCode *)
    intros ss IH o H Hok. unf. simpl in *. inversion H; subst.
    apply IH; [reflexivity | assumption | assumption].
  - (* BIf *)
    intros c t IHt e IHe o H Hok. unf. simpl fst in *. simpl snd.
    assert (S : forall x, covers (modes_of t) x \/ covers (modes_of e) x ->
                          covers (if_exit_modes (modes_of t) (modes_of e)) x).
    { intros x. unfold covers, if_exit_modes. destruct (class_of x); [|tauto].
      rewrite has_or. intros [-> | ->]; [reflexivity | apply orb_true_r]. }
    inversion H; subst.
    + exfalso. eapply cond_abort_not_ok; eauto. intros V. apply visible_if in V. tauto.
    + apply S. left. apply IHt; [assumption|]. eapply ok_sub; [exact Hok|].
      intros V. apply visible_if in V. tauto.
    + apply S. right. apply IHe; [assumption|]. eapply ok_sub; [exact Hok|].
      intros V. apply visible_if in V. tauto.
  - (* BLoop *)
    intros c body IHb k o H Hok. unf. simpl fst in *. simpl snd.
    eapply loop_sound; eauto.
  - (* BTry *)
    intros body IHb k h IHh o H Hok. unf. simpl fst in *. simpl snd.
    assert (Hm : handler_modes k (modes_of h) = modes_of h) by (destruct k; reflexivity).
    rewrite Hm. unfold try_exit_modes.
    inversion H; subst.
    + assert (C : covers (modes_of body) o).
      { apply IHb; [assumption|]. eapply ok_sub; [exact Hok|]. intros V. apply visible_try in V. tauto. }
      unfold covers in *. destruct o; simpl in *; try exact I; try congruence;
        rewrite has_replace, C; reflexivity.
    + assert (C : covers (modes_of h) o).
      { apply IHh; [assumption|]. eapply ok_sub; [exact Hok|]. intros V. apply visible_try in V. tauto. }
      unfold covers in *. destruct (class_of o); [|exact I]. rewrite has_replace, C. apply orb_true_r.
  - (* BPreempt *)
    intros body IHb o H Hok. unf. simpl fst in *. simpl snd. unfold preempt_exit_modes.
    inversion H; subst.
    + unfold covers; simpl. rewrite has_or. apply orb_true_r.
    + assert (C : covers (modes_of body) o) by (apply IHb; assumption).
      unfold covers in *. destruct (class_of o); [|exact I]. rewrite has_or, C. reflexivity.
  - (* SNil *)
    intros m fc o G H _. unfold trunc_stmts, modes_stmts in *. simpl in *. inversion H; subst.
    unfold covers; simpl. apply guard_false in G. tauto.
  - (* SAtom *)
    intros a r IH m fc o G H Hok. unf. rewrite G in *. simpl fst in *. simpl snd.
    destruct (guard_false _ _ G) as [Gm Gf]. subst fc.
    simpl in Hok.
    inversion H; subst.
    + apply covers_keeps; [assumption|].
      eapply atom_abrupt_sound; eauto. intros V. rewrite V in *.
      apply andb_true_iff in V. tauto.
    + match goal with Hx : exec_atom a Normal |- _ => destruct (atom_normal a m Hx Gm) as [N C] end.
      rewrite C in *. simpl in *.
      apply IH; [rewrite guard_spec, N; reflexivity | assumption |].
      eapply ok_sub; [exact Hok|]. intros V. apply andb_true_iff in V. tauto.
  - (* SBlock *)
    intros b IHb r IHr m fc o G H Hok. unf. rewrite G in *. simpl fst in *. simpl snd.
    destruct (guard_false _ _ G) as [Gm Gf]. subst fc.
    try rewrite block_continue_spec in *. simpl orb in *. simpl in Hok.
    inversion H; subst.
    + apply covers_keeps; [assumption|]. apply covers_block_update.
      apply IHb; [assumption|]. eapply ok_sub; [exact Hok|]. intros V. apply andb_true_iff in V. tauto.
    + assert (C : covers (modes_of b) Normal).
      { apply IHb; [assumption | left; exact I]. }
      apply IHr; [ | assumption | ].
      * rewrite guard_spec. unfold covers in C; simpl in C.
        rewrite (block_update_adds m _ _ C). reflexivity.
      * eapply ok_sub; [exact Hok|]. intros V. apply andb_true_iff in V. tauto.
Qed.

Lemma analyse_eq b b' m : analyse b = (b', m) -> b' = trunc b /\ m = modes_of b.
Proof. unfold trunc, modes_of. intros ->. auto. Qed.

(* (a), unconditional part: Normal, Break and Return are always accounted for -- whatever is
   hidden inside expressions or in the `cont` of a for loop. *)
Theorem exit_modes_sound_core : forall b b' m o,
  analyse b = (b', m) -> exec b' o -> core o -> covers m o.
Proof.
  intros b b' m o E H C. apply analyse_eq in E. destruct E as [-> ->].
  apply (proj1 sound_mutual); [assumption | left; assumption].
Qed.

(* (a), all classes: when no defeat / terminal source is hidden from the analysis *)
Theorem exit_modes_sound : forall b b' m o,
  analyse b = (b', m) -> visible b' = true -> exec b' o -> covers m o.
Proof.
  intros b b' m o E V H. apply analyse_eq in E. destruct E as [-> ->].
  apply (proj1 sound_mutual); [assumption | right; assumption].
Qed.

(* the corollary C16 is about: a block whose mode lacks NONE never completes normally *)
Corollary no_NONE_never_completes : forall b b' m,
  analyse b = (b', m) -> has F_NONE m = false -> ~ exec b' Normal.
Proof.
  intros b b' m E Hn H. pose proof (exit_modes_sound_core _ _ _ _ E H I) as C.
  unfold covers in C; simpl in C. congruence.
Qed.

(* truncation only removes statements, so visibility of the source carries over *)
Lemma visible_trunc_mutual :
  (forall b, visible b = true -> visible (trunc b) = true) /\
  (forall ss m fc, visible_stmts ss = true -> visible_stmts (trunc_stmts ss m fc) = true).
Proof.
  apply block_stmts_mutind.
  - intros ss IH V. unf. simpl in *. apply IH; exact V.
  - intros c t IHt e IHe V. unf. apply visible_if in V. simpl.
    destruct V as (-> & Vt & Ve). rewrite (IHt Vt), (IHe Ve). reflexivity.
  - intros c b IHb k V. unf. apply visible_loop in V. simpl.
    destruct V as (-> & Vb & ->). rewrite (IHb Vb). reflexivity.
  - intros b IHb k h IHh V. unf. apply visible_try in V. simpl.
    destruct V as (Vb & Vh). rewrite (IHb Vb), (IHh Vh). reflexivity.
  - intros b IHb V. unf. simpl in *. apply IHb; exact V.
  - intros m fc _. reflexivity.
  - intros a r IH m fc V. unf. destruct (loop_exit_guard m fc); [reflexivity|].
    simpl in *. apply andb_true_iff in V. destruct V as [-> Vr]. simpl. apply IH; exact Vr.
  - intros b IHb r IHr m fc V. unf. destruct (loop_exit_guard m fc); [reflexivity|].
    simpl in *. apply andb_true_iff in V. destruct V as [Vb Vr]. rewrite (IHb Vb). simpl.
    apply IHr; exact Vr.
Qed.

Corollary exit_modes_sound_src : forall b b' m o,
  analyse b = (b', m) -> visible b = true -> exec b' o -> covers m o.
Proof.
  intros b b' m o E V H. eapply exit_modes_sound; eauto.
  destruct (analyse_eq _ _ _ E) as [-> _]. apply (proj1 visible_trunc_mutual). assumption.
Qed.

(* ---- what is NOT true ---- *)
(* Without the visibility condition the DEFEAT and LOOP classes are not sound: the `cont` of a
   for loop is evaluated but its mode is thrown away.
     for (;; !is_defeat()) { }     has mode LOOP         and ends in defeat
     for (; c; all_is_win()) { }   has mode NONE         and ends in a terminal state *)
Definition for_cont_defeat : block := BLoop CTrue (BCode SNil) (Some IsDefeat).
Definition for_cont_win : block := BLoop CUnknown (BCode SNil) (Some AllIsWin).

Theorem exit_modes_sound_refuted :
  (exists b b' m, analyse b = (b', m) /\ exec b' Defeat /\ ~ covers m Defeat) /\
  (exists b b' m, analyse b = (b', m) /\ exec b' Terminal /\ ~ covers m Terminal).
Proof.
  split.
  - exists for_cont_defeat, for_cont_defeat, LOOP. split; [reflexivity|]. split.
    + eapply X_loop_cont_abrupt with (o1 := Normal).
      * reflexivity.
      * constructor. constructor.
      * left; reflexivity.
      * simpl. constructor.
      * discriminate.
    + unfold covers; simpl. discriminate.
  - exists for_cont_win, for_cont_win, NONE. split; [reflexivity|]. split.
    + eapply X_loop_cont_abrupt with (o1 := Normal).
      * exact I.
      * constructor. constructor.
      * left; reflexivity.
      * simpl. constructor.
      * discriminate.
    + unfold covers; simpl. discriminate.
Qed.

(* Mapping Continue to NONE (as a first reading of "hidc keeps NONE in the mode after continue"
   suggests) is refuted: { { continue; } return; } *)
Definition continue_then_return : block :=
  BCode (SBlock (BCode (SAtom AContinue SNil)) (SAtom (AReturn false false) SNil)).

Theorem continue_as_NONE_refuted :
  exists b b' m, analyse b = (b', m) /\ visible b' = true /\ exec b' Continue /\ has F_NONE m = false.
Proof.
  exists continue_then_return, continue_then_return, RETURN.
  split; [reflexivity|]. split; [reflexivity|]. split; [|reflexivity].
  constructor. apply X_block_stop; [|discriminate].
  constructor. apply X_atom_stop; [constructor | discriminate].
Qed.

(* ------------------------------------------------------------------ (b) dropped code is dead *)
Lemma exec_loop_congr c b1 b2 k :
  (forall o, exec b1 o -> exec b2 o) ->
  forall o, exec (BLoop c b1 k) o -> exec (BLoop c b2 k) o.
Proof.
  intros Hb o H. remember (BLoop c b1 k) as L eqn:EL.
  induction H; inversion EL; subst; clear EL.
  - apply X_loop_exit; assumption.
  - apply X_loop_abort; assumption.
  - apply X_loop_break; auto.
  - apply X_loop_abrupt; auto.
  - eapply X_loop_cont_abrupt; eauto.
  - eapply X_loop_next; eauto.
Qed.

Theorem dead_mutual :
  (forall b o, exec b o <-> exec (trunc b) o) /\
  (forall ss m fc o, loop_exit_guard m fc = false ->
     (exec_stmts ss o <-> exec_stmts (trunc_stmts ss m fc) o)).
Proof.
  apply block_stmts_mutind.
  - intros ss IH o. unf. simpl. split; intros H; inversion H; subst; constructor;
      (apply (IH initial_mode initial_found_continue o eq_refl); assumption).
  - intros c t IHt e IHe o. unf. simpl. split; intros H; inversion H; subst.
    + apply X_if_abort; assumption.
    + apply X_if_true; [assumption | apply IHt; assumption].
    + apply X_if_false; [assumption | apply IHe; assumption].
    + apply X_if_abort; assumption.
    + apply X_if_true; [assumption | apply IHt; assumption].
    + apply X_if_false; [assumption | apply IHe; assumption].
  - intros c b IHb k o. unf. simpl. split; apply exec_loop_congr; intros x; apply IHb.
  - intros b IHb k h IHh o. unf. simpl. split; intros H; inversion H; subst.
    + apply X_try_pass; [apply IHb; assumption | assumption].
    + apply X_try_handle; [apply IHb | apply IHh]; assumption.
    + apply X_try_pass; [apply IHb; assumption | assumption].
    + apply X_try_handle; [apply IHb | apply IHh]; assumption.
  - intros b IHb o. unf. simpl. split; intros H; inversion H; subst.
    + apply X_preempt_skip.
    + apply X_preempt_run. apply IHb; assumption.
    + apply X_preempt_skip.
    + apply X_preempt_run. apply IHb; assumption.
  - intros m fc o _. unfold trunc_stmts. simpl. tauto.
  - intros a r IH m fc o G. unf. rewrite G. simpl.
    destruct (guard_false _ _ G) as [Gm Gf]. subst fc.
    split; intros H; inversion H; subst.
    + apply X_atom_stop; assumption.
    + match goal with Hx : exec_atom a Normal |- _ => destruct (atom_normal a m Hx Gm) as [N C] end.
      apply X_atom_next; [assumption|]. apply IH; [|assumption].
      rewrite guard_spec, N, C. reflexivity.
    + apply X_atom_stop; assumption.
    + match goal with Hx : exec_atom a Normal |- _ => destruct (atom_normal a m Hx Gm) as [N C] end.
      apply X_atom_next; [assumption|].
      match goal with Hy : exec_stmts (trunc_stmts _ _ _) _ |- _ => apply IH in Hy; [assumption|] end.
      rewrite guard_spec, N, C. reflexivity.
  - intros b IHb r IHr m fc o G. unf. rewrite G. simpl.
    destruct (guard_false _ _ G) as [Gm Gf]. subst fc.
    assert (GN : exec (trunc b) Normal ->
                 loop_exit_guard (block_update m (modes_of b)) (block_continue || false) = false).
    { intros Hn. pose proof (proj1 sound_mutual b Normal Hn (or_introl I)) as C.
      unfold covers in C; simpl in C. rewrite guard_spec, (block_update_adds m _ _ C). reflexivity. }
    split; intros H; inversion H; subst.
    + apply X_block_stop; [apply IHb; assumption | assumption].
    + match goal with Hx : exec b Normal |- _ => apply IHb in Hx; pose proof (GN Hx) as G' end.
      apply X_block_next; [assumption|]. apply IHr; assumption.
    + apply X_block_stop; [apply IHb; assumption | assumption].
    + match goal with Hx : exec (trunc b) Normal |- _ => pose proof (GN Hx) as G' end.
      apply X_block_next; [apply IHb; assumption|].
      match goal with Hy : exec_stmts (trunc_stmts _ _ _) _ |- _ => apply IHr in Hy; assumption end.
Qed.

(* (b): the statements hidc drops (after a point whose mode lacks NONE, or after `continue`)
   can never run: the truncated block has exactly the executions of the original one. *)
Theorem dropped_is_dead : forall b b' m,
  analyse b = (b', m) -> forall o, exec b o <-> exec b' o.
Proof.
  intros b b' m E o. destruct (analyse_eq _ _ _ E) as [-> _]. apply (proj1 dead_mutual).
Qed.

(* ------------------------------------------------------------------ break / continue stay inside loops *)
Lemma loop_no_escape c b k o : exec (BLoop c b k) o -> o <> Break /\ o <> Continue.
Proof.
  intros H. remember (BLoop c b k) as L eqn:EL.
  induction H; inversion EL; subst; clear EL; try (split; discriminate).
  - destruct H as [_ [-> | ->]]; split; discriminate.
  - destruct H1 as [[v ->]|[-> | ->]]; split; discriminate.
  - assert (E : o = Normal \/ o = Defeat \/ o = Terminal).
    { destruct k as [s|]; simpl in H2; [eapply exec_simple_outcomes; eauto | auto]. }
    destruct E as [->|[->| ->]]; split; discriminate.
  - apply IHexec2. reflexivity.
Qed.

Definition escaping (o : outcome) : Prop := o = Break \/ o = Continue.

Theorem no_escape_mutual :
  (forall b inl o, closed_in inl b = true -> exec b o -> escaping o -> inl = true) /\
  (forall ss inl o, closed_stmts inl ss = true -> exec_stmts ss o -> escaping o -> inl = true).
Proof.
  apply block_stmts_mutind.
  - intros ss IH inl o C H E. inversion H; subst. eapply IH; eauto.
  - intros c t IHt e IHe inl o C H E. simpl in C. apply andb_true_iff in C. destruct C as [Ct Ce].
    inversion H; subst.
    + destruct H4 as [_ [-> | ->]]; destruct E; discriminate.
    + eapply IHt; eauto.
    + eapply IHe; eauto.
  - intros c b IHb k inl o C H E. apply loop_no_escape in H. destruct E; tauto.
  - intros b IHb k h IHh inl o C H E. simpl in C. apply andb_true_iff in C. destruct C as [Cb Ch].
    inversion H; subst; [eapply IHb | eapply IHh]; eauto.
  - intros b IHb inl o C H E. inversion H; subst.
    + destruct E; discriminate.
    + eapply IHb; eauto.
  - intros inl o _ H E. inversion H; subst. destruct E; discriminate.
  - intros a r IH inl o C H E. simpl in C. apply andb_true_iff in C. destruct C as [Ca Cr].
    inversion H; subst.
    + match goal with Hx : exec_atom a o |- _ => inversion Hx; subst end; try assumption;
        try (destruct E; discriminate).
      match goal with Hs : exec_simple _ o |- _ =>
        apply exec_simple_outcomes in Hs; destruct Hs as [->|[->| ->]]; destruct E; discriminate end.
    + eapply IH; eauto.
  - intros b IHb r IHr inl o C H E. simpl in C. apply andb_true_iff in C. destruct C as [Cb Cr].
    inversion H; subst; [eapply IHb | eapply IHr]; eauto.
Qed.

(* a function body the parser accepts never ends in Break or Continue *)
Corollary no_escape : forall ss o,
  closed_stmts false ss = true -> exec_stmts ss o -> o <> Break /\ o <> Continue.
Proof.
  intros ss o C H. split; intros ->.
  - pose proof (proj2 no_escape_mutual ss false Break C H (or_introl eq_refl)). discriminate.
  - pose proof (proj2 no_escape_mutual ss false Continue C H (or_intror eq_refl)). discriminate.
Qed.

(* ------------------------------------------------------------------ (c) functions *)
Lemma exec_app a : forall b o,
  exec_stmts (app_stmts a b) o ->
  (exec_stmts a o /\ o <> Normal) \/ (exec_stmts a Normal /\ exec_stmts b o).
Proof.
  induction a as [|x r IH|x r IH]; intros b o H; simpl in H.
  - right. split; [constructor | assumption].
  - inversion H; subst.
    + left. split; [apply X_atom_stop; assumption | assumption].
    + match goal with Hy : exec_stmts (app_stmts _ _) _ |- _ => apply IH in Hy; destruct Hy as [[? ?]|[? ?]] end.
      * left. split; [apply X_atom_next; assumption | assumption].
      * right. split; [apply X_atom_next; assumption | assumption].
  - inversion H; subst.
    + left. split; [apply X_block_stop; assumption | assumption].
    + match goal with Hy : exec_stmts (app_stmts _ _) _ |- _ => apply IH in Hy; destruct Hy as [[? ?]|[? ?]] end.
      * left. split; [apply X_block_next; assumption | assumption].
      * right. split; [apply X_block_next; assumption | assumption].
Qed.

Lemma exec_return_only o : exec_stmts (SAtom (AReturn false false) SNil) o -> o = Return false.
Proof.
  intros H. inversion H; subst;
    match goal with Hx : exec_atom _ _ |- _ => inversion Hx; subst end; reflexivity.
Qed.

Lemma trunc_body_exec body o :
  exec_stmts (trunc_stmts body initial_mode initial_found_continue) o -> exec_stmts body o.
Proof.
  intros H. assert (X : exec (trunc (BCode body)) o) by (rewrite trunc_code; constructor; exact H).
  apply (proj1 dead_mutual) in X. inversion X; subst. assumption.
Qed.

Lemma trunc_body_sound body o :
  exec_stmts (trunc_stmts body initial_mode initial_found_continue) o -> core o ->
  covers (modes_stmts body initial_mode initial_found_continue) o.
Proof.
  intros H C. rewrite <- modes_code. apply (proj1 sound_mutual).
  - rewrite trunc_code. constructor. exact H.
  - left. exact C.
Qed.

Lemma not_escaping_abrupt o : o <> Normal -> o <> Break -> o <> Continue -> abrupt o.
Proof. unfold abrupt. destruct o; intros; try congruence; eauto. Qed.

Lemma elab_accepted_inv ue d ret body ss m :
  elab_func ue d ret body = Accepted ss m ->
  let ss0 := trunc_stmts body initial_mode initial_found_continue in
  let m0 := modes_stmts body initial_mode initial_found_continue in
  diags ue ret (BCode body) = [] /\
  ((has F_NONE m0 = false /\ ss = ss0 /\ m = m0) \/
   (has F_NONE m0 = true /\ ret = RetEmpty /\
    ss = app_stmts ss0 (SAtom (AReturn false false) SNil) /\ m = replace m0 NONE RETURN)).
Proof.
  unfold elab_func, trunc_stmts, modes_stmts.
  destruct (diags ue ret (BCode body)) as [|e l]; [|discriminate].
  destruct (analyse_stmts body initial_mode initial_found_continue) as [ss0 m0]. simpl.
  destruct (negb (func_assert_1 m0 (ret_is_empty ret) d)); [discriminate|].
  destruct (negb (func_assert_2 m0 (ret_is_empty ret) d)); [discriminate|].
  unfold func_needs_fixup, func_missing_return, func_fixup_modes.
  change NONE with (single F_NONE). rewrite m_in_single.
  destruct (has F_NONE m0) eqn:HN.
  - destruct ret; simpl; [|discriminate]. intros E. inversion E; subst. split; [reflexivity|].
    right. auto.
  - intros E. inversion E; subst. split; [reflexivity|]. left. auto.
Qed.

(* (c) In an accepted function no terminating execution of the final body (after the implicit
   return has been inserted) ends by running off its end, nor by a stray break/continue: it
   returns, is defeated, or enters a terminal state.  The mode recorded for the final body
   lacks NONE -- which is what makes the generator omit any fall-through code. *)
Theorem body_never_completes : forall ue d ret body ss m,
  elab_func ue d ret body = Accepted ss m ->
  has F_NONE m = false /\
  (closed_stmts false body = true -> forall o, exec_stmts ss o -> abrupt o).
Proof.
  intros ue d ret body ss m E. apply elab_accepted_inv in E. cbv zeta in E.
  destruct E as [_ [(HN & -> & ->)|(HN & -> & -> & ->)]].
  - split; [exact HN|]. intros C o H.
    pose proof (trunc_body_exec _ _ H) as Hb. destruct (no_escape _ _ C Hb) as [nb nc].
    apply not_escaping_abrupt; try assumption. intros ->.
    pose proof (trunc_body_sound _ _ H I) as S. unfold covers in S; simpl in S. congruence.
  - split.
    + rewrite has_replace, HN. reflexivity.
    + intros C o H. apply exec_app in H. destruct H as [[H Hn]|[_ H]].
      * pose proof (trunc_body_exec _ _ H) as Hb. destruct (no_escape _ _ C Hb) as [nb nc].
        apply not_escaping_abrupt; assumption.
      * apply exec_return_only in H. subst. left. eauto.
Qed.

(* a value-returning function whose body may complete is never accepted ... *)
Theorem missing_return_rejected : forall ue d body,
  has F_NONE (modes_of (BCode body)) = true ->
  forall ss m, elab_func ue d RetValue body <> Accepted ss m.
Proof.
  intros ue d body HN ss m E. apply elab_accepted_inv in E. cbv zeta in E.
  rewrite modes_code in HN.
  destruct E as [_ [(HN' & _)|(_ & R & _)]]; [congruence | discriminate].
Qed.

(* ... and, when nothing else is wrong with it, the error is 'Missing return statement' *)
Theorem missing_return_exact : forall ue d body,
  diags ue RetValue (BCode body) = [] ->
  has F_BREAK (modes_of (BCode body)) = false ->
  (has F_DEFEAT (modes_of (BCode body)) = true -> d = true) ->
  has F_NONE (modes_of (BCode body)) = true ->
  elab_func ue d RetValue body = Rejected ErrMissingReturn.
Proof.
  intros ue d body D HB HD HN. rewrite modes_code in *. unfold elab_func, modes_stmts in *. rewrite D.
  destruct (analyse_stmts body initial_mode initial_found_continue) as [ss0 m0]. simpl in *.
  unfold func_assert_1, func_assert_2, func_needs_fixup, func_missing_return.
  change BREAK with (single F_BREAK). change DEFEAT with (single F_DEFEAT).
  change NONE with (single F_NONE). rewrite !m_in_single, HB, HN. simpl.
  destruct (has F_DEFEAT m0); simpl; [rewrite HD; reflexivity | reflexivity].
Qed.

(* conversely an `empty` function is never rejected for a missing return *)
Lemma diags_no_missing ue ret :
  (forall b, ~ In ErrMissingReturn (diags ue ret b)) /\
  (forall ss m fc, ~ In ErrMissingReturn (diags_stmts ue ret ss m fc)).
Proof.
  apply block_stmts_mutind.
  - intros ss IH. simpl. apply IH.
  - intros c t IHt e IHe. simpl. rewrite in_app_iff. tauto.
  - intros c b IHb k. simpl. exact IHb.
  - intros b IHb k h IHh. simpl. rewrite in_app_iff. tauto.
  - intros b IHb. simpl. exact IHb.
  - intros m fc. simpl. tauto.
  - intros a r IH m fc. simpl. destruct (loop_exit_guard m fc).
    + destruct ue; simpl; intuition discriminate.
    + rewrite in_app_iff. intros [X|X]; [|exact (IH _ _ X)].
      destruct a as [s|[] hh| |], ret; simpl in X; intuition discriminate.
  - intros b IHb r IHr m fc. simpl. destruct (loop_exit_guard m fc).
    + destruct ue; simpl; intuition discriminate.
    + rewrite in_app_iff. intros [X|X]; [exact (IHb X) | exact (IHr _ _ X)].
Qed.

Theorem empty_never_missing_return : forall ue d body,
  elab_func ue d RetEmpty body <> Rejected ErrMissingReturn.
Proof.
  intros ue d body. unfold elab_func.
  destruct (diags ue RetEmpty (BCode body)) as [|e l] eqn:D.
  - destruct (analyse_stmts body initial_mode initial_found_continue) as [ss0 m0]. simpl.
    repeat match goal with |- context [if ?c then _ else _] => destruct c end; discriminate.
  - intros E. inversion E; subst. clear E.
    apply (proj1 (diags_no_missing ue RetEmpty) (BCode body)). rewrite D. left. reflexivity.
Qed.

(* "returns with a value, for non-empty functions" *)
Lemma loop_return c body k v (P : Prop) :
  (exec body (Return v) -> P) -> exec (BLoop c body k) (Return v) -> P.
Proof.
  intros Hb H. remember (BLoop c body k) as L eqn:EL. remember (Return v) as o eqn:Eo.
  induction H; inversion EL; subst; clear EL; try discriminate.
  - destruct H as [_ [X|X]]; discriminate X.
  - auto.
  - exfalso. assert (E : Return v = Normal \/ Return v = Defeat \/ Return v = Terminal).
    { destruct k as [s|]; simpl in H2; [eapply exec_simple_outcomes; eauto | auto]. }
    destruct E as [X|[X|X]]; discriminate X.
  - apply IHexec2; [reflexivity | assumption | reflexivity].
Qed.

Theorem return_kind_mutual :
  (forall b ue ret v, diags ue ret b = [] -> exec (trunc b) (Return v) -> v = negb (ret_is_empty ret)) /\
  (forall ss ue ret m fc v, loop_exit_guard m fc = false -> diags_stmts ue ret ss m fc = [] ->
     exec_stmts (trunc_stmts ss m fc) (Return v) -> v = negb (ret_is_empty ret)).
Proof.
  apply block_stmts_mutind.
  - intros ss IH ue ret v D H. unf. inversion H; subst. simpl in D. eapply IH; eauto. reflexivity.
  - intros c t IHt e IHe ue ret v D H. unf. simpl in D. apply app_eq_nil in D. destruct D as [Dt De].
    inversion H; subst.
    + match goal with Hx : cond_abort _ _ |- _ => destruct Hx as [_ [X|X]]; discriminate X end.
    + eapply IHt; eauto.
    + eapply IHe; eauto.
  - intros c b IHb k ue ret v D H. unf. simpl in D. eapply loop_return; [|exact H].
    intros Hb. eapply IHb; eauto.
  - intros b IHb k h IHh ue ret v D H. unf. simpl in D. apply app_eq_nil in D. destruct D as [Db Dh].
    inversion H; subst; [eapply IHb | eapply IHh]; eauto.
  - intros b IHb ue ret v D H. unf. simpl in D. inversion H; subst. eapply IHb; eauto.
  - intros ue ret m fc v _ _ H. unf. inversion H.
  - intros a r IH ue ret m fc v G D H. unf. simpl in D. rewrite G in *.
    destruct (guard_false _ _ G) as [Gm Gf]. subst fc.
    apply app_eq_nil in D. destruct D as [Da Dr].
    inversion H; subst.
    + match goal with Hx : exec_atom a (Return v) |- _ => inversion Hx; subst end.
      * match goal with Hs : exec_simple _ _ |- _ =>
          apply exec_simple_outcomes in Hs; destruct Hs as [X|[X|X]]; discriminate X end.
      * destruct v, ret; simpl in *; try reflexivity; discriminate Da.
    + match goal with Hx : exec_atom a Normal |- _ => destruct (atom_normal a m Hx Gm) as [N C] end.
      eapply IH; [| exact Dr | eassumption]. rewrite guard_spec, N, C. reflexivity.
  - intros b IHb r IHr ue ret m fc v G D H. unf. simpl in D. rewrite G in *.
    destruct (guard_false _ _ G) as [Gm Gf]. subst fc.
    apply app_eq_nil in D. destruct D as [Db Dr].
    inversion H; subst.
    + eapply IHb; eauto.
    + eapply IHr with (m := block_update m (modes_of b)) (fc := (block_continue || false)%bool);
        [| exact Dr | eassumption].
      match goal with Hx : exec (trunc b) Normal |- _ =>
        pose proof (proj1 sound_mutual b Normal Hx (or_introl I)) as C end.
      unfold covers in C; simpl in C. rewrite guard_spec, (block_update_adds m _ _ C). reflexivity.
Qed.

Theorem returns_carry_value : forall ue d ret body ss m v,
  elab_func ue d ret body = Accepted ss m -> exec_stmts ss (Return v) ->
  v = negb (ret_is_empty ret).
Proof.
  intros ue d ret body ss m v E H. apply elab_accepted_inv in E. cbv zeta in E.
  destruct E as [D [(_ & -> & _)|(_ & -> & -> & _)]].
  - simpl in D. eapply (proj2 return_kind_mutual); eauto. reflexivity.
  - apply exec_app in H. destruct H as [[H _]|[_ H]].
    + simpl in D. eapply (proj2 return_kind_mutual); eauto. reflexivity.
    + apply exec_return_only in H. inversion H; subst. reflexivity.
Qed.

(* ------------------------------------------------------------------ analysing twice changes nothing *)
Lemma idem_parts b :
  analyse (trunc b) = (trunc b, modes_of b) ->
  trunc (trunc b) = trunc b /\ modes_of (trunc b) = modes_of b.
Proof. intros E. unfold trunc at 1, modes_of at 1. rewrite E. auto. Qed.
Lemma idem_parts_stmts ss m fc :
  analyse_stmts (trunc_stmts ss m fc) m fc = (trunc_stmts ss m fc, modes_stmts ss m fc) ->
  trunc_stmts (trunc_stmts ss m fc) m fc = trunc_stmts ss m fc /\
  modes_stmts (trunc_stmts ss m fc) m fc = modes_stmts ss m fc.
Proof. intros E. unfold trunc_stmts at 1, modes_stmts at 1. rewrite E. auto. Qed.

Theorem analyse_idem_mutual :
  (forall b, analyse (trunc b) = (trunc b, modes_of b)) /\
  (forall ss m fc, analyse_stmts (trunc_stmts ss m fc) m fc = (trunc_stmts ss m fc, modes_stmts ss m fc)).
Proof.
  apply block_stmts_mutind.
  - intros ss IH. unf. rewrite analyse_code.
    destruct (idem_parts_stmts _ _ _ (IH initial_mode initial_found_continue)) as [-> ->]. reflexivity.
  - intros c t IHt e IHe. unf. rewrite analyse_if.
    destruct (idem_parts _ IHt) as [-> ->]. destruct (idem_parts _ IHe) as [-> ->]. reflexivity.
  - intros c b IHb k. unf. rewrite analyse_loop. destruct (idem_parts _ IHb) as [-> ->]. reflexivity.
  - intros b IHb k h IHh. unf. rewrite analyse_try.
    destruct (idem_parts _ IHb) as [-> ->]. destruct (idem_parts _ IHh) as [-> ->]. reflexivity.
  - intros b IHb. unf. rewrite analyse_preempt. destruct (idem_parts _ IHb) as [-> ->]. reflexivity.
  - reflexivity.
  - intros a r IH m fc. unf. destruct (loop_exit_guard m fc) eqn:G; [reflexivity|].
    rewrite analyse_stmts_atom, G.
    destruct (idem_parts_stmts _ _ _ (IH (atom_update a m) (atom_continue a || fc)%bool)) as [-> ->].
    reflexivity.
  - intros b IHb r IHr m fc. unf. destruct (loop_exit_guard m fc) eqn:G; [reflexivity|].
    rewrite analyse_stmts_block, G. destruct (idem_parts _ IHb) as [-> ->].
    destruct (idem_parts_stmts _ _ _ (IHr (block_update m (modes_of b)) (block_continue || fc)%bool)) as [-> ->].
    reflexivity.
Qed.

Theorem analyse_idem : forall b, analyse (fst (analyse b)) = analyse b.
Proof.
  intros b. fold (trunc b). rewrite (proj1 analyse_idem_mutual).
  unfold trunc, modes_of. destruct (analyse b); reflexivity.
Qed.

(* ------------------------------------------------------------------ jumps end their block *)
(* In an analysed tree a return / break / continue is always the last statement of its code
   block (gen_stmts stops emitting at the first of them: nothing it skips exists). *)
Definition is_jump (a : atom) : bool :=
  match a with AReturn _ _ | ABreak | AContinue => true | ASimple _ => false end.

Fixpoint jumps_last (b : block) : bool :=
  match b with
  | BCode ss => jumps_last_stmts ss
  | BIf _ t e => jumps_last t && jumps_last e
  | BLoop _ body _ => jumps_last body
  | BTry body _ h => jumps_last body && jumps_last h
  | BPreempt body => jumps_last body
  end
with jumps_last_stmts (ss : stmts) : bool :=
  match ss with
  | SNil => true
  | SAtom a r => (if is_jump a then match r with SNil => true | _ => false end else true) && jumps_last_stmts r
  | SBlock b r => jumps_last b && jumps_last_stmts r
  end.

Lemma trunc_guarded ss m fc : loop_exit_guard m fc = true -> trunc_stmts ss m fc = SNil.
Proof. intros G. destruct ss; unf; rewrite ?G; reflexivity. Qed.

Theorem trunc_jumps_last_mutual :
  (forall b, jumps_last (trunc b) = true) /\
  (forall ss m fc, jumps_last_stmts (trunc_stmts ss m fc) = true).
Proof.
  apply block_stmts_mutind.
  - intros ss IH. unf. simpl. apply IH.
  - intros c t IHt e IHe. unf. simpl. rewrite IHt, IHe. reflexivity.
  - intros c b IHb k. unf. simpl. exact IHb.
  - intros b IHb k h IHh. unf. simpl. rewrite IHb, IHh. reflexivity.
  - intros b IHb. unf. simpl. exact IHb.
  - reflexivity.
  - intros a r IH m fc. unf. destruct (loop_exit_guard m fc) eqn:G; [reflexivity|].
    destruct (guard_false _ _ G) as [Gm _]. simpl. rewrite IH, andb_true_r.
    destruct (is_jump a) eqn:J; [|reflexivity].
    rewrite trunc_guarded; [reflexivity|]. rewrite guard_spec.
    destruct a as [s|v h| |]; try discriminate J;
      rewrite ?upd_return, ?upd_break, ?has_replace, ?Gm, ?atom_continue_spec; simpl;
      rewrite ?orb_true_r; reflexivity.
  - intros b IHb r IHr m fc. unf. destruct (loop_exit_guard m fc); [reflexivity|].
    simpl. rewrite IHb, IHr. reflexivity.
Qed.

Theorem trunc_jumps_last : forall b b' m, analyse b = (b', m) -> jumps_last b' = true.
Proof.
  intros b b' m E. destruct (analyse_eq _ _ _ E) as [-> _]. apply (proj1 trunc_jumps_last_mutual).
Qed.

(* ------------------------------------------------------------------ examples *)
Definition sq (l : list (atom + block)) : stmts :=
  fold_right (fun x r => match x with inl a => SAtom a r | inr b => SBlock b r end) SNil l.
Definition code (l : list (atom + block)) : block := BCode (sq l).
Definition A (a : atom) : atom + block := inl a.
Definition B (b : block) : atom + block := inr b.
Definition plain := A (ASimple Plain).
Definition ret_v := A (AReturn true false).
Definition ret_e := A (AReturn false false).

(* README, `int @max(const int[] arr)`:
     try { int max_val = arr[0];
           for (int i = 1; i < arr.length; i += 1) {
             if (arr[i] > max_val) { max_val = arr[i]; preempt { return max_val; } } }
           !is_defeat();
     } undo { return arr[0]; }                                                          *)
Definition max_body : stmts :=
  sq [B (BTry
           (code [plain;
                  B (code [plain;
                           B (BLoop CUnknown
                                (code [B (BIf CUnknown
                                            (code [plain; B (BPreempt (code [ret_v]))])
                                            (code []))])
                                (Some Plain))]);
                  A (ASimple IsDefeat)])
           Undo
           (code [ret_v]))].

Example max_modes : analyse (BCode max_body) = (BCode max_body, RETURN).
Proof. reflexivity. Qed.
Example max_accepted : elab_func true false RetValue max_body = Accepted max_body RETURN.
Proof. reflexivity. Qed.
Example max_closed : closed_stmts false max_body = true.
Proof. reflexivity. Qed.
Example max_visible : visible (BCode max_body) = true.
Proof. reflexivity. Qed.
(* one of its executions: the loop is left at once, the try body is defeated, undo returns *)
Example max_runs : exec_stmts max_body (Return true).
Proof.
  apply X_block_stop; [|discriminate]. apply X_try_handle.
  - constructor. apply X_atom_next; [repeat constructor|].
    apply X_block_next.
    + constructor. apply X_atom_next; [repeat constructor|].
      apply X_block_next; [|constructor]. apply X_loop_exit. exact I.
    + apply X_atom_stop; [repeat constructor | discriminate].
  - constructor. apply X_atom_stop; [constructor | discriminate].
Qed.

(* dropping: { return; x = 1; }  and the found_continue quirk: while (true) { continue; break; } *)
Definition drop1 : block := code [ret_e; plain].
Example drop1_analysis : analyse drop1 = (code [ret_e], RETURN).
Proof. reflexivity. Qed.
Definition drop2 : block := BLoop CTrue (code [A AContinue; A ABreak]) None.
Example drop2_analysis : analyse drop2 = (BLoop CTrue (code [A AContinue]) None, LOOP).
Proof. reflexivity. Qed.
(* without the quirk the `break` would be kept and the loop would have mode NONE *)
Example drop2_contrast : analyse (BLoop CTrue (code [A ABreak]) None) = (BLoop CTrue (code [A ABreak]) None, NONE).
Proof. reflexivity. Qed.
Example drop1_unreachable_option : elab_func true false RetEmpty (sq [ret_e; plain]) = Rejected ErrUnreachable.
Proof. reflexivity. Qed.

(* int f(bool c) { if (c) { return 1; } }  is rejected;  the empty version gets its return *)
Definition half_return : stmts := sq [B (BIf CUnknown (code [ret_v]) (code []))].
Example half_return_modes : modes_of (BCode half_return) = m_or NONE RETURN.
Proof. reflexivity. Qed.
Example half_return_rejected : elab_func false false RetValue half_return = Rejected ErrMissingReturn.
Proof. reflexivity. Qed.
Definition half_return_e : stmts := sq [B (BIf CUnknown (code [ret_e]) (code []))].
Example half_return_empty_accepted :
  elab_func false false RetEmpty half_return_e = Accepted (app_stmts half_return_e (sq [ret_e])) RETURN.
Proof. reflexivity. Qed.
(* int f() { while (true) { } }  is accepted: it never completes *)
Example spin_accepted :
  elab_func true false RetValue (sq [B (BLoop CTrue (code []) None)])
  = Accepted (sq [B (BLoop CTrue (code []) None)]) LOOP.
Proof. reflexivity. Qed.
(* int !f() { for (;; !is_defeat()) { } }  is accepted with mode LOOP although it is defeated *)
Example for_cont_defeat_accepted :
  elab_func true true RetValue (sq [B (code [B for_cont_defeat])])
  = Accepted (sq [B (code [B for_cont_defeat])]) LOOP.
Proof. reflexivity. Qed.

(* the hypotheses of the theorems are satisfiable *)
Example sound_hyps_sat :
  exists b b' m o, analyse b = (b', m) /\ visible b' = true /\ exec b' o /\ core o.
Proof.
  exists (BCode max_body), (BCode max_body), RETURN, (Return true).
  split; [reflexivity|]. split; [reflexivity|]. split; [constructor; exact max_runs | exact I].
Qed.
Example dead_hyps_sat : exists b b' m, analyse b = (b', m) /\ b <> b'.
Proof. exists drop1, (code [ret_e]), RETURN. split; [reflexivity | discriminate]. Qed.
Example accepted_hyps_sat :
  exists ue d ret body ss m o,
    elab_func ue d ret body = Accepted ss m /\ closed_stmts false body = true /\ exec_stmts ss o.
Proof.
  exists true, false, RetValue, max_body, max_body, RETURN, (Return true).
  split; [reflexivity|]. split; [reflexivity | exact max_runs].
Qed.
Example missing_return_hyps_sat : exists body, has F_NONE (modes_of (BCode body)) = true.
Proof. exists half_return. reflexivity. Qed.

(* ------------------------------------------------------------------ the option unreachable_error (C18) *)
(* The option only adds 'Unreachable statement' diagnostics: what is raised without it is what
   is raised with it, minus those. *)
Definition not_unreachable (e : error) : bool :=
  match e with ErrUnreachable => false | _ => true end.

Lemma atom_diag_keep ret a : filter not_unreachable (atom_diag ret a) = atom_diag ret a.
Proof. destruct a as [s|[] h| |], ret; reflexivity. Qed.

Theorem diags_lint_mutual ret :
  (forall b, diags false ret b = filter not_unreachable (diags true ret b)) /\
  (forall ss m fc, diags_stmts false ret ss m fc = filter not_unreachable (diags_stmts true ret ss m fc)).
Proof.
  apply block_stmts_mutind.
  - intros ss IH. simpl. apply IH.
  - intros c t IHt e IHe. simpl. rewrite filter_app, IHt, IHe. reflexivity.
  - intros c b IHb k. simpl. exact IHb.
  - intros b IHb k h IHh. simpl. rewrite filter_app, IHb, IHh. reflexivity.
  - intros b IHb. simpl. exact IHb.
  - reflexivity.
  - intros a r IH m fc. simpl. destruct (loop_exit_guard m fc); [reflexivity|].
    rewrite filter_app, atom_diag_keep, IH. reflexivity.
  - intros b IHb r IHr m fc. simpl. destruct (loop_exit_guard m fc); [reflexivity|].
    rewrite filter_app, IHb, IHr. reflexivity.
Qed.

(* everything after the diagnostics does not look at the option *)
Lemma elab_func_by_diags ue1 ue2 d ret body :
  diags ue1 ret (BCode body) = [] -> diags ue2 ret (BCode body) = [] ->
  elab_func ue1 d ret body = elab_func ue2 d ret body.
Proof. intros D1 D2. unfold elab_func. rewrite D1, D2. reflexivity. Qed.

(* (1) if the linting build accepts, the normal build accepts with the same checked body and
   mode -- so the code generated from it is the same *)
Theorem lint_only_rejects : forall d ret body ss m,
  elab_func true d ret body = Accepted ss m -> elab_func false d ret body = Accepted ss m.
Proof.
  intros d ret body ss m E.
  assert (DT : diags true ret (BCode body) = []).
  { unfold elab_func in E. destruct (diags true ret (BCode body)); [reflexivity | discriminate E]. }
  assert (DF : diags false ret (BCode body) = []).
  { rewrite (proj1 (diags_lint_mutual ret)), DT. reflexivity. }
  rewrite <- E. apply elab_func_by_diags; assumption.
Qed.

(* (2) the only verdict the option can add is 'Unreachable statement' *)
Theorem lint_rejects_only_unreachable : forall d ret body v,
  elab_func false d ret body = v ->
  elab_func true d ret body = v \/ elab_func true d ret body = Rejected ErrUnreachable.
Proof.
  intros d ret body v E.
  pose proof (proj1 (diags_lint_mutual ret) (BCode body)) as F.
  destruct (diags true ret (BCode body)) as [|e l] eqn:DT.
  - left. rewrite <- E. apply elab_func_by_diags; [exact DT | rewrite F; reflexivity].
  - destruct e.
    + right. unfold elab_func. rewrite DT. reflexivity.
    + left. rewrite <- E. unfold elab_func. rewrite DT, F. reflexivity.
    + left. rewrite <- E. unfold elab_func. rewrite DT, F. reflexivity.
    + left. rewrite <- E. unfold elab_func. rewrite DT, F. reflexivity.
Qed.

(* (3) `analyse` has no access to the option at all; whatever the option, an accepted body is
   what `analyse` returns for the source body, plus the implicit return when one is inserted *)
Theorem analyse_independent_of_lint : forall ue d ret body ss m,
  elab_func ue d ret body = Accepted ss m ->
  exists ss0 m0, analyse (BCode body) = (BCode ss0, m0) /\
    ((ss = ss0 /\ m = m0) \/
     (ss = app_stmts ss0 (SAtom (AReturn false false) SNil) /\ m = func_fixup_modes m0)).
Proof.
  intros ue d ret body ss m E. apply elab_accepted_inv in E. cbv zeta in E.
  exists (trunc_stmts body initial_mode initial_found_continue),
         (modes_stmts body initial_mode initial_found_continue).
  split; [apply analyse_code|].
  destruct E as [_ [(_ & -> & ->)|(_ & _ & -> & ->)]]; [left | right]; split; reflexivity.
Qed.

(* both cases of (2) occur *)
Example lint_same_verdict : elab_func false false RetValue max_body = elab_func true false RetValue max_body.
Proof. reflexivity. Qed.

