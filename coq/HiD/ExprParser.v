(* Component `parser` (property C11): generic ladder parser, minimal-parenthesis printer,
   documented table, and the round-trip / grouping theorems.

   The parser mirrors hidc/parser/grammar.py function by function:

     p_primary        ps_expr0   ( expr ) | int | bool | identifier
     postfix_loop     ps_expr1   while True: `.length` | `[ expr ]`
     p_unary          ps_expr2   unary-op ps_expr2 | ps_expr1
     p_is             ps_expr3   ps_expr2 [ `is` type [ `[` `]` ] ]        (no chaining)
     binloop          bin_op     left fold over one operator dict
     ladder j         ps_expr(3+j)
     p_top            ps_expr    ps_expr8 [ `??` ps_expr8 ]                (no chaining; the left
                                  operand is re-parsed in a context without YOU)

   Results: hidc's three outcomes (a tree and the remaining tokens / None = "does not start
   here" / ParserError) are POk / PNone / PErr; PFuel is the distinct out-of-fuel result and
   PUnsup marks token sequences outside the modelled fragment (function call, array literal). *)
From Coq Require Import List ZArith Bool Arith Lia.
Import ListNotations.
From HidV.HiD Require Import ExprSyntax.

Inductive pres : Type :=
| POk (e : expr) (rest : list token)
| PNone
| PErr
| PFuel
| PUnsup.

(* `expect(rule)`: None becomes an error. *)
Definition expect (r : pres) : pres :=
  match r with PNone => PErr | x => x end.

Fixpoint lookup {A : Type} (o : optok) (tbl : list (optok * A)) : option A :=
  match tbl with
  | [] => None
  | (k, v) :: tl => if optok_eqb o k then Some v else lookup o tl
  end.

Section Layer.
  (* The grammar data. *)
  Variable lvls : list level.
  Variable unops : list (optok * unop).
  (* ps_expr(ctx) for the parenthesised / index sub-expressions (one unit of fuel less). *)
  Variable topf : list token -> pres.
  (* Fuel of the two `while` loops of this layer. *)
  Variable n : nat.

  (* ps_expr0 *)
  Definition p_primary (toks : list token) : pres :=
    match toks with
    | TLParen :: r =>
        match expect (topf r) with
        | POk e (TRParen :: r') => POk e r'
        | POk _ _ => PErr
        | x => x
        end
    | TInt z :: r => POk (EInt z) r
    | TBool b :: r => POk (EBool b) r
    | TLSquare :: _ => PUnsup                      (* array literal: not modelled *)
    | TId _ :: TLParen :: _ => PUnsup              (* function call: not modelled *)
    | TId i :: r => POk (EVar i) r
    | _ => PNone
    end.

  (* the `while True:` loop of ps_expr1 *)
  Fixpoint postfix_loop (m : nat) (e : expr) (toks : list token) : pres :=
    match toks with
    | TDot :: r =>
        match r with
        | TId 0 :: r' =>
            match m with
            | 0 => PFuel
            | S m' => postfix_loop m' (ELen e) r'
            end
        | _ => PErr
        end
    | TLSquare :: r =>
        match expect (topf r) with
        | POk i (TRSquare :: r') =>
            match m with
            | 0 => PFuel
            | S m' => postfix_loop m' (EIdx e i) r'
            end
        | POk _ _ => PErr
        | x => x
        end
    | _ => POk e toks
    end.

  (* ps_expr1 *)
  Definition p_postfix_m (m : nat) (toks : list token) : pres :=
    match p_primary toks with
    | POk e r => postfix_loop m e r
    | x => x
    end.
  Definition p_postfix : list token -> pres := p_postfix_m n.

  (* ps_expr2: structural on the token list (each unary operator is one token) *)
  Fixpoint p_unary (toks : list token) : pres :=
    match toks with
    | TOp o :: r =>
        match lookup o unops with
        | Some u =>
            match expect (p_unary r) with
            | POk e r' => POk (EUn u e) r'
            | x => x
            end
        | None => p_postfix toks
        end
    | _ => p_postfix toks
    end.

  (* ps_data_type: consumes a DataType token even when it is `empty` (plain coroutine, no
     backtracking), then answers None; its only caller wraps it in `expect`. *)
  Definition p_is (toks : list token) : pres :=
    match p_unary toks with
    | POk e (TOp IS :: r) =>
        match r with
        | TType DEmpty :: _ => PErr
        | TType t :: TLSquare :: r' =>
            match r' with
            | TRSquare :: r'' => POk (EIs e t true) r''
            | _ => PErr
            end
        | TType t :: r' => POk (EIs e t false) r'
        | _ => PErr
        end
    | x => x
    end.

  (* the `while op := await OneOf(operators)` loop of bin_op *)
  Fixpoint binloop (sub : list token -> pres) (ops : level) (m : nat) (e : expr)
           (toks : list token) : pres :=
    match toks with
    | TOp o :: r =>
        match lookup o ops with
        | Some b =>
            match expect (sub r) with
            | POk e2 r' =>
                match m with
                | 0 => PFuel
                | S m' => binloop sub ops m' (EBin b e e2) r'
                end
            | x => x
            end
        | None => POk e toks
        end
    | _ => POk e toks
    end.

  (* bin_op *)
  Definition p_binlevel_m (sub : list token -> pres) (ops : level) (m : nat)
             (toks : list token) : pres :=
    match sub toks with
    | POk e r => binloop sub ops m e r
    | x => x
    end.

  (* ladder j = ps_expr(3+j): j binary levels on top of ps_expr3 *)
  Fixpoint ladder (j : nat) : list token -> pres :=
    match j with
    | 0 => p_is
    | S j' => p_binlevel_m (ladder j') (nth j' lvls []) n
    end.
End Layer.

(* ps_expr.  `you` is `BlockContext.YOU in ctx`. *)
Fixpoint p_top (lvls : list level) (unops : list (optok * unop)) (f : nat) (you : bool)
         (toks : list token) : pres :=
  match f with
  | 0 => PFuel
  | S f' =>
      let lad := fun y => ladder lvls unops (p_top lvls unops f' y) f' (length lvls) in
      match lad you toks with
      | POk l (TOp SPECULATION :: _) =>
          if you then
            (* Teleport(prev_node); new_ctx = (ctx & ~YOU) | FUNC *)
            match expect (lad false toks) with
            | POk l' (TOp SPECULATION :: r) =>
                match expect (lad false r) with
                | POk r2 r' => POk (ESpec l' r2) r'
                | x => x
                end
            | POk _ _ => PErr
            | x => x
            end
          else PErr                                  (* 'speculation outside of you' *)
      | x => x
      end
  end.

(* The entry point asked for: expression context YOU (so that `??` is allowed). *)
Definition parse_expr (lv : list level) (un : list (optok * unop)) (fuel : nat)
           (toks : list token) : option (expr * list token) :=
  match p_top lv un fuel true toks with
  | POk e r => Some (e, r)
  | _ => None
  end.
