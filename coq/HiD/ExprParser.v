(* Component `parser` (property C11): generic ladder parser, minimal-parenthesis printer,
   documented table, and the round-trip / grouping theorems.

   The parser mirrors hidc/parser/grammar.py function by function:

     p_primary        ps_expr0   ( expr ) | int | bool | identifier
     postfix_loop     ps_expr1   while True: `.length` | `[ expr ]`
     p_unary          ps_expr2   unary-op ps_expr2 | ps_expr1
     p_is             ps_expr3   ps_expr2 [ `is` type [ `[` `]` ] ]        (no chaining)
     binloop          bin_op     left fold over one operator dict
     ladder j         ps_expr(3+j)
     p_top            ps_expr    ps_expr8 [ `??` ps_expr8 ]                (no chaining; the left
                                  operand is re-parsed in a context without YOU)

   Results: hidc's three outcomes (a tree and the remaining tokens / None = "does not start
   here" / ParserError) are POk / PNone / PErr; PFuel is the distinct out-of-fuel result and
   PUnsup marks token sequences outside the modelled fragment (function call, array literal). *)
From Coq Require Import List ZArith Bool Arith Lia.
Import ListNotations.
From HidV.HiD Require Import ExprSyntax.

Inductive pres : Type :=
| POk (e : expr) (rest : list token)
| PNone
| PErr
| PFuel
| PUnsup.

(* `expect(rule)`: None becomes an error. *)
Definition expect (r : pres) : pres :=
  match r with PNone => PErr | x => x end.

Fixpoint lookup {A : Type} (o : optok) (tbl : list (optok * A)) : option A :=
  match tbl with
  | [] => None
  | (k, v) :: tl => if optok_eqb o k then Some v else lookup o tl
  end.

Section Layer.
  (* The grammar data. *)
  Variable lvls : list level.
  Variable unops : list (optok * unop).
  (* ps_expr(ctx) for the parenthesised / index sub-expressions (one unit of fuel less). *)
  Variable topf : list token -> pres.
  (* Fuel of the two `while` loops of this layer. *)
  Variable n : nat.

  (* ps_expr0 *)
  Definition p_primary (toks : list token) : pres :=
    match toks with
    | TLParen :: r =>
        match expect (topf r) with
        | POk e (TRParen :: r') => POk e r'
        | POk _ _ => PErr
        | x => x
        end
    | TInt z :: r => POk (EInt z) r
    | TBool b :: r => POk (EBool b) r
    | TLSquare :: _ => PUnsup                      (* array literal: not modelled *)
    | TId _ :: TLParen :: _ => PUnsup              (* function call: not modelled *)
    | TId i :: r => POk (EVar i) r
    | _ => PNone
    end.

  (* the `while True:` loop of ps_expr1 *)
  Fixpoint postfix_loop (m : nat) (e : expr) (toks : list token) : pres :=
    match toks with
    | TDot :: r =>
        match r with
        | TId 0 :: r' =>
            match m with
            | 0 => PFuel
            | S m' => postfix_loop m' (ELen e) r'
            end
        | _ => PErr
        end
    | TLSquare :: r =>
        match expect (topf r) with
        | POk i (TRSquare :: r') =>
            match m with
            | 0 => PFuel
            | S m' => postfix_loop m' (EIdx e i) r'
            end
        | POk _ _ => PErr
        | x => x
        end
    | _ => POk e toks
    end.

  (* ps_expr1 *)
  Definition p_postfix_m (m : nat) (toks : list token) : pres :=
    match p_primary toks with
    | POk e r => postfix_loop m e r
    | x => x
    end.
  Definition p_postfix : list token -> pres := p_postfix_m n.

  (* ps_expr2: structural on the token list (each unary operator is one token) *)
  Fixpoint p_unary (toks : list token) : pres :=
    match toks with
    | TOp o :: r =>
        match lookup o unops with
        | Some u =>
            match expect (p_unary r) with
            | POk e r' => POk (EUn u e) r'
            | x => x
            end
        | None => p_postfix toks
        end
    | _ => p_postfix toks
    end.

  (* ps_data_type: consumes a DataType token even when it is `empty` (plain coroutine, no
     backtracking), then answers None; its only caller wraps it in `expect`. *)
  Definition p_is (toks : list token) : pres :=
    match p_unary toks with
    | POk e (TOp IS :: r) =>
        match r with
        | TType DEmpty :: _ => PErr
        | TType t :: TLSquare :: r' =>
            match r' with
            | TRSquare :: r'' => POk (EIs e t true) r''
            | _ => PErr
            end
        | TType t :: r' => POk (EIs e t false) r'
        | _ => PErr
        end
    | x => x
    end.

  (* the `while op := await OneOf(operators)` loop of bin_op *)
  Fixpoint binloop (sub : list token -> pres) (ops : level) (m : nat) (e : expr)
           (toks : list token) : pres :=
    match toks with
    | TOp o :: r =>
        match lookup o ops with
        | Some b =>
            match expect (sub r) with
            | POk e2 r' =>
                match m with
                | 0 => PFuel
                | S m' => binloop sub ops m' (EBin b e e2) r'
                end
            | x => x
            end
        | None => POk e toks
        end
    | _ => POk e toks
    end.

  (* bin_op *)
  Definition p_binlevel_m (sub : list token -> pres) (ops : level) (m : nat)
             (toks : list token) : pres :=
    match sub toks with
    | POk e r => binloop sub ops m e r
    | x => x
    end.

  (* ladder j = ps_expr(3+j): j binary levels on top of ps_expr3 *)
  Fixpoint ladder (j : nat) : list token -> pres :=
    match j with
    | 0 => p_is
    | S j' => p_binlevel_m (ladder j') (nth j' lvls []) n
    end.
End Layer.

(* ps_expr.  `you` is `BlockContext.YOU in ctx`. *)
Fixpoint p_top (lvls : list level) (unops : list (optok * unop)) (f : nat) (you : bool)
         (toks : list token) : pres :=
  match f with
  | 0 => PFuel
  | S f' =>
      let lad := fun y => ladder lvls unops (p_top lvls unops f' y) f' (length lvls) in
      match lad you toks with
      | POk l (TOp SPECULATION :: _) =>
          if you then
            (* Teleport(prev_node); new_ctx = (ctx & ~YOU) | FUNC *)
            match expect (lad false toks) with
            | POk l' (TOp SPECULATION :: r) =>
                match expect (lad false r) with
                | POk r2 r' => POk (ESpec l' r2) r'
                | x => x
                end
            | POk _ _ => PErr
            | x => x
            end
          else PErr                                  (* 'speculation outside of you' *)
      | x => x
      end
  end.

(* The entry point asked for: expression context YOU (so that `??` is allowed). *)
Definition parse_expr (lv : list level) (un : list (optok * unop)) (fuel : nat)
           (toks : list token) : option (expr * list token) :=
  match p_top lv un fuel true toks with
  | POk e r => Some (e, r)
  | _ => None
  end.

(* ============================================================================================ *)
(* Printer with minimal parentheses                                                             *)
(* ============================================================================================ *)

Fixpoint find_in_level (b : binop) (ops : level) : option optok :=
  match ops with
  | [] => None
  | (o, b') :: tl => if binop_eqb b b' then Some o else find_in_level b tl
  end.

(* position (index of the level, tightest = 0) and token of a binary constructor *)
Fixpoint find_bin (b : binop) (lv : list level) (j : nat) : option (nat * optok) :=
  match lv with
  | [] => None
  | ops :: tl =>
      match find_in_level b ops with
      | Some o => Some (j, o)
      | None => find_bin b tl (S j)
      end
  end.

Fixpoint find_un (u : unop) (tbl : list (optok * unop)) : option optok :=
  match tbl with
  | [] => None
  | (o, u') :: tl => if unop_eqb u u' then Some o else find_un u tl
  end.

Section Printer.
  Variable lvls : list level.
  Variable unops : list (optok * unop).

  Definition bin_pos (b : binop) : nat * optok :=
    match find_bin b lvls 0 with Some p => p | None => (0, ADD) end.
  Definition un_tok (u : unop) : optok :=
    match find_un u unops with Some o => o | None => ADD end.

  (* Rule numbers as in grammar.py: 0 primary, 1 postfix, 2 unary, 3 `is`, 4+j the j-th binary
     level, 4 + number of levels = ps_expr (`??`). *)
  Definition topk : nat := 4 + length lvls.

  Definition level_of (e : expr) : nat :=
    match e with
    | EInt _ | EBool _ | EVar _ => 0
    | ELen _ | EIdx _ _ => 1
    | EUn _ _ => 2
    | EIs _ _ _ => 3
    | EBin b _ _ => 4 + fst (bin_pos b)
    | ESpec _ _ => topk
    end.

  (* parenthesise the already printed child `ts` of `e` iff `e` is looser than the position
     (rule k) admits *)
  Definition wrap (k : nat) (e : expr) (ts : list token) : list token :=
    if level_of e <=? k then ts else TLParen :: ts ++ [TRParen].

  Fixpoint tokens (e : expr) : list token :=
    match e with
    | EInt z => [TInt z]
    | EBool b => [TBool b]
    | EVar i => [TId i]
    | EUn u a => TOp (un_tok u) :: wrap 2 a (tokens a)
    | EIs a t arr =>
        wrap 2 a (tokens a) ++ TOp IS :: TType t :: (if arr then [TLSquare; TRSquare] else [])
    | EBin b l r =>
        let (j, o) := bin_pos b in
        wrap (4 + j) l (tokens l) ++ TOp o :: wrap (3 + j) r (tokens r)
    | ESpec l r =>
        wrap (topk - 1) l (tokens l) ++ TOp SPECULATION :: wrap (topk - 1) r (tokens r)
    | ELen a => wrap 1 a (tokens a) ++ [TDot; TId length_id]
    | EIdx a i => wrap 1 a (tokens a) ++ TLSquare :: tokens i ++ [TRSquare]
    end.

  Definition pr (k : nat) (e : expr) : list token := wrap k e (tokens e).
End Printer.

(* ============================================================================================ *)
(* The documented table (README.rst, section "Operators", "In order of precedence")             *)
(* ============================================================================================ *)

Definition all_optoks : list optok :=
  [ADD; SUB; MUL; DIV; MOD; EQ; NE; LT; GT; LE; GE; OR; AND; NOT; IS; SPECULATION].

(* order inside one level carries no meaning: list the entries in OpToken member order *)
Definition canon_level {A : Type} (ops : list (optok * A)) : list (optok * A) :=
  flat_map (fun o => match lookup o ops with Some b => [(o, b)] | None => [] end) all_optoks.

Module Spec.
  (*  * Unary ``+``, ``-``, ``not``  *)
  Definition readme_unary : list (optok * unop) := [(ADD, Pos); (SUB, Neg); (NOT, Not)].
  (*  * ``is`` (typecast pseudo-operator)          -- between unary and the binary levels      *)
  Definition readme_binary : list level :=
    [ (*  * ``*``, ``/``, ``%``                       *) [(MUL, Mul); (DIV, Div); (MOD, Mod)];
      (*  * ``+``, ``-``                              *) [(ADD, Add); (SUB, Sub)];
      (*  * ``==``, ``!=``, ``<``, ``<=``, ``>``, ``>=`` *)
        [(EQ, Eq); (NE, Ne); (LT, Lt); (LE, Le); (GT, Gt); (GE, Ge)];
      (*  * ``and``                                   *) [(AND, And)];
      (*  * ``or``                                    *) [(OR, Or)] ].
  (*  * ``??`` (speculation)                        -- loosest                                  *)

  Definition documented_levels : list level := map canon_level readme_binary.
  Definition documented_unary : list (optok * unop) := canon_level readme_unary.

  (* The rest of the property text, as the shape record of ExprSyntax.v: unary binds tighter than
     `is` (operand of `is` at the unary rule), `is` tighter than every binary level (the tightest
     binary level calls the `is` rule), binary levels nest in table order and fold to the left,
     `??` loosest with both operands one rule tighter, postfix on top of primaries, parentheses
     and index brackets restart at the loosest rule. *)
  Definition documented_shape : ladder_shape := {|
    sh_paren_inner       := RTop;
    sh_postfix_rule      := 1;
    sh_postfix_base      := R 0;
    sh_postfix_forms     := [PfLength; PfIndex];
    sh_postfix_loops     := true;
    sh_index_inner       := RTop;
    sh_unary_rule        := 2;
    sh_unary_operand     := R 2;
    sh_unary_fallthrough := R 1;
    sh_is_rule           := 3;
    sh_is_operand        := R 2;
    sh_is_chains         := false;
    sh_is_array_suffix   := true;
    sh_bin_chain         := [(4, 3); (5, 4); (6, 5); (7, 6); (8, 7)];
    sh_bin_assoc         := AssocLeft;
    sh_spec_first        := R 8;
    sh_spec_left         := R 8;
    sh_spec_right        := R 8;
    sh_spec_chains       := false
  |}.
End Spec.

(* ============================================================================================ *)
(* Well-formedness of a table (decidable; holds of the regenerated one by computation)          *)
(* ============================================================================================ *)

Definition keys_of {A : Type} (tbl : list (optok * A)) : list optok := map fst tbl.
Definition mem_op (o : optok) (l : list optok) : bool := existsb (optok_eqb o) l.

(* is `o` a key of one of the first j levels? *)
Definition in_levels_below (lv : list level) (j : nat) (o : optok) : bool :=
  existsb (fun ops => mem_op o (keys_of ops)) (firstn j lv).

Definition bin_ok (lv : list level) (b : binop) : bool :=
  match find_bin b lv 0 with
  | Some (j, o) =>
      match lookup o (nth j lv []) with
      | Some b' => binop_eqb b b'
      | None => false
      end
      && negb (in_levels_below lv j o)
      && negb (optok_eqb o IS)
  | None => false
  end.

Definition un_ok (un : list (optok * unop)) (u : unop) : bool :=
  match find_un u un with
  | Some o => match lookup o un with Some u' => unop_eqb u u' | None => false end
  | None => false
  end.

Definition table_ok (lv : list level) (un : list (optok * unop)) : bool :=
  forallb (bin_ok lv) all_binops
  && forallb (un_ok un) all_unops
  && negb (in_levels_below lv (length lv) SPECULATION).
