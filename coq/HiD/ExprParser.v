(* Component `parser` (property C11): generic ladder parser, minimal-parenthesis printer,
   documented table, and the round-trip / grouping theorems.

   The parser mirrors hidc/parser/grammar.py function by function:

     p_primary        ps_expr0   ( expr ) | int | bool | identifier
     postfix_loop     ps_expr1   while True: `.length` | `[ expr ]`
     p_unary          ps_expr2   unary-op ps_expr2 | ps_expr1
     p_is             ps_expr3   ps_expr2 [ `is` type [ `[` `]` ] ]        (no chaining)
     binloop          bin_op     left fold over one operator dict
     ladder j         ps_expr(3+j)
     p_top            ps_expr    ps_expr8 [ `??` ps_expr8 ]                (no chaining; the left
                                  operand is re-parsed in a context without YOU)

   Results: hidc's three outcomes (a tree and the remaining tokens / None = "does not start
   here" / ParserError) are POk / PNone / PErr; PFuel is the distinct out-of-fuel result and
   PUnsup marks token sequences outside the modelled fragment (function call, array literal). *)
From Coq Require Import List ZArith Bool Arith Lia.
Import ListNotations.
From HidV.HiD Require Import ExprSyntax.

Inductive pres : Type :=
| POk (e : expr) (rest : list token)
| PNone
| PErr
| PFuel
| PUnsup.

(* `expect(rule)`: None becomes an error. *)
Definition expect (r : pres) : pres :=
  match r with PNone => PErr | x => x end.

Fixpoint lookup {A : Type} (o : optok) (tbl : list (optok * A)) : option A :=
  match tbl with
  | [] => None
  | (k, v) :: tl => if optok_eqb o k then Some v else lookup o tl
  end.

Section Layer.
  (* The grammar data. *)
  Variable lvls : list level.
  Variable unops : list (optok * unop).
  (* ps_expr(ctx) for the parenthesised / index sub-expressions (one unit of fuel less). *)
  Variable topf : list token -> pres.
  (* Fuel of the two `while` loops of this layer. *)
  Variable n : nat.

  (* ps_expr0 *)
  Definition p_primary (toks : list token) : pres :=
    match toks with
    | TLParen :: r =>
        match expect (topf r) with
        | POk e (TRParen :: r') => POk e r'
        | POk _ _ => PErr
        | x => x
        end
    | TInt z :: r => POk (EInt z) r
    | TBool b :: r => POk (EBool b) r
    | TLSquare :: _ => PUnsup                      (* array literal: not modelled *)
    | TId _ :: TLParen :: _ => PUnsup              (* function call: not modelled *)
    | TId i :: r => POk (EVar i) r
    | _ => PNone
    end.

  (* the `while True:` loop of ps_expr1 *)
  Fixpoint postfix_loop (m : nat) (e : expr) (toks : list token) : pres :=
    match toks with
    | TDot :: r =>
        match r with
        | TId 0 :: r' =>
            match m with
            | 0 => PFuel
            | S m' => postfix_loop m' (ELen e) r'
            end
        | _ => PErr
        end
    | TLSquare :: r =>
        match expect (topf r) with
        | POk i (TRSquare :: r') =>
            match m with
            | 0 => PFuel
            | S m' => postfix_loop m' (EIdx e i) r'
            end
        | POk _ _ => PErr
        | x => x
        end
    | _ => POk e toks
    end.

  (* ps_expr1 *)
  Definition p_postfix_m (m : nat) (toks : list token) : pres :=
    match p_primary toks with
    | POk e r => postfix_loop m e r
    | x => x
    end.
  Definition p_postfix : list token -> pres := p_postfix_m n.

  (* ps_expr2: structural on the token list (each unary operator is one token) *)
  Fixpoint p_unary (toks : list token) : pres :=
    match toks with
    | TOp o :: r =>
        match lookup o unops with
        | Some u =>
            match expect (p_unary r) with
            | POk e r' => POk (EUn u e) r'
            | x => x
            end
        | None => p_postfix toks
        end
    | _ => p_postfix toks
    end.

  (* ps_data_type: consumes a DataType token even when it is `empty` (plain coroutine, no
     backtracking), then answers None; its only caller wraps it in `expect`. *)
  Definition p_is (toks : list token) : pres :=
    match p_unary toks with
    | POk e (TOp IS :: r) =>
        match r with
        | TType DEmpty :: _ => PErr
        | TType t :: TLSquare :: r' =>
            match r' with
            | TRSquare :: r'' => POk (EIs e t true) r''
            | _ => PErr
            end
        | TType t :: r' => POk (EIs e t false) r'
        | _ => PErr
        end
    | x => x
    end.

  (* the `while op := await OneOf(operators)` loop of bin_op *)
  Fixpoint binloop (sub : list token -> pres) (ops : level) (m : nat) (e : expr)
           (toks : list token) : pres :=
    match toks with
    | TOp o :: r =>
        match lookup o ops with
        | Some b =>
            match expect (sub r) with
            | POk e2 r' =>
                match m with
                | 0 => PFuel
                | S m' => binloop sub ops m' (EBin b e e2) r'
                end
            | x => x
            end
        | None => POk e toks
        end
    | _ => POk e toks
    end.

  (* bin_op *)
  Definition p_binlevel_m (sub : list token -> pres) (ops : level) (m : nat)
             (toks : list token) : pres :=
    match sub toks with
    | POk e r => binloop sub ops m e r
    | x => x
    end.

  (* ladder j = ps_expr(3+j): j binary levels on top of ps_expr3 *)
  Fixpoint ladder (j : nat) : list token -> pres :=
    match j with
    | 0 => p_is
    | S j' => p_binlevel_m (ladder j') (nth j' lvls []) n
    end.
End Layer.

(* ps_expr.  `you` is `BlockContext.YOU in ctx`. *)
Fixpoint p_top (lvls : list level) (unops : list (optok * unop)) (f : nat) (you : bool)
         (toks : list token) : pres :=
  match f with
  | 0 => PFuel
  | S f' =>
      let lad := fun y => ladder lvls unops (p_top lvls unops f' y) f' (length lvls) in
      match lad you toks with
      | POk l (TOp SPECULATION :: _) =>
          if you then
            (* Teleport(prev_node); new_ctx = (ctx & ~YOU) | FUNC *)
            match expect (lad false toks) with
            | POk l' (TOp SPECULATION :: r) =>
                match expect (lad false r) with
                | POk r2 r' => POk (ESpec l' r2) r'
                | x => x
                end
            | POk _ _ => PErr
            | x => x
            end
          else PErr                                  (* 'speculation outside of you' *)
      | x => x
      end
  end.

(* The entry point asked for: expression context YOU (so that `??` is allowed). *)
Definition parse_expr (lv : list level) (un : list (optok * unop)) (fuel : nat)
           (toks : list token) : option (expr * list token) :=
  match p_top lv un fuel true toks with
  | POk e r => Some (e, r)
  | _ => None
  end.

(* ============================================================================================ *)
(* Printer with minimal parentheses                                                             *)
(* ============================================================================================ *)

Fixpoint find_in_level (b : binop) (ops : level) : option optok :=
  match ops with
  | [] => None
  | (o, b') :: tl => if binop_eqb b b' then Some o else find_in_level b tl
  end.

(* position (index of the level, tightest = 0) and token of a binary constructor *)
Fixpoint find_bin (b : binop) (lv : list level) (j : nat) : option (nat * optok) :=
  match lv with
  | [] => None
  | ops :: tl =>
      match find_in_level b ops with
      | Some o => Some (j, o)
      | None => find_bin b tl (S j)
      end
  end.

Fixpoint find_un (u : unop) (tbl : list (optok * unop)) : option optok :=
  match tbl with
  | [] => None
  | (o, u') :: tl => if unop_eqb u u' then Some o else find_un u tl
  end.

Section Printer.
  Variable lvls : list level.
  Variable unops : list (optok * unop).

  Definition bin_pos (b : binop) : nat * optok :=
    match find_bin b lvls 0 with Some p => p | None => (0, ADD) end.
  Definition un_tok (u : unop) : optok :=
    match find_un u unops with Some o => o | None => ADD end.

  (* Rule numbers as in grammar.py: 0 primary, 1 postfix, 2 unary, 3 `is`, 4+j the j-th binary
     level, 4 + number of levels = ps_expr (`??`). *)
  Definition topk : nat := 4 + length lvls.

  Definition level_of (e : expr) : nat :=
    match e with
    | EInt _ | EBool _ | EVar _ => 0
    | ELen _ | EIdx _ _ => 1
    | EUn _ _ => 2
    | EIs _ _ _ => 3
    | EBin b _ _ => 4 + fst (bin_pos b)
    | ESpec _ _ => topk
    end.

  (* parenthesise the already printed child `ts` of `e` iff `e` is looser than the position
     (rule k) admits *)
  Definition wrap (k : nat) (e : expr) (ts : list token) : list token :=
    if level_of e <=? k then ts else TLParen :: ts ++ [TRParen].

  Fixpoint tokens (e : expr) : list token :=
    match e with
    | EInt z => [TInt z]
    | EBool b => [TBool b]
    | EVar i => [TId i]
    | EUn u a => TOp (un_tok u) :: wrap 2 a (tokens a)
    | EIs a t arr =>
        wrap 2 a (tokens a) ++ TOp IS :: TType t :: (if arr then [TLSquare; TRSquare] else [])
    | EBin b l r =>
        let (j, o) := bin_pos b in
        wrap (4 + j) l (tokens l) ++ TOp o :: wrap (3 + j) r (tokens r)
    | ESpec l r =>
        wrap (topk - 1) l (tokens l) ++ TOp SPECULATION :: wrap (topk - 1) r (tokens r)
    | ELen a => wrap 1 a (tokens a) ++ [TDot; TId length_id]
    | EIdx a i => wrap 1 a (tokens a) ++ TLSquare :: tokens i ++ [TRSquare]
    end.

  Definition pr (k : nat) (e : expr) : list token := wrap k e (tokens e).
End Printer.

(* ============================================================================================ *)
(* The documented table (README.rst, section "Operators", "In order of precedence")             *)
(* ============================================================================================ *)

Definition all_optoks : list optok :=
  [ADD; SUB; MUL; DIV; MOD; EQ; NE; LT; GT; LE; GE; OR; AND; NOT; IS; SPECULATION].

(* order inside one level carries no meaning: list the entries in OpToken member order *)
Definition canon_level {A : Type} (ops : list (optok * A)) : list (optok * A) :=
  flat_map (fun o => match lookup o ops with Some b => [(o, b)] | None => [] end) all_optoks.

Module Spec.
  (*  * Unary ``+``, ``-``, ``not``  *)
  Definition readme_unary : list (optok * unop) := [(ADD, Pos); (SUB, Neg); (NOT, Not)].
  (*  * ``is`` (typecast pseudo-operator)          -- between unary and the binary levels      *)
  Definition readme_binary : list level :=
    [ (*  * ``*``, ``/``, ``%``                       *) [(MUL, Mul); (DIV, Div); (MOD, Mod)];
      (*  * ``+``, ``-``                              *) [(ADD, Add); (SUB, Sub)];
      (*  * ``==``, ``!=``, ``<``, ``<=``, ``>``, ``>=`` *)
        [(EQ, Eq); (NE, Ne); (LT, Lt); (LE, Le); (GT, Gt); (GE, Ge)];
      (*  * ``and``                                   *) [(AND, And)];
      (*  * ``or``                                    *) [(OR, Or)] ].
  (*  * ``??`` (speculation)                        -- loosest                                  *)

  Definition documented_levels : list level := map canon_level readme_binary.
  Definition documented_unary : list (optok * unop) := canon_level readme_unary.

  (* The rest of the property text, as the shape record of ExprSyntax.v: unary binds tighter than
     `is` (operand of `is` at the unary rule), `is` tighter than every binary level (the tightest
     binary level calls the `is` rule), binary levels nest in table order and fold to the left,
     `??` loosest with both operands one rule tighter, postfix on top of primaries, parentheses
     and index brackets restart at the loosest rule. *)
  Definition documented_shape : ladder_shape := {|
    sh_paren_inner       := RTop;
    sh_postfix_rule      := 1;
    sh_postfix_base      := R 0;
    sh_postfix_forms     := [PfLength; PfIndex];
    sh_postfix_loops     := true;
    sh_index_inner       := RTop;
    sh_unary_rule        := 2;
    sh_unary_operand     := R 2;
    sh_unary_fallthrough := R 1;
    sh_is_rule           := 3;
    sh_is_operand        := R 2;
    sh_is_chains         := false;
    sh_is_array_suffix   := true;
    sh_bin_chain         := [(4, 3); (5, 4); (6, 5); (7, 6); (8, 7)];
    sh_bin_assoc         := AssocLeft;
    sh_spec_first        := R 8;
    sh_spec_left         := R 8;
    sh_spec_right        := R 8;
    sh_spec_chains       := false
  |}.
End Spec.

(* The printer follows the DOCUMENTED table; the parser of the theorems below runs on the REGENERATED one. *)
Definition tokens_min (e : expr) : list token :=
  tokens Spec.documented_levels Spec.documented_unary e.

(* ============================================================================================ *)
(* Well-formedness of a table (decidable; holds of the regenerated one by computation)          *)
(* ============================================================================================ *)

Definition keys_of {A : Type} (tbl : list (optok * A)) : list optok := map fst tbl.
Definition mem_op (o : optok) (l : list optok) : bool := existsb (optok_eqb o) l.

(* is `o` a key of one of the first j levels? *)
Definition in_levels_below (lv : list level) (j : nat) (o : optok) : bool :=
  existsb (fun ops => mem_op o (keys_of ops)) (firstn j lv).

Definition bin_ok (lv : list level) (b : binop) : bool :=
  match find_bin b lv 0 with
  | Some (j, o) =>
      match lookup o (nth j lv []) with
      | Some b' => binop_eqb b b'
      | None => false
      end
      && negb (in_levels_below lv j o)
      && negb (optok_eqb o IS)
  | None => false
  end.

Definition un_ok (un : list (optok * unop)) (u : unop) : bool :=
  match find_un u un with
  | Some o => match lookup o un with Some u' => unop_eqb u u' | None => false end
  | None => false
  end.

Definition table_ok (lv : list level) (un : list (optok * unop)) : bool :=
  forallb (bin_ok lv) all_binops
  && forallb (un_ok un) all_unops
  && negb (in_levels_below lv (length lv) SPECULATION).

(* ============================================================================================ *)
(* Round trip: parse (print e) = e, for every table satisfying table_ok                         *)
(* ============================================================================================ *)

(* Fuel: one unit per node of the tree is enough (S (size e) at the top). *)
Fixpoint size (e : expr) : nat :=
  match e with
  | EInt _ | EBool _ | EVar _ => 1
  | EUn _ a => S (size a)
  | EIs a _ _ => S (size a)
  | EBin _ l r => S (size l + size r)
  | ESpec l r => S (size l + size r)
  | ELen a => S (size a)
  | EIdx a i => S (size a + size i)
  end.

(* Well-formed trees = trees hidc can produce at all from an expression in a YOU context:
   - integer literals are non-negative (`-5` is Neg(5));
   - `is` never names the type `empty`;
   - `??` occurs only where the context still has YOU: not below another `??` (its operands are
     parsed in a context with YOU removed, parentheses and index brackets included). *)
Fixpoint wf_in (you : bool) (e : expr) : Prop :=
  match e with
  | EInt z => (0 <= z)%Z
  | EBool _ | EVar _ => True
  | EUn _ a => wf_in you a
  | EIs a t _ => t <> DEmpty /\ wf_in you a
  | EBin _ l r => wf_in you l /\ wf_in you r
  | ESpec l r => you = true /\ wf_in false l /\ wf_in false r
  | ELen a => wf_in you a
  | EIdx a i => wf_in you a /\ wf_in you i
  end.

Definition wf_expr : expr -> Prop := wf_in true.

Lemma wf_in_mono : forall e, wf_in false e -> wf_in true e.
Proof.
  induction e; simpl; intuition; discriminate.
Qed.

Lemma mem_op_lookup_none : forall (A : Type) o (ops : list (optok * A)),
  mem_op o (keys_of ops) = false -> lookup o ops = None.
Proof.
  induction ops as [|[k v] tl IH]; simpl; intro H; [reflexivity|].
  apply orb_false_iff in H. destruct H as [H1 H2]. rewrite H1. auto.
Qed.

Lemma lookup_below : forall lv j o j',
  in_levels_below lv j o = false -> j' < j -> lookup o (nth j' lv []) = None.
Proof.
  unfold in_levels_below.
  induction lv as [|ops tl IH]; intros j o j' H Hlt.
  - destruct j'; reflexivity.
  - destruct j as [|j]; [lia|]. simpl in H. apply orb_false_iff in H. destruct H as [H1 H2].
    destruct j' as [|j']; simpl.
    + apply mem_op_lookup_none; exact H1.
    + apply (IH j); [exact H2 | lia].
Qed.

Lemma in_levels_below_mono : forall lv j j' o,
  in_levels_below lv j o = false -> j' <= j -> in_levels_below lv j' o = false.
Proof.
  unfold in_levels_below.
  induction lv as [|ops tl IH]; intros j j' o H Hle.
  - destruct j'; reflexivity.
  - destruct j' as [|j']; [reflexivity|]. destruct j as [|j]; [lia|].
    simpl in *. apply orb_false_iff in H. destruct H as [H1 H2]. rewrite H1. simpl.
    apply (IH j); [exact H2 | lia].
Qed.

Section Roundtrip.
  Variable lvls : list level.
  Variable unops : list (optok * unop).
  Hypothesis Hok : table_ok lvls unops = true.

  Notation tokens := (tokens lvls unops).
  Notation pr := (pr lvls unops).
  Notation level_of := (level_of lvls).
  Notation topk := (topk lvls).
  Notation bin_pos := (bin_pos lvls).
  Notation un_tok := (un_tok unops).
  Notation ptop := (p_top lvls unops).

  (* ---- facts about a well-formed table ---- *)

  Lemma bin_fact : forall b,
    lookup (snd (bin_pos b)) (nth (fst (bin_pos b)) lvls []) = Some b /\
    in_levels_below lvls (fst (bin_pos b)) (snd (bin_pos b)) = false /\
    snd (bin_pos b) <> IS /\
    fst (bin_pos b) < length lvls.
  Proof.
    intro b. unfold table_ok in Hok.
    apply andb_true_iff in Hok. destruct Hok as [H12 _].
    apply andb_true_iff in H12. destruct H12 as [H1 _].
    rewrite forallb_forall in H1. specialize (H1 b (all_binops_complete b)).
    unfold bin_ok in H1. unfold ExprParser.bin_pos.
    destruct (find_bin b lvls 0) as [[j o]|]; [|discriminate]. simpl.
    apply andb_true_iff in H1. destruct H1 as [H1 H3].
    apply andb_true_iff in H1. destruct H1 as [H1 H2].
    assert (Hl : lookup o (nth j lvls []) = Some b).
    { destruct (lookup o (nth j lvls [])) as [b'|]; [|discriminate].
      apply binop_eqb_eq in H1. congruence. }
    split; [exact Hl|]. split.
    - apply negb_true_iff in H2. exact H2.
    - split.
      + apply negb_true_iff in H3. intro E. subst o. discriminate.
      + destruct (Nat.lt_ge_cases j (length lvls)) as [?|Hge]; [assumption|].
        rewrite nth_overflow in Hl by exact Hge. discriminate.
  Qed.

  Lemma un_fact : forall u, lookup (un_tok u) unops = Some u.
  Proof.
    intro u. unfold table_ok in Hok.
    apply andb_true_iff in Hok. destruct Hok as [H12 _].
    apply andb_true_iff in H12. destruct H12 as [_ H2].
    rewrite forallb_forall in H2. specialize (H2 u (all_unops_complete u)).
    unfold un_ok in H2. unfold ExprParser.un_tok.
    destruct (find_un u unops) as [o|]; [|discriminate].
    destruct (lookup o unops) as [u'|]; [|discriminate].
    apply unop_eqb_eq in H2. congruence.
  Qed.

  Lemma spec_fact : in_levels_below lvls (length lvls) SPECULATION = false.
  Proof.
    unfold table_ok in Hok. apply andb_true_iff in Hok. destruct Hok as [_ H].
    apply negb_true_iff in H. exact H.
  Qed.

  (* ---- which token may follow an expression parsed at rule k ---- *)

  Definition stop_tok (k : nat) (t : token) : bool :=
    match t with
    | TDot | TLSquare | TLParen => false
    | TOp o =>
        negb (in_levels_below lvls (k - 3) o)
        && (if 3 <=? k then negb (optok_eqb o IS) else true)
        && (if topk <=? k then negb (optok_eqb o SPECULATION) else true)
    | _ => true
    end.

  Definition follow_ok (k : nat) (rest : list token) : Prop :=
    match rest with
    | [] => True
    | t :: _ => stop_tok k t = true
    end.

  Lemma stop_tok_op : forall k o,
    stop_tok k (TOp o) = true <->
    in_levels_below lvls (k - 3) o = false /\ (3 <= k -> o <> IS) /\
    (topk <= k -> o <> SPECULATION).
  Proof.
    intros k o. unfold stop_tok.
    rewrite !andb_true_iff, negb_true_iff.
    assert (Hneq : forall x, negb (optok_eqb o x) = true <-> o <> x).
    { intro x. rewrite negb_true_iff. split.
      - intros H E. apply optok_eqb_eq in E. congruence.
      - intro H. destruct (optok_eqb o x) eqn:E; [|reflexivity].
        apply optok_eqb_eq in E. contradiction. }
    destruct (Nat.leb_spec 3 k); destruct (Nat.leb_spec topk k); rewrite ?Hneq;
      intuition; try lia.
  Qed.

  Lemma follow_ok_mono : forall k k' rest, k' <= k -> follow_ok k rest -> follow_ok k' rest.
  Proof.
    intros k k' [|t r] Hle H; [exact I|]. unfold follow_ok in *.
    destruct t; try exact H.
    apply stop_tok_op in H. apply stop_tok_op. destruct H as (H1 & H2 & H3).
    split; [|split].
    - apply (in_levels_below_mono lvls (k - 3)); [exact H1 | lia].
    - intro. apply H2. lia.
    - intro. apply H3. lia.
  Qed.

  Definition nolp (rest : list token) : Prop :=
    match rest with TLParen :: _ => False | _ => True end.

  Lemma follow_nolp : forall k rest, follow_ok k rest -> nolp rest.
  Proof. intros k [|[] r] H; simpl in *; try exact I. discriminate. Qed.

  Definition nonop_head (toks : list token) : bool :=
    match toks with TOp _ :: _ => false | _ => true end.

  (* ---- the parser for rule k (1 <= k < topk) at fuel f in context you ---- *)

  Definition rule (f : nat) (you : bool) (k : nat) : list token -> pres :=
    match k with
    | 0 | 1 => p_postfix (ptop f you) f
    | 2 => p_unary unops (ptop f you) f
    | S (S (S j)) => ladder lvls unops (ptop f you) f j
    end.

  (* ---- climbing: a result of a tighter rule is the result of a looser rule when the next
          token stops all the rules in between ---- *)

  Lemma postfix_loop_stop : forall topf m e rest,
    follow_ok 1 rest -> postfix_loop topf m e rest = POk e rest.
  Proof.
    intros topf m e [|t r] H; destruct m; simpl; try reflexivity;
      destruct t; simpl in H; try discriminate; reflexivity.
  Qed.

  Lemma climb_post : forall topf m toks e rest,
    p_primary topf toks = POk e rest -> follow_ok 1 rest ->
    p_postfix_m topf m toks = POk e rest.
  Proof.
    intros. unfold p_postfix_m. rewrite H. apply postfix_loop_stop; assumption.
  Qed.

  Lemma p_unary_nonop : forall topf n toks,
    nonop_head toks = true -> p_unary unops topf n toks = p_postfix topf n toks.
  Proof.
    intros topf n [|t r] H; [reflexivity|]. destruct t; try reflexivity. discriminate.
  Qed.

  Lemma climb_is : forall topf n toks e rest,
    p_unary unops topf n toks = POk e rest -> follow_ok 3 rest ->
    p_is unops topf n toks = POk e rest.
  Proof.
    intros topf n toks e rest H F. unfold p_is. rewrite H.
    destruct rest as [|t r]; [reflexivity|]. destruct t; try reflexivity.
    destruct o; try reflexivity.
    unfold follow_ok in F. apply stop_tok_op in F. destruct F as (_ & F & _).
    exfalso. apply F; [lia | reflexivity].
  Qed.

  Lemma binloop_stop : forall sub j m e rest k,
    j < k - 3 -> follow_ok k rest ->
    binloop sub (nth j lvls []) m e rest = POk e rest.
  Proof.
    intros sub j m e [|t r] k Hj F; destruct m; simpl; try reflexivity;
      destruct t; try reflexivity; unfold follow_ok in F;
      apply stop_tok_op in F; destruct F as (F & _ & _);
      rewrite (lookup_below lvls (k - 3) o j F Hj); reflexivity.
  Qed.

  Lemma climb_ladder : forall topf n toks e rest j j',
    ladder lvls unops topf n j toks = POk e rest -> j <= j' -> follow_ok (3 + j') rest ->
    ladder lvls unops topf n j' toks = POk e rest.
  Proof.
    intros topf n toks e rest j j' H Hle F.
    induction j' as [|j' IH].
    - assert (j = 0) by lia. subst j. exact H.
    - destruct (Nat.eq_dec j (S j')) as [->|Hne]; [exact H|].
      simpl. unfold p_binlevel_m. rewrite IH.
      + apply (binloop_stop _ j' n e rest (3 + S j')); [lia | exact F].
      + lia.
      + apply (follow_ok_mono (3 + S j')); [lia | exact F].
  Qed.

  Lemma climb_rule : forall f you k toks e rest,
    p_primary (ptop f you) toks = POk e rest -> nonop_head toks = true ->
    1 <= k -> follow_ok k rest ->
    rule f you k toks = POk e rest.
  Proof.
    intros f you k toks e rest H Hh Hk F.
    assert (H1 : p_postfix (ptop f you) f toks = POk e rest).
    { apply climb_post; [exact H|]. apply (follow_ok_mono k); [lia | exact F]. }
    destruct k as [|[|[|j]]]; simpl; try exact H1; try lia.
    - rewrite p_unary_nonop by exact Hh. exact H1.
    - apply (climb_ladder _ _ _ _ _ 0); [|lia|exact F].
      simpl. apply climb_is.
      + rewrite p_unary_nonop by exact Hh. exact H1.
      + apply (follow_ok_mono (3 + j)); [lia | exact F].
  Qed.

  Lemma climb_from_unary : forall f you k toks e rest,
    p_unary unops (ptop f you) f toks = POk e rest ->
    2 <= k -> follow_ok k rest ->
    rule f you k toks = POk e rest.
  Proof.
    intros f you k toks e rest H Hk F.
    destruct k as [|[|[|j]]]; simpl; try exact H; try lia.
    apply (climb_ladder _ _ _ _ _ 0); [|lia|exact F].
    simpl. apply climb_is; [exact H|].
    apply (follow_ok_mono (3 + j)); [lia | exact F].
  Qed.

  Lemma climb_from_ladder : forall f you k j toks e rest,
    ladder lvls unops (ptop f you) f j toks = POk e rest ->
    3 + j <= k -> follow_ok k rest ->
    rule f you k toks = POk e rest.
  Proof.
    intros f you k j toks e rest H Hk F.
    destruct k as [|[|[|j']]]; try lia. simpl.
    apply (climb_ladder _ _ _ _ _ j); [exact H | lia | exact F].
  Qed.

  (* ---- printer facts ---- *)

  Lemma pr_le : forall k e, level_of e <= k -> pr k e = tokens e.
  Proof.
    intros k e H. unfold ExprParser.pr, wrap.
    apply Nat.leb_le in H. rewrite H. reflexivity.
  Qed.

  Lemma pr_gt : forall k e, k < level_of e -> pr k e = TLParen :: tokens e ++ [TRParen].
  Proof.
    intros k e H. unfold ExprParser.pr, wrap.
    apply Nat.leb_gt in H. rewrite H. reflexivity.
  Qed.

  Lemma nonop_head_pr1 : forall e rest, nonop_head (pr 1 e ++ rest) = true.
  Proof.
    assert (G : forall e, (level_of e <= 1 -> forall rest, nonop_head (tokens e ++ rest) = true) ->
                          forall rest, nonop_head (pr 1 e ++ rest) = true).
    { intros e H rest. destruct (Nat.le_gt_cases (level_of e) 1) as [Hl|Hl].
      - rewrite (pr_le _ _ Hl). apply H. exact Hl.
      - rewrite (pr_gt _ _ Hl). reflexivity. }
    induction e as [z|b|i|u a IHa|a IHa t arr|b l IHl r IHr|l IHl r IHr|a IHa|a IHa i IHi];
      apply G; intros Hl rest; try reflexivity; try (simpl in Hl; unfold ExprParser.topk in Hl; lia).
    - cbn [ExprParser.tokens]. fold (pr 1 a). rewrite <- app_assoc. apply IHa.
    - cbn [ExprParser.tokens]. fold (pr 1 a). rewrite <- app_assoc. apply IHa.
  Qed.

  (* ---- the statements proved together by induction on the tree ---- *)

  Fixpoint pspine (e : expr) : nat :=
    match e with
    | ELen a | EIdx a _ => S (pspine a)
    | _ => 0
    end.

  Fixpoint bspine (j : nat) (e : expr) : nat :=
    match e with
    | EBin b l _ => if fst (bin_pos b) =? j then S (bspine j l) else 0
    | _ => 0
    end.

  (* A: the unparenthesised tokens of e parse back at every rule that admits e's level *)
  Definition A_stmt (e : expr) : Prop :=
    forall f you k rest,
      size e <= f -> wf_in you e -> level_of e <= k -> 1 <= k -> k < topk -> follow_ok k rest ->
      rule f you k (tokens e ++ rest) = POk e rest.

  (* T: ... and at ps_expr itself *)
  Definition T_stmt (e : expr) : Prop :=
    forall f you rest,
      size e <= f -> wf_in you e -> follow_ok topk rest ->
      ptop (S f) you (tokens e ++ rest) = POk e rest.

  (* P: e in postfix-base position leaves the postfix loop running with e accumulated *)
  Definition P_stmt (e : expr) : Prop :=
    forall f you rest m,
      size e < f -> wf_in you e -> pspine e <= m -> nolp rest ->
      p_postfix_m (ptop f you) m (pr 1 e ++ rest)
      = postfix_loop (ptop f you) (m - pspine e) e rest.

  (* S: e in left-operand position of level j leaves bin_op's loop running with e accumulated *)
  Definition S_stmt (e : expr) : Prop :=
    forall j f you rest m,
      j < length lvls -> size e < f -> wf_in you e -> bspine j e <= m ->
      follow_ok (3 + j) rest ->
      p_binlevel_m (ladder lvls unops (ptop f you) f j) (nth j lvls []) m (pr (4 + j) e ++ rest)
      = binloop (ladder lvls unops (ptop f you) f j) (nth j lvls []) (m - bspine j e) e rest.

  (* B: e printed for position k (parenthesised if necessary) parses back at rule k *)
  Definition B_stmt (e : expr) : Prop :=
    forall f you k rest,
      size e < f -> wf_in you e -> 1 <= k -> k < topk -> follow_ok k rest ->
      rule f you k (pr k e ++ rest) = POk e rest.

  Lemma paren_primary : forall e f you rest,
    T_stmt e -> size e < f -> wf_in you e ->
    p_primary (ptop f you) (TLParen :: (tokens e ++ [TRParen]) ++ rest) = POk e rest.
  Proof.
    intros e f you rest HT Hs Hw.
    destruct f as [|f']; [lia|].
    rewrite <- app_assoc. unfold p_primary. cbv beta iota.
    rewrite (HT f' you ([TRParen] ++ rest)); [reflexivity | lia | exact Hw | reflexivity].
  Qed.

  Lemma B_of : forall e, A_stmt e -> T_stmt e -> B_stmt e.
  Proof.
    intros e HA HT f you k rest Hs Hw Hk1 Hk2 F.
    destruct (Nat.le_gt_cases (level_of e) k) as [Hl|Hl].
    - rewrite (pr_le _ _ Hl). apply HA; try assumption. lia.
    - rewrite (pr_gt _ _ Hl). apply climb_rule; try assumption.
      + apply paren_primary; assumption.
      + reflexivity.
  Qed.

  Lemma T_of_A : forall e, level_of e < topk -> A_stmt e -> T_stmt e.
  Proof.
    intros e Hlv HA f you rest Hs Hw F.
    assert (H : ladder lvls unops (ptop f you) f (length lvls) (tokens e ++ rest) = POk e rest).
    { apply (HA f you (3 + length lvls) rest); try assumption.
      - unfold ExprParser.topk in Hlv. lia.
      - lia.
      - unfold ExprParser.topk. lia.
      - apply (follow_ok_mono topk); [unfold ExprParser.topk; lia | exact F]. }
    cbn [p_top]. cbv zeta. rewrite H.
    destruct rest as [|t r]; [reflexivity|].
    destruct t; try reflexivity. destruct o; try reflexivity.
    unfold follow_ok in F. apply stop_tok_op in F. destruct F as (_ & _ & F).
    exfalso. apply F; [lia | reflexivity].
  Qed.

  Lemma P_of_T : forall e, 2 <= level_of e -> T_stmt e -> P_stmt e.
  Proof.
    intros e Hl HT f you rest m Hs Hw Hm Hn.
    assert (Hp : pspine e = 0) by (destruct e; simpl in Hl; try lia; reflexivity).
    rewrite Hp, Nat.sub_0_r. rewrite pr_gt by lia.
    unfold p_postfix_m. rewrite <- app_comm_cons. rewrite paren_primary by assumption. reflexivity.
  Qed.

  Lemma pr_skip : forall e j, level_of e <> 4 + j -> pr (4 + j) e = pr (3 + j) e.
  Proof.
    intros e j H.
    destruct (Nat.le_gt_cases (level_of e) (3 + j)) as [Hl|Hl].
    - rewrite !pr_le by lia. reflexivity.
    - rewrite !pr_gt by lia. reflexivity.
  Qed.

  Lemma S_of_B : forall e, B_stmt e -> forall j f you rest m,
    level_of e <> 4 + j ->
    j < length lvls -> size e < f -> wf_in you e -> bspine j e <= m ->
    follow_ok (3 + j) rest ->
    p_binlevel_m (ladder lvls unops (ptop f you) f j) (nth j lvls []) m (pr (4 + j) e ++ rest)
    = binloop (ladder lvls unops (ptop f you) f j) (nth j lvls []) (m - bspine j e) e rest.
  Proof.
    intros e HB j f you rest m Hne Hj Hs Hw Hm F.
    assert (Hb : bspine j e = 0).
    { destruct e; try reflexivity. simpl in *.
      destruct (Nat.eqb_spec (fst (bin_pos b)) j); [lia | reflexivity]. }
    rewrite Hb, Nat.sub_0_r. rewrite pr_skip by exact Hne.
    unfold p_binlevel_m.
    assert (H := HB f you (3 + j) rest Hs Hw).
    change (rule f you (3 + j)) with (ladder lvls unops (ptop f you) f j) in H. rewrite H; [reflexivity | lia | unfold ExprParser.topk; lia | exact F].
  Qed.

  (* own-level variants (no parentheses around e itself, so fuel size e suffices) *)
  Definition P'_stmt (e : expr) : Prop :=
    forall f you rest m,
      level_of e <= 1 -> size e <= f -> wf_in you e -> pspine e <= m -> nolp rest ->
      p_postfix_m (ptop f you) m (tokens e ++ rest)
      = postfix_loop (ptop f you) (m - pspine e) e rest.

  Definition S'_stmt (e : expr) : Prop :=
    forall j f you rest m,
      level_of e = 4 + j ->
      j < length lvls -> size e <= f -> wf_in you e -> bspine j e <= m ->
      follow_ok (3 + j) rest ->
      p_binlevel_m (ladder lvls unops (ptop f you) f j) (nth j lvls []) m (tokens e ++ rest)
      = binloop (ladder lvls unops (ptop f you) f j) (nth j lvls []) (m - bspine j e) e rest.

  Definition All (e : expr) : Prop := A_stmt e /\ T_stmt e /\ P'_stmt e /\ S'_stmt e.

  Lemma B_of_All : forall e, All e -> B_stmt e.
  Proof. intros e (HA & HT & _ & _). apply B_of; assumption. Qed.

  Lemma P_of_All : forall e, All e -> P_stmt e.
  Proof.
    intros e (HA & HT & HP & _).
    destruct (Nat.le_gt_cases (level_of e) 1) as [Hl|Hl].
    - intros f you rest m Hs Hw Hm Hn. rewrite (pr_le _ _ Hl). apply HP; try assumption. lia.
    - apply P_of_T; [lia | exact HT].
  Qed.

  Lemma S_of_All : forall e, All e -> S_stmt e.
  Proof.
    intros e HAll j f you rest m Hj Hs Hw Hm F.
    destruct (Nat.eq_dec (level_of e) (4 + j)) as [He|He].
    - destruct HAll as (_ & _ & _ & HS). rewrite pr_le by lia.
      apply HS; try assumption. lia.
    - apply S_of_B; try assumption. apply B_of_All; exact HAll.
  Qed.

  (* ---- atoms ---- *)

  Lemma All_atom : forall e,
    level_of e = 0 -> size e = 1 ->
    (forall topf rest, nolp rest -> p_primary topf (tokens e ++ rest) = POk e rest) ->
    nonop_head (tokens e) = true -> tokens e <> [] ->
    All e.
  Proof.
    intros e Hl Hsz Hp Hh Hne.
    assert (Hh' : forall rest, nonop_head (tokens e ++ rest) = true).
    { intro rest. destruct (tokens e) as [|t r]; [congruence|]. exact Hh. }
    assert (HA : A_stmt e).
    { intros f you k rest Hs Hw Hlk Hk1 Hk2 F.
      apply climb_rule.
      - apply Hp. apply (follow_nolp k). exact F.
      - apply Hh'.
      - exact Hk1.
      - exact F. }
    split; [exact HA|]. split; [|split].
    - apply T_of_A; [rewrite Hl; unfold ExprParser.topk; lia | exact HA].
    - intros f you rest m _ Hs Hw Hm Hn.
      assert (Hps : pspine e = 0) by (destruct e; simpl in Hl; try lia; reflexivity).
      rewrite Hps, Nat.sub_0_r. unfold p_postfix_m. rewrite Hp by exact Hn. reflexivity.
    - intros j f you rest m He. lia.
  Qed.

  Lemma All_int : forall z, All (EInt z).
  Proof. intro z. apply All_atom; try reflexivity. discriminate. Qed.

  Lemma All_bool : forall b, All (EBool b).
  Proof. intro b. apply All_atom; try reflexivity. discriminate. Qed.

  Lemma All_var : forall i, All (EVar i).
  Proof.
    intro i. apply All_atom; try reflexivity; [|discriminate].
    intros topf rest Hn. destruct rest as [|t r]; [reflexivity|].
    destruct t; try reflexivity. destruct Hn.
  Qed.

  (* ---- generic closing step for expressions whose own level is 1 (postfix) ---- *)

  Lemma All_postfix : forall e,
    level_of e = 1 -> P'_stmt e -> pspine e <= size e ->
    (forall rest, nonop_head (tokens e ++ rest) = true) ->
    All e.
  Proof.
    intros e Hl HP Hsp Hh.
    assert (HA : A_stmt e).
    { intros f you k rest Hs Hw Hlk Hk1 Hk2 F.
      assert (H1 : p_postfix (ptop f you) f (tokens e ++ rest) = POk e rest).
      { unfold p_postfix. rewrite HP; try assumption; try lia.
        - apply postfix_loop_stop. apply (follow_ok_mono k); [lia | exact F].
        - apply (follow_nolp k). exact F. }
      destruct k as [|[|[|j]]]; try lia.
      - exact H1.
      - apply climb_from_unary; [|lia|exact F]. rewrite p_unary_nonop by apply Hh. exact H1.
      - apply climb_from_unary; [|lia|exact F]. rewrite p_unary_nonop by apply Hh. exact H1. }
    split; [exact HA|]. split; [|split].
    - apply T_of_A; [rewrite Hl; unfold ExprParser.topk; lia | exact HA].
    - exact HP.
    - intros j f you rest m He. lia.
  Qed.

  Lemma All_len : forall a, All a -> All (ELen a).
  Proof.
    intros a Ha. assert (HPa := P_of_All a Ha).
    apply All_postfix.
    - reflexivity.
    - intros f you rest m _ Hs Hw Hm Hn. simpl in Hs, Hw, Hm.
      cbn [ExprParser.tokens]. fold (pr 1 a). rewrite <- app_assoc.
      rewrite (HPa f you _ m); try assumption; try lia; [|exact I].
      cbn [pspine]. replace (m - pspine a) with (S (m - S (pspine a))) by lia.
      reflexivity.
    - simpl. clear. induction a; simpl; lia.
    - intro rest. cbn [ExprParser.tokens]. fold (pr 1 a). rewrite <- app_assoc.
      apply nonop_head_pr1.
  Qed.

  Lemma All_idx : forall a i, All a -> All i -> All (EIdx a i).
  Proof.
    intros a i Ha Hi. assert (HPa := P_of_All a Ha). destruct Hi as (_ & HTi & _ & _).
    apply All_postfix.
    - reflexivity.
    - intros f you rest m _ Hs Hw Hm Hn. simpl in Hs, Hw, Hm. destruct Hw as [Hwa Hwi].
      cbn [ExprParser.tokens]. fold (pr 1 a). rewrite <- app_assoc.
      rewrite <- app_comm_cons. rewrite <- app_assoc.
      rewrite (HPa f you _ m); try assumption; try lia; [|exact I].
      cbn [pspine]. replace (m - pspine a) with (S (m - S (pspine a))) by lia.
      destruct f as [|f']; [lia|].
      cbn [postfix_loop].
      rewrite (HTi f' you ([TRSquare] ++ rest)); [reflexivity | lia | exact Hwi | reflexivity].
    - simpl. assert (pspine a <= size a) by (clear; induction a; simpl; lia). lia.
    - intro rest. cbn [ExprParser.tokens]. fold (pr 1 a). rewrite <- app_assoc.
      apply nonop_head_pr1.
  Qed.

  (* ---- unary ---- *)

  Lemma All_un : forall u a, All a -> All (EUn u a).
  Proof.
    intros u a Ha. assert (HBa := B_of_All a Ha).
    assert (HA : A_stmt (EUn u a)).
    { intros f you k rest Hs Hw Hlk Hk1 Hk2 F. simpl in Hs, Hw, Hlk.
      apply climb_from_unary; [|exact Hlk|exact F].
      cbn [ExprParser.tokens]. fold (pr 2 a). rewrite <- app_comm_cons.
      cbn [p_unary]. rewrite un_fact.
      assert (H := HBa f you 2 rest).
      change (rule f you 2) with (p_unary unops (ptop f you) f) in H.
      rewrite H; [reflexivity | lia | exact Hw | lia | unfold ExprParser.topk; lia |].
      apply (follow_ok_mono k); [lia | exact F]. }
    split; [exact HA|]. split; [|split].
    - apply T_of_A; [simpl; unfold ExprParser.topk; lia | exact HA].
    - intros f you rest m Hl. simpl in Hl. lia.
    - intros j f you rest m He. simpl in He. lia.
  Qed.

  (* ---- is ---- *)

  Lemma follow_is : forall r, follow_ok 2 (TOp IS :: r).
  Proof.
    intro r. unfold follow_ok. apply stop_tok_op. split; [reflexivity|]. split.
    - lia.
    - unfold ExprParser.topk. lia.
  Qed.

  Lemma All_is : forall a t arr, All a -> All (EIs a t arr).
  Proof.
    intros a t arr Ha. assert (HBa := B_of_All a Ha).
    assert (HA : A_stmt (EIs a t arr)).
    { intros f you k rest Hs Hw Hlk Hk1 Hk2 F. simpl in Hs, Hw, Hlk. destruct Hw as [Ht Hw].
      apply (climb_from_ladder f you k 0); [|exact Hlk|exact F].
      cbn [ladder]. unfold p_is.
      cbn [ExprParser.tokens]. fold (pr 2 a). rewrite <- app_assoc.
      assert (H := HBa f you 2).
      change (rule f you 2) with (p_unary unops (ptop f you) f) in H.
      rewrite H; [| lia | exact Hw | lia | unfold ExprParser.topk; lia | apply follow_is].
      assert (F3 : follow_ok 1 rest) by (apply (follow_ok_mono k); [lia | exact F]).
      destruct arr.
      - destruct t; try reflexivity. congruence.
      - destruct t; try congruence;
          (destruct rest as [|t' r']; [reflexivity|]; destruct t'; try reflexivity;
           simpl in F3; discriminate). }
    split; [exact HA|]. split; [|split].
    - apply T_of_A; [simpl; unfold ExprParser.topk; lia | exact HA].
    - intros f you rest m Hl. simpl in Hl. lia.
    - intros j f you rest m He. simpl in He. lia.
  Qed.

  (* ---- binary ---- *)

  Lemma tokens_bin : forall b l r,
    tokens (EBin b l r)
    = pr (4 + fst (bin_pos b)) l ++ TOp (snd (bin_pos b)) :: pr (3 + fst (bin_pos b)) r.
  Proof. intros. cbn [ExprParser.tokens]. destruct (bin_pos b). reflexivity. Qed.

  Lemma bspine_le : forall j e, bspine j e <= size e.
  Proof.
    intros j e. induction e; simpl; try lia.
    destruct (fst (bin_pos b) =? j); lia.
  Qed.

  Lemma follow_binop : forall b r, follow_ok (3 + fst (bin_pos b)) (TOp (snd (bin_pos b)) :: r).
  Proof.
    intros b r. destruct (bin_fact b) as (_ & Hbelow & Hnis & Hjlt).
    unfold follow_ok. apply stop_tok_op.
    replace (3 + fst (bin_pos b) - 3) with (fst (bin_pos b)) by lia.
    split; [exact Hbelow|]. split.
    - intros _. exact Hnis.
    - unfold ExprParser.topk. lia.
  Qed.

  Lemma All_bin : forall b l r, All l -> All r -> All (EBin b l r).
  Proof.
    intros b l r Hl Hr. assert (HSl := S_of_All l Hl). assert (HBr := B_of_All r Hr).
    destruct (bin_fact b) as (Hlk & Hbelow & Hnis & Hjlt).
    assert (HS : S'_stmt (EBin b l r)).
    { intros j f you rest m He Hj Hs Hw Hm F.
      cbn [ExprParser.level_of] in He.
      assert (Ej : j = fst (bin_pos b)) by lia. subst j.
      simpl in Hs. destruct Hw as [Hwl Hwr].
      cbn [bspine] in *. rewrite Nat.eqb_refl in *.
      rewrite tokens_bin. rewrite <- app_assoc. rewrite <- app_comm_cons.
      rewrite (HSl (fst (bin_pos b)) f you _ m); try assumption; try lia;
        [|apply follow_binop].
      replace (m - bspine (fst (bin_pos b)) l)
        with (S (m - S (bspine (fst (bin_pos b)) l))) by lia.
      cbn [binloop]. rewrite Hlk.
      assert (H := HBr f you (3 + fst (bin_pos b)) rest).
      change (rule f you (3 + fst (bin_pos b)))
        with (ladder lvls unops (ptop f you) f (fst (bin_pos b))) in H.
      rewrite H; [reflexivity | lia | exact Hwr | lia | unfold ExprParser.topk; lia | exact F]. }
    assert (HA : A_stmt (EBin b l r)).
    { intros f you k rest Hs Hw Hlk' Hk1 Hk2 F. cbn [ExprParser.level_of] in Hlk'.
      apply (climb_from_ladder f you k (S (fst (bin_pos b)))); [|lia|exact F].
      cbn [ladder].
      rewrite (HS (fst (bin_pos b)) f you rest f); try assumption; try reflexivity.
      - apply (binloop_stop _ (fst (bin_pos b)) _ _ _ k); [lia | exact F].
      - pose proof (bspine_le (fst (bin_pos b)) (EBin b l r)). lia.
      - apply (follow_ok_mono k); [lia | exact F]. }
    split; [exact HA|]. split; [|split].
    - apply T_of_A; [cbn [ExprParser.level_of]; unfold ExprParser.topk; lia | exact HA].
    - intros f you rest m Hl1. cbn [ExprParser.level_of] in Hl1. lia.
    - exact HS.
  Qed.

  (* ---- speculation ---- *)

  Lemma follow_spec : forall r, follow_ok (3 + length lvls) (TOp SPECULATION :: r).
  Proof.
    intro r. unfold follow_ok. apply stop_tok_op.
    replace (3 + length lvls - 3) with (length lvls) by lia.
    split; [exact spec_fact|]. split.
    - intros _. discriminate.
    - unfold ExprParser.topk. lia.
  Qed.

  Lemma All_spec : forall l r, All l -> All r -> All (ESpec l r).
  Proof.
    intros l r Hl Hr. assert (HBl := B_of_All l Hl). assert (HBr := B_of_All r Hr).
    assert (Etk : topk - 1 = 3 + length lvls) by (unfold ExprParser.topk; lia).
    split; [|split; [|split]].
    - intros f you k rest Hs Hw Hlk. cbn [ExprParser.level_of] in Hlk. lia.
    - intros f you rest Hs Hw F. simpl in Hs. destruct Hw as (Hy & Hwl & Hwr). subst you.
      cbn [ExprParser.tokens]. fold (pr (topk - 1) l). fold (pr (topk - 1) r).
      rewrite Etk. rewrite <- app_assoc. rewrite <- app_comm_cons.
      assert (H1 := HBl f true (3 + length lvls) (TOp SPECULATION :: pr (3 + length lvls) r ++ rest)).
      assert (H2 := HBl f false (3 + length lvls) (TOp SPECULATION :: pr (3 + length lvls) r ++ rest)).
      assert (H3 := HBr f false (3 + length lvls) rest).
      change (rule f true (3 + length lvls))
        with (ladder lvls unops (ptop f true) f (length lvls)) in H1.
      change (rule f false (3 + length lvls))
        with (ladder lvls unops (ptop f false) f (length lvls)) in H2, H3.
      cbn [p_top]. cbv zeta.
      rewrite H1; [| lia | apply wf_in_mono; exact Hwl | lia | unfold ExprParser.topk; lia
                   | apply follow_spec].
      cbv beta iota.
      rewrite H2; [| lia | exact Hwl | lia | unfold ExprParser.topk; lia | apply follow_spec].
      cbv beta iota delta [expect].
      rewrite H3; [reflexivity | lia | exact Hwr | lia | unfold ExprParser.topk; lia |].
      apply (follow_ok_mono topk); [unfold ExprParser.topk; lia | exact F].
    - intros f you rest m Hl1. cbn [ExprParser.level_of] in Hl1. unfold ExprParser.topk in Hl1. lia.
    - intros j f you rest m He Hj. cbn [ExprParser.level_of] in He. unfold ExprParser.topk in He. lia.
  Qed.

  Theorem All_all : forall e, All e.
  Proof.
    induction e.
    - apply All_int.
    - apply All_bool.
    - apply All_var.
    - apply All_un; assumption.
    - apply All_is; assumption.
    - apply All_bin; assumption.
    - apply All_spec; assumption.
    - apply All_len; assumption.
    - apply All_idx; assumption.
  Qed.

  Theorem roundtrip_generic : forall e, wf_expr e ->
    parse_expr lvls unops (S (size e)) (tokens e) = Some (e, []).
  Proof.
    intros e Hw. destruct (All_all e) as (_ & HT & _).
    unfold parse_expr. rewrite <- (app_nil_r (tokens e)).
    rewrite (HT (size e) true []); [reflexivity | lia | exact Hw | exact I].
  Qed.
End Roundtrip.

(* ============================================================================================ *)
(* Instantiation with the regenerated ladder                                                    *)
(* ============================================================================================ *)
From HidV.Gen Require Import GenGrammar.

(* (a) the regenerated data is the documented data *)
Lemma levels_are_documented_proof : levels = Spec.documented_levels.
Proof. vm_compute. reflexivity. Qed.

Lemma unary_ops_are_documented_proof : unary_ops = Spec.documented_unary.
Proof. vm_compute. reflexivity. Qed.

Lemma shape_is_documented_proof : shape = Spec.documented_shape.
Proof. vm_compute. reflexivity. Qed.

Lemma documented_table_ok : table_ok Spec.documented_levels Spec.documented_unary = true.
Proof. vm_compute. reflexivity. Qed.

(* (b) round trip, all trees, explicit fuel *)
Lemma parse_print_roundtrip_fuel_proof : forall e fuel, wf_expr e -> size e < fuel ->
  parse_expr levels unary_ops fuel (tokens_min e) = Some (e, []).
Proof.
  intros e fuel Hw Hf. rewrite levels_are_documented_proof, unary_ops_are_documented_proof.
  destruct (All_all _ _ documented_table_ok e) as (_ & HT & _).
  destruct fuel as [|f]; [lia|].
  unfold parse_expr, tokens_min. rewrite <- (app_nil_r (tokens _ _ e)).
  rewrite (HT f true []); [reflexivity | lia | exact Hw | exact I].
Qed.

Lemma parse_print_roundtrip_proof : forall e, wf_expr e ->
  exists fuel, parse_expr levels unary_ops fuel (tokens_min e) = Some (e, []).
Proof.
  intros e Hw. exists (S (size e)). apply parse_print_roundtrip_fuel_proof; [exact Hw | lia].
Qed.

(* A tree in a context WITHOUT YOU (operands of `??`, function bodies): same statement for the
   context flag false, for trees without `??`. *)
Lemma parse_print_roundtrip_noyou_proof : forall e fuel, wf_in false e -> size e < fuel ->
  p_top levels unary_ops fuel false (tokens_min e) = POk e [].
Proof.
  intros e fuel Hw Hf. rewrite levels_are_documented_proof, unary_ops_are_documented_proof.
  destruct (All_all _ _ documented_table_ok e) as (_ & HT & _).
  destruct fuel as [|f]; [lia|].
  unfold tokens_min. rewrite <- (app_nil_r (tokens _ _ e)).
  apply HT; [lia | exact Hw | exact I].
Qed.

(* The hypotheses are satisfiable (a tree using every constructor). *)
Definition wf_witness : expr :=
  ESpec (EBin Or (EBin Sub (EVar 1) (EBin Sub (EVar 2) (EInt 3)))
                 (EIs (EUn Neg (EIdx (EVar 3) (ELen (EVar 4)))) DByte true))
        (EUn Not (EBool true)).
Lemma wf_witness_wf : wf_expr wf_witness.
Proof. unfold wf_expr, wf_witness; simpl; intuition (try lia; try discriminate). Qed.

(* (c) grouping ------------------------------------------------------------------------------ *)

Definition parse_toks (toks : list token) : option (expr * list token) :=
  parse_expr levels unary_ops (S (length toks)) toks.

(* level index and token of a binary constructor in the regenerated table *)
Definition prec (b : binop) : nat := fst (bin_pos levels b).
Definition btok (b : binop) : optok := snd (bin_pos levels b).
Definition utok (u : unop) : optok := un_tok unary_ops u.

(* binary operators of one level group to the left *)
Lemma grouping_left_assoc_proof : forall b1 b2 x y z, prec b1 = prec b2 ->
  parse_toks [TId x; TOp (btok b1); TId y; TOp (btok b2); TId z]
  = Some (EBin b2 (EBin b1 (EVar x) (EVar y)) (EVar z), []).
Proof. intros b1 b2 x y z H; destruct b1, b2; try discriminate H; reflexivity. Qed.

(* a tighter level binds tighter, on either side *)
Lemma grouping_tighter_right_proof : forall b1 b2 x y z, prec b2 < prec b1 ->
  parse_toks [TId x; TOp (btok b1); TId y; TOp (btok b2); TId z]
  = Some (EBin b1 (EVar x) (EBin b2 (EVar y) (EVar z)), []).
Proof.
  intros b1 b2 x y z H; destruct b1, b2; vm_compute in H;
    try (exfalso; lia); reflexivity.
Qed.

Lemma grouping_tighter_left_proof : forall b1 b2 x y z, prec b1 < prec b2 ->
  parse_toks [TId x; TOp (btok b1); TId y; TOp (btok b2); TId z]
  = Some (EBin b2 (EBin b1 (EVar x) (EVar y)) (EVar z), []).
Proof.
  intros b1 b2 x y z H; destruct b1, b2; vm_compute in H;
    try (exfalso; lia); reflexivity.
Qed.

(* parentheses override: any two binary operators, either grouping can be forced *)
Lemma grouping_parens_right_proof : forall b1 b2 x y z,
  parse_toks [TId x; TOp (btok b1); TLParen; TId y; TOp (btok b2); TId z; TRParen]
  = Some (EBin b1 (EVar x) (EBin b2 (EVar y) (EVar z)), []).
Proof. intros b1 b2 x y z; destruct b1, b2; reflexivity. Qed.

Lemma grouping_parens_left_proof : forall b1 b2 x y z,
  parse_toks [TLParen; TId x; TOp (btok b1); TId y; TRParen; TOp (btok b2); TId z]
  = Some (EBin b2 (EBin b1 (EVar x) (EVar y)) (EVar z), []).
Proof. intros b1 b2 x y z; destruct b1, b2; reflexivity. Qed.

(* postfix binds tighter than any operator: unary, `is`, binary *)
Lemma grouping_postfix_over_unary_proof : forall u x y,
  parse_toks [TOp (utok u); TId x; TDot; TId length_id] = Some (EUn u (ELen (EVar x)), []) /\
  parse_toks [TOp (utok u); TId x; TLSquare; TId y; TRSquare] = Some (EUn u (EIdx (EVar x) (EVar y)), []).
Proof. intros u x y; destruct u; split; reflexivity. Qed.

Lemma grouping_postfix_over_binary_proof : forall b x y z,
  parse_toks [TId x; TOp (btok b); TId y; TDot; TId length_id]
  = Some (EBin b (EVar x) (ELen (EVar y)), []) /\
  parse_toks [TId x; TOp (btok b); TId y; TLSquare; TId z; TRSquare]
  = Some (EBin b (EVar x) (EIdx (EVar y) (EVar z)), []).
Proof. intros b x y z; destruct b; split; reflexivity. Qed.

(* unary binds tighter than `is`, `is` tighter than every binary operator *)
Lemma grouping_unary_over_is_proof : forall u x t, t <> DEmpty ->
  parse_toks [TOp (utok u); TId x; TOp IS; TType t] = Some (EIs (EUn u (EVar x)) t false, []).
Proof. intros u x t H; destruct u, t; try congruence; reflexivity. Qed.

Lemma grouping_is_over_binary_proof : forall b x y t, t <> DEmpty ->
  parse_toks [TId x; TOp (btok b); TId y; TOp IS; TType t]
  = Some (EBin b (EVar x) (EIs (EVar y) t false), []) /\
  parse_toks [TId x; TOp IS; TType t; TOp (btok b); TId y]
  = Some (EBin b (EIs (EVar x) t false) (EVar y), []).
Proof. intros b x y t H; destruct b, t; try congruence; split; reflexivity. Qed.

(* unary binds tighter than every binary operator *)
Lemma grouping_unary_over_binary_proof : forall u b x y,
  parse_toks [TOp (utok u); TId x; TOp (btok b); TId y] = Some (EBin b (EUn u (EVar x)) (EVar y), []).
Proof. intros u b x y; destruct u, b; reflexivity. Qed.

(* `is` does not chain: the second `is` is left unconsumed *)
Lemma grouping_is_no_chain_proof : forall x t1 t2, t1 <> DEmpty ->
  parse_toks [TId x; TOp IS; TType t1; TOp IS; TType t2]
  = Some (EIs (EVar x) t1 false, [TOp IS; TType t2]).
Proof. intros x t1 t2 H; destruct t1, t2; try congruence; reflexivity. Qed.

(* `??` is loosest and does not chain *)
Lemma grouping_spec_loosest_proof : forall b x y z w,
  parse_toks [TId x; TOp (btok b); TId y; TOp SPECULATION; TId z; TOp (btok b); TId w]
  = Some (ESpec (EBin b (EVar x) (EVar y)) (EBin b (EVar z) (EVar w)), []).
Proof. intros b x y z w; destruct b; reflexivity. Qed.

Lemma grouping_spec_no_chain_proof : forall x y z,
  parse_toks [TId x; TOp SPECULATION; TId y; TOp SPECULATION; TId z]
  = Some (ESpec (EVar x) (EVar y), [TOp SPECULATION; TId z]).
Proof. intros; reflexivity. Qed.

(* ... and cannot be nested even in parentheses (the operands lose the YOU context):
   this is why wf_expr excludes such trees. *)
Lemma spec_nested_is_error : forall x y z,
  p_top levels unary_ops 9 true
        [TLParen; TId x; TOp SPECULATION; TId y; TRParen; TOp SPECULATION; TId z] = PErr.
Proof. intros; reflexivity. Qed.

(* The statement of DESIGN.md, C11, kept visible in full. *)
Definition parse_print_roundtrip_full_statement : Prop :=
  forall e, wf_expr e ->
    exists fuel, parse_expr levels unary_ops fuel (tokens_min e) = Some (e, []).
