(* HiD/LexerProofs.v -- theorems about the reference lexer (HiD/Lexer.v).  Component `lexer`, C12.
   Everything holds for every instantiation of the three non-ASCII oracles.  Contents:
     (a) integers        scan_tail, read_int_render, read_int_too_large, lex_int_render
     (b) escapes/UTF-8   byte_escape_all, simple_escape_all, escape_codes_standard,
                         utf8_roundtrip, utf8_encode_bytes, unicode_escape_value,
                         read_string_render, lex_string_hex_roundtrip, lex_string_raw_scalars,
                         read_char_render
     (c) symbols         find_symbol_longest, symbol_longest_match, symbol_none, read_symbol_exact
     (d) keywords        enum_partition, classify_plain, classify_flavoured, classify_exclusive
     (e) layout          token_reads, lex_gap, lex_render, layout_independence_lines,
                         layout_independence, layout_independence_tokens, follow_ok_blank,
                         example ex_laid / ex_lexes
     all inputs          read_token_suffix, lex_lines_fuel (the model never runs out of fuel),
                         lex_spans_exact (every span is exactly the text the token came from)
     error discipline    read_int_too_large, unicode_escape_too_large,
                         huge_codepoint_is_lexer_error, long_decimal_is_lexer_error,
                         leak_raw_surrogate_witness (the one leak left) *)
From Coq Require Import ZArith List Bool Lia.
From HidV Require Import GenLexer Lexer.
Import ListNotations.
Local Open Scope Z_scope.
Notation length := List.length (only parsing).

Arguments Z.mul : simpl never.
Arguments Z.add : simpl never.
Arguments Z.sub : simpl never.
Arguments Z.div : simpl never.
Arguments Z.modulo : simpl never.
Arguments Z.pow : simpl never.
Arguments Z.of_nat : simpl never.

(* ---------------------------------------------------------------------------------------- *)
(* generic helpers                                                                           *)
(* ---------------------------------------------------------------------------------------- *)

Lemma forall_range : forall (P : Z -> bool) (n : nat),
  forallb P (map Z.of_nat (seq 0 n)) = true -> forall v, 0 <= v < Z.of_nat n -> P v = true.
Proof.
  intros P n H v Hv. rewrite forallb_forall in H. apply H.
  apply in_map_iff. exists (Z.to_nat v). split; [lia|]. apply in_seq. lia.
Qed.

Lemma len_nil : len [] = 0.
Proof. reflexivity. Qed.
Lemma len_cons : forall c l, len (c :: l) = 1 + len l.
Proof. intros. unfold len. cbn [length]. lia. Qed.
Lemma len_app : forall a b, len (a ++ b) = len a + len b.
Proof. intros. unfold len. rewrite app_length. lia. Qed.
Lemma len_nonneg : forall l, 0 <= len l.
Proof. intros. unfold len. lia. Qed.

Lemma list_eqb_eq : forall a b, list_eqb a b = true <-> a = b.
Proof.
  induction a as [|x a IH]; destruct b as [|y b]; cbn; split; intro H; try easy.
  - apply andb_true_iff in H. destruct H as [H1 H2]. apply Z.eqb_eq in H1. apply IH in H2. congruence.
  - inversion H; subst. rewrite Z.eqb_refl. cbn. apply IH. reflexivity.
Qed.

Lemma list_eqb_refl : forall a, list_eqb a a = true.
Proof. intros. apply list_eqb_eq. reflexivity. Qed.

Lemma is_prefix_app : forall p s, is_prefix p (p ++ s) = true.
Proof. induction p; intros; cbn; [reflexivity|]. rewrite Z.eqb_refl. cbn. apply IHp. Qed.

Lemma is_prefix_spec : forall p s, is_prefix p s = true <-> exists r, s = p ++ r.
Proof.
  induction p as [|a p IH]; intros s; cbn.
  - split; [intros _; exists s; reflexivity | reflexivity].
  - destruct s as [|b s].
    + split; [discriminate | intros [r H]; discriminate].
    + rewrite andb_true_iff, Z.eqb_eq, IH. split.
      * intros [-> [r ->]]. exists r. reflexivity.
      * intros [r H]. inversion H; subst. split; [reflexivity | exists r; reflexivity].
Qed.

Lemma drop_prefix_app : forall p s, drop_prefix p (p ++ s) = s.
Proof. induction p; intros; cbn; [destruct s; reflexivity|apply IHp]. Qed.

Lemma lookup_In : forall A (k : list Z) (tbl : list (list Z * A)) v,
  lookup k tbl = Some v -> In (k, v) tbl.
Proof.
  induction tbl as [|[s x] tbl IH]; cbn; intros v H; [discriminate|].
  destruct (list_eqb k s) eqn:E.
  - apply list_eqb_eq in E. inversion H; subst. left; reflexivity.
  - right. apply IH. exact H.
Qed.

Lemma lookup_NoDup : forall A (tbl : list (list Z * A)) k v,
  NoDup (map fst tbl) -> In (k, v) tbl -> lookup k tbl = Some v.
Proof.
  induction tbl as [|[s x] tbl IH]; cbn; intros k v ND HI; [easy|].
  inversion ND as [|? ? Hn ND']; subst.
  destruct HI as [HI|HI].
  - inversion HI; subst. rewrite list_eqb_refl. reflexivity.
  - destruct (list_eqb k s) eqn:E.
    + apply list_eqb_eq in E. subst. exfalso. apply Hn.
      apply in_map_iff. exists (s, v). split; [reflexivity|exact HI].
    + apply IH; assumption.
Qed.

Lemma lookup_None : forall A (tbl : list (list Z * A)) k,
  lookup k tbl = None -> forall v, ~ In (k, v) tbl.
Proof.
  induction tbl as [|[s x] tbl IH]; cbn; intros k H v HI; [easy|].
  destruct (list_eqb k s) eqn:E; [discriminate|].
  destruct HI as [HI|HI].
  - inversion HI; subst. rewrite list_eqb_refl in E. discriminate.
  - eapply IH; eauto.
Qed.

Fixpoint nodupb (l : list (list Z)) : bool :=
  match l with
  | [] => true
  | x :: l' => negb (existsb (list_eqb x) l') && nodupb l'
  end.

Lemma nodupb_NoDup : forall l, nodupb l = true -> NoDup l.
Proof.
  induction l as [|x l IH]; cbn; intro H; [constructor|].
  apply andb_true_iff in H. destruct H as [H1 H2]. constructor; [|apply IH; exact H2].
  intro HI. apply negb_true_iff in H1.
  assert (existsb (list_eqb x) l = true); [|congruence].
  apply existsb_exists. exists x. split; [exact HI|apply list_eqb_refl].
Qed.

(* ---------------------------------------------------------------------------------------- *)
(* facts about the regenerated tables, by computation                                        *)
(* ---------------------------------------------------------------------------------------- *)

Lemma enum_spellings_distinct : NoDup (map fst enum_tokens).
Proof. apply nodupb_NoDup. vm_compute. reflexivity. Qed.
Lemma keyword_spellings_distinct : NoDup (map fst keyword_tokens).
Proof. apply nodupb_NoDup. vm_compute. reflexivity. Qed.
Lemma symbol_spellings_distinct : NoDup (map fst symbol_tokens).
Proof. apply nodupb_NoDup. vm_compute. reflexivity. Qed.

(* ---- UTF-8 ---- *)

Definition cont (b : Z) : bool := (128 <=? b) && (b <? 192).

(* strict decoder of one scalar value: rejects overlong forms, surrogates, > 10FFFF *)
Definition utf8_decode (bs : list Z) : option Z :=
  match bs with
  | [a] => if (0 <=? a) && (a <? 128) then Some a else None
  | [a; b] =>
      if (192 <=? a) && (a <? 224) && cont b then
        let v := (a - 192) * 64 + (b - 128) in
        if 128 <=? v then Some v else None
      else None
  | [a; b; c] =>
      if (224 <=? a) && (a <? 240) && cont b && cont c then
        let v := (a - 224) * 4096 + (b - 128) * 64 + (c - 128) in
        if (2048 <=? v) && negb (is_surrogate v) then Some v else None
      else None
  | [a; b; c; d] =>
      if (240 <=? a) && (a <? 248) && cont b && cont c && cont d then
        let v := (a - 240) * 262144 + (b - 128) * 4096 + (c - 128) * 64 + (d - 128) in
        if (65536 <=? v) && (v <=? 1114111) then Some v else None
      else None
  | _ => None
  end.

Definition is_scalar (c : Z) : Prop := 0 <= c <= 1114111 /\ is_surrogate c = false.

Ltac Zify.zify_post_hook ::= Z.to_euclidean_division_equations.

Ltac bool_lia :=
  repeat match goal with
  | |- context [?a <=? ?b] => destruct (Z.leb_spec a b); try lia
  | |- context [?a <? ?b] => destruct (Z.ltb_spec a b); try lia
  end.

Theorem utf8_roundtrip : forall c, is_scalar c -> utf8_decode (utf8_encode c) = Some c.
Proof.
  intros c [Hr Hs]. unfold is_surrogate in Hs. unfold utf8_encode.
  destruct (Z.ltb_spec c 128); [|destruct (Z.ltb_spec c 2048); [|destruct (Z.ltb_spec c 65536)]].
  - unfold utf8_decode. bool_lia. reflexivity.
  - unfold utf8_decode, cont.
    assert (E : (192 + c / 64 - 192) * 64 + (128 + c mod 64 - 128) = c) by lia.
    rewrite E. bool_lia. reflexivity.
  - unfold utf8_decode, cont, is_surrogate.
    assert (E : (224 + c / 4096 - 224) * 4096 + (128 + (c / 64) mod 64 - 128) * 64
                + (128 + c mod 64 - 128) = c) by lia.
    rewrite E.
    assert (Hs' : ((55296 <=? c) && (c <=? 57343)) = false) by exact Hs.
    rewrite Hs'. bool_lia. reflexivity.
  - unfold utf8_decode, cont.
    assert (E : (240 + c / 262144 - 240) * 262144 + (128 + (c / 4096) mod 64 - 128) * 4096
                + (128 + (c / 64) mod 64 - 128) * 64 + (128 + c mod 64 - 128) = c) by lia.
    rewrite E. bool_lia. reflexivity.
Qed.

Theorem utf8_encode_bytes : forall c, 0 <= c <= 1114111 ->
  Forall (fun b => 0 <= b < 256) (utf8_encode c) /\
  len (utf8_encode c) = (if c <? 128 then 1 else if c <? 2048 then 2 else if c <? 65536 then 3 else 4).
Proof.
  intros c Hr. unfold utf8_encode.
  destruct (Z.ltb_spec c 128); [|destruct (Z.ltb_spec c 2048); [|destruct (Z.ltb_spec c 65536)]];
    (split; [repeat constructor; lia | reflexivity]).
Qed.

Lemma utf8_encode_ascii : forall c, c < 128 -> utf8_encode c = [c].
Proof. intros. unfold utf8_encode. destruct (Z.ltb_spec c 128); [reflexivity|lia]. Qed.

Section Digits.

Variable uni_digit : Z -> option Z.

Notation dec_val := (dec_val uni_digit).
Notation hex_val := (hex_val uni_digit).
Notation digit_val := (digit_val uni_digit).
Notation scan_digits := (scan_digits uni_digit).
Notation read_prefixed := (read_prefixed uni_digit).
Notation read_dec := (read_dec uni_digit).
Notation read_int := (read_int uni_digit).
Notation scan_hex := (scan_hex uni_digit).
Notation read_unicode_escape := (read_unicode_escape uni_digit).
Notation read_escape := (read_escape uni_digit).
Notation read_item := (read_item uni_digit).
Notation str_loop := (str_loop uni_digit).
Notation read_string := (read_string uni_digit).
Notation read_char := (read_char uni_digit).

(* ======================================================================================== *)
(* (a) integer literals                                                                      *)
(* ======================================================================================== *)

Definition valid_digit (b : base) (c : Z) : Prop := exists v, digit_val b c = Some v.
Definition dval (b : base) (c : Z) : Z :=
  match digit_val b c with Some v => v | None => 0 end.

(* the documented value: positional notation, most significant digit first *)
Fixpoint horner (b : base) (acc : Z) (ds : list Z) : Z :=
  match ds with
  | [] => acc
  | d :: ds' => horner b (acc * radix b + dval b d) ds'
  end.
Definition int_value (b : base) (ds : list Z) : Z := horner b 0 ds.

Lemma horner_snoc : forall b ds acc d,
  horner b acc (ds ++ [d]) = horner b acc ds * radix b + dval b d.
Proof. induction ds; intros; cbn; [reflexivity|apply IHds]. Qed.

Lemma int_value_nil : forall b, int_value b [] = 0.
Proof. reflexivity. Qed.
Lemma int_value_snoc : forall b ds d,
  int_value b (ds ++ [d]) = int_value b ds * radix b + dval b d.
Proof. intros. apply horner_snoc. Qed.

(* digits d1 d2 ... with an optional single `_` between consecutive digits *)
Fixpoint render_tail (ds : list Z) (seps : list bool) : list Z :=
  match ds with
  | [] => []
  | d :: ds' => (if hd false seps then [95] else []) ++ d :: render_tail ds' (tl seps)
  end.
Definition base_prefix (b : base) : list Z :=
  match b with Hex => [48; 120] | Oct => [48; 111] | Bin => [48; 98] | Dec => [] end.
Definition render_digits (ds : list Z) (seps : list bool) : list Z :=
  match ds with [] => [] | d :: ds' => d :: render_tail ds' seps end.
Definition render_int (b : base) (ds : list Z) (seps : list bool) : list Z :=
  base_prefix b ++ render_digits ds seps.

(* the digit scanner stops in front of k *)
Definition stops (b : base) (k : list Z) : Prop :=
  match k with
  | [] => True
  | c :: k' => digit_val b c = None /\
               (c = 95 -> match k' with d :: _ => digit_val b d = None | [] => True end)
  end.

Lemma digit_val_underscore : forall b, digit_val b 95 = None.
Proof. destruct b; reflexivity. Qed.

Lemma scan_tail : forall b ds seps acc n k,
  Forall (valid_digit b) ds -> stops b k ->
  scan_digits b acc n (render_tail ds seps ++ k) = (horner b acc ds, n + len ds, k).
Proof.
  induction ds as [|d ds IH]; intros seps acc n k Hv Hs.
  - cbn [render_tail app horner]. rewrite len_nil, Z.add_0_r.
    destruct k as [|c k']; [reflexivity|].
    destruct Hs as [H1 H2]. cbn [Lexer.scan_digits]. rewrite H1.
    destruct (Z.eqb_spec c 95) as [->|]; [|reflexivity].
    destruct k' as [|d k'']; [reflexivity|]. rewrite (H2 eq_refl). reflexivity.
  - inversion Hv as [|? ? [v Hd] Hv']; subst.
    cbn [render_tail horner]. rewrite len_cons.
    assert (Hdv : dval b d = v) by (unfold dval; rewrite Hd; reflexivity).
    destruct (hd false seps).
    + cbn [app Lexer.scan_digits]. rewrite digit_val_underscore. cbn [Z.eqb Pos.eqb].
      rewrite Hd, Hdv. rewrite IH by assumption. f_equal. f_equal. lia.
    + cbn [app Lexer.scan_digits]. rewrite Hd, Hdv. rewrite IH by assumption.
      f_equal. f_equal. lia.
Qed.

(* a decimal digit is none of the base letters x o b *)
Lemma dec_val_not_letter : forall c v, dec_val c = Some v -> c <> 120 /\ c <> 111 /\ c <> 98.
Proof. intros c v H. repeat split; intro; subst; discriminate H. Qed.

Definition not_letter (k : list Z) : Prop :=
  match k with c :: _ => c <> 120 /\ c <> 111 /\ c <> 98 | [] => True end.

Lemma read_prefixed_none : forall b letter d T,
  (letter = 120 \/ letter = 111 \/ letter = 98) -> not_letter T ->
  read_prefixed b letter (d :: T) = None.
Proof.
  intros b letter d T HL HT. unfold Lexer.read_prefixed.
  destruct T as [|q [|d2 T']]; try reflexivity.
  cbn in HT. destruct (Z.eqb_spec q letter) as [->|]; [lia|].
  rewrite andb_false_r. reflexivity.
Qed.

(* the general statement: the literal followed by any text k at which scanning stops *)
Theorem read_int_render : forall b d ds seps k,
  Forall (valid_digit b) (d :: ds) -> stops b k ->
  (b = Dec -> not_letter k /\ len (d :: ds) <= int_max_str_digits) ->
  read_int (render_int b (d :: ds) seps ++ k) = RTok (TInt (int_value b (d :: ds))) k.
Proof.
  intros b d ds seps k Hv Hs Hdec.
  inversion Hv as [|? ? [v Hd] Hv']; subst.
  assert (Hdv : dval b d = v) by (unfold dval; rewrite Hd; reflexivity).
  assert (Hval : int_value b (d :: ds) = horner b v ds).
  { unfold int_value. cbn [horner]. rewrite Hdv, Z.mul_0_l, Z.add_0_l. reflexivity. }
  rewrite Hval. unfold Lexer.read_int, render_int, render_digits.
  destruct b; cbn [base_prefix app].
  - (* Hex *)
    unfold Lexer.read_prefixed. cbn [Z.eqb Pos.eqb andb]. cbn [Lexer.digit_val] in *. rewrite Hd.
    change (Lexer.scan_digits uni_digit Hex) with (scan_digits Hex).
    rewrite (scan_tail Hex) by assumption. reflexivity.
  - (* Oct *)
    unfold Lexer.read_prefixed at 1. cbn [Z.eqb Pos.eqb andb].
    unfold Lexer.read_prefixed. cbn [Z.eqb Pos.eqb andb]. cbn [Lexer.digit_val] in *. rewrite Hd.
    change (Lexer.scan_digits uni_digit Oct) with (scan_digits Oct).
    rewrite (scan_tail Oct) by assumption. reflexivity.
  - (* Bin *)
    unfold Lexer.read_prefixed at 1. cbn [Z.eqb Pos.eqb andb].
    unfold Lexer.read_prefixed at 1. cbn [Z.eqb Pos.eqb andb].
    unfold Lexer.read_prefixed. cbn [Z.eqb Pos.eqb andb]. cbn [Lexer.digit_val] in *. rewrite Hd.
    change (Lexer.scan_digits uni_digit Bin) with (scan_digits Bin).
    rewrite (scan_tail Bin) by assumption. reflexivity.
  - (* Dec *)
    destruct (Hdec eq_refl) as [Hk Hlen].
    assert (HT : not_letter (render_tail ds seps ++ k)).
    { destruct ds as [|d' ds']; [exact Hk|].
      inversion Hv' as [|? ? [v' Hd'] _]; subst. cbn [render_tail].
      destruct (hd false seps); cbn; [lia|]. eapply dec_val_not_letter. exact Hd'. }
    rewrite !read_prefixed_none by (auto; lia).
    unfold Lexer.read_dec. cbn [Lexer.digit_val] in Hd. rewrite Hd.
    change (Lexer.scan_digits uni_digit Dec) with (scan_digits Dec).
    rewrite (scan_tail Dec) by assumption.
    rewrite len_cons in Hlen.
    destruct (Z.ltb_spec int_max_str_digits (1 + len ds)); [lia|reflexivity].
Qed.

(* beyond CPython's conversion limit a decimal literal is the LexerError 'Integer literal too
   large', raised at the end of the literal; the other three bases have no limit *)
Theorem read_int_too_large : forall d ds seps k,
  Forall (valid_digit Dec) (d :: ds) -> stops Dec k -> not_letter k ->
  int_max_str_digits < len (d :: ds) ->
  read_int (render_int Dec (d :: ds) seps ++ k) = RErr EIntTooLarge k.
Proof.
  intros d ds seps k Hv Hs Hk Hlen.
  inversion Hv as [|? ? [v Hd] Hv']; subst.
  unfold Lexer.read_int, render_int, render_digits. cbn [base_prefix app].
  assert (HT : not_letter (render_tail ds seps ++ k)).
  { destruct ds as [|d' ds']; [exact Hk|].
    inversion Hv' as [|? ? [v' Hd'] _]; subst. cbn [render_tail].
    destruct (hd false seps); cbn; [lia|]. eapply dec_val_not_letter. exact Hd'. }
  rewrite !read_prefixed_none by (auto; lia).
  unfold Lexer.read_dec. cbn [Lexer.digit_val] in Hd. rewrite Hd.
  change (Lexer.scan_digits uni_digit Dec) with (scan_digits Dec).
  rewrite (scan_tail Dec) by assumption.
  rewrite len_cons in Hlen.
  destruct (Z.ltb_spec int_max_str_digits (1 + len ds)); [reflexivity|lia].
Qed.

Definition lex_int (s : list Z) : option Z :=
  match read_int s with RTok (TInt v) [] => Some v | _ => None end.

(* (a) every well-formed integer literal, in each of the four bases, with any placement of
   single `_` separators, denotes its positional value *)
Theorem lex_int_render : forall b ds seps,
  ds <> [] -> Forall (valid_digit b) ds -> (b = Dec -> len ds <= int_max_str_digits) ->
  lex_int (render_int b ds seps) = Some (int_value b ds).
Proof.
  intros b ds seps Hne Hv Hd. destruct ds as [|d ds]; [congruence|].
  unfold lex_int. rewrite <- (app_nil_r (render_int b (d :: ds) seps)).
  rewrite read_int_render; [reflexivity|exact Hv|exact I|].
  intro E. split; [exact I|apply Hd; exact E].
Qed.

(* ======================================================================================== *)
(* (b) escapes, UTF-8, string and character literals                                         *)
(* ======================================================================================== *)

(* ---- \xHH ---- *)

Definition hexdigit (upper : bool) (v : Z) : Z :=
  if v <? 10 then 48 + v else if upper then 55 + v else 87 + v.

Definition opt_eqb (a : option Z) (b : Z) : bool :=
  match a with Some x => x =? b | None => false end.

Lemma hex_val_hexdigit : forall u v, 0 <= v < 16 -> hex_val (hexdigit u v) = Some v.
Proof.
  intros u v Hv.
  assert (H : opt_eqb (hex_val (hexdigit u v)) v = true).
  { destruct u.
    - apply (forall_range (fun v => opt_eqb (hex_val (hexdigit true v)) v) 16); [|lia].
      vm_compute. reflexivity.
    - apply (forall_range (fun v => opt_eqb (hex_val (hexdigit false v)) v) 16); [|lia].
      vm_compute. reflexivity. }
  unfold opt_eqb in H. destruct (hex_val (hexdigit u v)); [|discriminate].
  apply Z.eqb_eq in H. congruence.
Qed.

Lemma read_escape_hex : forall h1 h2 a b k,
  hex_val h1 = Some a -> hex_val h2 = Some b ->
  read_escape (120 :: h1 :: h2 :: k) = EOk [a * 16 + b] k.
Proof. intros. unfold Lexer.read_escape. cbn [Z.eqb Pos.eqb]. rewrite H, H0. reflexivity. Qed.

(* `\xHH` for all 256 byte values, either case of either digit, in front of any text *)
Theorem byte_escape_all : forall b u1 u2 k, 0 <= b < 256 ->
  read_escape (120 :: hexdigit u1 (b / 16) :: hexdigit u2 (b mod 16) :: k) = EOk [b] k.
Proof.
  intros b u1 u2 k Hb.
  rewrite (read_escape_hex _ _ (b / 16) (b mod 16)).
  - f_equal. f_equal. pose proof (Z.div_mod b 16). lia.
  - apply hex_val_hexdigit. split; [apply Z.div_pos; lia|apply Z.div_lt_upper_bound; lia].
  - apply hex_val_hexdigit. apply Z.mod_pos_bound. lia.
Qed.

(* the same, exhaustively by computation (independent check of the arithmetic proof) *)
Definition eres_is (r : eres) (bs : list Z) : bool :=
  match r with EOk bs' [] => list_eqb bs' bs | _ => false end.
Lemma byte_escape_exhaustive :
  forallb (fun b => forallb (fun u1 => forallb (fun u2 =>
     eres_is (read_escape [120; hexdigit u1 (b / 16); hexdigit u2 (b mod 16)]) [b])
     [true; false]) [true; false]) (map Z.of_nat (seq 0 256)) = true.
Proof. vm_compute. reflexivity. Qed.

(* surrogates are rejected: escaped -> LexerError, raw -> the leaked UnicodeEncodeError *)
Theorem surrogate_rejected : forall cp r, is_surrogate cp = true ->
  encode_escaped cp r = EErr (ESurrogate cp) r /\ encode_raw cp r = ECrash CEncodeRaw.
Proof. intros. unfold encode_escaped, encode_raw. rewrite H. split; reflexivity. Qed.

(* ---- simple escapes: the regenerated table ---- *)

Definition standard_escapes : list (Z * Z) :=
  [ (97, 7); (98, 8); (102, 12); (110, 10); (114, 13); (116, 9); (48, 0);
    (39, 39); (34, 34); (92, 92) ].      (* a b f n r t 0 quote dquote backslash *)

Theorem escape_codes_standard : escape_codes = standard_escapes.
Proof. reflexivity. Qed.

Definition escape_entry_ok (e : Z * Z) : bool :=
  negb (fst e =? 120) && negb (fst e =? 117) && (0 <=? snd e) && (snd e <? 128)
  && opt_eqb (lookupZ (fst e) escape_codes) (snd e).

Lemma escape_table_ok : forallb escape_entry_ok escape_codes = true.
Proof. vm_compute. reflexivity. Qed.

(* every simple escape of the table denotes exactly its one byte *)
Theorem simple_escape_all : forall c v k, In (c, v) escape_codes ->
  read_escape (c :: k) = EOk [v] k.
Proof.
  intros c v k HI.
  pose proof escape_table_ok as H. rewrite forallb_forall in H. specialize (H _ HI).
  unfold escape_entry_ok in H. cbn [fst snd] in H.
  repeat (apply andb_true_iff in H; destruct H as [H ?]).
  apply negb_true_iff in H, H3.
  unfold Lexer.read_escape. rewrite H, H3.
  unfold opt_eqb in H0. destruct (lookupZ c escape_codes) as [v'|]; [|discriminate].
  apply Z.eqb_eq in H0. subst v'.
  unfold encode_escaped, is_surrogate.
  apply Z.leb_le in H2. apply Z.ltb_lt in H1.
  destruct (Z.leb_spec 55296 v); [lia|]. cbn [andb].
  rewrite utf8_encode_ascii by lia. reflexivity.
Qed.

(* ---- \u{...} ---- *)

Definition hex_valid (c : Z) : Prop := exists v, hex_val c = Some v.

Lemma scan_hex_app : forall ds acc k,
  Forall hex_valid ds -> match k with c :: _ => hex_val c = None | [] => True end ->
  scan_hex acc (ds ++ k) = (horner Hex acc ds, k).
Proof.
  induction ds as [|d ds IH]; intros acc k Hv Hk.
  - cbn [app horner]. destruct k as [|c k]; [reflexivity|]. cbn. rewrite Hk. reflexivity.
  - inversion Hv as [|? ? [v Hd] Hv']; subst. cbn [app Lexer.scan_hex horner].
    rewrite Hd. unfold dval. cbn [Lexer.digit_val]. rewrite Hd.
    change (Lexer.radix Hex) with 16. apply IH; assumption.
Qed.

Lemma hex_val_rcurly : hex_val 125 = None.
Proof. reflexivity. Qed.

Theorem unicode_escape_value : forall d ds k,
  Forall hex_valid (d :: ds) ->
  let cp := int_value Hex (d :: ds) in
  cp < 1114112 -> is_surrogate cp = false ->
  read_escape (117 :: 123 :: d :: ds ++ 125 :: k) = EOk (utf8_encode cp) k.
Proof.
  intros d ds k Hv cp Hlt Hs.
  inversion Hv as [|? ? [v Hd] Hv']; subst.
  unfold Lexer.read_escape. cbn [Z.eqb Pos.eqb]. unfold Lexer.read_unicode_escape.
  cbn [Z.eqb Pos.eqb]. rewrite Hd.
  change (Lexer.scan_hex uni_digit) with scan_hex.
  rewrite scan_hex_app; [|assumption|exact hex_val_rcurly].
  assert (E : horner Hex v ds = cp).
  { unfold cp, int_value. cbn [horner]. unfold dval at 1. cbn [Lexer.digit_val]. rewrite Hd.
    rewrite Z.mul_0_l, Z.add_0_l. reflexivity. }
  rewrite E. cbn [Z.eqb Pos.eqb].
  destruct (Z.ltb_spec cp 1114112); [|lia].
  unfold encode_escaped. rewrite Hs. reflexivity.
Qed.

(* any value above 10FFFF -- however large -- is the LexerError 'Invalid unicode codepoint',
   raised after the closing brace *)
Theorem unicode_escape_too_large : forall d ds k,
  Forall hex_valid (d :: ds) ->
  let cp := int_value Hex (d :: ds) in
  1114112 <= cp ->
  read_escape (117 :: 123 :: d :: ds ++ 125 :: k) = EErr (EBadCodepoint cp) k.
Proof.
  intros d ds k Hv cp Hge.
  inversion Hv as [|? ? [v Hd] Hv']; subst.
  unfold Lexer.read_escape. cbn [Z.eqb Pos.eqb]. unfold Lexer.read_unicode_escape.
  cbn [Z.eqb Pos.eqb]. rewrite Hd.
  change (Lexer.scan_hex uni_digit) with scan_hex.
  rewrite scan_hex_app; [|assumption|exact hex_val_rcurly].
  assert (E : horner Hex v ds = cp).
  { unfold cp, int_value. cbn [horner]. unfold dval at 1. cbn [Lexer.digit_val]. rewrite Hd.
    rewrite Z.mul_0_l, Z.add_0_l. reflexivity. }
  rewrite E. cbn [Z.eqb Pos.eqb].
  destruct (Z.ltb_spec cp 1114112); [lia|reflexivity].
Qed.

(* ---- literal items: everything that can stand inside quotes ---- *)

Inductive sitem :=
| SRaw (c : Z)                   (* the character itself *)
| SHex (u1 u2 : bool) (b : Z)    (* \xHH (u1 u2: upper-case digit?) *)
| SSimple (c : Z)                (* \c from escape_codes *)
| SUni (ds : list Z).            (* \u{ds} *)

Definition render_item (it : sitem) : list Z :=
  match it with
  | SRaw c => [c]
  | SHex u1 u2 b => [92; 120; hexdigit u1 (b / 16); hexdigit u2 (b mod 16)]
  | SSimple c => [92; c]
  | SUni ds => 92 :: 117 :: 123 :: ds ++ [125]
  end.

Definition item_bytes (it : sitem) : list Z :=
  match it with
  | SRaw c => utf8_encode c
  | SHex _ _ b => [b]
  | SSimple c => match lookupZ c escape_codes with Some v => [v] | None => [] end
  | SUni ds => utf8_encode (int_value Hex ds)
  end.

Definition item_ok (it : sitem) : Prop :=
  match it with
  | SRaw c => c <> 34 /\ c <> 92 /\ is_surrogate c = false
  | SHex _ _ b => 0 <= b < 256
  | SSimple c => exists v, In (c, v) escape_codes
  | SUni ds => ds <> [] /\ Forall hex_valid ds /\ int_value Hex ds < 1114112 /\
               is_surrogate (int_value Hex ds) = false
  end.

Lemma lookupZ_In : forall c v, In (c, v) escape_codes -> lookupZ c escape_codes = Some v.
Proof.
  intros c v HI. pose proof escape_table_ok as H. rewrite forallb_forall in H.
  specialize (H _ HI). unfold escape_entry_ok in H. cbn [fst snd] in H.
  apply andb_true_iff in H. destruct H as [_ H]. unfold opt_eqb in H.
  destruct (lookupZ c escape_codes); [|discriminate]. apply Z.eqb_eq in H. congruence.
Qed.

Lemma read_item_ok : forall it rest, item_ok it ->
  match render_item it ++ rest with
  | c :: r0 => c <> 34 /\ (c = 39 -> it = SRaw 39) /\ read_item c r0 = EOk (item_bytes it) rest
  | [] => False
  end.
Proof.
  intros it rest Hok. destruct it as [c|u1 u2 b|c|ds]; cbn [render_item app item_bytes].
  - destruct Hok as (H1 & H2 & H3). split; [exact H1|]. split; [congruence|].
    unfold Lexer.read_item. destruct (Z.eqb_spec c 92); [contradiction|].
    unfold encode_raw. rewrite H3. reflexivity.
  - split; [lia|]. split; [lia|]. unfold Lexer.read_item. cbn [Z.eqb Pos.eqb].
    apply byte_escape_all. exact Hok.
  - destruct Hok as [v HI]. split; [lia|]. split; [lia|]. unfold Lexer.read_item.
    cbn [Z.eqb Pos.eqb]. rewrite (lookupZ_In _ _ HI). apply simple_escape_all. exact HI.
  - destruct Hok as (Hne & Hv & Hlt & Hs). destruct ds as [|d ds]; [congruence|].
    split; [lia|]. split; [lia|]. unfold Lexer.read_item. cbn [Z.eqb Pos.eqb].
    rewrite <- app_assoc. cbn [app]. apply unicode_escape_value; assumption.
Qed.

Definition render_items (items : list sitem) : list Z := concat (map render_item items).
Definition items_bytes (items : list sitem) : list Z := concat (map item_bytes items).

Lemma str_loop_items : forall items fuel acc k,
  Forall item_ok items -> (length items < fuel)%nat ->
  str_loop fuel (render_items items ++ 34 :: k) acc = SOk (acc ++ items_bytes items) k.
Proof.
  induction items as [|it items IH]; intros fuel acc k Hok Hf.
  - destruct fuel; [lia|]. cbn. rewrite app_nil_r. reflexivity.
  - inversion Hok as [|? ? Hit Hok']; subst.
    destruct fuel as [|f]; [cbn in Hf; lia|].
    unfold render_items, items_bytes. cbn [map concat]. rewrite <- app_assoc.
    pose proof (read_item_ok it (concat (map render_item items) ++ 34 :: k) Hit) as H.
    destruct (render_item it ++ concat (map render_item items) ++ 34 :: k) as [|c r0]; [contradiction|].
    destruct H as (Hc & _ & Hr). cbn [Lexer.str_loop].
    destruct (Z.eqb_spec c 34); [contradiction|].
    change (Lexer.read_item uni_digit) with read_item. rewrite Hr.
    change (Lexer.str_loop uni_digit) with str_loop.
    fold (render_items items). rewrite IH; [|assumption|cbn in Hf; lia].
    rewrite app_assoc. reflexivity.
Qed.

Lemma render_item_length : forall it, (1 <= length (render_item it))%nat.
Proof. destruct it; cbn; lia. Qed.

Lemma render_items_length : forall items, (length items <= length (render_items items))%nat.
Proof.
  induction items as [|it items IH]; [cbn; lia|].
  unfold render_items in *. cbn [map concat length]. rewrite app_length.
  pose proof (render_item_length it). lia.
Qed.

Definition render_string (items : list sitem) : list Z := 34 :: render_items items ++ [34].

(* every string literal built from raw characters and escapes denotes the concatenation of the
   bytes of its items, whatever follows the closing quote *)
Theorem read_string_render : forall items k, Forall item_ok items ->
  read_string (render_string items ++ k) = RTok (TString (items_bytes items)) k.
Proof.
  intros items k Hok. unfold render_string, Lexer.read_string.
  cbn [app Z.eqb Pos.eqb]. rewrite <- app_assoc. cbn [app].
  change (Lexer.str_loop uni_digit) with str_loop.
  rewrite str_loop_items; [reflexivity|assumption|].
  rewrite app_length. pose proof (render_items_length items). cbn [length]. lia.
Qed.

Definition lex_string (s : list Z) : option (list Z) :=
  match read_string s with RTok (TString bs) [] => Some bs | _ => None end.

Definition render_string_hex (bs : list Z) : list Z := render_string (map (SHex false false) bs).

(* (b) every byte string written with \x escapes lexes back to itself *)
Theorem lex_string_hex_roundtrip : forall bs, Forall (fun b => 0 <= b < 256) bs ->
  lex_string (render_string_hex bs) = Some bs.
Proof.
  intros bs Hb. unfold lex_string, render_string_hex.
  rewrite <- (app_nil_r (render_string _)). rewrite read_string_render.
  - f_equal. unfold items_bytes. rewrite map_map. cbn [item_bytes].
    induction bs; [reflexivity|]. cbn. f_equal. apply IHbs. inversion Hb; assumption.
  - apply Forall_forall. intros it HI. apply in_map_iff in HI. destruct HI as [b [<- HI]].
    rewrite Forall_forall in Hb. apply Hb. exact HI.
Qed.

(* every Unicode scalar value written raw in a string denotes its UTF-8 encoding *)
Theorem lex_string_raw_scalars : forall cs,
  Forall (fun c => is_scalar c /\ c <> 34 /\ c <> 92) cs ->
  lex_string (render_string (map SRaw cs)) = Some (concat (map utf8_encode cs)).
Proof.
  intros cs Hc. unfold lex_string.
  rewrite <- (app_nil_r (render_string _)). rewrite read_string_render.
  - f_equal. unfold items_bytes. rewrite map_map. reflexivity.
  - apply Forall_forall. intros it HI. apply in_map_iff in HI. destruct HI as [c [<- HI]].
    rewrite Forall_forall in Hc. destruct (Hc _ HI) as [[_ Hs] [H1 H2]]. cbn. auto.
Qed.

(* character literals: one item that denotes exactly one byte *)
Theorem read_char_render : forall it b k, item_ok it -> item_bytes it = [b] -> it <> SRaw 39 ->
  read_char (39 :: render_item it ++ 39 :: k) = RTok (TChar b) k.
Proof.
  intros it b k Hok Hb Hq. unfold Lexer.read_char. cbn [Z.eqb Pos.eqb].
  pose proof (read_item_ok it (39 :: k) Hok) as H.
  destruct (render_item it ++ 39 :: k) as [|c r0]; [contradiction|].
  destruct H as (_ & Hc & Hr).
  destruct (Z.eqb_spec c 39) as [E|]; [exfalso; auto|].
  change (Lexer.read_item uni_digit) with read_item. rewrite Hr, Hb.
  cbn [Z.eqb Pos.eqb]. reflexivity.
Qed.

End Digits.

(* ======================================================================================== *)
(* (c) symbols: longest match                                                                *)
(* ======================================================================================== *)

Fixpoint desc_sorted (tbl : list (list Z * tag)) : bool :=
  match tbl with
  | [] => true
  | x :: tbl' =>
      forallb (fun y => Nat.leb (length (fst y)) (length (fst x))) tbl' && desc_sorted tbl'
  end.

(* for ANY table sorted by decreasing length, the first prefix-match is a longest one *)
Lemma find_symbol_longest : forall tbl cur s t,
  desc_sorted tbl = true -> find_symbol tbl cur = Some (s, t) ->
  In (s, t) tbl /\ is_prefix s cur = true /\
  forall s' t', In (s', t') tbl -> is_prefix s' cur = true -> (length s' <= length s)%nat.
Proof.
  induction tbl as [|[s0 t0] tbl IH]; intros cur s t Hs Hf; [discriminate|].
  cbn [desc_sorted] in Hs. apply andb_true_iff in Hs. destruct Hs as [Hall Hs].
  cbn [find_symbol] in Hf. destruct (is_prefix s0 cur) eqn:E.
  - inversion Hf; subst. split; [left; reflexivity|]. split; [exact E|].
    intros s' t' [HI|HI] _.
    + inversion HI; subst. lia.
    + rewrite forallb_forall in Hall. specialize (Hall _ HI). cbn [fst] in Hall.
      apply Nat.leb_le in Hall. exact Hall.
  - destruct (IH cur s t Hs Hf) as (H1 & H2 & H3). split; [right; exact H1|]. split; [exact H2|].
    intros s' t' [HI|HI] Hp.
    + inversion HI; subst. congruence.
    + eapply H3; eauto.
Qed.

Lemma find_symbol_none : forall tbl cur,
  find_symbol tbl cur = None -> forall s t, In (s, t) tbl -> is_prefix s cur = false.
Proof.
  induction tbl as [|[s0 t0] tbl IH]; intros cur Hf s t HI; [destruct HI|].
  cbn [find_symbol] in Hf. destruct (is_prefix s0 cur) eqn:E; [discriminate|].
  destruct HI as [HI|HI]; [inversion HI; subst; exact E|eapply IH; eauto].
Qed.

(* the regenerated symbol table, sorted the way readers.py sorts it, is in decreasing length *)
Lemma symbol_tokens_sorted : desc_sorted symbol_tokens = true.
Proof. vm_compute. reflexivity. Qed.

(* insertion sort keeps the elements *)
Lemma insert_by_In : forall le e l x, In x (insert_by le e l) <-> x = e \/ In x l.
Proof.
  induction l as [|y l IH]; intros x; cbn.
  - intuition.
  - destruct (le (length (fst e)) (length (fst y))); cbn; [intuition|].
    rewrite IH. intuition.
Qed.
Lemma sort_by_In : forall le l x, In x (sort_by le l) <-> In x l.
Proof.
  induction l as [|y l IH]; intros x; cbn; [tauto|].
  rewrite insert_by_In, IH. intuition.
Qed.

(* symbol_tokens / keyword_tokens are exactly the two halves of the enum table *)
Theorem symbol_tokens_spec : forall e,
  In e symbol_tokens <-> In e enum_tokens /\ is_ident_ascii (fst e) = false.
Proof.
  intro e. unfold symbol_tokens. destruct symbol_sort_reverse; rewrite sort_by_In, filter_In;
    rewrite negb_true_iff; tauto.
Qed.
Theorem keyword_tokens_spec : forall e,
  In e keyword_tokens <-> In e enum_tokens /\ is_ident_ascii (fst e) = true.
Proof. intro e. unfold keyword_tokens. rewrite filter_In. tauto. Qed.

(* (c) the symbol reader returns the longest symbol of the table that is a prefix of the input,
   and None only if no symbol is a prefix *)
Theorem symbol_longest_match : forall cur s t,
  find_symbol symbol_tokens cur = Some (s, t) ->
  In (s, t) symbol_tokens /\ is_prefix s cur = true /\
  forall s' t', In (s', t') symbol_tokens -> is_prefix s' cur = true ->
                (length s' <= length s)%nat.
Proof. intros. apply find_symbol_longest; [exact symbol_tokens_sorted|assumption]. Qed.

Theorem symbol_none : forall cur,
  find_symbol symbol_tokens cur = None ->
  forall s t, In (s, t) symbol_tokens -> is_prefix s cur = false.
Proof. intros. eapply find_symbol_none; eauto. Qed.

Lemma prefix_same_length : forall a b s,
  is_prefix a s = true -> is_prefix b s = true -> length a = length b -> a = b.
Proof.
  induction a as [|x a IH]; destruct b as [|y b]; intros s Ha Hb Hl; try discriminate; [reflexivity|].
  destruct s as [|z s]; [discriminate|]. cbn in Ha, Hb.
  apply andb_true_iff in Ha, Hb. destruct Ha as [Ha1 Ha2], Hb as [Hb1 Hb2].
  apply Z.eqb_eq in Ha1, Hb1. subst. f_equal. eapply IH; eauto.
Qed.

(* the reading is unique: the result is determined by the input, not by the (unspecified) order
   of equal-length symbols in the sorted list *)
Theorem read_symbol_exact : forall s t k,
  In (s, t) symbol_tokens ->
  (forall s' t', In (s', t') symbol_tokens -> is_prefix s' (s ++ k) = true ->
                 (length s' <= length s)%nat) ->
  read_symbol (s ++ k) = RTok (TEnum t) k.
Proof.
  intros s t k HI Hmax. unfold read_symbol.
  destruct (find_symbol symbol_tokens (s ++ k)) as [[s1 t1]|] eqn:E.
  - destruct (symbol_longest_match _ _ _ E) as (H1 & H2 & H3).
    assert (Hl : length s1 = length s).
    { apply Nat.le_antisymm; [eapply Hmax; eauto|eapply H3; eauto using is_prefix_app]. }
    assert (s1 = s) by (eapply prefix_same_length; eauto using is_prefix_app). subst s1.
    assert (t1 = t).
    { pose proof (lookup_NoDup _ _ _ _ symbol_spellings_distinct H1) as A.
      pose proof (lookup_NoDup _ _ _ _ symbol_spellings_distinct HI) as B. congruence. }
    subst. rewrite drop_prefix_app. reflexivity.
  - pose proof (symbol_none _ E _ _ HI) as H. rewrite is_prefix_app in H. discriminate.
Qed.

(* ======================================================================================== *)
(* (d) keywords and flavoured identifiers                                                    *)
(* ======================================================================================== *)

Theorem enum_partition : forall e, In e enum_tokens ->
  (In e keyword_tokens /\ ~ In e symbol_tokens) \/ (In e symbol_tokens /\ ~ In e keyword_tokens).
Proof.
  intros e HI. rewrite keyword_tokens_spec, symbol_tokens_spec.
  destruct (is_ident_ascii (fst e)); [left|right]; split; try tauto; intros [_ H]; discriminate.
Qed.

Theorem keyword_lookup_iff : forall w t,
  lookup w keyword_tokens = Some t <-> In (w, t) keyword_tokens.
Proof.
  intros. split; [apply lookup_In|apply lookup_NoDup; exact keyword_spellings_distinct].
Qed.

Section Words.

Variable uni_word : Z -> bool.
Notation is_word := (is_word uni_word).
Notation span_word := (span_word uni_word).
Notation match_ident := (match_ident uni_word).
Notation read_flavoured := (read_flavoured uni_word).
Notation read_ident_kw := (read_ident_kw uni_word).

(* ident_pattern.fullmatch(w) *)
Definition ident_word (w : list Z) : Prop :=
  match w with
  | c :: w' => ident_start c = true /\ Forall (fun x => is_word x = true) w'
  | [] => False
  end.
(* \w* stops in front of k *)
Definition word_end (k : list Z) : Prop :=
  match k with [] => True | c :: _ => is_word c = false end.

Lemma span_word_app : forall w k, Forall (fun x => is_word x = true) w -> word_end k ->
  span_word (w ++ k) = (w, k).
Proof.
  induction w as [|c w IH]; intros k Hw Hk.
  - cbn [app]. destruct k as [|c k]; [reflexivity|]. cbn in *. rewrite Hk. reflexivity.
  - inversion Hw; subst. cbn [app Lexer.span_word]. rewrite H1.
    change (Lexer.span_word uni_word) with span_word. rewrite IH by assumption. reflexivity.
Qed.

Lemma match_ident_app : forall w k, ident_word w -> word_end k ->
  match_ident (w ++ k) = Some (w, k).
Proof.
  intros [|c w] k Hw Hk; [destruct Hw|]. destruct Hw as [Hc Hw].
  cbn [app]. unfold Lexer.match_ident. rewrite Hc.
  change (Lexer.span_word uni_word) with span_word. rewrite span_word_app by assumption. reflexivity.
Qed.

Definition sigil (f : flavor) : list Z :=
  match f with FNone => [] | FYou => [flavor_sigil_you] | FDefeat => [flavor_sigil_defeat] end.

Lemma ident_start_not_sigil : forall c, ident_start c = true ->
  (c =? flavor_sigil_you) = false /\ (c =? flavor_sigil_defeat) = false.
Proof.
  intros c H. unfold ident_start, ascii_alpha, flavor_sigil_you, flavor_sigil_defeat in *.
  split; apply Z.eqb_neq; intro; subst; discriminate H.
Qed.

(* (d) classification is total and exclusive: an identifier-shaped word is a keyword exactly
   when the keyword table spells it, otherwise an identifier with the given flavour; a sigil in
   front of a keyword is an error. *)
Theorem classify_plain : forall w k, ident_word w -> word_end k ->
  read_ident_kw (w ++ k) =
  match lookup w keyword_tokens with
  | Some t => RTok (TEnum t) k
  | None => RTok (TIdent FNone w) k
  end.
Proof.
  intros w k Hw Hk. pose proof (match_ident_app w k Hw Hk) as Hm.
  destruct w as [|c w]; [destruct Hw|]. cbn [app] in *.
  unfold Lexer.read_ident_kw. destruct Hw as [Hc _].
  destruct (ident_start_not_sigil c Hc) as [-> ->].
  change (Lexer.match_ident uni_word) with match_ident. rewrite Hm. reflexivity.
Qed.

Theorem classify_flavoured : forall f w k, f <> FNone -> ident_word w -> word_end k ->
  read_ident_kw (sigil f ++ w ++ k) =
  match lookup w keyword_tokens with
  | Some _ => RErr (EBadFlavorIdent f) k
  | None => RTok (TIdent f w) k
  end.
Proof.
  intros f w k Hf Hw Hk. pose proof (match_ident_app w k Hw Hk) as Hm.
  destruct f; [congruence| |]; cbn [sigil app]; unfold Lexer.read_ident_kw;
    cbn [Z.eqb Pos.eqb flavor_sigil_you flavor_sigil_defeat];
    unfold Lexer.read_flavoured; change (Lexer.match_ident uni_word) with match_ident;
    rewrite Hm; reflexivity.
Qed.

Theorem classify_exclusive : forall w k, ident_word w -> word_end k ->
  (exists t, In (w, t) enum_tokens /\ read_ident_kw (w ++ k) = RTok (TEnum t) k /\
             forall f, f <> FNone -> read_ident_kw (sigil f ++ w ++ k) = RErr (EBadFlavorIdent f) k)
  \/
  ((forall t, ~ In (w, t) keyword_tokens) /\
   forall f, read_ident_kw (sigil f ++ w ++ k) = RTok (TIdent f w) k).
Proof.
  intros w k Hw Hk. destruct (lookup w keyword_tokens) as [t|] eqn:E.
  - left. exists t. split; [|split].
    + apply lookup_In in E. apply keyword_tokens_spec in E. tauto.
    + rewrite classify_plain, E by assumption. reflexivity.
    + intros f Hf. rewrite classify_flavoured, E by assumption. reflexivity.
  - right. split; [apply lookup_None; exact E|].
    intros f. destruct f.
    + cbn [sigil app]. rewrite classify_plain, E by assumption. reflexivity.
    + rewrite classify_flavoured, E by (assumption || discriminate). reflexivity.
    + rewrite classify_flavoured, E by (assumption || discriminate). reflexivity.
Qed.

End Words.

(* ======================================================================================== *)
(* (e) layout independence                                                                   *)
(* ======================================================================================== *)

Ltac bdall :=
  repeat match goal with
  | |- context [?a <=? ?b] => destruct (Z.leb_spec a b); try lia
  | |- context [?a <? ?b] => destruct (Z.ltb_spec a b); try lia
  | |- context [?a =? ?b] => destruct (Z.eqb_spec a b); try lia
  end; cbn; try (intros; first [lia | discriminate | reflexivity | tauto]).

Lemma ident_start_range : forall c, ident_start c = true ->
  65 <= c <= 90 \/ 97 <= c <= 122 \/ c = 95.
Proof. intros c. unfold ident_start, ascii_alpha. bdall. Qed.

Lemma ascii_word_range : forall c, ascii_word c = true -> 48 <= c <= 122.
Proof. intros c. unfold ascii_word, ascii_alpha, ascii_digit. bdall. Qed.

Lemma ident_start_word : forall c, ident_start c = true -> ascii_word c = true.
Proof. intros c H. unfold ascii_word. unfold ident_start in H. destruct (ascii_alpha c); [reflexivity|].
  cbn in *. rewrite H. apply orb_true_r. Qed.

(* shape of the symbols of the regenerated table, by computation *)
Definition sym_shape (s : list Z) : bool :=
  match s with
  | a :: s' =>
      (0 <=? a) && (a <? 128) && negb (ident_start a) && negb (ascii_digit a)
      && negb (a =? 64) && negb (a =? 34) && negb (a =? 39) && negb (ascii_space a)
      && (negb (a =? 33) || match s' with b :: _ => negb (ident_start b) | [] => false end)
  | [] => false
  end.

Lemma symbol_shapes : forallb (fun e => sym_shape (fst e)) symbol_tokens = true.
Proof. vm_compute. reflexivity. Qed.

Lemma no_symbol_at : forall cur,
  (forall s, sym_shape s = true -> is_prefix s cur = false) -> read_symbol cur = RNone.
Proof.
  intros cur H. unfold read_symbol.
  destruct (find_symbol symbol_tokens cur) as [[s t]|] eqn:E; [|reflexivity].
  destruct (symbol_longest_match _ _ _ E) as (HI & Hp & _).
  pose proof symbol_shapes as Hs. rewrite forallb_forall in Hs. specialize (Hs _ HI). cbn [fst] in Hs.
  rewrite (H _ Hs) in Hp. discriminate.
Qed.

Ltac split_shape H :=
  repeat (let H' := fresh "Hsh" in apply andb_true_iff in H; destruct H as [H H']).

Lemma sym_first : forall s, sym_shape s = true ->
  exists a s', s = a :: s' /\ 0 <= a < 128 /\ ident_start a = false /\ ascii_digit a = false /\
               a <> 64 /\ a <> 34 /\ a <> 39 /\ ascii_space a = false /\
               (a = 33 -> exists b s'', s' = b :: s'' /\ ident_start b = false).
Proof.
  intros [|a s'] H; [discriminate|]. exists a, s'. split; [reflexivity|].
  cbn [sym_shape] in H. split_shape H.
  apply Z.leb_le in H. apply Z.ltb_lt in Hsh6.
  apply negb_true_iff in Hsh5, Hsh4, Hsh3, Hsh2, Hsh1, Hsh0.
  apply Z.eqb_neq in Hsh3, Hsh2, Hsh1.
  repeat split; try assumption; try lia.
  intros ->. cbn in Hsh. destruct s' as [|b s'']; [discriminate|].
  exists b, s''. split; [reflexivity|]. apply negb_true_iff in Hsh. exact Hsh.
Qed.

Lemma sym_not_at : forall s c r, sym_shape s = true ->
  (forall a, 0 <= a < 128 -> ident_start a = false -> ascii_digit a = false ->
             a <> 64 -> a <> 34 -> a <> 39 -> a <> 33 -> a <> c) ->
  (c = 33 -> match r with d :: _ => ident_start d = true | [] => True end) ->
  is_prefix s (c :: r) = false.
Proof.
  intros s c r Hs Hc H33. destruct (sym_first s Hs) as (a & s' & -> & Ha & H1 & H2 & H3 & H4 & H5 & _ & H6).
  cbn [is_prefix]. destruct (Z.eqb_spec a c) as [E|]; [|reflexivity]. subst c. cbn [andb].
  destruct (Z.eq_dec a 33) as [E|NE].
  - destruct (H6 E) as (b & s'' & -> & Hb). specialize (H33 E). cbn [is_prefix].
    destruct r as [|d r]; [reflexivity|]. destruct (Z.eqb_spec b d); [|reflexivity]. subst. congruence.
  - exfalso. eapply Hc; eauto.
Qed.

Section Full.

Variable uni_space : Z -> bool.
Variable uni_word : Z -> bool.
Variable uni_digit : Z -> option Z.

Notation is_space := (is_space uni_space).
Notation is_word := (is_word uni_word).
Notation dec_val := (dec_val uni_digit).
Notation hex_val := (hex_val uni_digit).
Notation digit_val := (digit_val uni_digit).
Notation read_int := (read_int uni_digit).
Notation read_string := (read_string uni_digit).
Notation read_char := (read_char uni_digit).
Notation read_ident_kw := (read_ident_kw uni_word).
Notation read_token := (read_token uni_word uni_digit).
Notation skip_spaces := (skip_spaces uni_space).
Notation skip_ignore := (skip_ignore uni_space).
Notation lex_loop := (lex_loop uni_space uni_word uni_digit).
Notation lex_lines := (lex_lines uni_space uni_word uni_digit).
Notation lex_text := (lex_text uni_space uni_word uni_digit).
Notation ident_word := (ident_word uni_word).
Notation word_end := (word_end uni_word).
Notation valid_digit := (valid_digit uni_digit).
Notation int_value := (int_value uni_digit).
Notation item_ok := (item_ok uni_digit).
Notation item_bytes := (item_bytes uni_digit).
Notation items_bytes := (items_bytes uni_digit).

(* ---- syntactic tokens: a token together with one way of writing it ---- *)

Inductive stok :=
| KEnum (s : list Z) (t : tag)                            (* keyword / symbol *)
| KIdent (f : flavor) (w : list Z)
| KInt (b : base) (d : Z) (ds : list Z) (seps : list bool)
| KStr (items : list sitem)
| KChr (it : sitem).

Definition spell (t : stok) : list Z :=
  match t with
  | KEnum s _ => s
  | KIdent f w => sigil f ++ w
  | KInt b d ds seps => render_int b (d :: ds) seps
  | KStr items => render_string items
  | KChr it => 39 :: render_item it ++ [39]
  end.

Definition denote (t : stok) : token :=
  match t with
  | KEnum _ t => TEnum t
  | KIdent f w => TIdent f w
  | KInt b d ds _ => TInt (int_value b (d :: ds))
  | KStr items => TString (items_bytes items)
  | KChr it => TChar (hd 0 (item_bytes it))
  end.

Definition tok_ok (t : stok) : Prop :=
  match t with
  | KEnum s t => In (s, t) enum_tokens
  | KIdent f w => ident_word w /\ lookup w keyword_tokens = None
  | KInt b d ds _ =>
      Forall (valid_digit b) (d :: ds) /\
      (b = Dec -> len (d :: ds) <= int_max_str_digits /\ is_space d = false)
  | KStr items => Forall item_ok items
  | KChr it => item_ok it /\ (exists b, item_bytes it = [b]) /\ it <> SRaw 39
  end.

(* what may follow a token directly (k = the rest of the line) *)
Definition word_end_b (k : list Z) : bool :=
  match k with [] => true | c :: _ => negb (is_word c) end.
Definition none_b (o : option Z) : bool := match o with None => true | Some _ => false end.
Definition stops_b (b : base) (k : list Z) : bool :=
  match k with
  | [] => true
  | c :: k' => none_b (digit_val b c) &&
               (negb (c =? 95) || match k' with d :: _ => none_b (digit_val b d) | [] => true end)
  end.
Definition not_letter_b (k : list Z) : bool :=
  match k with c :: _ => negb (c =? 120) && negb (c =? 111) && negb (c =? 98) | [] => true end.
Definition sym_follow_b (s k : list Z) : bool :=
  forallb (fun e => negb (is_prefix (fst e) (s ++ k)) || Nat.leb (length (fst e)) (length s))
          symbol_tokens
  && negb (starts_comment (s ++ k)).

Definition follow_ok (t : stok) (k : list Z) : bool :=
  match t with
  | KEnum s _ => if is_ident_ascii s then word_end_b k else sym_follow_b s k
  | KIdent _ _ => word_end_b k
  | KInt b _ _ _ => stops_b b k && match b with Dec => not_letter_b k | _ => true end
  | KStr _ => true
  | KChr _ => true
  end.

Lemma word_end_b_spec : forall k, word_end_b k = true -> word_end k.
Proof. intros [|c k] H; cbn in *; [exact I|]. apply negb_true_iff in H. exact H. Qed.

Lemma none_b_spec : forall o, none_b o = true -> o = None.
Proof. intros [x|] H; [discriminate|reflexivity]. Qed.

Lemma stops_b_spec : forall b k, stops_b b k = true -> stops uni_digit b k.
Proof.
  intros b [|c k'] H; cbn in *; [exact I|]. apply andb_true_iff in H. destruct H as [H1 H2].
  split; [apply none_b_spec; exact H1|]. intros ->. cbn in H2.
  destruct k' as [|d k'']; [exact I|]. apply none_b_spec. exact H2.
Qed.

Lemma not_letter_b_spec : forall k, not_letter_b k = true -> not_letter k.
Proof.
  intros [|c k] H; cbn in *; [exact I|].
  repeat (apply andb_true_iff in H; destruct H as [H ?]).
  apply negb_true_iff in H, H0, H1. apply Z.eqb_neq in H, H0, H1. auto.
Qed.

(* ---- character-class facts ---- *)

Lemma is_space_ascii : forall c, 0 <= c < 128 -> ascii_space c = false -> is_space c = false.
Proof. intros c Hc H. unfold Lexer.is_space. destruct (Z.ltb_spec c 128); [exact H|lia]. Qed.

Lemma ident_start_not_space : forall c, ident_start c = true -> is_space c = false.
Proof.
  intros c H. apply ident_start_range in H. apply is_space_ascii; [lia|].
  unfold ascii_space. bdall.
Qed.

Lemma ident_start_is_word : forall c, ident_start c = true -> is_word c = true.
Proof.
  intros c H. pose proof (ident_start_range c H). unfold Lexer.is_word.
  destruct (Z.ltb_spec c 128); [apply ident_start_word; exact H|lia].
Qed.

Lemma ascii_word_is_word : forall c, ascii_word c = true -> is_word c = true.
Proof.
  intros c H. pose proof (ascii_word_range c H). unfold Lexer.is_word.
  destruct (Z.ltb_spec c 128); [exact H|lia].
Qed.

Lemma is_ident_ascii_word : forall s, is_ident_ascii s = true -> ident_word s.
Proof.
  intros [|c s] H; [discriminate|]. cbn in H. apply andb_true_iff in H. destruct H as [H1 H2].
  split; [exact H1|]. rewrite forallb_forall in H2. apply Forall_forall. intros x HI.
  apply ascii_word_is_word. apply H2. exact HI.
Qed.

Lemma dec_val_cases : forall d v, dec_val d = Some v -> 48 <= d <= 57 \/ 128 <= d.
Proof.
  intros d v H. unfold Lexer.dec_val in H. destruct (Z.ltb_spec d 128); [|lia].
  unfold ascii_digit in H. revert H. bdall.
Qed.

(* the first character of a number: no other reader takes it *)
Lemma digit_first : forall d, 48 <= d <= 57 \/ 128 <= d ->
  ident_start d = false /\ d <> 64 /\ d <> 33 /\ d <> 47 /\
  (forall s r, sym_shape s = true -> is_prefix s (d :: r) = false).
Proof.
  intros d Hd. repeat split; try lia.
  - unfold ident_start, ascii_alpha. bdall.
  - intros s r Hs. apply sym_not_at; [exact Hs| |lia].
    intros a Ha _ Hdig _ _ _ _ ->. unfold ascii_digit in Hdig. revert Hdig. bdall.
Qed.

Lemma read_ident_kw_none : forall c r, ident_start c = false -> c <> 64 -> c <> 33 ->
  read_ident_kw (c :: r) = RNone.
Proof.
  intros c r H1 H2 H3. unfold Lexer.read_ident_kw, flavor_sigil_you, flavor_sigil_defeat.
  destruct (Z.eqb_spec c 64); [lia|]. destruct (Z.eqb_spec c 33); [lia|].
  unfold Lexer.match_ident. rewrite H1. reflexivity.
Qed.

Lemma read_int_none : forall c r, c <> 48 -> dec_val c = None -> read_int (c :: r) = RNone.
Proof.
  intros c r H1 H2. unfold Lexer.read_int, Lexer.read_prefixed, Lexer.read_dec.
  destruct (Z.eqb_spec c 48); [lia|]. cbn [andb]. rewrite H2.
  destruct r as [|q [|d r']]; reflexivity.
Qed.

Lemma skip_spaces_stop : forall c r col, is_space c = false ->
  skip_spaces (c :: r) col = (c :: r, col).
Proof. intros. cbn. rewrite H. reflexivity. Qed.

Lemma skip_ignore_stop : forall c r col, is_space c = false -> starts_comment (c :: r) = false ->
  skip_ignore (c :: r) col = (c :: r, col).
Proof. intros. unfold Lexer.skip_ignore. rewrite skip_spaces_stop by assumption. rewrite H0. reflexivity. Qed.

Lemma starts_comment_first : forall c r, c <> 47 -> starts_comment (c :: r) = false.
Proof. intros. destruct r as [|b r]; [reflexivity|]. cbn. destruct (Z.eqb_spec c 47); [lia|reflexivity]. Qed.

(* ---- one token ---- *)

(* what the main loop needs to know about a token in front of the text k *)
Definition reads (t : stok) (k : list Z) : Prop :=
  (exists c r, spell t ++ k = c :: r /\ is_space c = false /\ starts_comment (c :: r) = false) /\
  read_token (spell t ++ k) = RTok (denote t) k.

Lemma enum_symbol_reads : forall s t k, In (s, t) enum_tokens -> is_ident_ascii s = false ->
  sym_follow_b s k = true -> reads (KEnum s t) k.
Proof.
  intros s t k HI Hid Hf. assert (HS : In (s, t) symbol_tokens) by (apply symbol_tokens_spec; auto).
  unfold sym_follow_b in Hf. apply andb_true_iff in Hf. destruct Hf as [Hmax Hcom].
  apply negb_true_iff in Hcom.
  pose proof symbol_shapes as Hs. rewrite forallb_forall in Hs. specialize (Hs _ HS). cbn [fst] in Hs.
  destruct (sym_first s Hs) as (a & s' & -> & Ha & _ & _ & _ & _ & _ & Hsp & _).
  split; cbn [spell].
  - exists a, (s' ++ k). split; [reflexivity|]. split; [apply is_space_ascii; assumption|exact Hcom].
  - unfold Lexer.read_token. rewrite (read_symbol_exact (a :: s') t k HS); [reflexivity|].
    intros s1 t1 HI1 Hp. rewrite forallb_forall in Hmax. specialize (Hmax _ HI1). cbn [fst] in Hmax.
    rewrite Hp in Hmax. cbn in Hmax. apply Nat.leb_le in Hmax. exact Hmax.
Qed.

Lemma ident_start_no_symbol : forall c r, ident_start c = true -> read_symbol (c :: r) = RNone.
Proof.
  intros c r Hc. apply no_symbol_at. intros s Hs. apply sym_not_at; [exact Hs| |].
  - intros a _ Ha _ _ _ _ _ ->. congruence.
  - intros ->. discriminate Hc.
Qed.

Lemma word_reads_aux : forall w k, ident_word w -> word_end k ->
  (exists c r, w ++ k = c :: r /\ is_space c = false /\ starts_comment (c :: r) = false) /\
  read_token (w ++ k) = read_ident_kw (w ++ k).
Proof.
  intros [|c w] k Hw Hk; [destruct Hw|]. destruct Hw as [Hc Hw]. cbn [app]. split.
  - exists c, (w ++ k). split; [reflexivity|]. split; [apply ident_start_not_space; exact Hc|].
    apply starts_comment_first. apply ident_start_range in Hc. lia.
  - unfold Lexer.read_token. rewrite ident_start_no_symbol by exact Hc. cbn [or_else].
    pose proof (classify_plain uni_word (c :: w) k (conj Hc Hw) Hk) as E. cbn [app] in E.
    rewrite E. destruct (lookup (c :: w) keyword_tokens); reflexivity.
Qed.

Lemma enum_keyword_reads : forall s t k, In (s, t) enum_tokens -> is_ident_ascii s = true ->
  word_end_b k = true -> reads (KEnum s t) k.
Proof.
  intros s t k HI Hid Hk. apply word_end_b_spec in Hk.
  assert (HK : In (s, t) keyword_tokens) by (apply keyword_tokens_spec; auto).
  pose proof (is_ident_ascii_word s Hid) as Hw.
  destruct (word_reads_aux s k Hw Hk) as [H1 H2]. split; [exact H1|]. cbn [spell denote].
  rewrite H2, (classify_plain uni_word s k Hw Hk).
  apply keyword_lookup_iff in HK. rewrite HK. reflexivity.
Qed.

Lemma ident_reads : forall f w k, ident_word w -> lookup w keyword_tokens = None ->
  word_end_b k = true -> reads (KIdent f w) k.
Proof.
  intros f w k Hw Hl Hk. apply word_end_b_spec in Hk. unfold reads. cbn [spell denote].
  destruct f; cbn [sigil app]; unfold flavor_sigil_you, flavor_sigil_defeat.
  - destruct (word_reads_aux w k Hw Hk) as [H1 H2]. split; [exact H1|].
    rewrite H2, (classify_plain uni_word w k Hw Hk), Hl. reflexivity.
  - split.
    + exists 64, (w ++ k). split; [reflexivity|]. split; [reflexivity|apply starts_comment_first; lia].
    + unfold Lexer.read_token. rewrite no_symbol_at.
      * cbn [or_else]. pose proof (classify_flavoured uni_word FYou w k) as E. cbn [sigil app] in E.
        unfold flavor_sigil_you, flavor_sigil_defeat in E.
        rewrite E by (assumption || discriminate). rewrite Hl. reflexivity.
      * intros s Hs. apply sym_not_at; [exact Hs| |lia]. intros; assumption.
  - assert (Hd : match w ++ k with d :: _ => ident_start d = true | [] => True end).
    { destruct w as [|c w]; [destruct Hw|]. destruct Hw as [Hc _]. exact Hc. }
    split.
    + exists 33, (w ++ k). split; [reflexivity|]. split; [reflexivity|apply starts_comment_first; lia].
    + unfold Lexer.read_token. rewrite no_symbol_at.
      * cbn [or_else]. pose proof (classify_flavoured uni_word FDefeat w k) as E. cbn [sigil app] in E.
        unfold flavor_sigil_you, flavor_sigil_defeat in E.
        rewrite E by (assumption || discriminate). rewrite Hl. reflexivity.
      * intros s Hs. apply sym_not_at; [exact Hs| |intros _; exact Hd].
        intros a _ _ _ _ _ _ Ha. exact Ha.
Qed.

Lemma int_reads : forall b d ds seps k,
  Forall (valid_digit b) (d :: ds) ->
  (b = Dec -> len (d :: ds) <= int_max_str_digits /\ is_space d = false) ->
  stops_b b k = true -> (b = Dec -> not_letter_b k = true) -> reads (KInt b d ds seps) k.
Proof.
  intros b d ds seps k Hv Hdec Hs Hnl. apply stops_b_spec in Hs.
  assert (Hread : read_int (render_int b (d :: ds) seps ++ k) = RTok (TInt (int_value b (d :: ds))) k).
  { apply read_int_render; [exact Hv|exact Hs|].
    intros E. destruct (Hdec E) as [H1 _]. split; [apply not_letter_b_spec; auto|exact H1]. }
  assert (Hfirst : exists c r, render_int b (d :: ds) seps ++ k = c :: r /\
                               (48 <= c <= 57 \/ 128 <= c) /\ is_space c = false).
  { destruct b; cbn [render_int base_prefix render_digits app].
    1-3: eexists _, _; split; [reflexivity|]; split; [lia|reflexivity].
    eexists _, _. split; [reflexivity|]. inversion Hv as [|? ? [v Hd] _]; subst.
    split; [eapply dec_val_cases; exact Hd|apply Hdec; reflexivity]. }
  destruct Hfirst as (c & r & E & Hc & Hsp). unfold reads. cbn [spell denote]. rewrite E in *.
  destruct (digit_first c Hc) as (H1 & H2 & H3 & H4 & H5). split.
  - exists c, r. split; [reflexivity|]. split; [exact Hsp|apply starts_comment_first; exact H4].
  - unfold Lexer.read_token. rewrite no_symbol_at by (intros s Hsh; apply H5; exact Hsh).
    cbn [or_else]. rewrite read_ident_kw_none by assumption. cbn [or_else].
    rewrite Hread. reflexivity.
Qed.

Lemma quote_no_symbol : forall c r, c = 34 \/ c = 39 -> read_symbol (c :: r) = RNone.
Proof.
  intros c r Hc. apply no_symbol_at. intros s Hs. apply sym_not_at; [exact Hs| |lia].
  intros a _ _ _ _ H34 H39 _ ->. lia.
Qed.

Lemma str_reads : forall items k, Forall item_ok items -> reads (KStr items) k.
Proof.
  intros items k Hok. unfold reads. cbn [spell denote]. split.
  - unfold render_string. eexists 34, _. split; [reflexivity|]. split; [reflexivity|].
    apply starts_comment_first. lia.
  - pose proof (read_string_render uni_digit items k Hok) as E.
    unfold render_string in *. cbn [app] in *.
    unfold Lexer.read_token. rewrite quote_no_symbol by lia. cbn [or_else].
    rewrite read_ident_kw_none by (reflexivity || lia). cbn [or_else].
    rewrite read_int_none by (reflexivity || lia). cbn [or_else].
    rewrite E. reflexivity.
Qed.

Lemma chr_reads : forall it k, item_ok it -> (exists b, item_bytes it = [b]) -> it <> SRaw 39 ->
  reads (KChr it) k.
Proof.
  intros it k Hok [b Hb] Hq. unfold reads. cbn [spell denote]. rewrite Hb. cbn [hd]. split.
  - eexists 39, _. split; [reflexivity|]. split; [reflexivity|]. apply starts_comment_first. lia.
  - pose proof (read_char_render uni_digit it b k Hok Hb Hq) as E.
    cbn [app]. rewrite <- app_assoc. cbn [app].
    unfold Lexer.read_token. rewrite quote_no_symbol by lia. cbn [or_else].
    rewrite read_ident_kw_none by (reflexivity || lia). cbn [or_else].
    rewrite read_int_none by (reflexivity || lia). cbn [or_else].
    replace (Lexer.read_string uni_digit (39 :: render_item it ++ 39 :: k)) with RNone by reflexivity.
    cbn [or_else]. rewrite E. reflexivity.
Qed.

Theorem token_reads : forall t k, tok_ok t -> follow_ok t k = true -> reads t k.
Proof.
  intros [s t|f w|b d ds seps|items|it] k Hok Hf; cbn [tok_ok follow_ok] in *.
  - destruct (is_ident_ascii s) eqn:E; [apply enum_keyword_reads|apply enum_symbol_reads]; assumption.
  - destruct Hok. apply ident_reads; assumption.
  - destruct Hok as [Hv Hd]. apply andb_true_iff in Hf. destruct Hf as [Hs Hn].
    apply int_reads; try assumption. intros ->. exact Hn.
  - apply str_reads; assumption.
  - destruct Hok as (H1 & H2 & H3). apply chr_reads; assumption.
Qed.


(* ---- layout: what may stand between tokens ---- *)

Inductive gap_item :=
| GWs (c : Z)                    (* one whitespace character (any \s that is not a line feed) *)
| GNewline                       (* a line break *)
| GComment (body : list Z).      (* `//body` up to and including the line break *)

(* a text under construction: the current line and the lines after it *)
Definition text : Type := (list Z * list (list Z))%type.
Definition push (a : list Z) (t : text) : text := (a ++ fst t, snd t).
Definition newline (t : text) : text := ([], fst t :: snd t).
Definition to_lines (t : text) : list (list Z) := fst t :: snd t.

Fixpoint render_gap (g : list gap_item) (t : text) : text :=
  match g with
  | [] => t
  | GWs c :: g' => push [c] (render_gap g' t)
  | GNewline :: g' => newline (render_gap g' t)
  | GComment body :: g' => push (47 :: 47 :: body) (newline (render_gap g' t))
  end.

(* tokens, each preceded by its gap; `final` is what comes after the last token *)
Fixpoint render (l : list (list gap_item * stok)) (final : text) : text :=
  match l with
  | [] => final
  | (g, t) :: l' => render_gap g (push (spell t) (render l' final))
  end.

(* trailing layout: a gap, then optionally an unterminated `//` comment on the last line *)
Definition final_text (g : list gap_item) (tail : option (list Z)) : text :=
  render_gap g (match tail with Some body => 47 :: 47 :: body | None => [] end, []).

Definition gap_ok (i : gap_item) : Prop :=
  match i with GWs c => is_space c = true | _ => True end.

(* positions, counted forward exactly as the text is written *)
Fixpoint gap_pos (g : list gap_item) (ln col : Z) : Z * Z :=
  match g with
  | [] => (ln, col)
  | GWs _ :: g' => gap_pos g' ln (col + 1)
  | GNewline :: g' => gap_pos g' (ln + 1) 0
  | GComment _ :: g' => gap_pos g' (ln + 1) 0
  end.

Fixpoint lexemes (l : list (list gap_item * stok)) (ln col : Z) : list lexeme :=
  match l with
  | [] => []
  | (g, t) :: l' =>
      let (ln1, col1) := gap_pos g ln col in
      let col2 := col1 + len (spell t) in
      (denote t, (ln1, col1, col2)) :: lexemes l' ln1 col2
  end.

Fixpoint last_pos (l : list (list gap_item * stok)) (ln col : Z) (last : Z * Z) : Z * Z :=
  match l with
  | [] => last
  | (g, t) :: l' =>
      let (ln1, col1) := gap_pos g ln col in
      let col2 := col1 + len (spell t) in
      last_pos l' ln1 col2 (ln1, col2)
  end.

(* every gap is made of whitespace/comments, every token is well formed, and what directly
   follows each token on its line (the next token's text, a comment, whitespace or nothing)
   does not merge with it *)
Fixpoint separable (l : list (list gap_item * stok)) (final : text) : Prop :=
  match l with
  | [] => True
  | (g, t) :: l' =>
      Forall gap_ok g /\ tok_ok t /\ follow_ok t (fst (render l' final)) = true /\
      separable l' final
  end.

Definition tmeasure (t : text) : nat := measure (fst t) (snd t).

Lemma tmeasure_push : forall a t, tmeasure (push a t) = (length a + tmeasure t)%nat.
Proof. intros a [l ls]. unfold tmeasure, push, measure. cbn [fst snd]. rewrite app_length. lia. Qed.
Lemma tmeasure_newline : forall t, tmeasure (newline t) = S (tmeasure t).
Proof. intros [l ls]. unfold tmeasure, newline, measure. cbn [fst snd fold_right length]. lia. Qed.

(* ---- single steps of the main loop ---- *)

Lemma lex_loop_space : forall f c cur rest ln col last, is_space c = true ->
  lex_loop (S f) (c :: cur) rest ln col last = lex_loop (S f) cur rest ln (col + 1) last.
Proof.
  intros. cbn [Lexer.lex_loop]. unfold Lexer.skip_ignore. cbn [Lexer.skip_spaces]. rewrite H.
  reflexivity.
Qed.

Lemma lex_loop_newline : forall f l ls ln col last,
  lex_loop (S f) [] (l :: ls) ln col last = lex_loop f l ls (ln + 1) 0 last.
Proof. intros. reflexivity. Qed.

Lemma lex_loop_comment : forall f body l ls ln col last,
  lex_loop (S f) (47 :: 47 :: body) (l :: ls) ln col last = lex_loop f l ls (ln + 1) 0 last.
Proof. intros. reflexivity. Qed.

Lemma lex_loop_end : forall f ln col last, lex_loop (S f) [] [] ln col last = ([], ODone last).
Proof. intros. reflexivity. Qed.

Lemma lex_loop_end_comment : forall f body ln col last,
  lex_loop (S f) (47 :: 47 :: body) [] ln col last = ([], ODone last).
Proof. intros. reflexivity. Qed.

Lemma lex_loop_token : forall f t cur rest ln col last, reads t cur ->
  lex_loop (S f) (spell t ++ cur) rest ln col last =
  cons_lex (denote t, (ln, col, col + len (spell t)))
           (lex_loop f cur rest ln (col + len (spell t)) (ln, col + len (spell t))).
Proof.
  intros f t cur rest ln col last [(c & r & E & Hsp & Hcom) Hread].
  cbn [Lexer.lex_loop]. rewrite E in *. rewrite skip_ignore_stop by assumption.
  change (Lexer.read_token uni_word uni_digit) with read_token. rewrite Hread.
  rewrite <- E. rewrite len_app.
  replace (len (spell t) + len cur - len cur) with (len (spell t)) by lia. reflexivity.
Qed.

(* ---- a gap ---- *)

Lemma lex_gap : forall g T last (F : Z -> Z -> result),
  Forall gap_ok g ->
  (forall fuel ln col, (tmeasure T < fuel)%nat ->
     lex_loop fuel (fst T) (snd T) ln col last = F ln col) ->
  forall fuel ln col, (tmeasure (render_gap g T) < fuel)%nat ->
    lex_loop fuel (fst (render_gap g T)) (snd (render_gap g T)) ln col last =
    F (fst (gap_pos g ln col)) (snd (gap_pos g ln col)).
Proof.
  induction g as [|i g IH]; intros T last F Hok HT fuel ln col Hf.
  - cbn [render_gap gap_pos fst snd] in *. apply HT. exact Hf.
  - inversion Hok as [|? ? Hi Hok']; subst. destruct i as [c| |body]; cbn [render_gap gap_pos] in *.
    + rewrite tmeasure_push in Hf. cbn [length] in Hf.
      destruct fuel as [|f]; [lia|]. unfold push. cbn [fst snd app].
      rewrite lex_loop_space by exact Hi. apply IH; [assumption|assumption|lia].
    + rewrite tmeasure_newline in Hf. destruct fuel as [|f]; [lia|].
      unfold newline. cbn [fst snd]. rewrite lex_loop_newline. apply IH; [assumption|assumption|lia].
    + rewrite tmeasure_push, tmeasure_newline in Hf. cbn [length] in Hf.
      destruct fuel as [|f]; [lia|]. unfold push, newline. cbn [fst snd app].
      rewrite lex_loop_comment. apply IH; [assumption|assumption|lia].
Qed.

Lemma final_done : forall g tail last, Forall gap_ok g ->
  forall fuel ln col, (tmeasure (final_text g tail) < fuel)%nat ->
    lex_loop fuel (fst (final_text g tail)) (snd (final_text g tail)) ln col last = ([], ODone last).
Proof.
  intros g tail last Hok fuel ln col Hf. unfold final_text in *.
  rewrite (lex_gap g _ last (fun _ _ => ([], ODone last))); [reflexivity|exact Hok| |exact Hf].
  intros fuel' ln' col' Hf'. destruct fuel' as [|f]; [lia|].
  destruct tail; cbn [fst snd]; [apply lex_loop_end_comment|apply lex_loop_end].
Qed.

Lemma enum_spellings_nonempty :
  forallb (fun e => match fst e with [] => false | _ => true end) enum_tokens = true.
Proof. vm_compute. reflexivity. Qed.

Lemma spell_nonempty : forall t, tok_ok t -> (1 <= length (spell t))%nat.
Proof.
  intros [s t|f w|b d ds seps|items|it] Hok; cbn [tok_ok spell] in *.
  - pose proof enum_spellings_nonempty as H. rewrite forallb_forall in H. specialize (H _ Hok).
    cbn [fst] in H. destruct s; [discriminate|cbn; lia].
  - destruct Hok as [Hw _]. rewrite app_length. destruct w; [destruct Hw|cbn; lia].
  - unfold render_int, render_digits. rewrite app_length. cbn [length]. lia.
  - unfold render_string. cbn [length]. lia.
  - cbn [length]. lia.
Qed.

(* ---- the whole text ---- *)

Lemma lex_render : forall l final,
  (forall last fuel ln col, (tmeasure final < fuel)%nat ->
     lex_loop fuel (fst final) (snd final) ln col last = ([], ODone last)) ->
  separable l final ->
  forall last fuel ln col, (tmeasure (render l final) < fuel)%nat ->
    lex_loop fuel (fst (render l final)) (snd (render l final)) ln col last =
    (lexemes l ln col, ODone (last_pos l ln col last)).
Proof.
  induction l as [|[g t] l IH]; intros final Hfin Hsep last fuel ln col Hf.
  - cbn [render lexemes last_pos] in *. apply Hfin. exact Hf.
  - destruct Hsep as (Hg & Hok & Hfol & Hsep). cbn [render lexemes last_pos] in *.
    pose proof (token_reads t _ Hok Hfol) as Hreads.
    rewrite (lex_gap g _ last
      (fun ln1 col1 =>
         (* the token, then the rest *)
         ((denote t, (ln1, col1, col1 + len (spell t)))
            :: lexemes l ln1 (col1 + len (spell t)),
          ODone (last_pos l ln1 (col1 + len (spell t)) (ln1, col1 + len (spell t))))));
      [destruct (gap_pos g ln col); reflexivity|exact Hg| |exact Hf].
    intros fuel' ln' col' Hf'. rewrite tmeasure_push in Hf'.
    pose proof (spell_nonempty t Hok) as Hne.
    destruct fuel' as [|f]; [lia|]. unfold push. cbn [fst snd].
    rewrite lex_loop_token by exact Hreads.
    rewrite (IH final Hfin Hsep) by lia. reflexivity.
Qed.

(* (e) LAYOUT INDEPENDENCE, on lines.  Whatever whitespace, line breaks and comments are put
   between (before, after) the tokens, the lexer returns exactly the tokens that were written,
   each with the span of the text it was written at, and finishes normally. *)
Theorem layout_independence_lines : forall l g tail,
  separable l (final_text g tail) -> Forall gap_ok g ->
  lex_lines (to_lines (render l (final_text g tail))) =
  (lexemes l 0 0, ODone (last_pos l 0 0 (0, 0))).
Proof.
  intros l g tail Hsep Hg. unfold to_lines, Lexer.lex_lines.
  apply lex_render; [|exact Hsep|unfold tmeasure; lia].
  intros last fuel ln col Hf. apply final_done; assumption.
Qed.

Lemma lexemes_tokens : forall l ln col, map fst (lexemes l ln col) = map (fun gt => denote (snd gt)) l.
Proof.
  induction l as [|[g t] l IH]; intros; cbn [lexemes map]; [reflexivity|].
  destruct (gap_pos g ln col). cbn [map fst snd]. f_equal. apply IH.
Qed.

(* ---- the same on flat text (code points with 10 = line feed), as SourceCode.from_string ---- *)

Definition flatten (t : text) : list Z := fst t ++ concat (map (fun l => 10 :: l) (snd t)).
Definition no_lf (l : list Z) : Prop := Forall (fun c => c <> 10) l.

Lemma split_lines_app : forall a s, no_lf a ->
  split_lines (a ++ s) = (a ++ fst (split_lines s), snd (split_lines s)).
Proof.
  induction a as [|c a IH]; intros s Ha.
  - cbn [app]. destruct (split_lines s); reflexivity.
  - inversion Ha; subst. cbn [app split_lines]. rewrite IH by assumption. cbn [fst snd].
    destruct (Z.eqb_spec c 10); [contradiction|]. reflexivity.
Qed.

Lemma split_flatten : forall l ls, Forall no_lf (l :: ls) -> split_lines (flatten (l, ls)) = (l, ls).
Proof.
  intros l ls. revert l. induction ls as [|l' ls IH]; intros l H; unfold flatten in *; cbn [fst snd] in *.
  - cbn [map concat]. inversion H; subst. rewrite split_lines_app by assumption.
    cbn. rewrite app_nil_r. reflexivity.
  - inversion H; subst. cbn [map concat]. rewrite split_lines_app by assumption.
    cbn [app split_lines]. rewrite (IH l') by assumption. cbn. rewrite app_nil_r. reflexivity.
Qed.

Theorem layout_independence : forall l g tail,
  separable l (final_text g tail) -> Forall gap_ok g ->
  Forall no_lf (to_lines (render l (final_text g tail))) ->
  lex_text (flatten (render l (final_text g tail))) =
  (lexemes l 0 0, ODone (last_pos l 0 0 (0, 0))).
Proof.
  intros l g tail Hsep Hg Hlf. unfold Lexer.lex_text.
  destruct (render l (final_text g tail)) as [ln ls] eqn:E.
  rewrite split_flatten by exact Hlf.
  pose proof (layout_independence_lines l g tail Hsep Hg) as H. rewrite E in H. exact H.
Qed.

(* the token sequence alone: it does not depend on the layout at all *)
Corollary layout_independence_tokens : forall toks gaps g tail,
  length gaps = length toks ->
  separable (combine gaps toks) (final_text g tail) -> Forall gap_ok g ->
  map fst (fst (lex_lines (to_lines (render (combine gaps toks) (final_text g tail))))) =
  map denote toks.
Proof.
  intros toks gaps g tail Hlen Hsep Hg. rewrite layout_independence_lines by assumption.
  cbn [fst]. rewrite lexemes_tokens. clear Hsep.
  revert gaps Hlen. induction toks as [|t toks IH]; intros [|g0 gaps] Hlen; try discriminate; [reflexivity|].
  cbn [combine map snd]. f_equal. apply IH. cbn in Hlen. lia.
Qed.

End Full.

(* ======================================================================================== *)
(* The hypotheses of (e) are satisfiable: a concrete program text                            *)
(*   // c                                                                                    *)
(*    if(@x1<=<TAB>0x1_F)                                                                    *)
(*    <dq>H\n\xfF\u{1F4A9}<dq>/ <q>\0<q> //      (dq = double quote, q = quote)              *)
(*   42 //!                                                                                  *)
(* ======================================================================================== *)

Definition no_space (_ : Z) : bool := false.
Definition no_word (_ : Z) : bool := false.
Definition no_digit (_ : Z) : option Z := None.

Definition etok (s : list Z) : stok :=
  KEnum s (match lookup s enum_tokens with Some t => t | None => (String.EmptyString, String.EmptyString) end).

Definition ex_laid : list (list gap_item * stok) :=
  [ ([GComment [32;99]; GWs 32], etok [105;102]);
    ([], etok [40]);
    ([], KIdent FYou [120;49]);
    ([], etok [60;61]);
    ([GWs 9], KInt Hex 49 [70] [true]);
    ([], etok [41]);
    ([GNewline; GWs 32], KStr [SRaw 72; SSimple 110; SHex false true 255; SUni [49;70;52;65;57]]);
    ([], etok [47]);
    ([GWs 32], KChr (SSimple 48));
    ([GWs 32; GComment []], KInt Dec 52 [50] []) ].
Definition ex_final : text := final_text [GWs 32] (Some [33]).


Ltac solve_sep :=
  repeat match goal with
  | |- valid_digit _ _ _ => unfold valid_digit
  | |- hex_valid _ _ => unfold hex_valid
  | |- _ /\ _ => split
  | |- Forall _ _ => constructor
  | |- True => exact I
  | |- exists _, _ => eexists
  | |- In _ _ => vm_compute; tauto
  | |- _ <> _ => discriminate
  | |- _ -> _ => intro
  | |- _ = _ => vm_compute; reflexivity
  | |- _ <= _ => vm_compute; discriminate
  | |- _ < _ => vm_compute; reflexivity
  | |- _ => progress cbn [separable ex_laid ex_final tok_ok gap_ok item_ok valid_digit hex_valid ident_word etok]
  end.

Lemma ex_separable : separable no_space no_word no_digit ex_laid ex_final.
Proof. solve_sep. Qed.

Lemma ex_no_lf : Forall no_lf (to_lines (render ex_laid ex_final)).
Proof. vm_compute. repeat (constructor; try discriminate). Qed.

Example ex_lexes :
  lex_text no_space no_word no_digit (flatten (render ex_laid ex_final)) =
  (lexemes no_digit ex_laid 0 0, ODone (last_pos ex_laid 0 0 (0, 0))).
Proof.
  apply layout_independence; [exact ex_separable|repeat constructor|exact ex_no_lf].
Qed.


(* ======================================================================================== *)
(* General facts for EVERY input: readers consume a non-empty prefix; the fuel of the model   *)
(* is never exhausted; every reported span is exactly the text the token was read from       *)
(* ======================================================================================== *)

Definition suffix (r cur : list Z) : Prop := exists p, cur = p ++ r.
Definition ssuffix (r cur : list Z) : Prop := exists p, p <> [] /\ cur = p ++ r.

Lemma suffix_refl : forall l, suffix l l.
Proof. intro l. exists []. reflexivity. Qed.
Lemma suffix_cons : forall r cur c, suffix r cur -> suffix r (c :: cur).
Proof. intros r cur c [p ->]. exists (c :: p). reflexivity. Qed.
Lemma suffix_trans : forall a b c, suffix a b -> suffix b c -> suffix a c.
Proof. intros a b c [p ->] [q ->]. exists (q ++ p). rewrite app_assoc. reflexivity. Qed.
Lemma suffix_ssuffix_cons : forall r cur c, suffix r cur -> ssuffix r (c :: cur).
Proof. intros r cur c [p ->]. exists (c :: p). split; [discriminate|reflexivity]. Qed.
Lemma ssuffix_suffix : forall r cur, ssuffix r cur -> suffix r cur.
Proof. intros r cur [p [_ ->]]. exists p. reflexivity. Qed.
Lemma ssuffix_trans_l : forall a b c, ssuffix a b -> suffix b c -> ssuffix a c.
Proof.
  intros a b c [p [Hp ->]] [q ->]. exists (q ++ p). split; [|rewrite app_assoc; reflexivity].
  destruct q; cbn; [exact Hp|discriminate].
Qed.
Lemma suffix_length : forall r cur, suffix r cur -> (length r <= length cur)%nat.
Proof. intros r cur [p ->]. rewrite app_length. lia. Qed.
Lemma ssuffix_length : forall r cur, ssuffix r cur -> (length r < length cur)%nat.
Proof. intros r cur [p [Hp ->]]. rewrite app_length. destruct p; [congruence|cbn; lia]. Qed.

Lemma skipn_skipn : forall (A : Type) (x y : nat) (l : list A),
  skipn x (skipn y l) = skipn (x + y) l.
Proof.
  intros A x y. revert x. induction y as [|y IH]; intros x l.
  - cbn. rewrite Nat.add_0_r. reflexivity.
  - rewrite Nat.add_succ_r. destruct l as [|a l]; [rewrite !skipn_nil; reflexivity|].
    cbn [skipn]. apply IH.
Qed.

Lemma read_symbol_suffix : forall cur t r, read_symbol cur = RTok t r -> ssuffix r cur.
Proof.
  intros cur t r H. unfold read_symbol in H.
  destruct (find_symbol symbol_tokens cur) as [[s t']|] eqn:E; [|discriminate].
  inversion H; subst. destruct (symbol_longest_match _ _ _ E) as (HI & Hp & _).
  apply is_prefix_spec in Hp. destruct Hp as [k ->]. rewrite drop_prefix_app.
  exists s. split; [|reflexivity].
  pose proof symbol_shapes as Hs. rewrite forallb_forall in Hs. specialize (Hs _ HI). cbn [fst] in Hs.
  destruct s; [discriminate|discriminate].
Qed.

Section TotalityDigits.

Variable uni_digit : Z -> option Z.

Notation hex_val := (hex_val uni_digit).
Notation digit_val := (digit_val uni_digit).
Notation scan_digits := (scan_digits uni_digit).
Notation scan_hex := (scan_hex uni_digit).
Notation read_escape := (read_escape uni_digit).
Notation read_unicode_escape := (read_unicode_escape uni_digit).
Notation read_item := (read_item uni_digit).
Notation str_loop := (str_loop uni_digit).
Notation read_string := (read_string uni_digit).
Notation read_char := (read_char uni_digit).
Notation read_int := (read_int uni_digit).

Lemma scan_digits_suffix : forall b n cur acc m, (length cur <= n)%nat ->
  suffix (snd (scan_digits b acc m cur)) cur.
Proof.
  induction n as [|n IH]; intros cur acc m Hl.
  - destruct cur; [cbn; apply suffix_refl|cbn in Hl; lia].
  - destruct cur as [|c cur']; [cbn; apply suffix_refl|]. cbn [Lexer.scan_digits].
    cbn [length] in Hl. destruct (digit_val b c).
    + apply suffix_cons. apply IH. lia.
    + destruct (c =? 95); [|apply suffix_refl].
      destruct cur' as [|d cur'']; [apply suffix_refl|].
      destruct (digit_val b d); [|apply suffix_refl].
      apply suffix_cons, suffix_cons. apply IH. cbn [length] in Hl. lia.
Qed.

Lemma scan_hex_suffix : forall cur acc, suffix (snd (scan_hex acc cur)) cur.
Proof.
  induction cur as [|c cur IH]; intros acc; cbn; [apply suffix_refl|].
  destruct (hex_val c); [apply suffix_cons, IH|apply suffix_refl].
Qed.

Lemma encode_escaped_rest : forall cp r0 bs r, encode_escaped cp r0 = EOk bs r -> r = r0.
Proof. intros. unfold encode_escaped in H. destruct (is_surrogate cp); inversion H; reflexivity. Qed.

Lemma read_unicode_escape_suffix : forall after_u bs r,
  read_unicode_escape after_u = EOk bs r -> suffix r after_u.
Proof.
  intros after_u bs r H. unfold Lexer.read_unicode_escape in H.
  destruct after_u as [|o [|d r0]]; try discriminate.
  destruct (o =? 123); [|discriminate]. destruct (hex_val d); [|discriminate].
  pose proof (scan_hex_suffix r0 z) as Hs.
  destruct (Lexer.scan_hex uni_digit z r0) as [cp r'] eqn:E. cbn [snd] in Hs.
  destruct r' as [|cl r'']; [discriminate|]. destruct (cl =? 125); [|discriminate].
  destruct (cp <? 1114112).
  - apply encode_escaped_rest in H. subst r.
    apply suffix_cons, suffix_cons. eapply suffix_trans; [|exact Hs]. apply suffix_cons, suffix_refl.
  - discriminate.
Qed.

Lemma read_escape_suffix : forall after_bs bs r, read_escape after_bs = EOk bs r -> suffix r after_bs.
Proof.
  intros after_bs bs r H. unfold Lexer.read_escape in H.
  destruct after_bs as [|c r0]; [discriminate|].
  destruct (c =? 120).
  - destruct r0 as [|h1 [|h2 r']]; try discriminate.
    destruct (hex_val h1); [|discriminate]. destruct (hex_val h2); [|discriminate].
    inversion H; subst. exists [c; h1; h2]. reflexivity.
  - destruct (c =? 117).
    + apply suffix_cons. eapply read_unicode_escape_suffix. exact H.
    + destruct (lookupZ c escape_codes); [|discriminate].
      apply encode_escaped_rest in H. subst. apply suffix_cons, suffix_refl.
Qed.

Lemma read_item_suffix : forall c r0 bs r, read_item c r0 = EOk bs r -> suffix r r0.
Proof.
  intros c r0 bs r H. unfold Lexer.read_item in H. destruct (c =? 92).
  - eapply read_escape_suffix. exact H.
  - unfold encode_raw in H. destruct (is_surrogate c); inversion H. apply suffix_refl.
Qed.

Lemma str_loop_suffix : forall fuel cur acc bs r,
  str_loop fuel cur acc = SOk bs r -> ssuffix r cur.
Proof.
  induction fuel as [|f IH]; intros cur acc bs r H; [discriminate|].
  cbn [Lexer.str_loop] in H. destruct cur as [|c cur']; [discriminate|].
  destruct (c =? 34).
  - inversion H; subst. exists [c]. split; [discriminate|reflexivity].
  - destruct (Lexer.read_item uni_digit c cur') as [bs' r1|e r1|k] eqn:E; try discriminate.
    apply read_item_suffix in E. apply IH in H.
    eapply ssuffix_trans_l; [exact H|]. apply suffix_cons. exact E.
Qed.

(* the fuel given to str_loop by read_string is always enough *)
Lemma str_loop_fuel : forall fuel cur acc, (length cur < fuel)%nat -> str_loop fuel cur acc <> SFuel.
Proof.
  induction fuel as [|f IH]; intros cur acc Hf; [lia|].
  cbn [Lexer.str_loop]. destruct cur as [|c cur']; [discriminate|].
  destruct (c =? 34); [discriminate|].
  destruct (Lexer.read_item uni_digit c cur') as [bs' r1|e r1|k] eqn:E; try discriminate.
  apply read_item_suffix, suffix_length in E. apply IH. cbn [length] in Hf. lia.
Qed.

Lemma read_string_suffix : forall cur t r, read_string cur = RTok t r -> ssuffix r cur.
Proof.
  intros cur t r H. unfold Lexer.read_string in H. destruct cur as [|c cur']; [discriminate|].
  destruct (c =? 34); [|discriminate].
  destruct (Lexer.str_loop uni_digit (S (length cur')) cur' []) as [bs r1|e r1|k|] eqn:E; try discriminate.
  inversion H; subst. apply str_loop_suffix in E. apply ssuffix_suffix in E.
  apply suffix_ssuffix_cons. exact E.
Qed.

Lemma read_char_suffix : forall cur t r, read_char cur = RTok t r -> ssuffix r cur.
Proof.
  intros cur t r H. unfold Lexer.read_char in H. destruct cur as [|q cur']; [discriminate|].
  destruct (q =? 39); [|discriminate]. destruct cur' as [|c r0]; [discriminate|].
  destruct (c =? 39); [discriminate|].
  destruct (Lexer.read_item uni_digit c r0) as [bs r2|e r2|k] eqn:E; try discriminate.
  apply read_item_suffix in E.
  destruct r2 as [|q2 r3]; [discriminate|]. destruct (q2 =? 39); [|discriminate].
  destruct bs as [|b [|b' bs']]; try discriminate. inversion H; subst.
  apply suffix_ssuffix_cons, suffix_cons. eapply suffix_trans; [|exact E]. apply suffix_cons, suffix_refl.
Qed.

Lemma read_prefixed_suffix : forall b letter cur v n r,
  Lexer.read_prefixed uni_digit b letter cur = Some (v, n, r) -> ssuffix r cur.
Proof.
  intros b letter cur v n r H. unfold Lexer.read_prefixed in H.
  destruct cur as [|z [|q [|d cur']]]; try discriminate.
  destruct ((z =? 48) && (q =? letter)); [|discriminate].
  destruct (digit_val b d) as [v0|]; [|discriminate].
  pose proof (scan_digits_suffix b (length cur') cur' v0 1 (le_n _)) as Hs.
  inversion H as [E]. rewrite E in Hs. cbn [snd] in Hs.
  apply suffix_ssuffix_cons, suffix_cons, suffix_cons. exact Hs.
Qed.

Lemma read_int_suffix : forall cur t r, read_int cur = RTok t r -> ssuffix r cur.
Proof.
  intros cur t r H. unfold Lexer.read_int in H.
  destruct (Lexer.read_prefixed uni_digit Hex 120 cur) as [[[v n] r']|] eqn:E1.
  { inversion H; subst. eapply read_prefixed_suffix; eauto. }
  destruct (Lexer.read_prefixed uni_digit Oct 111 cur) as [[[v n] r']|] eqn:E2.
  { inversion H; subst. eapply read_prefixed_suffix; eauto. }
  destruct (Lexer.read_prefixed uni_digit Bin 98 cur) as [[[v n] r']|] eqn:E3.
  { inversion H; subst. eapply read_prefixed_suffix; eauto. }
  unfold Lexer.read_dec in H. destruct cur as [|d cur']; [discriminate|].
  destruct (Lexer.dec_val uni_digit d) as [v0|]; [|discriminate].
  pose proof (scan_digits_suffix Dec (length cur') cur' v0 1 (le_n _)) as Hs.
  destruct (Lexer.scan_digits uni_digit Dec v0 1 cur') as [[v n] r'] eqn:E. cbn [snd] in Hs.
  destruct (int_max_str_digits <? n); [discriminate|]. inversion H; subst.
  apply suffix_ssuffix_cons. exact Hs.
Qed.

End TotalityDigits.

Section TotalityWords.

Variable uni_word : Z -> bool.
Variable uni_digit : Z -> option Z.
Notation read_ident_kw := (read_ident_kw uni_word).
Notation read_token := (read_token uni_word uni_digit).

Lemma span_word_split : forall cur w r, Lexer.span_word uni_word cur = (w, r) -> cur = w ++ r.
Proof.
  induction cur as [|c cur IH]; intros w r H; cbn in H.
  - inversion H. reflexivity.
  - destruct (Lexer.is_word uni_word c).
    + destruct (Lexer.span_word uni_word cur) as [w' r'] eqn:E. inversion H; subst.
      cbn. f_equal. apply IH. reflexivity.
    + inversion H. reflexivity.
Qed.

Lemma match_ident_split : forall cur w r, Lexer.match_ident uni_word cur = Some (w, r) ->
  cur = w ++ r /\ w <> [].
Proof.
  intros cur w r H. unfold Lexer.match_ident in H. destruct cur as [|c cur']; [discriminate|].
  destruct (ident_start c); [|discriminate].
  destruct (Lexer.span_word uni_word cur') as [w' r'] eqn:E. inversion H; subst.
  apply span_word_split in E. subst. split; [reflexivity|discriminate].
Qed.

Lemma read_flavoured_suffix : forall f cur t r,
  Lexer.read_flavoured uni_word f cur = RTok t r -> suffix r cur.
Proof.
  intros f cur t r H. unfold Lexer.read_flavoured in H.
  destruct (Lexer.match_ident uni_word cur) as [[w r']|] eqn:E; [|discriminate].
  apply match_ident_split in E. destruct E as [-> _].
  destruct (lookup w keyword_tokens); [discriminate|]. inversion H; subst. exists w. reflexivity.
Qed.

Lemma read_ident_kw_suffix : forall cur t r, read_ident_kw cur = RTok t r -> ssuffix r cur.
Proof.
  intros cur t r H. unfold Lexer.read_ident_kw in H. destruct cur as [|c cur']; [discriminate|].
  destruct (c =? flavor_sigil_you).
  { apply suffix_ssuffix_cons. eapply read_flavoured_suffix. exact H. }
  destruct (c =? flavor_sigil_defeat).
  { apply suffix_ssuffix_cons. eapply read_flavoured_suffix. exact H. }
  destruct (Lexer.match_ident uni_word (c :: cur')) as [[w r']|] eqn:E; [|discriminate].
  apply match_ident_split in E. destruct E as [E Hw].
  assert (r = r') by (destruct (lookup w keyword_tokens); inversion H; reflexivity). subst r'.
  exists w. split; assumption.
Qed.

(* every token reader consumes a non-empty prefix of the line *)
Theorem read_token_suffix : forall cur t r, read_token cur = RTok t r -> ssuffix r cur.
Proof.
  intros cur t r H. unfold Lexer.read_token in H.
  destruct (read_symbol cur) eqn:E1; cbn [or_else] in H; try discriminate;
    [|inversion H; subst; eapply read_symbol_suffix; eauto].
  destruct (Lexer.read_ident_kw uni_word cur) eqn:E2; cbn [or_else] in H; try discriminate;
    [|inversion H; subst; eapply read_ident_kw_suffix; eauto].
  destruct (Lexer.read_int uni_digit cur) eqn:E3; cbn [or_else] in H; try discriminate;
    [|inversion H; subst; eapply read_int_suffix; eauto].
  destruct (Lexer.read_string uni_digit cur) eqn:E4; cbn [or_else] in H; try discriminate;
    [|inversion H; subst; eapply read_string_suffix; eauto].
  eapply read_char_suffix; eauto.
Qed.

End TotalityWords.

Section Totality.

Variable uni_space : Z -> bool.
Variable uni_word : Z -> bool.
Variable uni_digit : Z -> option Z.

Notation is_space := (is_space uni_space).
Notation read_token := (read_token uni_word uni_digit).
Notation skip_spaces := (skip_spaces uni_space).
Notation skip_ignore := (skip_ignore uni_space).
Notation lex_loop := (lex_loop uni_space uni_word uni_digit).
Notation lex_lines := (lex_lines uni_space uni_word uni_digit).

Lemma skip_spaces_spec : forall cur col,
  exists n, (n <= length cur)%nat /\ skip_spaces cur col = (skipn n cur, col + Z.of_nat n).
Proof.
  induction cur as [|c cur IH]; intros col.
  - exists 0%nat. cbn. split; [lia|]. f_equal. lia.
  - cbn [Lexer.skip_spaces]. destruct (is_space c).
    + destruct (IH (col + 1)) as (n & Hn & E). exists (S n). cbn [skipn length]. split; [lia|].
      change (Lexer.skip_spaces uni_space) with skip_spaces. rewrite E. f_equal. lia.
    + exists 0%nat. cbn. split; [lia|]. f_equal. lia.
Qed.

Lemma skip_ignore_spec : forall cur col,
  exists n, (n <= length cur)%nat /\ skip_ignore cur col = (skipn n cur, col + Z.of_nat n).
Proof.
  intros cur col. unfold Lexer.skip_ignore.
  destruct (skip_spaces_spec cur col) as (n & Hn & E).
  change (Lexer.skip_spaces uni_space) with skip_spaces. rewrite E.
  destruct (starts_comment (skipn n cur)).
  - exists (length cur). split; [lia|]. rewrite skipn_all. f_equal. unfold len. rewrite skipn_length. lia.
  - exists n. split; [exact Hn|reflexivity].
Qed.

Lemma snd_cons_lex : forall x r, snd (cons_lex x r) = snd r.
Proof. reflexivity. Qed.
Lemma fst_cons_lex : forall x r, fst (cons_lex x r) = x :: fst r.
Proof. reflexivity. Qed.

Lemma lex_loop_fuel : forall fuel cur rest ln col last, (measure cur rest < fuel)%nat ->
  snd (lex_loop fuel cur rest ln col last) <> OFuel.
Proof.
  induction fuel as [|f IH]; intros cur rest ln col last Hf; [lia|].
  cbn [Lexer.lex_loop]. destruct (skip_ignore_spec cur col) as (n & Hn & E).
  change (Lexer.skip_ignore uni_space) with skip_ignore. rewrite E.
  assert (Hlen : (length (skipn n cur) <= length cur)%nat) by (rewrite skipn_length; lia).
  destruct (skipn n cur) as [|c cur1] eqn:Ecur.
  - destruct rest as [|nxt rest']; [cbn; discriminate|]. apply IH.
    unfold measure in *. cbn [fold_right] in Hf. lia.
  - destruct (Lexer.read_token uni_word uni_digit (c :: cur1)) as [|t r|e r|k] eqn:Er;
      try (cbn; discriminate).
    rewrite snd_cons_lex. apply IH. apply (read_token_suffix uni_word uni_digit), ssuffix_length in Er.
    unfold measure in *. lia.
Qed.

(* the model is total: its fuel is never exhausted, on any input *)
Theorem lex_lines_fuel : forall lines, snd (lex_lines lines) <> OFuel.
Proof.
  intros [|l ls]; unfold Lexer.lex_lines.
  - cbn. discriminate.
  - apply lex_loop_fuel. lia.
Qed.

(* ---- spans ---- *)

(* the lexeme (tok, (ln, c0, c1)) is exactly what the readers produce when started at column
   c0 of line ln, and they stop at column c1 *)
Definition span_exact (lines : list (list Z)) (x : lexeme) : Prop :=
  let '(tok, (ln, c0, c1)) := x in
  exists l, nth_error lines (Z.to_nat ln) = Some l /\ 0 <= ln /\ 0 <= c0 /\ c0 < c1 <= len l /\
            read_token (skipn (Z.to_nat c0) l) = RTok tok (skipn (Z.to_nat c1) l).

Lemma lex_loop_spans : forall fuel lines done curline cur rest ln col last,
  lines = done ++ curline :: rest -> ln = Z.of_nat (length done) ->
  0 <= col <= len curline -> cur = skipn (Z.to_nat col) curline ->
  Forall (span_exact lines) (fst (lex_loop fuel cur rest ln col last)).
Proof.
  induction fuel as [|f IH]; intros lines done curline cur rest ln col last Hl Hln Hcol Hcur;
    [constructor|].
  cbn [Lexer.lex_loop]. destruct (skip_ignore_spec cur col) as (n & Hn & E).
  change (Lexer.skip_ignore uni_space) with skip_ignore. rewrite E.
  assert (Hlc : length cur = (length curline - Z.to_nat col)%nat) by (subst cur; apply skipn_length).
  assert (Hcur1 : skipn n cur = skipn (Z.to_nat (col + Z.of_nat n)) curline).
  { subst cur. rewrite skipn_skipn. f_equal. lia. }
  assert (Hcol1 : 0 <= col + Z.of_nat n <= len curline) by (unfold len in *; lia).
  set (col1 := col + Z.of_nat n) in *.
  destruct (skipn n cur) as [|c cur1] eqn:Ecur.
  - destruct rest as [|nxt rest']; [constructor|].
    apply (IH lines (done ++ [curline]) nxt).
    + rewrite <- app_assoc. exact Hl.
    + rewrite app_length. cbn [length]. lia.
    + pose proof (len_nonneg nxt). lia.
    + reflexivity.
  - destruct (Lexer.read_token uni_word uni_digit (c :: cur1)) as [|t r|e r|k] eqn:Er;
      try constructor.
    + (* the lexeme just read *)
      pose proof (read_token_suffix uni_word uni_digit _ _ _ Er) as [p [Hp Ep]].
      assert (Hlenp : len (c :: cur1) - len r = len p).
      { rewrite Ep, len_app. lia. }
      rewrite Hlenp.
      assert (Hlen1 : len (c :: cur1) = len curline - col1).
      { rewrite Hcur1. unfold len in *. rewrite skipn_length. lia. }
      assert (Hpp : 0 < len p) by (destruct p; [congruence|rewrite len_cons; pose proof (len_nonneg p); lia]).
      assert (Hr : r = skipn (Z.to_nat (col1 + len p)) curline).
      { replace (Z.to_nat (col1 + len p)) with (length p + Z.to_nat col1)%nat by (unfold len; lia).
        rewrite <- skipn_skipn, <- Hcur1, Ep. rewrite skipn_app, skipn_all, Nat.sub_diag. reflexivity. }
      exists curline. split; [|split; [lia|split; [lia|split]]].
      * subst lines ln. rewrite Nat2Z.id. rewrite nth_error_app2 by lia. rewrite Nat.sub_diag. reflexivity.
      * rewrite Ep, len_app in Hlen1. pose proof (len_nonneg r). lia.
      * rewrite <- Hcur1, <- Hr. exact Er.
    + (* the rest of the line *)
      pose proof (read_token_suffix uni_word uni_digit _ _ _ Er) as [p [Hp Ep]].
      assert (Hlenp : len (c :: cur1) - len r = len p) by (rewrite Ep, len_app; lia).
      rewrite Hlenp.
      assert (Hlen1 : len (c :: cur1) = len curline - col1).
      { rewrite Hcur1. unfold len in *. rewrite skipn_length. lia. }
      apply (IH lines done curline); try assumption.
      * rewrite Ep, len_app in Hlen1. pose proof (len_nonneg r). pose proof (len_nonneg p). lia.
      * replace (Z.to_nat (col1 + len p)) with (length p + Z.to_nat col1)%nat by (unfold len; lia).
        rewrite <- skipn_skipn, <- Hcur1, Ep. rewrite skipn_app, skipn_all, Nat.sub_diag. reflexivity.
Qed.

(* (spans) for EVERY input: each token's reported span is exactly the text it was read from *)
Theorem lex_spans_exact : forall lines, lines <> [] ->
  Forall (span_exact lines) (fst (lex_lines lines)).
Proof.
  intros [|l ls] Hne; [congruence|]. unfold Lexer.lex_lines.
  apply (lex_loop_spans _ (l :: ls) [] l); try reflexivity.
  pose proof (len_nonneg l). lia.
Qed.

End Totality.

(* ======================================================================================== *)
(* `separable` asks nothing where there is whitespace: after ANY well-formed token, the end   *)
(* of the line or an ASCII whitespace character is always an admissible continuation          *)
(* ======================================================================================== *)

Lemma is_prefix_length : forall e s, is_prefix e s = true -> (length e <= length s)%nat.
Proof.
  induction e as [|a e IH]; intros s H; [cbn; lia|]. destruct s as [|b s]; [discriminate|].
  cbn in H. apply andb_true_iff in H. destruct H as [_ H]. apply IH in H. cbn. lia.
Qed.

Lemma is_prefix_app_cases : forall s e c k, is_prefix e (s ++ c :: k) = true ->
  (length e <= length s)%nat \/ In c e.
Proof.
  induction s as [|b s IH]; intros e c k H.
  - destruct e as [|a e]; [left; cbn; lia|]. cbn in H. apply andb_true_iff in H.
    destruct H as [H _]. apply Z.eqb_eq in H. subst. right. left. reflexivity.
  - destruct e as [|a e]; [left; cbn; lia|]. cbn in H. apply andb_true_iff in H.
    destruct H as [_ H]. apply IH in H. destruct H as [H|H]; [left; cbn; lia|right; right; exact H].
Qed.

Lemma symbols_no_space_no_comment :
  forallb (fun e => forallb (fun a => negb (ascii_space a)) (fst e) && negb (starts_comment (fst e)))
          symbol_tokens = true.
Proof. vm_compute. reflexivity. Qed.

Lemma ascii_space_range : forall c, ascii_space c = true -> 9 <= c <= 13 \/ 28 <= c <= 32.
Proof. intros c. unfold ascii_space. bdall. Qed.

Section FollowSpace.

Variable uni_space : Z -> bool.
Variable uni_word : Z -> bool.
Variable uni_digit : Z -> option Z.

Lemma space_not_word : forall c, ascii_space c = true -> Lexer.is_word uni_word c = false.
Proof.
  intros c H. apply ascii_space_range in H. unfold Lexer.is_word.
  destruct (Z.ltb_spec c 128); [|lia]. unfold ascii_word, ascii_alpha, ascii_digit. bdall.
Qed.

Lemma space_not_digit : forall b c, ascii_space c = true -> Lexer.digit_val uni_digit b c = None.
Proof.
  intros b c H. apply ascii_space_range in H.
  destruct b; unfold Lexer.digit_val, Lexer.hex_val, Lexer.oct_val, Lexer.bin_val, Lexer.dec_val, ascii_digit;
    bdall.
Qed.

Lemma sym_follow_space : forall s t k,
  In (s, t) symbol_tokens ->
  match k with [] => True | c :: _ => ascii_space c = true end ->
  sym_follow_b s k = true.
Proof.
  intros s t k HI Hk. unfold sym_follow_b.
  pose proof symbols_no_space_no_comment as F. rewrite forallb_forall in F.
  apply andb_true_iff. split.
  - apply forallb_forall. intros [e te] HIe. cbn [fst].
    destruct (is_prefix e (s ++ k)) eqn:Ep; [|reflexivity]. cbn [negb orb]. apply Nat.leb_le.
    destruct k as [|c k'].
    + rewrite app_nil_r in Ep. apply is_prefix_length. exact Ep.
    + apply is_prefix_app_cases in Ep. destruct Ep as [Ep|Ep]; [exact Ep|]. exfalso.
      specialize (F _ HIe). cbn [fst] in F. apply andb_true_iff in F. destruct F as [F _].
      rewrite forallb_forall in F. specialize (F _ Ep). rewrite Hk in F. discriminate.
  - specialize (F _ HI). cbn [fst] in F. apply andb_true_iff in F. destruct F as [_ F].
    apply negb_true_iff in F. apply negb_true_iff.
    pose proof symbol_shapes as Hs. rewrite forallb_forall in Hs. specialize (Hs _ HI). cbn [fst] in Hs.
    destruct s as [|a [|b s']]; [discriminate| |exact F].
    destruct k as [|c k']; [reflexivity|]. cbn [app starts_comment].
    apply ascii_space_range in Hk. destruct (Z.eqb_spec c 47); [lia|]. apply andb_false_r.
Qed.

Theorem follow_ok_blank : forall t k,
  tok_ok uni_space uni_word uni_digit t ->
  match k with [] => True | c :: _ => ascii_space c = true end ->
  follow_ok uni_word uni_digit t k = true.
Proof.
  intros [s t|f w|b d ds seps|items|it] k Hok Hk; cbn [follow_ok tok_ok] in *; try reflexivity.
  - destruct (is_ident_ascii s) eqn:E.
    + destruct k as [|c k']; [reflexivity|]. cbn. rewrite space_not_word by exact Hk. reflexivity.
    + eapply sym_follow_space; [|exact Hk]. apply symbol_tokens_spec. split; [exact Hok|exact E].
  - destruct k as [|c k']; [reflexivity|]. cbn. rewrite space_not_word by exact Hk. reflexivity.
  - destruct k as [|c k']; [destruct b; reflexivity|].
    assert (Hc : 9 <= c <= 13 \/ 28 <= c <= 32) by (apply ascii_space_range; exact Hk).
    cbn [stops_b not_letter_b]. rewrite space_not_digit by exact Hk. cbn [none_b andb].
    destruct (Z.eqb_spec c 95); [lia|]. cbn [negb orb andb].
    destruct b; try reflexivity.
    destruct (Z.eqb_spec c 120); [lia|]. destruct (Z.eqb_spec c 111); [lia|].
    destruct (Z.eqb_spec c 98); [lia|]. reflexivity.
Qed.

End FollowSpace.

(* ======================================================================================== *)
(* Error discipline.  Two former leaks are LexerErrors now (/repo 4ec1d5f, 0d6dc46): concrete   *)
(* inputs with kind and position.  One leak is left (a lone surrogate in the source str).      *)
(* ======================================================================================== *)

(* "\u{80000000}"  ->  'Invalid unicode codepoint: 80000000' at 1:14 (0-based column 13) *)
Example huge_codepoint_is_lexer_error :
  lex_text no_space no_word no_digit
    [34; 92; 117; 123; 56; 48; 48; 48; 48; 48; 48; 48; 125; 34]
  = ([], OErr (EBadCodepoint 2147483648) 0 13).
Proof. vm_compute. reflexivity. Qed.

(* a decimal literal of 4301 digits -> 'Integer literal too large' at the end of the literal;
   4300 digits are still a token *)
Example long_decimal_is_lexer_error :
  lex_text no_space no_word no_digit (repeat 49 (Z.to_nat 4301)) = ([], OErr EIntTooLarge 0 4301)
  /\ snd (lex_text no_space no_word no_digit (repeat 49 (Z.to_nat 4300))) = ODone (0, 4300).
Proof. vm_compute. split; reflexivity. Qed.

(* a raw surrogate code point (U+D800) inside a string literal -> UnicodeEncodeError (leaked) *)
Example leak_raw_surrogate_witness :
  snd (lex_text no_space no_word no_digit [34; 55296; 34]) = OCrash CEncodeRaw.
Proof. vm_compute. reflexivity. Qed.
