(* HiD/Lexer.v -- hand-written reference model of hidc's lexer (hidc/lexer/{__init__,readers,
   scanner,tokens}.py).  Component `lexer`, property C12.

   The alphabet is Unicode code points (Z).  The regex classes \s \w \d are exact on ASCII and,
   beyond ASCII, given by three oracles (Section variables): every theorem holds for every
   oracle.  At extraction the oracles are instantiated by tables computed with Python's `re`.

   The model is a model of the code that exists: it reproduces hidc's behaviour on every input
   `SourceCode.from_string` can produce, including the one place left where hidc leaves the
   LexerError discipline (see `crash`).

   Shape of the implementation that is mirrored:
     lex():            skip_whitespace; stop at end of input; mark; try the readers in
                       `reader_order`; the first that returns a token wins; none -> 'Invalid syntax'
     skip_whitespace:  repeat { match `ignore` ; linebreak } until linebreak fails
     scanner:          a cursor (line, col) into a list of lines; nothing ever matches across a
                       line end; spans are (line, col_start, col_end) with col counted in code points
   Recursion is structural except the two loops that consume a variable amount of input per
   iteration (`str_loop`, `lex_loop`), which take fuel; `SFuel` / `OFuel` are the distinct
   out-of-fuel results and `lex_lines` provably never returns them (LexerProofs.lex_lines_fuel). *)
From Coq Require Import ZArith List Bool String Lia.
From HidV Require Import GenLexer.
Import ListNotations.
Local Open Scope Z_scope.
Notation length := List.length (only parsing).

(* ---------------------------------------------------------------------------------------- *)
(* (T) what the hand model was written against: pinned copies of the regenerated items       *)
(* ---------------------------------------------------------------------------------------- *)

Definition pinned_regex_texts : list (string * string) :=
  [ ("ignore", "\s*//.*|\s+");
    ("byte_escape", "\\x([\da-fA-F]{2})");
    ("unicode_escape", "\\u\{([\da-fA-F]+)\}");
    ("string_text", "[^\\""]+");
    ("hex_literal", "0x(?:[\da-fA-F]_?)*[\da-fA-F]");
    ("oct_literal", "0o(?:[0-7]_?)*[0-7]");
    ("bin_literal", "0b(?:[01]_?)*[01]");
    ("dec_literal", "(?:\d_?)*\d");
    ("ident_pattern", "[a-zA-Z_]\w*") ]%string.

Definition pinned_reader_order : list string :=
  [ "read_symbol_token"; "read_ident_or_keyword_token"; "read_int_token";
    "read_string_token"; "read_char_token" ]%string.

Definition pinned_int_reader_cases : list (string * Z) :=
  [ ("hex_literal", 16); ("oct_literal", 8); ("bin_literal", 2); ("dec_literal", 10) ]%string.

Definition pinned_int_reader_guards : list (string * string) :=
  [ ("hex_literal", ""); ("oct_literal", ""); ("bin_literal", "");
    ("dec_literal", "ValueError") ]%string.

Definition pinned_chr_excepts : list string := [ "ValueError"; "OverflowError" ]%string.

Definition pinned_flavors : list (string * list Z) :=
  [ ("NONE", []); ("YOU", [64]); ("DEFEAT", [33]) ]%string.

Definition pinned_reader_uses : list (string * list (string * string)) :=
  [ ("skip_whitespace", [("M", "ignore"); ("L", "")]);
    ("read_byte_escape", [("M", "byte_escape"); ("E", "\x")]);
    ("read_char_escape", [("M", "unicode_escape"); ("E", "\u"); ("E", "\"); ("R", "1")]);
    ("read_escape_bytes", []);
    ("read_char_token", [("E", "'"); ("E", "'"); ("R", "1"); ("E", "'")]);
    ("read_string_token", [("E", """"); ("M", "string_text"); ("E", """")]);
    ("read_int_token", [("M", "hex_literal"); ("M", "oct_literal"); ("M", "bin_literal");
                        ("M", "dec_literal")]);
    ("read_ident_or_keyword_token", [("E", "@"); ("E", "!"); ("M", "ident_pattern");
                                     ("M", "ident_pattern")]);
    ("read_symbol_token", [("S", "symbol_tokens")]) ]%string.

(* the language's token table as documented (README: operators, keywords, types, brackets) *)
Definition documented_tokens : list (list Z * tag) :=
  [
   ([43], ("OpToken", "ADD"));
   ([45], ("OpToken", "SUB"));
   ([42], ("OpToken", "MUL"));
   ([47], ("OpToken", "DIV"));
   ([37], ("OpToken", "MOD"));
   ([61; 61], ("OpToken", "EQ"));
   ([33; 61], ("OpToken", "NE"));
   ([60], ("OpToken", "LT"));
   ([62], ("OpToken", "GT"));
   ([60; 61], ("OpToken", "LE"));
   ([62; 61], ("OpToken", "GE"));
   ([111; 114], ("OpToken", "OR"));
   ([97; 110; 100], ("OpToken", "AND"));
   ([110; 111; 116], ("OpToken", "NOT"));
   ([105; 115], ("OpToken", "IS"));
   ([63; 63], ("OpToken", "SPECULATION"));
   ([43; 61], ("IncAssignToken", "IADD"));
   ([45; 61], ("IncAssignToken", "ISUB"));
   ([42; 61], ("IncAssignToken", "IMUL"));
   ([47; 61], ("IncAssignToken", "IDIV"));
   ([37; 61], ("IncAssignToken", "IMOD"));
   ([61], ("StmtToken", "ASSIGN"));
   ([98; 114; 101; 97; 107], ("StmtToken", "BREAK"));
   ([99; 111; 110; 116; 105; 110; 117; 101], ("StmtToken", "CONTINUE"));
   ([114; 101; 116; 117; 114; 110], ("StmtToken", "RETURN"));
   ([99; 111; 110; 115; 116], ("StmtToken", "CONST"));
   ([59], ("SepToken", "SEMICOLON"));
   ([44], ("SepToken", "COMMA"));
   ([46], ("SepToken", "DOT"));
   ([40], ("BracToken", "LPAREN"));
   ([41], ("BracToken", "RPAREN"));
   ([123], ("BracToken", "LCURLY"));
   ([125], ("BracToken", "RCURLY"));
   ([91], ("BracToken", "LSQUARE"));
   ([93], ("BracToken", "RSQUARE"));
   ([105; 102], ("BlockToken", "IF"));
   ([101; 108; 115; 101], ("BlockToken", "ELSE"));
   ([119; 104; 105; 108; 101], ("BlockToken", "WHILE"));
   ([102; 111; 114], ("BlockToken", "FOR"));
   ([116; 114; 121], ("BlockToken", "TRY"));
   ([117; 110; 100; 111], ("BlockToken", "UNDO"));
   ([115; 116; 111; 112], ("BlockToken", "STOP"));
   ([112; 114; 101; 101; 109; 112; 116], ("BlockToken", "PREEMPT"));
   ([105; 110; 116], ("DataType", "INT"));
   ([98; 111; 111; 108], ("DataType", "BOOL"));
   ([98; 121; 116; 101], ("DataType", "BYTE"));
   ([115; 116; 114; 105; 110; 103], ("DataType", "STRING"));
   ([101; 109; 112; 116; 121], ("DataType", "EMPTY"));
   ([116; 114; 117; 101], ("BoolToken", "TRUE"));
   ([102; 97; 108; 115; 101], ("BoolToken", "FALSE"))
  ]%string.

Lemma enum_tokens_documented : enum_tokens = documented_tokens.
Proof. reflexivity. Qed.

Lemma regex_texts_pinned : regex_texts = pinned_regex_texts.
Proof. reflexivity. Qed.
Lemma reader_order_pinned : reader_order = pinned_reader_order.
Proof. reflexivity. Qed.
Lemma int_reader_cases_pinned : int_reader_cases = pinned_int_reader_cases.
Proof. reflexivity. Qed.
Lemma int_reader_guards_pinned : int_reader_guards = pinned_int_reader_guards.
Proof. reflexivity. Qed.
Lemma chr_excepts_pinned : chr_excepts = pinned_chr_excepts.
Proof. reflexivity. Qed.
Lemma flavors_pinned : flavors = pinned_flavors.
Proof. reflexivity. Qed.
Lemma reader_uses_pinned : reader_uses = pinned_reader_uses.
Proof. reflexivity. Qed.
(* The model *uses* the regenerated `escape_codes`, `enum_tokens` and `symbol_sort_reverse` (so
   it follows the implementation if they are edited, and the correspondence stays meaningful);
   the theorems that depend on their content are proved by computation on them.  The documented
   values are pinned separately: `enum_tokens_documented` above, `escape_codes_standard` and
   `symbol_tokens_sorted` in LexerProofs.v. *)

(* ---------------------------------------------------------------------------------------- *)
(* Tokens, errors, results                                                                   *)
(* ---------------------------------------------------------------------------------------- *)

Inductive flavor := FNone | FYou | FDefeat.

Inductive token :=
| TEnum (t : tag)                          (* keyword / symbol: (class, member) *)
| TIdent (f : flavor) (name : list Z)      (* base name without the sigil *)
| TInt (v : Z)
| TChar (b : Z)
| TString (bs : list Z).                   (* bytes *)

(* LexerError kinds (message classes of readers.py / __init__.py) *)
Inductive errkind :=
| EInvalidSyntax                 (* LexerError.unhelpful *)
| EExpectedCharacter             (* expected(need='character') *)
| EExpectedQuote                 (* expected(need="'") *)
| EBadByteEscape                 (* 'Invalid byte escape sequence' *)
| EBadCodepoint (cp : Z)         (* 'Invalid unicode codepoint: {cp:X}' *)
| EBadUnicodeEscape              (* 'Invalid unicode escape sequence' *)
| EBadEscape (c : Z)             (* 'Invalid escape sequence: \{c}' *)
| ESurrogate (cp : Z)            (* str(UnicodeEncodeError) for an escaped surrogate *)
| EUnclosedChar
| EUnclosedString
| EUnicodeInChar                 (* 'Unicode is not allowed in character literals, ...' *)
| EBadFlavorIdent (f : flavor)   (* 'Invalid {flavor.name} identifier' *)
| EIntTooLarge.                  (* 'Integer literal too large': decimal literal with more than
                                    4300 digits (CPython's int-string conversion limit; the
                                    ValueError of int() is caught since /repo 0d6dc46) *)

(* Exceptions that are *not* LexerErrors (hidc leaks them; they carry no position).  Only one is
   left: it needs a str with a lone surrogate, which SourceCode.from_file cannot produce. *)
Inductive crash :=
| CEncodeRaw.                    (* a raw surrogate code point in a literal: UnicodeEncodeError *)

Definition int_max_str_digits : Z := 4300.

(* result of one token reader on the rest of the current line *)
Inductive rres :=
| RNone                                     (* reader returned None *)
| RTok (t : token) (rest : list Z)
| RErr (e : errkind) (rest : list Z)        (* raised at the cursor where `rest` begins *)
| RCrash (c : crash).

(* result of reading one escape *)
Inductive eres :=
| EOk (bs : list Z) (rest : list Z)
| EErr (e : errkind) (rest : list Z)
| ECrash (c : crash).

Inductive sres :=
| SOk (bs : list Z) (rest : list Z)
| SErr (e : errkind) (rest : list Z)
| SCrash (c : crash)
| SFuel.

Definition span : Type := (Z * Z * Z)%type.           (* line, start col, end col (0-based) *)
Definition lexeme : Type := (token * span)%type.

Inductive outcome :=
| ODone (last : Z * Z)                      (* generator return value: marker.cursor *)
| OErr (e : errkind) (line col : Z)
| OCrash (c : crash)
| OFuel.

Definition result : Type := (list lexeme * outcome)%type.

Definition cons_lex (x : lexeme) (r : result) : result := (x :: fst r, snd r).

(* ---------------------------------------------------------------------------------------- *)
(* Small helpers                                                                             *)
(* ---------------------------------------------------------------------------------------- *)

Definition len (l : list Z) : Z := Z.of_nat (length l).

Fixpoint is_prefix (p s : list Z) : bool :=
  match p, s with
  | [], _ => true
  | a :: p', b :: s' => (a =? b) && is_prefix p' s'
  | _ :: _, [] => false
  end.

Fixpoint list_eqb (a b : list Z) : bool :=
  match a, b with
  | [], [] => true
  | x :: a', y :: b' => (x =? y) && list_eqb a' b'
  | _, _ => false
  end.

Fixpoint lookup {A} (k : list Z) (tbl : list (list Z * A)) : option A :=
  match tbl with
  | [] => None
  | (s, v) :: tbl' => if list_eqb k s then Some v else lookup k tbl'
  end.

Fixpoint lookupZ (k : Z) (tbl : list (Z * Z)) : option Z :=
  match tbl with
  | [] => None
  | (a, v) :: tbl' => if k =? a then Some v else lookupZ k tbl'
  end.

(* ---------------------------------------------------------------------------------------- *)
(* Character classes: exact on ASCII                                                         *)
(* ---------------------------------------------------------------------------------------- *)

(* Python 3 str patterns: \s on ASCII = [\t\n\v\f\r\x1c-\x1f ] *)
Definition ascii_space (c : Z) : bool :=
  ((9 <=? c) && (c <=? 13)) || ((28 <=? c) && (c <=? 32)).
Definition ascii_digit (c : Z) : bool := (48 <=? c) && (c <=? 57).
Definition ascii_alpha (c : Z) : bool :=
  ((65 <=? c) && (c <=? 90)) || ((97 <=? c) && (c <=? 122)).
Definition ident_start (c : Z) : bool := ascii_alpha c || (c =? 95).       (* [a-zA-Z_] *)
Definition ascii_word (c : Z) : bool := ascii_alpha c || ascii_digit c || (c =? 95).
Definition is_surrogate (c : Z) : bool := (55296 <=? c) && (c <=? 57343).   (* D800..DFFF *)

Definition is_ident_ascii (s : list Z) : bool :=       (* ident_pattern.fullmatch on ASCII text *)
  match s with
  | c :: s' => ident_start c && forallb ascii_word s'
  | [] => false
  end.

(* ---------------------------------------------------------------------------------------- *)
(* Tables derived from the regenerated data (readers.py: keyword_tokens, symbol_tokens)       *)
(* ---------------------------------------------------------------------------------------- *)

Definition keyword_tokens : list (list Z * tag) :=
  filter (fun e => is_ident_ascii (fst e)) enum_tokens.

(* sorted(..., key=len) is a stable sort; reverse=True keeps stability (descending) *)
Fixpoint insert_by (le : nat -> nat -> bool) (e : list Z * tag) (l : list (list Z * tag)) :=
  match l with
  | [] => [e]
  | x :: l' => if le (length (fst e)) (length (fst x)) then e :: l else x :: insert_by le e l'
  end.
(* stable: an element is placed after all earlier elements that compare equal -> process from the
   right, inserting in front of the first element that is not strictly better. *)
Definition sort_by (le : nat -> nat -> bool) (l : list (list Z * tag)) :=
  fold_right (insert_by le) [] l.

Definition symbol_tokens : list (list Z * tag) :=
  let syms := filter (fun e => negb (is_ident_ascii (fst e))) enum_tokens in
  if symbol_sort_reverse
  then sort_by (fun a b => Nat.leb b a) syms        (* longest first *)
  else sort_by (fun a b => Nat.leb a b) syms.

Definition flavor_sigil_you : Z := 64.     (* pinned by flavors_pinned *)
Definition flavor_sigil_defeat : Z := 33.

Section WithOracles.

(* \s, \w, \d beyond ASCII.  uni_digit gives the digit's value (what int() makes of it). *)
Variable uni_space : Z -> bool.
Variable uni_word : Z -> bool.
Variable uni_digit : Z -> option Z.

Definition is_space (c : Z) : bool := if c <? 128 then ascii_space c else uni_space c.
Definition is_word (c : Z) : bool := if c <? 128 then ascii_word c else uni_word c.
Definition dec_val (c : Z) : option Z :=
  if c <? 128 then (if ascii_digit c then Some (c - 48) else None) else uni_digit c.

Definition hex_val (c : Z) : option Z :=              (* [\da-fA-F] *)
  match dec_val c with
  | Some v => Some v
  | None => if (97 <=? c) && (c <=? 102) then Some (c - 87)
            else if (65 <=? c) && (c <=? 70) then Some (c - 55) else None
  end.
Definition oct_val (c : Z) : option Z := if (48 <=? c) && (c <=? 55) then Some (c - 48) else None.
Definition bin_val (c : Z) : option Z := if (48 <=? c) && (c <=? 49) then Some (c - 48) else None.

Inductive base := Hex | Oct | Bin | Dec.
Definition radix (b : base) : Z := match b with Hex => 16 | Oct => 8 | Bin => 2 | Dec => 10 end.
Definition digit_val (b : base) (c : Z) : option Z :=
  match b with Hex => hex_val c | Oct => oct_val c | Bin => bin_val c | Dec => dec_val c end.
Definition base_letter (b : base) : option Z :=
  match b with Hex => Some 120 | Oct => Some 111 | Bin => Some 98 | Dec => None end.

(* ---------------------------------------------------------------------------------------- *)
(* skip_whitespace: one match of `ignore` = \s*//.*|\s+                                       *)
(* ---------------------------------------------------------------------------------------- *)

Fixpoint skip_spaces (cur : list Z) (col : Z) : list Z * Z :=
  match cur with
  | c :: cur' => if is_space c then skip_spaces cur' (col + 1) else (cur, col)
  | [] => ([], col)
  end.

Definition starts_comment (cur : list Z) : bool :=
  match cur with
  | a :: b :: _ => (a =? 47) && (b =? 47)
  | _ => false
  end.

Definition skip_ignore (cur : list Z) (col : Z) : list Z * Z :=
  let (cur1, col1) := skip_spaces cur col in
  if starts_comment cur1 then ([], col1 + len cur1) else (cur1, col1).

(* ---------------------------------------------------------------------------------------- *)
(* read_symbol_token                                                                         *)
(* ---------------------------------------------------------------------------------------- *)

Fixpoint drop_prefix (p s : list Z) : list Z :=       (* s without the prefix p *)
  match p, s with
  | _ :: p', _ :: s' => drop_prefix p' s'
  | _, _ => s
  end.

Fixpoint find_symbol (tbl : list (list Z * tag)) (cur : list Z) : option (list Z * tag) :=
  match tbl with
  | [] => None
  | (s, t) :: tbl' => if is_prefix s cur then Some (s, t) else find_symbol tbl' cur
  end.

Definition read_symbol (cur : list Z) : rres :=
  match find_symbol symbol_tokens cur with
  | Some (s, t) => RTok (TEnum t) (drop_prefix s cur)
  | None => RNone
  end.

(* ---------------------------------------------------------------------------------------- *)
(* read_ident_or_keyword_token                                                               *)
(* ---------------------------------------------------------------------------------------- *)

Fixpoint span_word (cur : list Z) : list Z * list Z :=
  match cur with
  | c :: cur' => if is_word c then let (w, r) := span_word cur' in (c :: w, r) else ([], cur)
  | [] => ([], [])
  end.

Definition match_ident (cur : list Z) : option (list Z * list Z) :=      (* [a-zA-Z_]\w* *)
  match cur with
  | c :: cur' => if ident_start c then let (w, r) := span_word cur' in Some (c :: w, r) else None
  | [] => None
  end.

Definition read_flavoured (f : flavor) (cur : list Z) : rres :=
  match match_ident cur with
  | Some (w, r) =>
      match lookup w keyword_tokens with
      | None => RTok (TIdent f w) r
      | Some _ => RErr (EBadFlavorIdent f) r
      end
  | None => RErr (EBadFlavorIdent f) cur
  end.

Definition read_ident_kw (cur : list Z) : rres :=
  match cur with
  | c :: cur' =>
      if c =? flavor_sigil_you then read_flavoured FYou cur'
      else if c =? flavor_sigil_defeat then read_flavoured FDefeat cur'
      else match match_ident cur with
           | Some (w, r) =>
               match lookup w keyword_tokens with
               | Some t => RTok (TEnum t) r
               | None => RTok (TIdent FNone w) r
               end
           | None => RNone
           end
  | [] => RNone
  end.

(* ---------------------------------------------------------------------------------------- *)
(* read_int_token                                                                            *)
(* ---------------------------------------------------------------------------------------- *)

(* (?:D_?)*D after the first D: returns value, number of digits, rest *)
Fixpoint scan_digits (b : base) (acc n : Z) (cur : list Z) : Z * Z * list Z :=
  match cur with
  | c :: cur' =>
      match digit_val b c with
      | Some v => scan_digits b (acc * radix b + v) (n + 1) cur'
      | None =>
          if c =? 95 then
            match cur' with
            | d :: cur'' =>
                match digit_val b d with
                | Some v => scan_digits b (acc * radix b + v) (n + 1) cur''
                | None => (acc, n, cur)
                end
            | [] => (acc, n, cur)
            end
          else (acc, n, cur)
      end
  | [] => (acc, n, [])
  end.

Definition read_prefixed (b : base) (letter : Z) (cur : list Z) : option (Z * Z * list Z) :=
  match cur with
  | z :: q :: d :: cur' =>
      if (z =? 48) && (q =? letter) then
        match digit_val b d with
        | Some v => Some (scan_digits b v 1 cur')
        | None => None
        end
      else None
  | _ => None
  end.

Definition read_dec (cur : list Z) : option (Z * Z * list Z) :=
  match cur with
  | d :: cur' =>
      match dec_val d with
      | Some v => Some (scan_digits Dec v 1 cur')
      | None => None
      end
  | [] => None
  end.

Definition read_int (cur : list Z) : rres :=
  match read_prefixed Hex 120 cur with
  | Some (v, _, r) => RTok (TInt v) r
  | None =>
  match read_prefixed Oct 111 cur with
  | Some (v, _, r) => RTok (TInt v) r
  | None =>
  match read_prefixed Bin 98 cur with
  | Some (v, _, r) => RTok (TInt v) r
  | None =>
  match read_dec cur with
  | Some (v, n, r) => if int_max_str_digits <? n then RErr EIntTooLarge r else RTok (TInt v) r
  | None => RNone
  end end end end.

(* ---------------------------------------------------------------------------------------- *)
(* escapes                                                                                   *)
(* ---------------------------------------------------------------------------------------- *)

Definition utf8_encode (c : Z) : list Z :=
  if c <? 128 then [c]
  else if c <? 2048 then [192 + c / 64; 128 + c mod 64]
  else if c <? 65536 then [224 + c / 4096; 128 + (c / 64) mod 64; 128 + c mod 64]
  else [240 + c / 262144; 128 + (c / 4096) mod 64; 128 + (c / 64) mod 64; 128 + c mod 64].

(* str.encode('utf-8') of the one-character string chr(cp), inside read_escape_bytes *)
Definition encode_escaped (cp : Z) (rest : list Z) : eres :=
  if is_surrogate cp then EErr (ESurrogate cp) rest else EOk (utf8_encode cp) rest.

Fixpoint scan_hex (acc : Z) (cur : list Z) : Z * list Z :=
  match cur with
  | c :: cur' =>
      match hex_val c with
      | Some v => scan_hex (acc * 16 + v) cur'
      | None => (acc, cur)
      end
  | [] => (acc, [])
  end.

(* `after_u` = the text after "\u" *)
Definition read_unicode_escape (after_u : list Z) : eres :=
  match after_u with
  | o :: d :: r =>
      if o =? 123 then
        match hex_val d with
        | Some v =>
            let (cp, r') := scan_hex v r in
            match r' with
            | cl :: r'' =>
                if cl =? 125 then
                  (* chr(cp): ValueError / OverflowError are both caught (/repo 4ec1d5f) *)
                  if cp <? 1114112 then encode_escaped cp r''
                  else EErr (EBadCodepoint cp) r''
                else EErr EBadUnicodeEscape after_u
            | [] => EErr EBadUnicodeEscape after_u
            end
        | None => EErr EBadUnicodeEscape after_u
        end
      else EErr EBadUnicodeEscape after_u
  | _ => EErr EBadUnicodeEscape after_u
  end.

(* read_escape_bytes on text that begins with a backslash; `after_bs` = the text after it *)
Definition read_escape (after_bs : list Z) : eres :=
  match after_bs with
  | [] => EErr EInvalidSyntax []
  | c :: r =>
      if c =? 120 then                                   (* \x *)
        match r with
        | h1 :: h2 :: r' =>
            match hex_val h1, hex_val h2 with
            | Some a, Some b => EOk [a * 16 + b] r'
            | _, _ => EErr EBadByteEscape r
            end
        | _ => EErr EBadByteEscape r
        end
      else if c =? 117 then read_unicode_escape r        (* \u *)
      else match lookupZ c escape_codes with
           | Some v => encode_escaped v r
           | None => EErr (EBadEscape c) r
           end
  end.

(* one raw character of a literal, encoded as UTF-8 (outside any try: a surrogate crashes) *)
Definition encode_raw (c : Z) (rest : list Z) : eres :=
  if is_surrogate c then ECrash CEncodeRaw else EOk (utf8_encode c) rest.

(* one element of a string / character literal that starts with `c` (not a closing quote):
   read_escape_bytes if it is a backslash, else the raw character *)
Definition read_item (c : Z) (r : list Z) : eres :=
  if c =? 92 then read_escape r else encode_raw c r.

(* ---------------------------------------------------------------------------------------- *)
(* read_string_token / read_char_token                                                       *)
(* ---------------------------------------------------------------------------------------- *)

Fixpoint str_loop (fuel : nat) (cur : list Z) (acc : list Z) : sres :=
  match fuel with
  | O => SFuel
  | S f =>
      match cur with
      | [] => SErr EUnclosedString []
      | c :: cur' =>
          if c =? 34 then SOk acc cur'
          else
            match read_item c cur' with
            | EOk bs r => str_loop f r (acc ++ bs)
            | EErr e r => SErr e r
            | ECrash k => SCrash k
            end
      end
  end.

Definition read_string (cur : list Z) : rres :=
  match cur with
  | c :: cur' =>
      if c =? 34 then
        match str_loop (S (length cur')) cur' [] with
        | SOk bs r => RTok (TString bs) r
        | SErr e r => RErr e r
        | SCrash k => RCrash k
        | SFuel => RNone      (* unreachable: LexerProofs.str_loop_fuel *)
        end
      else RNone
  | [] => RNone
  end.

Definition read_char (cur : list Z) : rres :=
  match cur with
  | q :: cur' =>
      if q =? 39 then
        match cur' with
        | [] => RErr EUnclosedChar []
        | c :: r =>
            if c =? 39 then RErr EExpectedCharacter r
            else
              match read_item c r with
              | EOk bs r2 =>
                  match r2 with
                  | q2 :: r3 =>
                      if q2 =? 39 then
                        match bs with
                        | [b] => RTok (TChar b) r3
                        | _ => RErr EUnicodeInChar r3
                        end
                      else RErr EExpectedQuote r2
                  | [] => RErr EExpectedQuote []
                  end
              | EErr e r2 => RErr e r2
              | ECrash k => RCrash k
              end
        end
      else RNone
  | [] => RNone
  end.

(* ---------------------------------------------------------------------------------------- *)
(* lex()                                                                                     *)
(* ---------------------------------------------------------------------------------------- *)

Definition or_else (a : rres) (b : list Z -> rres) (cur : list Z) : rres :=
  match a with RNone => b cur | _ => a end.

(* the readers in `reader_order` (pinned) *)
Definition read_token (cur : list Z) : rres :=
  or_else (or_else (or_else (or_else (read_symbol cur) read_ident_kw cur) read_int cur)
                   read_string cur) read_char cur.

Fixpoint lex_loop (fuel : nat) (cur : list Z) (rest : list (list Z)) (ln col : Z)
                  (last : Z * Z) : result :=
  match fuel with
  | O => ([], OFuel)
  | S f =>
      let (cur1, col1) := skip_ignore cur col in
      match cur1 with
      | [] =>
          match rest with
          | nxt :: rest' => lex_loop f nxt rest' (ln + 1) 0 last        (* linebreak *)
          | [] => ([], ODone last)                                      (* `not scan` *)
          end
      | _ :: _ =>
          match read_token cur1 with
          | RTok t r =>
              let col2 := col1 + (len cur1 - len r) in
              cons_lex (t, (ln, col1, col2)) (lex_loop f r rest ln col2 (ln, col2))
          | RErr e r => ([], OErr e ln (col1 + (len cur1 - len r)))
          | RCrash k => ([], OCrash k)
          | RNone => ([], OErr EInvalidSyntax ln col1)
          end
      end
  end.

Definition measure (cur : list Z) (rest : list (list Z)) : nat :=
  (length cur + fold_right (fun l n => S (length l) + n) 0 rest)%nat.

(* lex(SourceCode(filename, lines)); SourceCode with no lines behaves like a single empty line *)
Definition lex_lines (lines : list (list Z)) : result :=
  match lines with
  | [] => lex_loop 1 [] [] 0 0 (0, 0)
  | l :: ls => lex_loop (S (measure l ls)) l ls 0 0 (0, 0)
  end.

(* SourceCode.from_string: string.split('\n') *)
Fixpoint split_lines (s : list Z) : list Z * list (list Z) :=
  match s with
  | [] => ([], [])
  | c :: s' =>
      let (l, ls) := split_lines s' in
      if c =? 10 then ([], l :: ls) else (c :: l, ls)
  end.

Definition lex_text (s : list Z) : result :=
  let (l, ls) := split_lines s in lex_lines (l :: ls).

End WithOracles.
