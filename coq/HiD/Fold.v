(* Fold.v -- compile-time evaluation (`simplify()` and the literal casts of hidc/ast) on unbounded
   integers, exactly as the Python code computes it, against the run-time meaning of the same
   operators on machine words of w bytes (two's complement).  Property C14.

   The operator -> Python function table is REGENERATED (Gen/GenTypes.v: fold_op_table,
   fold_zero_msg); `rt_op1/rt_op2` (what the source operator means at run time) is the
   specification and is written by hand. *)
From Coq Require Import ZArith List Bool Lia ZifyBool String.
From HidV.Gen Require Import GenTypes.
Import ListNotations.
Ltac Zify.zify_post_hook ::= Z.to_euclidean_division_equations.
Arguments Z.mul : simpl never.
Arguments Z.add : simpl never.
Arguments Z.pow : simpl never.
Arguments Z.modulo : simpl never.
Arguments Z.div : simpl never.
Arguments Z.sub : simpl never.
Arguments Z.opp : simpl never.
Arguments Z.quot : simpl never.
Local Open Scope Z_scope.

(* ------------------------------------------------------------------------------------------ *)
(** * Decidable equality on the generated enumerations *)

Scheme Equality for dty.
Scheme Equality for opclass.
Scheme Equality for foldfn.

Fixpoint assoc {A B : Type} (eqb : A -> A -> bool) (k : A) (l : list (A * B)) : option B :=
  match l with
  | [] => None
  | (k', v) :: tl => if eqb k k' then Some v else assoc eqb k tl
  end.

(* ------------------------------------------------------------------------------------------ *)
(** * Python semantics of the `operate` tags (unbounded ints; bools are the ints 0/1) *)

Inductive fres (A : Type) : Type :=
| FVal (a : A)            (* a value *)
| FErr (msg : string)     (* TypeCheckError raised by the folding code *)
| FCrash.                 (* anything else (uncaught ZeroDivisionError, wrong arity, no table entry) *)
Arguments FVal {A} a.
Arguments FErr {A} msg.
Arguments FCrash {A}.

Definition b2z (b : bool) : Z := if b then 1 else 0.
Definition truthy (z : Z) : bool := negb (z =? 0).

Inductive praw : Type := PVal (z : Z) | PZeroDiv | PArity.

Definition py_apply2 (f : foldfn) (a b : Z) : praw :=
  match f with
  | FAdd => PVal (a + b)
  | FSub => PVal (a - b)
  | FMul => PVal (a * b)
  | FFloorDiv => if b =? 0 then PZeroDiv else PVal (a / b)          (* Python // is floor *)
  | FFloorMod => if b =? 0 then PZeroDiv else PVal (a mod b)        (* sign of the divisor *)
  | FTruncDiv => if b =? 0 then PZeroDiv else PVal (Z.quot a b)
  | FLt => PVal (b2z (a <? b))
  | FGt => PVal (b2z (a >? b))
  | FLe => PVal (b2z (a <=? b))
  | FGe => PVal (b2z (a >=? b))
  | FEq => PVal (b2z (a =? b))
  | FNe => PVal (b2z (negb (a =? b)))
  | FAnd => PVal (b2z (truthy a && truthy b))
  | FOr => PVal (b2z (truthy a || truthy b))
  | FPos | FNeg | FNot => PArity
  end.

Definition py_apply1 (f : foldfn) (a : Z) : praw :=
  match f with
  | FPos => PVal a
  | FNeg => PVal (- a)
  | FNot => PVal (b2z (negb (truthy a)))
  | _ => PArity
  end.

Definition lift_raw (c : opclass) (r : praw) : fres Z :=
  match r with
  | PVal z => FVal z
  | PZeroDiv => match assoc opclass_beq c fold_zero_msg with Some m => FErr m | None => FCrash end
  | PArity => FCrash
  end.

(** `operate` of operator class c applied to literal data *)
Definition fold_op2 (c : opclass) (a b : Z) : fres Z :=
  match assoc opclass_beq c fold_op_table with
  | Some f => lift_raw c (py_apply2 f a b)
  | None => FCrash
  end.

Definition fold_op1 (c : opclass) (a : Z) : fres Z :=
  match assoc opclass_beq c fold_op_table with
  | Some f => lift_raw c (py_apply1 f a)
  | None => FCrash
  end.

Definition fres_map {A B} (g : A -> B) (r : fres A) : fres B :=
  match r with FVal a => FVal (g a) | FErr m => FErr m | FCrash => FCrash end.

(** ArithmeticOp.simplify: IntValue(int(operate(...)));  BooleanOp.simplify: BoolValue(bool(...)) *)
Definition fold_arith2 (c : opclass) (a b : Z) : fres Z := fold_op2 c a b.
Definition fold_arith1 (c : opclass) (a : Z) : fres Z := fold_op1 c a.
Definition fold_bool2 (c : opclass) (a b : Z) : fres bool := fres_map truthy (fold_op2 c a b).
Definition fold_bool1 (c : opclass) (a : Z) : fres bool := fres_map truthy (fold_op1 c a).

(** literal casts (expressions.py): IntValue.cast / BoolValue.cast / StringValue.cast *)
Definition fold_int_to_bool (d : Z) : bool := truthy d.              (* bool(self.data) *)
Definition fold_int_to_byte (d : Z) : Z := d mod 256.                (* self.data & 0xFF *)
Definition fold_byte_to_int (d : Z) : Z := d.
Definition fold_bool_to_int (b : bool) : Z := b2z b.                 (* int(self.data) *)
Definition fold_string_to_bool (len : nat) : bool := negb (Nat.eqb len 0).  (* bool(bytes) *)

(* ------------------------------------------------------------------------------------------ *)
(** * Run-time semantics on words of w bytes (the specification) *)

Definition modulus (w : Z) : Z := 2 ^ (8 * w).
Definition half (w : Z) : Z := 2 ^ (8 * w - 1).
Definition wrap (w x : Z) : Z := x mod modulus w.
Definition sgn (w x : Z) : Z := if x <? half w then x else x - modulus w.
Definition in_range (w x : Z) : Prop := - half w <= x < half w.
Definition in_rangeb (w x : Z) : bool := (- half w <=? x) && (x <? half w).

Inductive rtres : Type := RVal (z : Z) | RFault | RArity.

(** a, b are words in [0, 2^(8w)) *)
Definition rt_op2 (w : Z) (c : opclass) (a b : Z) : rtres :=
  match c with
  | OAdd => RVal (wrap w (a + b))
  | OSub => RVal (wrap w (a - b))
  | OMul => RVal (wrap w (a * b))
  | ODiv => if b =? 0 then RFault else RVal (wrap w (sgn w a / sgn w b))
  | OMod => if b =? 0 then RFault else RVal (wrap w (sgn w a mod sgn w b))
  | OLt => RVal (b2z (sgn w a <? sgn w b))
  | OGt => RVal (b2z (sgn w a >? sgn w b))
  | OLe => RVal (b2z (sgn w a <=? sgn w b))
  | OGe => RVal (b2z (sgn w a >=? sgn w b))
  | OEq => RVal (b2z (a =? b))
  | ONe => RVal (b2z (negb (a =? b)))
  | OAnd => RVal (b2z (truthy a && truthy b))
  | OOr => RVal (b2z (truthy a || truthy b))
  | OPos | ONeg | ONot => RArity
  end.

Definition rt_op1 (w : Z) (c : opclass) (a : Z) : rtres :=
  match c with
  | OPos => RVal a
  | ONeg => RVal (wrap w (- a))
  | ONot => RVal (b2z (negb (truthy a)))
  | _ => RArity
  end.

Definition rt_int_to_bool (a : Z) : bool := truthy a.      (* word <> 0 *)
Definition rt_int_to_byte (a : Z) : Z := a mod 256.        (* low 8 bits, zero-extended *)
Definition rt_byte_to_int (a : Z) : Z := a.
Definition rt_bool_to_int (b : bool) : Z := b2z b.

(* ------------------------------------------------------------------------------------------ *)
(** * Word arithmetic facts *)

Lemma modulus_pos : forall w, 1 <= w -> 0 < modulus w.
Proof. intros. unfold modulus. apply Z.pow_pos_nonneg; lia. Qed.

Lemma half_pos : forall w, 1 <= w -> 0 < half w.
Proof. intros. unfold half. apply Z.pow_pos_nonneg; lia. Qed.

Lemma modulus_half : forall w, 1 <= w -> modulus w = 2 * half w.
Proof.
  intros. unfold modulus, half.
  rewrite <- Z.pow_succ_r by lia. f_equal. lia.
Qed.

Lemma wrap_range : forall w x, 1 <= w -> 0 <= wrap w x < modulus w.
Proof. intros. unfold wrap. apply Z.mod_pos_bound. now apply modulus_pos. Qed.

Lemma wrap_wrap : forall w x, 1 <= w -> wrap w (wrap w x) = wrap w x.
Proof. intros. unfold wrap. apply Z.mod_mod. pose proof (modulus_pos w H). lia. Qed.

Lemma wrap_nonneg_small : forall w a, 1 <= w -> 0 <= a < modulus w -> wrap w a = a.
Proof. intros. unfold wrap. now apply Z.mod_small. Qed.

Lemma wrap_neg : forall w a, 1 <= w -> - modulus w <= a < 0 -> wrap w a = a + modulus w.
Proof.
  intros w a Hw Ha. unfold wrap.
  pose proof (modulus_pos w Hw) as Hm.
  symmetry. apply Z.mod_unique with (q := -1); lia.
Qed.

Lemma sgn_wrap_inrange : forall w a, 1 <= w -> in_range w a -> sgn w (wrap w a) = a.
Proof.
  intros w a Hw [Hlo Hhi].
  pose proof (half_pos w Hw) as Hh. pose proof (modulus_half w Hw) as Hm.
  unfold sgn. destruct (Z_lt_ge_dec a 0) as [Hneg | Hpos].
  - rewrite wrap_neg by lia.
    destruct (a + modulus w <? half w) eqn:E; lia.
  - rewrite wrap_nonneg_small by lia.
    destruct (a <? half w) eqn:E; lia.
Qed.

Lemma wrap_inj_inrange : forall w a b, 1 <= w -> in_range w a -> in_range w b ->
  wrap w a = wrap w b -> a = b.
Proof.
  intros w a b Hw Ha Hb E.
  rewrite <- (sgn_wrap_inrange w a Hw Ha), <- (sgn_wrap_inrange w b Hw Hb). now rewrite E.
Qed.

Lemma wrap_zero_inrange : forall w a, 1 <= w -> in_range w a -> (wrap w a =? 0) = (a =? 0).
Proof.
  intros w a Hw Ha.
  destruct (Z.eqb_spec a 0) as [->|Hn].
  - unfold wrap. rewrite Z.mod_0_l; [reflexivity|]. pose proof (modulus_pos w Hw). lia.
  - destruct (Z.eqb_spec (wrap w a) 0) as [E|]; [|reflexivity].
    exfalso. apply Hn. apply (wrap_inj_inrange w a 0 Hw Ha).
    + pose proof (half_pos w Hw). unfold in_range. lia.
    + rewrite E. unfold wrap. rewrite Z.mod_0_l; [reflexivity|]. pose proof (modulus_pos w Hw). lia.
Qed.

Lemma wrap_add : forall w a b, 1 <= w -> wrap w (wrap w a + wrap w b) = wrap w (a + b).
Proof. intros. unfold wrap. rewrite <- Z.add_mod; [reflexivity|]. pose proof (modulus_pos w H). lia. Qed.

Lemma wrap_sub : forall w a b, 1 <= w -> wrap w (wrap w a - wrap w b) = wrap w (a - b).
Proof. intros. unfold wrap. rewrite <- Zminus_mod. reflexivity. Qed.

Lemma wrap_mul : forall w a b, 1 <= w -> wrap w (wrap w a * wrap w b) = wrap w (a * b).
Proof. intros. unfold wrap. rewrite <- Z.mul_mod; [reflexivity|]. pose proof (modulus_pos w H). lia. Qed.

Lemma wrap_opp : forall w a, 1 <= w -> wrap w (- wrap w a) = wrap w (- a).
Proof.
  intros. replace (- wrap w a) with (0 - wrap w a) by lia. replace (- a) with (0 - a) by lia.
  unfold wrap. rewrite Zminus_mod_idemp_r. reflexivity.
Qed.

(* ------------------------------------------------------------------------------------------ *)
(** * C14 (positive half): folding the ring operators is invisible at every word size *)

Definition ring2 : list opclass := [OAdd; OSub; OMul].
Definition ring1 : list opclass := [OPos; ONeg].
Definition divmod : list opclass := [ODiv; OMod].
Definition compare6 : list opclass := [OLt; OGt; OLe; OGe; OEq; ONe].
Definition logic2 : list opclass := [OAnd; OOr].

Ltac in_cases H :=
  repeat (destruct H as [H | H]; [subst | ]); try contradiction.

Theorem fold_agrees_ring : forall w c a b, 1 <= w -> In c ring2 ->
  exists v, fold_arith2 c a b = FVal v /\
            rt_op2 w c (wrap w a) (wrap w b) = RVal (wrap w v).
Proof.
  intros w c a b Hw Hc. unfold ring2 in Hc. in_cases Hc.
  - exists (a + b). split; [reflexivity|]. simpl. now rewrite wrap_add.
  - exists (a - b). split; [reflexivity|]. simpl. now rewrite wrap_sub.
  - exists (a * b). split; [reflexivity|]. simpl. now rewrite wrap_mul.
Qed.

Theorem fold_agrees_ring1 : forall w c a, 1 <= w -> In c ring1 ->
  exists v, fold_arith1 c a = FVal v /\
            rt_op1 w c (wrap w a) = RVal (wrap w v).
Proof.
  intros w c a Hw Hc. unfold ring1 in Hc. in_cases Hc.
  - exists a. split; reflexivity.
  - exists (- a). split; [reflexivity|]. simpl. now rewrite wrap_opp.
Qed.

(** / and %, and the six comparisons: agreement when operands (and, for / %, the result) are in
    the signed range of the word *)
Theorem fold_agrees_inrange_divmod : forall w c a b v, 1 <= w -> In c divmod ->
  in_range w a -> in_range w b -> fold_arith2 c a b = FVal v -> in_range w v ->
  rt_op2 w c (wrap w a) (wrap w b) = RVal (wrap w v).
Proof.
  intros w c a b v Hw Hc Ha Hb Hf Hv. unfold divmod in Hc. in_cases Hc.
  - unfold fold_arith2, fold_op2 in Hf. simpl in Hf.
    destruct (Z.eqb_spec b 0) as [->|Hb0]; [discriminate|]. inversion Hf; subst v; clear Hf.
    simpl. rewrite (wrap_zero_inrange w b Hw Hb).
    destruct (Z.eqb_spec b 0); [contradiction|].
    now rewrite !sgn_wrap_inrange.
  - unfold fold_arith2, fold_op2 in Hf. simpl in Hf.
    destruct (Z.eqb_spec b 0) as [->|Hb0]; [discriminate|]. inversion Hf; subst v; clear Hf.
    simpl. rewrite (wrap_zero_inrange w b Hw Hb).
    destruct (Z.eqb_spec b 0); [contradiction|].
    now rewrite !sgn_wrap_inrange.
Qed.

Theorem fold_agrees_inrange_compare : forall w c a b, 1 <= w -> In c compare6 ->
  in_range w a -> in_range w b ->
  exists r, fold_bool2 c a b = FVal r /\
            rt_op2 w c (wrap w a) (wrap w b) = RVal (b2z r).
Proof.
  intros w c a b Hw Hc Ha Hb. unfold compare6 in Hc.
  assert (Heq : (wrap w a =? wrap w b) = (a =? b)).
  { destruct (Z.eqb_spec a b) as [->|Hn]; [apply Z.eqb_refl|].
    destruct (Z.eqb_spec (wrap w a) (wrap w b)) as [E|]; [|reflexivity].
    exfalso. apply Hn. now apply (wrap_inj_inrange w). }
  assert (T : forall x : bool, truthy (b2z x) = x) by (intros []; reflexivity).
  in_cases Hc; eexists; (split; [unfold fold_bool2, fold_op2; simpl; rewrite T; reflexivity|]);
    simpl; rewrite ?sgn_wrap_inrange, ?Heq by assumption; reflexivity.
Qed.

Definition fold_agrees_inrange_stmt : Prop :=
  (forall w c a b v, 1 <= w -> In c divmod ->
     in_range w a -> in_range w b -> fold_arith2 c a b = FVal v -> in_range w v ->
     rt_op2 w c (wrap w a) (wrap w b) = RVal (wrap w v)) /\
  (forall w c a b, 1 <= w -> In c compare6 -> in_range w a -> in_range w b ->
     exists r, fold_bool2 c a b = FVal r /\ rt_op2 w c (wrap w a) (wrap w b) = RVal (b2z r)).

Theorem fold_agrees_inrange : fold_agrees_inrange_stmt.
Proof. split; [exact fold_agrees_inrange_divmod | exact fold_agrees_inrange_compare]. Qed.

(** % never leaves the range; / leaves it only for  -2^(8w-1) / -1 *)
Lemma mod_result_inrange : forall w a b, 1 <= w -> in_range w a -> in_range w b -> b <> 0 ->
  in_range w (a mod b).
Proof. unfold in_range. intros w a b Hw Ha Hb Hb0. pose proof (half_pos w Hw). lia. Qed.

Lemma div_result_inrange : forall w a b, 1 <= w -> in_range w a -> in_range w b -> b <> 0 ->
  ~ (a = - half w /\ b = -1) -> in_range w (a / b).
Proof.
  unfold in_range. intros w a b Hw Ha Hb Hb0 Hx. pose proof (half_pos w Hw).
  assert (b = -1 \/ b < -1 \/ 0 < b) as [-> | [Hn | Hp]] by lia.
  - replace (a / -1) with (- a); [lia|]. lia.
  - nia.
  - nia.
Qed.

(** and / or / not on booleans (0/1), bool == bool, and int -> bool *)
Theorem fold_bool_agrees :
  (forall w c (x y : bool), In c logic2 ->
     exists r, fold_bool2 c (b2z x) (b2z y) = FVal r /\
               rt_op2 w c (b2z x) (b2z y) = RVal (b2z r)) /\
  (forall w (x : bool),
     exists r, fold_bool1 ONot (b2z x) = FVal r /\ rt_op1 w ONot (b2z x) = RVal (b2z r)) /\
  (forall w c (x y : bool), In c [OEq; ONe] ->
     exists r, fold_bool2 c (b2z x) (b2z y) = FVal r /\
               rt_op2 w c (b2z x) (b2z y) = RVal (b2z r)) /\
  (forall w a, 1 <= w -> in_range w a ->
     rt_int_to_bool (wrap w a) = fold_int_to_bool a) /\
  (forall b, rt_bool_to_int b = fold_bool_to_int b).
Proof.
  repeat split.
  - intros w c x y Hc. unfold logic2 in Hc. in_cases Hc; destruct x, y; eexists; split; reflexivity.
  - intros w x. destruct x; eexists; split; reflexivity.
  - intros w c x y Hc. in_cases Hc; destruct x, y; eexists; split; reflexivity.
  - intros w a Hw Ha. unfold rt_int_to_bool, fold_int_to_bool, truthy.
    now rewrite wrap_zero_inrange.
Qed.

(** Folding raises a compile error only for / 0 and % 0 (and never crashes on the unchanged
    table); such an expression would fault at run time for every word size. *)
Definition is_val {A} (r : fres A) : bool := match r with FVal _ => true | _ => false end.

Lemma fold_div_unfold : forall a b,
  fold_arith2 ODiv a b = if b =? 0 then FErr "Division by zero"%string else FVal (a / b).
Proof. intros. unfold fold_arith2, fold_op2. simpl. destruct (b =? 0); reflexivity. Qed.

Lemma fold_mod_unfold : forall a b,
  fold_arith2 OMod a b = if b =? 0 then FErr "Modulus of zero"%string else FVal (a mod b).
Proof. intros. unfold fold_arith2, fold_op2. simpl. destruct (b =? 0); reflexivity. Qed.

Theorem fold_rejects_only_faults :
  (forall c a b, In c (ring2 ++ divmod) ->
     is_val (fold_arith2 c a b) = false <-> (In c divmod /\ b = 0)) /\
  (forall c a b, In c divmod -> b = 0 ->
     exists m, fold_arith2 c a b = FErr m /\ assoc opclass_beq c fold_zero_msg = Some m) /\
  (forall c a, In c ring1 -> is_val (fold_arith1 c a) = true) /\
  (forall c a b, In c (compare6 ++ logic2) -> is_val (fold_bool2 c a b) = true) /\
  (forall a, is_val (fold_bool1 ONot a) = true) /\
  (forall w c a b, 1 <= w -> In c (ring2 ++ divmod) -> is_val (fold_arith2 c a b) = false ->
     rt_op2 w c (wrap w a) (wrap w b) = RFault).
Proof.
  assert (A1 : forall c a b, In c (ring2 ++ divmod) ->
                 is_val (fold_arith2 c a b) = false -> In c divmod /\ b = 0).
  { intros c a b Hc Hv. simpl in Hc. in_cases Hc; try discriminate Hv.
    - rewrite fold_div_unfold in Hv. destruct (Z.eqb_spec b 0); [|discriminate]. simpl; auto.
    - rewrite fold_mod_unfold in Hv. destruct (Z.eqb_spec b 0); [|discriminate]. simpl; auto. }
  split; [|split; [|split; [|split; [|split]]]].
  - intros c a b Hc. split; [apply A1; assumption|].
    intros [Hd ->]. unfold divmod in Hd. in_cases Hd; reflexivity.
  - intros c a b Hc ->. unfold divmod in Hc. in_cases Hc; eexists; split; reflexivity.
  - intros c a Hc. unfold ring1 in Hc. in_cases Hc; reflexivity.
  - intros c a b Hc. simpl in Hc. in_cases Hc; reflexivity.
  - intros a. reflexivity.
  - intros w c a b Hw Hc Hv.
    destruct (A1 c a b Hc Hv) as [Hd ->].
    assert (Z0 : wrap w 0 = 0).
    { unfold wrap. apply Z.mod_0_l. pose proof (modulus_pos w Hw). lia. }
    unfold divmod in Hd. in_cases Hd; unfold rt_op2; rewrite Z0; reflexivity.
Qed.

(* ------------------------------------------------------------------------------------------ *)
(** * C14 (negative half): where the faithful model of the code disagrees with run time (F5) *)

(** 40000 / 3 at w = 2: folded 13333, run time wrap(-25536 / 3) = wrap(-8512) = 57024 *)
Theorem fold_div_refuted : exists w c a b v,
  1 <= w /\ In c divmod /\ fold_arith2 c a b = FVal v /\
  rt_op2 w c (wrap w a) (wrap w b) <> RVal (wrap w v).
Proof.
  exists 2, ODiv, 40000, 3, 13333. split; [lia|]. split; [simpl; auto|]. split; [reflexivity|].
  vm_compute. discriminate.
Qed.

Theorem fold_mod_refuted : exists w a b v,
  1 <= w /\ fold_arith2 OMod a b = FVal v /\
  rt_op2 w OMod (wrap w a) (wrap w b) <> RVal (wrap w v).
Proof. exists 2, 40000, 7, 2. split; [lia|]. split; [reflexivity|]. vm_compute. discriminate. Qed.

(** 40000 > 0 at w = 2: folded true, run time (-25536 > 0) = false *)
Theorem fold_cmp_refuted : exists w c a b r,
  1 <= w /\ In c compare6 /\ fold_bool2 c a b = FVal r /\
  rt_op2 w c (wrap w a) (wrap w b) <> RVal (b2z r).
Proof.
  exists 2, OGt, 40000, 0, true. split; [lia|]. split; [simpl; auto|]. split; [reflexivity|].
  vm_compute. discriminate.
Qed.

(** 65536 == 0 at w = 2 and `65536 is bool` (folded true, run time false) *)
Theorem fold_eq_refuted : exists w a b r,
  1 <= w /\ fold_bool2 OEq a b = FVal r /\ rt_op2 w OEq (wrap w a) (wrap w b) <> RVal (b2z r).
Proof. exists 2, 65536, 0, false. split; [lia|]. split; [reflexivity|]. vm_compute. discriminate. Qed.

Theorem fold_int_to_bool_refuted : exists w a,
  1 <= w /\ rt_int_to_bool (wrap w a) <> fold_int_to_bool a.
Proof. exists 2, 65536. split; [lia|]. vm_compute. discriminate. Qed.

(** 1 / 65536 at w = 2 folds to 0 but faults at run time (the converse of
    fold_rejects_only_faults does not hold) *)
Theorem fold_misses_fault : exists w a b v,
  1 <= w /\ fold_arith2 ODiv a b = FVal v /\ rt_op2 w ODiv (wrap w a) (wrap w b) = RFault.
Proof. exists 2, 1, 65536, 0. split; [lia|]. split; reflexivity. Qed.

(* ------------------------------------------------------------------------------------------ *)
(** * Constant expressions: compile-time value vs run-time value *)

Inductive cexpr : Type :=
| CLit (z : Z)
| CUn (c : opclass) (e : cexpr)
| CBin (c : opclass) (l r : cexpr)
| CIsByte (e : cexpr)      (* `e is byte`  of an int-valued e *)
| CIsInt (e : cexpr).      (* `e is int`   of a byte-valued e *)

Fixpoint cfold (e : cexpr) : fres Z :=
  match e with
  | CLit z => FVal z
  | CUn c e1 => match cfold e1 with FVal a => fold_op1 c a | r => r end
  | CBin c l r =>
      match cfold l with
      | FVal a => match cfold r with FVal b => fold_op2 c a b | x => x end
      | x => x
      end
  | CIsByte e1 => fres_map fold_int_to_byte (cfold e1)
  | CIsInt e1 => fres_map fold_byte_to_int (cfold e1)
  end.

Fixpoint crt (w : Z) (e : cexpr) : rtres :=
  match e with
  | CLit z => RVal (wrap w z)
  | CUn c e1 => match crt w e1 with RVal a => rt_op1 w c a | r => r end
  | CBin c l r =>
      match crt w l with
      | RVal a => match crt w r with RVal b => rt_op2 w c a b | x => x end
      | x => x
      end
  | CIsByte e1 => match crt w e1 with RVal a => RVal (rt_int_to_byte a) | r => r end
  | CIsInt e1 => match crt w e1 with RVal a => RVal (rt_byte_to_int a) | r => r end
  end.

Fixpoint ring_only (e : cexpr) : bool :=
  match e with
  | CLit _ => true
  | CUn c e1 => (opclass_beq c OPos || opclass_beq c ONeg) && ring_only e1
  | CBin c l r => (opclass_beq c OAdd || opclass_beq c OSub || opclass_beq c OMul)
                  && ring_only l && ring_only r
  | CIsByte _ | CIsInt _ => false
  end.

Theorem ring_exprs_invisible : forall w e, 1 <= w -> ring_only e = true ->
  exists v, cfold e = FVal v /\ crt w e = RVal (wrap w v).
Proof.
  intros w e Hw. induction e as [z | c e1 IH | c l IHl r IHr | e1 IH | e1 IH]; simpl; intros Hr;
    try discriminate.
  - eauto.
  - apply andb_prop in Hr as [Hc Hr1]. destruct (IH Hr1) as (a & Ea & Ra). rewrite Ea, Ra.
    assert (In c ring1) as Hin.
    { destruct c; try discriminate; simpl; auto. }
    destruct (fold_agrees_ring1 w c a Hw Hin) as (v & Ev & Rv).
    exists v. split; [exact Ev|]. rewrite <- Rv.
    unfold ring1 in Hin. in_cases Hin; simpl; now rewrite ?wrap_wrap, ?wrap_opp.
  - apply andb_prop in Hr as [Hr Hr2]. apply andb_prop in Hr as [Hc Hr1].
    destruct (IHl Hr1) as (a & Ea & Ra). destruct (IHr Hr2) as (b & Eb & Rb).
    rewrite Ea, Ra, Eb, Rb.
    assert (In c ring2) as Hin.
    { destruct c; try discriminate; simpl; auto. }
    destruct (fold_agrees_ring w c a b Hw Hin) as (v & Ev & Rv).
    exists v. split; [exact Ev|]. exact Rv.
Qed.

(** The folded byte cast keeps the low byte (IntValue.cast(BYTE): `self.data & 0xFF`), so it agrees
    with the run-time cast for EVERY value, in range or not: 4 / (258 is byte) is 2 both ways. *)
Lemma fold_byte_cast_agrees : forall w a, 1 <= w ->
  rt_int_to_byte (wrap w a) = fold_int_to_byte a.
Proof.
  intros w a Hw. unfold rt_int_to_byte, fold_int_to_byte, wrap, modulus.
  assert (Hp : 0 < 2 ^ (8 * w)) by (apply Z.pow_pos_nonneg; lia).
  assert (Hd : (256 | 2 ^ (8 * w))).
  { exists (2 ^ (8 * w - 8)). change 256 with (2 ^ 8). rewrite <- Z.pow_add_r by lia. f_equal. lia. }
  symmetry. apply Znumtheory.Zmod_div_mod; [lia | exact Hp | exact Hd].
Qed.

Lemma fold_byte_cast_examples :
  (cfold (CBin ODiv (CLit 4) (CIsInt (CIsByte (CLit 258)))) = FVal 2) /\
  (crt 2 (CBin ODiv (CLit 4) (CIsInt (CIsByte (CLit 258)))) = RVal 2) /\
  (cfold (CIsInt (CIsByte (CLit 300))) = FVal 44) /\ (crt 2 (CIsInt (CIsByte (CLit 300))) = RVal 44) /\
  (cfold (CIsInt (CIsByte (CLit (-1)))) = FVal 255) /\ (crt 3 (CIsInt (CIsByte (CLit (-1)))) = RVal 255).
Proof. repeat split; vm_compute; reflexivity. Qed.

(** The C14 statement restricted to what holds, and the full statement it falls short of. *)
Definition C14_full_statement : Prop :=
  forall w e, 1 <= w ->
    match cfold e with
    | FVal v => crt w e = RVal (wrap w v)
    | FErr _ => crt w e = RFault
    | FCrash => False
    end.

Theorem C14_full_statement_refuted : ~ C14_full_statement.
Proof.
  intros H. specialize (H 2 (CBin ODiv (CLit 40000) (CLit 3))). simpl in H.
  assert (1 <= 2) as H1 by lia. specialize (H H1). vm_compute in H. discriminate.
Qed.

(* ------------------------------------------------------------------------------------------ *)
(** * The hypotheses of the implications above are satisfiable *)

Lemma inrange_hyps_example :
  1 <= 2 /\ In ODiv divmod /\ in_range 2 (-7) /\ in_range 2 2 /\
  fold_arith2 ODiv (-7) 2 = FVal (-4) /\ in_range 2 (-4) /\
  rt_op2 2 ODiv (wrap 2 (-7)) (wrap 2 2) = RVal (wrap 2 (-4)).
Proof. repeat split; try (vm_compute; auto; fail); try lia; vm_compute; intros; discriminate. Qed.

Lemma compare_hyps_example :
  1 <= 2 /\ In OLt compare6 /\ in_range 2 (-32768) /\ in_range 2 32767 /\
  fold_bool2 OLt (-32768) 32767 = FVal true /\
  rt_op2 2 OLt (wrap 2 (-32768)) (wrap 2 32767) = RVal 1.
Proof. repeat split; try (vm_compute; auto; fail); try lia; vm_compute; intros; discriminate. Qed.

Lemma ring_hyps_example :
  1 <= 2 /\ ring_only (CBin OMul (CLit 40000) (CUn ONeg (CLit 3))) = true /\
  cfold (CBin OMul (CLit 40000) (CUn ONeg (CLit 3))) = FVal (-120000) /\
  crt 2 (CBin OMul (CLit 40000) (CUn ONeg (CLit 3))) = RVal (wrap 2 (-120000)).
Proof. repeat split; try lia; vm_compute; reflexivity. Qed.

Lemma reject_hyps_example :
  In ODiv (ring2 ++ divmod) /\ is_val (fold_arith2 ODiv 5 0) = false /\
  rt_op2 2 ODiv (wrap 2 5) (wrap 2 0) = RFault.
Proof. repeat split; vm_compute; auto. Qed.
