(* Component `parser` (property C11): tokens and untyped expression trees.

   Scope.  The token datatype is restricted to what the expression ladder
   ps_expr0 .. ps_expr8 / ps_expr of hidc/parser/grammar.py consumes when no function call, array
   literal, string literal or character literal is present:

     IntToken n            -> TInt n          (n : Z; the lexer only produces n >= 0)
     BoolToken.TRUE/FALSE  -> TBool b
     Ident(name, NONE)     -> TId i           (i : nat; i = 0 is the identifier `length`,
                                               i > 0 is the plain variable `v<i>`)
     OpToken.*             -> TOp o
     DataType.*            -> TType t         (including `empty`, which ps_data_type rejects)
     ( ) [ ] . ,           -> TLParen TRParen TLSquare TRSquare TDot TComma

   LEFT OUT of the model (said explicitly, see ExprParser.v: such inputs give `PUnsup`):
     function calls  `f(...)`   (ps_func_call; depends on identifier flavours = property C06),
     array literals  `[a, b]`   (comma_list),
     string / char literals.
   Everything else of the expression grammar is modelled, including the context flag YOU that
   `??` needs and loses for its operands. *)
From Coq Require Import List ZArith Bool Arith.
Import ListNotations.

(* hidc.lexer.tokens.OpToken, member for member. *)
Inductive optok : Type :=
| ADD | SUB | MUL | DIV | MOD | EQ | NE | LT | GT | LE | GE | OR | AND | NOT | IS | SPECULATION.

(* hidc.lexer.tokens.DataType, member for member. *)
Inductive dtype : Type := DInt | DBool | DByte | DString | DEmpty.

Inductive token : Type :=
| TInt (n : Z)
| TBool (b : bool)
| TId (i : nat)
| TOp (o : optok)
| TType (t : dtype)
| TLParen | TRParen | TLSquare | TRSquare | TDot | TComma.

(* The identifier that `.length` expects: Exact(Ident('length')). *)
Definition length_id : nat := 0.

(* Constructor tags = class names of hidc/ast/operators.py. *)
Inductive unop : Type := Pos | Neg | Not.
Inductive binop : Type :=
| Mul | Div | Mod | Add | Sub | Lt | Le | Gt | Ge | Eq | Ne | And | Or.

Inductive expr : Type :=
| EInt (n : Z)                                  (* IntValue(n)                          *)
| EBool (b : bool)                              (* BoolValue(b)                         *)
| EVar (i : nat)                                (* VariableLookup(UnresolvedName(name)) *)
| EUn (u : unop) (e : expr)                     (* Pos / Neg / Not (op_span, arg)       *)
| EIs (e : expr) (t : dtype) (is_array : bool)  (* Is(span, expr, t | ArrayType(t, const=True)) *)
| EBin (b : binop) (l r : expr)                 (* Mul .. Or (op_span, left, right)     *)
| ESpec (l r : expr)                            (* Speculation(op_span, left, right)    *)
| ELen (e : expr)                               (* LengthLookup(source, end)            *)
| EIdx (e i : expr).                            (* ArrayLookup(source, index, end)      *)

(* Decidable equalities (boolean, for table lookups that must compute): compare constructor
   indices. *)
Definition optok_idx (x : optok) : nat := match x with | ADD => 0 | SUB => 1 | MUL => 2 | DIV => 3 | MOD => 4 | EQ => 5 | NE => 6 | LT => 7 | GT => 8 | LE => 9 | GE => 10 | OR => 11 | AND => 12 | NOT => 13 | IS => 14 | SPECULATION => 15 end.
Definition optok_of_idx (n : nat) : optok := match n with | 0 => ADD | 1 => SUB | 2 => MUL | 3 => DIV | 4 => MOD | 5 => EQ | 6 => NE | 7 => LT | 8 => GT | 9 => LE | 10 => GE | 11 => OR | 12 => AND | 13 => NOT | 14 => IS | _ => SPECULATION end.
Lemma optok_of_idx_idx : forall x, optok_of_idx (optok_idx x) = x.
Proof. destruct x; reflexivity. Qed.
Definition optok_eqb (a b : optok) : bool := Nat.eqb (optok_idx a) (optok_idx b).
Lemma optok_eqb_eq : forall a b, optok_eqb a b = true <-> a = b.
Proof.
  intros a b; unfold optok_eqb; split; intro H.
  - apply Nat.eqb_eq in H.
    rewrite <- (optok_of_idx_idx a), <- (optok_of_idx_idx b), H; reflexivity.
  - subst; apply Nat.eqb_refl.
Qed.
Lemma optok_eqb_refl : forall a, optok_eqb a a = true.
Proof. intro a; apply optok_eqb_eq; reflexivity. Qed.
Definition binop_idx (x : binop) : nat := match x with | Mul => 0 | Div => 1 | Mod => 2 | Add => 3 | Sub => 4 | Lt => 5 | Le => 6 | Gt => 7 | Ge => 8 | Eq => 9 | Ne => 10 | And => 11 | Or => 12 end.
Definition binop_of_idx (n : nat) : binop := match n with | 0 => Mul | 1 => Div | 2 => Mod | 3 => Add | 4 => Sub | 5 => Lt | 6 => Le | 7 => Gt | 8 => Ge | 9 => Eq | 10 => Ne | 11 => And | _ => Or end.
Lemma binop_of_idx_idx : forall x, binop_of_idx (binop_idx x) = x.
Proof. destruct x; reflexivity. Qed.
Definition binop_eqb (a b : binop) : bool := Nat.eqb (binop_idx a) (binop_idx b).
Lemma binop_eqb_eq : forall a b, binop_eqb a b = true <-> a = b.
Proof.
  intros a b; unfold binop_eqb; split; intro H.
  - apply Nat.eqb_eq in H.
    rewrite <- (binop_of_idx_idx a), <- (binop_of_idx_idx b), H; reflexivity.
  - subst; apply Nat.eqb_refl.
Qed.
Definition unop_idx (x : unop) : nat := match x with | Pos => 0 | Neg => 1 | Not => 2 end.
Definition unop_of_idx (n : nat) : unop := match n with | 0 => Pos | 1 => Neg | _ => Not end.
Lemma unop_of_idx_idx : forall x, unop_of_idx (unop_idx x) = x.
Proof. destruct x; reflexivity. Qed.
Definition unop_eqb (a b : unop) : bool := Nat.eqb (unop_idx a) (unop_idx b).
Lemma unop_eqb_eq : forall a b, unop_eqb a b = true <-> a = b.
Proof.
  intros a b; unfold unop_eqb; split; intro H.
  - apply Nat.eqb_eq in H.
    rewrite <- (unop_of_idx_idx a), <- (unop_of_idx_idx b), H; reflexivity.
  - subst; apply Nat.eqb_refl.
Qed.

Definition all_binops : list binop :=
  [Mul; Div; Mod; Add; Sub; Lt; Le; Gt; Ge; Eq; Ne; And; Or].
Definition all_unops : list unop := [Pos; Neg; Not].

Lemma all_binops_complete : forall b, In b all_binops.
Proof. destruct b; simpl; tauto. Qed.
Lemma all_unops_complete : forall u, In u all_unops.
Proof. destruct u; simpl; tauto. Qed.

(* ---- the shape of the ladder, as data the translator fills in ------------------------------ *)

(* A grammar rule of the expression ladder: `R n` is ps_expr<n>, `RTop` is ps_expr. *)
Inductive rule_id : Type := R (n : nat) | RTop.

Inductive postfix_form : Type := PfLength | PfIndex.
Inductive assoc : Type := AssocLeft | AssocRight.

(* One level of binary operators: operator token -> constructor tag, in dict order. *)
Definition level : Type := list (optok * binop).

Record ladder_shape : Type := {
  sh_paren_inner      : rule_id;            (* ps_expr0: `(` <this rule> `)`                    *)
  sh_postfix_rule     : nat;                (* the rule holding the postfix loop (ps_expr1)    *)
  sh_postfix_base     : rule_id;            (* what it parses first (ps_expr0)                 *)
  sh_postfix_forms    : list postfix_form;  (* `.length`, `[index]`, in source order           *)
  sh_postfix_loops    : bool;               (* `while True:` - postfix forms repeat            *)
  sh_index_inner      : rule_id;            (* rule of the index expression                    *)
  sh_unary_rule       : nat;                (* ps_expr2                                        *)
  sh_unary_operand    : rule_id;            (* rule of the operand after a unary operator      *)
  sh_unary_fallthrough: rule_id;            (* rule used when there is no unary operator       *)
  sh_is_rule          : nat;                (* ps_expr3                                        *)
  sh_is_operand       : rule_id;            (* rule of the left operand of `is`                *)
  sh_is_chains        : bool;               (* false: at most one `is` per ps_expr3            *)
  sh_is_array_suffix  : bool;               (* optional `[` `]` after the type                 *)
  sh_bin_chain        : list (nat * nat);   (* (N, M): ps_exprN = bin_op(ps_exprM, ...), tightest first *)
  sh_bin_assoc        : assoc;              (* fold direction of bin_op                        *)
  sh_spec_first       : rule_id;            (* rule tried first by ps_expr                     *)
  sh_spec_left        : rule_id;            (* left operand of `??` (re-parsed)                *)
  sh_spec_right       : rule_id;            (* right operand of `??`                           *)
  sh_spec_chains      : bool                (* false: `a ?? b ?? c` is not consumed            *)
}.
