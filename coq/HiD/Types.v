(* Types.v -- executable model of hidc's elaborator (`evaluate` / `cast` / `coercible` / `coerce`
   of hidc/ast/*.py) on expressions, statements, blocks, functions and programs.  Property C07.

   The model mirrors THE CODE THAT EXISTS (defect F5 included; F6 and F7 were fixed in the
   repository and the model follows the fixed code); the documented typing
   rules are separate statements proved (or refuted with a witness) about it below.
   Data tables (types, cast maps, coercible pair set, operator table, builtin signatures) come
   from the regenerated Gen/GenTypes.v. *)
From Coq Require Import ZArith List Bool String Lia.
From HidV.Gen Require Import GenTypes.
From HidV.HiD Require Import Fold.
Import ListNotations.
Local Open Scope string_scope.
Local Open Scope Z_scope.

(* ------------------------------------------------------------------------------------------ *)
(** * Types *)

Definition ty_eqb (a b : ty) : bool :=
  match a, b with
  | TData x, TData y => dty_beq x y
  | TArr x c, TArr y d => dty_beq x y && Bool.eqb c d
  | _, _ => false
  end.

Lemma dty_beq_eq : forall a b, dty_beq a b = true <-> a = b.
Proof. intros a b; split; [apply internal_dty_dec_bl | apply internal_dty_dec_lb]. Qed.

Lemma ty_eqb_eq : forall a b, ty_eqb a b = true <-> a = b.
Proof.
  intros [x|x c] [y|y d]; simpl; split; intros H; try discriminate.
  - apply dty_beq_eq in H. now subst.
  - inversion H. now apply dty_beq_eq.
  - apply andb_prop in H as [H1 H2]. apply dty_beq_eq in H1. apply Bool.eqb_prop in H2. now subst.
  - inversion H. subst. rewrite Bool.eqb_reflx. rewrite (proj2 (dty_beq_eq y y) eq_refl). reflexivity.
Qed.

Lemma ty_eqb_refl : forall a, ty_eqb a a = true.
Proof. intros. now apply ty_eqb_eq. Qed.

Definition all_types : list ty :=
  map TData dty_all ++ map (fun d => TArr d false) dty_all ++ map (fun d => TArr d true) dty_all.

Lemma all_types_complete : forall t, In t all_types.
Proof. intros [[]|[] []]; vm_compute; tauto. Qed.

Definition is_array (t : ty) : bool := match t with TArr _ _ => true | _ => false end.
Definition is_str_or_arr (t : ty) : bool :=
  match t with TData STRING => true | TArr _ _ => true | _ => false end.

(* ------------------------------------------------------------------------------------------ *)
(** * Identifiers, variables, source expressions *)

Definition flavor_eqb (a b : flavor) : bool :=
  match a, b with
  | FL_NONE, FL_NONE | FL_YOU, FL_YOU | FL_DEFEAT, FL_DEFEAT => true
  | _, _ => false
  end.

Record ident : Type := mkId { id_name : string; id_flavor : flavor }.
Definition ident_eqb (a b : ident) : bool :=
  String.eqb (id_name a) (id_name b) && flavor_eqb (id_flavor a) (id_flavor b).

Record var : Type := mkVar { v_name : string; v_type : ty; v_const : bool }.

(** what the parser produces (spans dropped) *)
Inductive expr : Type :=
| EInt (n : Z)                         (* IntValue(n)  *)
| EChar (n : Z)                        (* ByteValue(n, is_char=True) *)
| EBool (b : bool)
| EStr (s : string)
| EVar (x : string)                    (* VariableLookup(UnresolvedName x) *)
| EArr (es : list expr)
| EIndex (src idx : expr)
| ELen (src : expr)
| ECall (f : ident) (args : list expr)
| EUn (c : opclass) (e : expr)
| EBin (c : opclass) (l r : expr)
| EIs (e : expr) (t : ty)
| ESpec (l r : expr)
| EArrInit (t : ty) (len : expr).      (* ArrayInitializer, only as a declaration initialiser *)

(* ------------------------------------------------------------------------------------------ *)
(** * The checked tree *)

Inductive texpr : Type :=
| TInt (d : Z) (shr ischar : bool)                 (* IntValue  *)
| TByte (d : Z) (shr ischar : bool)                (* ByteValue *)
| TBool (b : bool)
| TStr (s : string)
| TVar (v : var)                                   (* VariableLookup(Variable) *)
| TParam (v : var)                                 (* Parameter *)
| TArrLit (vs : list texpr) (t : ty) (locked : bool)
| TIndex (src idx : texpr)
| TLen (src : texpr)
| TCall (f : ident) (args : list texpr) (ret : ty)
| TCast (k : castkind) (e : texpr)
| TVolatile (e : texpr)
| TUn (c : opclass) (e : texpr) (shr : bool)
| TBin (c : opclass) (l r : texpr) (shr : bool)
| TSpec (l r : texpr)
| TArrInit (t : ty) (len : texpr).

Inductive err : Type :=
| ENotType (from to : ty)            (* "{from} is not {to}" *)
| EUndeclared (x : string)           (* "{x} is empty" *)
| EMustBeArrayOrString
| EArrayAmbiguous
| ENestedArray
| EArrayUnresolvable
| EArrayEmptyElement                 (* "Array elements cannot be empty" *)
| ENoMatchingFunction (f : ident) (args : list ty)
| EFold (msg : string)               (* Division by zero / Modulus of zero *)
| ESpeculateType (t : ty)
| ERedeclaration (x : string)
| EConstVolatileDecl (x : string)
| EAssignConst
| EUnexpectedReturn
| EUnexpectedReturnValue
| EMissingReturnValue
| EMissingReturnStatement
| EUnreachable
| ERedefinition (f : ident) (params : list ty)
| ECrash (what : string).            (* not a TypeCheckError: assertion / internal error *)

Inductive result (A : Type) : Type := OK (a : A) | Err (e : err).
Arguments OK {A} a.
Arguments Err {A} e.

Notation "x <- e ;; k" := (match e with OK x => k | Err er => Err er end)
  (at level 61, e at next level, right associativity).

Definition map_result {A B : Type} (f : A -> result B) : list A -> result (list B) :=
  fix go (l : list A) : result (list B) :=
    match l with
    | [] => OK []
    | x :: tl => x' <- f x ;; tl' <- go tl ;; OK (x' :: tl')
    end.

Definition el_of (t : ty) : dty := match t with TArr el _ => el | TData _ => EMPTY end.

Definition is_arith (c : opclass) : bool :=
  match op_family c with FamBinArith | FamUnArith => true | _ => false end.

Fixpoint ty_of (e : texpr) : ty :=
  match e with
  | TInt _ _ _ => type_of_IntValue
  | TByte _ _ _ => type_of_ByteValue
  | TBool _ => type_of_BoolValue
  | TStr _ => type_of_StringValue
  | TVar v => v_type v
  | TParam v => v_type v
  | TArrLit _ t _ => t
  | TIndex src _ =>
      match ty_of src with
      | TData STRING => TData BYTE
      | t => TData (el_of t)
      end
  | TLen _ => type_of_LengthLookup
  | TCall _ _ ret => ret
  | TCast k _ => snd (cast_map k)
  | TVolatile x => TArr (el_of (ty_of x)) true
  | TUn c _ _ => if is_arith c then TData INT else TData BOOL
  | TBin c _ _ _ => if is_arith c then TData INT else TData BOOL
  | TSpec l _ => ty_of l
  | TArrInit t _ => t
  end.

(* ------------------------------------------------------------------------------------------ *)
(** * coercible / cast / coerce, per node class (expressions.py, operators.py) *)

(** Expression.coercible *)
Definition coercible_plain (t new : ty) : bool :=
  ty_eqb t new ||
  match t with
  | TArr el _ => ty_eqb (TArr el coercible_array_const) new
  | _ => existsb (fun p => ty_eqb (fst p) t && ty_eqb (snd p) new) coercible_scalar_pairs
  end.

Fixpoint coercible (e : texpr) (new : ty) : bool :=
  match e with
  | TInt _ shr _ | TByte _ shr _ =>
      coercible_plain (ty_of e) new || (shr && ty_eqb new (TData BYTE))
  | TArrLit vs t locked =>
      match new with
      | TArr el' _ =>
          if locked then dty_beq (el_of t) el'
          else forallb (fun v => coercible v (TData el')) vs
      | TData _ => false
      end
  | TVolatile x => coercible x new
  | TUn c _ shr | TBin c _ _ shr =>
      coercible_plain (ty_of e) new || (is_arith c && shr && ty_eqb new (TData BYTE))
  | _ => coercible_plain (ty_of e) new
  end.

Definition pair_is (t new : ty) (k : castkind) : bool :=
  ty_eqb t (fst (cast_map k)) && ty_eqb new (snd (cast_map k)).

(** the cases of Expression.cast that do not re-enter cast *)
Definition cast_tail (e : texpr) (t new : ty) : result texpr :=
  if pair_is t new KStringToByteArray then OK (TCast KStringToByteArray e)
  else match t, new with
       | TArr a false, TArr b true =>
           if dty_beq a b then OK (TVolatile e) else Err (ENotType t new)
       | _, _ => Err (ENotType t new)
       end.

Definition cast_plain0 (e : texpr) (t new : ty) : result texpr :=
  if ty_eqb t new then OK e
  else if pair_is t new KIntToByte then OK (TCast KIntToByte e)
  else if pair_is t new KByteToInt then OK (TCast KByteToInt e)
  else cast_tail e t new.

(** Expression.cast, for a node `e` of type `t` whose class does not override cast.  The two
    re-entrant cases (`(_, BOOL)` and `(BOOL, _)`) re-enter with a target / source that can only
    reach the non-re-entrant cases, so one level of unfolding is exact. *)
Definition cast_plain (e : texpr) (t new : ty) : result texpr :=
  if ty_eqb t new then OK e
  else if pair_is t new KIntToByte then OK (TCast KIntToByte e)
  else if pair_is t new KByteToInt then OK (TCast KByteToInt e)
  else if ty_eqb new (TData BOOL) then
    if is_str_or_arr t then OK (TCast KIntToBool (TLen e))
    else (e' <- cast_plain0 e t (TData INT) ;; OK (TCast KIntToBool e'))
  else if ty_eqb t (TData BOOL) then
    cast_plain0 (TCast KBoolToByte e) (snd (cast_map KBoolToByte)) new
  else cast_tail e t new.

(** IntValue.cast (inherited by ByteValue) *)
Definition cast_intvalue (self : texpr) (d : Z) (shr ischar : bool) (new : ty) (implicit : bool)
  : result texpr :=
  if ty_eqb new (TData BOOL) then OK (TBool (fold_int_to_bool d))
  else if ty_eqb new (TData BYTE) then OK (TByte (fold_int_to_byte d) shr ischar)
  else if ty_eqb new (TData INT) then OK (TInt d implicit ischar)
  else cast_plain self (ty_of self) new.

Fixpoint cast (e : texpr) (new : ty) {struct e} : result texpr :=
  match e with
  | TInt d shr ic | TByte d shr ic => cast_intvalue e d shr ic new false
  | TBool b =>
      if ty_eqb new (TData INT)
      then OK (TInt (fold_bool_to_int b) intvalue_shrinkable_default intvalue_is_char_default)
      else if ty_eqb new (TData BYTE)
      then OK (TByte (fold_bool_to_int b) intvalue_shrinkable_default intvalue_is_char_default)
      else cast_plain e (ty_of e) new
  | TStr s =>
      if ty_eqb new (TData BOOL) then OK (TBool (fold_string_to_bool (String.length s)))
      else cast_plain e (ty_of e) new
  | TArrLit vs t locked =>
      match new with
      | TArr el' _ =>
          vs' <- map_result (fun v => cast v (TData el')) vs ;;
          OK (TArrLit vs' new true)
      | TData _ => cast_plain e t new
      end
  | TVolatile x => cast x new
  | _ => cast_plain e (ty_of e) new
  end.

(** Expression.coerce / IntValue.coerce *)
Definition coerce (e : texpr) (new : ty) : result texpr :=
  if coercible e new then
    match e with
    | TInt d shr ic | TByte d shr ic => cast_intvalue e d shr ic new true
    | _ => cast e new
    end
  else Err (ENotType (ty_of e) new).

(* ------------------------------------------------------------------------------------------ *)
(** * Environment *)

Record decl : Type := mkDecl { d_var : var; d_init : texpr }.
Definition scope : Type := list (string * decl).

Record fsig : Type := mkSig { f_id : ident; f_params : list ty; f_ret : dty }.

Record env : Type := mkEnv {
  e_scopes : list scope;      (* innermost first; the last one is the global scope *)
  e_funcs : list fsig;        (* insertion order: builtins, then the program's functions *)
  e_ret : option dty;
  e_unreach : bool            (* option unreachable_error *)
}.

Definition is_global (en : env) : bool := (List.length (e_scopes en) <=? 1)%nat.

Fixpoint scope_find (x : string) (s : scope) : option decl :=
  match s with
  | [] => None
  | (y, d) :: tl => if String.eqb x y then Some d else scope_find x tl
  end.

Fixpoint scopes_find (x : string) (ss : list scope) : option decl :=
  match ss with
  | [] => None
  | s :: tl => match scope_find x s with Some d => Some d | None => scopes_find x tl end
  end.

(** found in a scope that is not the outermost (global) one *)
Fixpoint found_local (x : string) (ss : list scope) : bool :=
  match ss with
  | [] | [_] => false
  | s :: tl => match scope_find x s with Some _ => true | None => found_local x tl end
  end.

Definition push_scope (en : env) : env :=
  mkEnv ([] :: e_scopes en) (e_funcs en) (e_ret en) (e_unreach en).

Definition child_env (en : env) (ret : option dty) : env :=
  mkEnv ([] :: e_scopes en) (e_funcs en)
        (match ret with Some r => Some r | None => e_ret en end) (e_unreach en).

Definition add_decl (en : env) (d : decl) : env :=
  match e_scopes en with
  | [] => mkEnv [[(v_name (d_var d), d)]] (e_funcs en) (e_ret en) (e_unreach en)
  | s :: tl => mkEnv (((v_name (d_var d), d) :: s) :: tl) (e_funcs en) (e_ret en) (e_unreach en)
  end.

(* ------------------------------------------------------------------------------------------ *)
(** * Overload resolution (FuncCall.evaluate) *)

Fixpoint tys_eqb (a b : list ty) : bool :=
  match a, b with
  | [], [] => true
  | x :: a', y :: b' => ty_eqb x y && tys_eqb a' b'
  | _, _ => false
  end.

Fixpoint all_coercible (args : list texpr) (ps : list ty) : bool :=
  match args, ps with
  | [], [] => true
  | a :: args', p :: ps' => coercible a p && all_coercible args' ps'
  | _, _ => false
  end.

Definition exact_sig (f : ident) (tys : list ty) (s : fsig) : bool :=
  ident_eqb f (f_id s) && tys_eqb tys (f_params s).

Definition coercible_sig (f : ident) (args : list texpr) (s : fsig) : bool :=
  ident_eqb f (f_id s) && all_coercible args (f_params s).

Definition resolve (decls : list fsig) (f : ident) (args : list texpr) : result fsig :=
  match find (exact_sig f (map ty_of args)) decls with
  | Some s => OK s
  | None =>
      match find (coercible_sig f args) decls with
      | Some s => OK s
      | None => Err (ENoMatchingFunction f (map ty_of args))
      end
  end.

Fixpoint coerce_all (args : list texpr) (ps : list ty) : result (list texpr) :=
  match args, ps with
  | a :: args', p :: ps' => a' <- coerce a p ;; tl <- coerce_all args' ps' ;; OK (a' :: tl)
  | _, _ => OK []
  end.

(* ------------------------------------------------------------------------------------------ *)
(** * Expression elaboration (`evaluate`) *)

Definition is_primitive (e : texpr) : bool :=
  match e with TInt _ _ _ | TByte _ _ _ | TBool _ | TStr _ => true | _ => false end.

(** PrimitiveValue.at / IntValue.at *)
Definition at_subst (e : texpr) : texpr :=
  match e with
  | TInt d _ ic => TInt d false ic
  | TByte d _ ic => TByte d false ic
  | _ => e
  end.

Definition lift_fold {A} (r : fres A) : result A :=
  match r with
  | FVal a => OK a
  | FErr m => Err (EFold m)
  | FCrash => Err (ECrash "fold")
  end.

(** ArrayLiteral.evaluate, after the values have been evaluated: iterate over the distinct
    element types in order of first occurrence *)
Fixpoint arr_pick (vs : list texpr) (cands : list ty) (seen : list ty) : result texpr :=
  match cands with
  | [] => Err EArrayUnresolvable
  | t :: tl =>
      if existsb (ty_eqb t) seen then arr_pick vs tl seen
      else match t with
           | TArr _ _ => Err ENestedArray
           | TData d =>
               if dty_beq d EMPTY then Err EArrayEmptyElement else
               if forallb (fun v => coercible v t) vs
               then OK (TArrLit vs (TArr d true) arrayliteral_locked_default)
               else arr_pick vs tl (t :: seen)
           end
  end.

Definition simplify_arith2 (c : opclass) (l r : texpr) (shr : bool) : result texpr :=
  match l, r with
  | TInt a _ _, TInt b _ _ =>
      v <- lift_fold (fold_arith2 c a b) ;; OK (TInt v shr intvalue_is_char_default)
  | _, _ => OK (TBin c l r shr)
  end.

Definition simplify_arith1 (c : opclass) (a : texpr) (shr : bool) : result texpr :=
  match a with
  | TInt x _ _ => v <- lift_fold (fold_arith1 c x) ;; OK (TInt v shr intvalue_is_char_default)
  | _ => OK (TUn c a shr)
  end.

Definition prim_data (e : texpr) : option Z :=
  match e with
  | TInt d _ _ | TByte d _ _ => Some d
  | TBool b => Some (b2z b)
  | _ => None
  end.

(** BooleanOp.simplify: all arguments PrimitiveValue.  (String data never reaches here: the
    callers have cast to bool or coerced to int first; a StringValue argument is kept
    unsimplified by this model and reported as a crash.) *)
Definition simplify_bool2 (c : opclass) (l r : texpr) : result texpr :=
  if is_primitive l && is_primitive r then
    match prim_data l, prim_data r with
    | Some a, Some b => v <- lift_fold (fold_bool2 c a b) ;; OK (TBool v)
    | _, _ => Err (ECrash "string operand in BooleanOp.simplify")
    end
  else OK (TBin c l r false).

Definition simplify_bool1 (c : opclass) (a : texpr) : result texpr :=
  if is_primitive a then
    match prim_data a with
    | Some x => v <- lift_fold (fold_bool1 c x) ;; OK (TBool v)
    | None => Err (ECrash "string operand in BooleanOp.simplify")
    end
  else OK (TUn c a false).

Definition spec_type_ok (t : ty) : bool :=
  match t with TData BYTE | TData INT | TData BOOL => true | _ => false end.

Definition lookup_var (en : env) (x : string) : option decl := scopes_find x (e_scopes en).

Fixpoint elab_expr (en : env) (e : expr) {struct e} : result texpr :=
  let elab_list := map_result (elab_expr en) in
  match e with
  | EInt n => OK (TInt n intvalue_shrinkable_default intvalue_is_char_default)
  | EChar n => OK (TByte n intvalue_shrinkable_default true)
  | EBool b => OK (TBool b)
  | EStr s => OK (TStr s)
  | EVar x =>
      match lookup_var en x with
      | None => Err (EUndeclared x)
      | Some d =>
          if (v_const (d_var d) || is_global en) && is_primitive (d_init d)
          then OK (at_subst (d_init d))
          else OK (TVar (d_var d))
      end
  | EArr es =>
      match es with
      | [] => OK (TArrLit [] arrayliteral_type_default arrayliteral_locked_default)
      | _ => vs <- elab_list es ;; arr_pick vs (map ty_of vs) []
      end
  | EIndex s i =>
      s' <- elab_expr en s ;;
      if negb (is_str_or_arr (ty_of s')) then Err EMustBeArrayOrString else
      s'' <- match s' with
             | TArrLit _ t _ =>
                 if dty_beq (el_of t) EMPTY then Err EArrayAmbiguous else coerce s' t
             | _ => if is_array (ty_of s') && dty_beq (el_of (ty_of s')) EMPTY
                    then Err (ECrash "assert el_type != EMPTY") else OK s'
             end ;;
      i' <- elab_expr en i ;;
      i'' <- coerce i' (TData INT) ;;
      OK (TIndex s'' i'')
  | ELen s =>
      s' <- elab_expr en s ;;
      if negb (is_str_or_arr (ty_of s')) then Err EMustBeArrayOrString else OK (TLen s')
  | ECall f args =>
      args' <- elab_list args ;;
      s <- resolve (e_funcs en) f args' ;;
      cargs <- coerce_all args' (f_params s) ;;
      OK (TCall f cargs (TData (f_ret s)))
  | EUn c a =>
      match op_family c with
      | FamUnArith =>
          a' <- elab_expr en a ;;
          ca <- coerce a' (TData INT) ;;
          simplify_arith1 c ca (arithop_shrinkable_default || coercible a' (TData BYTE))
      | FamUnLogic =>
          a' <- elab_expr en a ;;
          ca <- cast a' (TData BOOL) ;;
          simplify_bool1 c ca
      | _ => Err (ECrash "unary operator class")
      end
  | EBin c l r =>
      match op_family c with
      | FamBinArith =>
          l' <- elab_expr en l ;;
          r' <- elab_expr en r ;;
          cl <- coerce l' (TData INT) ;;
          cr <- coerce r' (TData INT) ;;
          simplify_arith2 c cl cr
            (arithop_shrinkable_default || (coercible l' (TData BYTE) && coercible r' (TData BYTE)))
      | FamBinLogic =>
          l' <- elab_expr en l ;;
          cl <- cast l' (TData BOOL) ;;
          r' <- elab_expr en r ;;
          cr <- cast r' (TData BOOL) ;;
          simplify_bool2 c cl cr
      | FamCompare =>
          l' <- elab_expr en l ;;
          cl <- coerce l' (TData INT) ;;
          r' <- elab_expr en r ;;
          cr <- coerce r' (TData INT) ;;
          simplify_bool2 c cl cr
      | FamEquality =>
          l' <- elab_expr en l ;;
          r' <- elab_expr en r ;;
          if ty_eqb (ty_of l') (TData BOOL) && ty_eqb (ty_of r') (TData BOOL)
          then simplify_bool2 c l' r'
          else (cl <- coerce l' (TData INT) ;;
                cr <- coerce r' (TData INT) ;;
                simplify_bool2 c cl cr)
      | _ => Err (ECrash "binary operator class")
      end
  | EIs a t => a' <- elab_expr en a ;; cast a' t
  | ESpec l r =>
      l' <- elab_expr en l ;;
      if negb (spec_type_ok (ty_of l')) then Err (ESpeculateType (ty_of l')) else
      r' <- elab_expr en r ;;
      cr <- coerce r' (ty_of l') ;;
      if is_primitive l' && is_primitive cr then OK l' else OK (TSpec l' cr)
  | EArrInit t len =>
      len' <- elab_expr en len ;;
      cl <- coerce len' (TData INT) ;;
      OK (TArrInit t cl)
  end.

(* ------------------------------------------------------------------------------------------ *)
(** * Statements, blocks, functions, programs *)

Inductive stmt : Type :=
| SDecl (v : var) (init : expr)
| SAssign (lhs rhs : expr)
| SIncAssign (lhs : expr) (c : opclass) (rhs : expr)
| SReturn (val : option expr)
| SBreak
| SContinue
| SExpr (e : expr)
| SBlock (ss : list stmt)                       (* CodeBlock *)
| SIf (cond : expr) (body els : stmt)
| SLoop (body : stmt) (cond : expr) (cont : stmt)
| STry (body : stmt) (undo : bool) (handler : stmt)   (* handler = Undo/StopBlock(handler) *)
| SPreempt (body : stmt).

(** ExitMode flag sets *)
Record emode : Type := mkMode { m_none : bool; m_break : bool; m_loop : bool; m_defeat : bool; m_return : bool }.
Definition M0 := mkMode false false false false false.
Definition M_NONE := mkMode true false false false false.
Definition M_BREAK := mkMode false true false false false.
Definition M_LOOP := mkMode false false true false false.
Definition M_DEFEAT := mkMode false false false true false.
Definition M_RETURN := mkMode false false false false true.
Definition m_or (a b : emode) : emode :=
  mkMode (m_none a || m_none b) (m_break a || m_break b) (m_loop a || m_loop b)
         (m_defeat a || m_defeat b) (m_return a || m_return b).
Definition m_minus (a b : emode) : emode :=
  mkMode (m_none a && negb (m_none b)) (m_break a && negb (m_break b)) (m_loop a && negb (m_loop b))
         (m_defeat a && negb (m_defeat b)) (m_return a && negb (m_return b)).
(** ExitMode.replace: (self & ~old) | new *)
Definition m_replace (m old new : emode) : emode := m_or (m_minus m old) new.

Inductive tstmt : Type :=
| TSDecl (v : var) (init : texpr)
| TSAssign (lhs rhs : texpr)
| TSIncAssign (lhs rhs : texpr) (c : opclass)
| TSReturn (val : option texpr)
| TSBreak
| TSContinue
| TSExpr (e : texpr)
| TSBlock (ss : list tstmt) (mode : emode)
| TSIf (body : tstmt) (cond : texpr) (els : tstmt)
| TSLoop (body : tstmt) (cond : texpr) (cont : tstmt)
| TSTry (body : tstmt) (undo : bool) (handler : tstmt)
| TSPreempt (body : tstmt).

(** Block.exit_modes() of an evaluated block; None for a non-block *)
Fixpoint exit_modes (s : tstmt) : option emode :=
  match s with
  | TSBlock _ m => Some m
  | TSIf b _ e =>
      match exit_modes b, exit_modes e with
      | Some mb, Some me => Some (m_or mb me)
      | _, _ => None
      end
  | TSLoop b cond _ =>
      match exit_modes b with
      | Some m =>
          if negb (m_break m) && (match cond with TBool true => true | _ => false end)
          then Some (m_replace m M_NONE M_LOOP)
          else Some (m_replace m M_BREAK M_NONE)
      | None => None
      end
  | TSTry b _ h =>
      match exit_modes b, exit_modes h with
      | Some mb, Some mh => Some (m_replace mb M_DEFEAT mh)
      | _, _ => None
      end
  | TSPreempt b => match exit_modes b with Some m => Some (m_or m M_NONE) | None => None end
  | _ => None
  end.

Definition is_assignable (e : texpr) : bool :=
  match e with TVar _ | TIndex _ _ => true | _ => false end.

(** Assignable.const *)
Definition lookup_const (e : texpr) : bool :=
  match e with
  | TVar v => v_const v
  | TIndex src _ =>
      match ty_of src with
      | TData STRING => true                   (* strings are immutable *)
      | TArr _ c => c
      | _ => true
      end
  | _ => true
  end.

(** Declaration.evaluate *)
Definition redeclared (en : env) (x : string) : bool :=
  match lookup_var en x with
  | Some _ => is_global en || found_local x (e_scopes en)
  | None => false
  end.

Definition finish_decl (en : env) (v : var) (init : texpr) : result (tstmt * env) :=
  i <- coerce init (v_type v) ;;
  match i with
  | TVolatile _ => Err (EConstVolatileDecl (v_name v))
  | _ => OK (TSDecl v i, add_decl en (mkDecl v i))
  end.

(** Assignment.evaluate *)
Definition elab_assign (en : env) (lhs : expr) (rhs : expr) (mk : expr -> expr)
  : result (texpr * texpr) :=
  l <- elab_expr en lhs ;;
  if negb (is_assignable l) || lookup_const l then Err EAssignConst else
  r <- elab_expr en (mk rhs) ;;
  cr <- coerce r (ty_of l) ;;
  OK (l, cr).

Definition call_mode (f : ident) (args : list texpr) (m : emode) : emode :=
  if ident_eqb f (mkId "is_defeat" FL_DEFEAT) && (match args with [] => true | _ => false end)
  then m_replace m M_NONE M_DEFEAT
  else if (ident_eqb f (mkId "all_is_win" FL_NONE) || ident_eqb f (mkId "all_is_broken" FL_NONE))
          && (match args with [] => true | _ => false end)
  then m_replace m M_NONE M_LOOP
  else if flavor_eqb (id_flavor f) FL_DEFEAT then m_or m M_DEFEAT
  else m.

(** the loop of CodeBlock.evaluate *)
Definition stmt_mode (t1 : tstmt) (mode : emode) : emode :=
  match t1 with
  | TSReturn _ => m_replace mode M_NONE M_RETURN
  | TSBreak => m_replace mode M_NONE M_BREAK
  | TSExpr (TCall f args _) => call_mode f args mode
  | _ => match exit_modes t1 with
         | Some bm => m_replace mode M_NONE bm
         | None => mode
         end
  end.

Definition elab_block (elab : env -> stmt -> result (tstmt * env)) (unreach : bool)
  : list stmt -> env -> emode -> bool -> result (list tstmt * emode) :=
  fix go (ss : list stmt) (en' : env) (mode : emode) (cont : bool) : result (list tstmt * emode) :=
    match ss with
    | [] => OK ([], mode)
    | s1 :: tl =>
        if negb (m_none mode) || cont then
          (if unreach then Err EUnreachable else OK ([], mode))
        else
          r <- elab en' s1 ;;
          rest <- go tl (snd r) (stmt_mode (fst r) mode)
                    (match fst r with TSContinue => true | _ => cont end) ;;
          OK (fst r :: fst rest, snd rest)
    end.

Fixpoint elab_stmt (en : env) (s : stmt) {struct s} : result (tstmt * env) :=
  match s with
  | SDecl v init =>
      if redeclared en (v_name v) then Err (ERedeclaration (v_name v)) else
      i <- elab_expr en init ;; finish_decl en v i
  | SAssign lhs rhs =>
      p <- elab_assign en lhs rhs (fun r => r) ;;
      OK (TSAssign (fst p) (snd p), en)
  | SIncAssign lhs c rhs =>
      p <- elab_assign en lhs rhs (fun r => EBin c lhs r) ;;
      r' <- elab_expr en rhs ;;
      OK (TSIncAssign (fst p) r' c, en)
  | SReturn val =>
      match e_ret en with
      | None => Err EUnexpectedReturn
      | Some rt =>
          match val with
          | Some v =>
              if dty_beq rt EMPTY then Err EUnexpectedReturnValue else
              v' <- elab_expr en v ;; cv <- coerce v' (TData rt) ;; OK (TSReturn (Some cv), en)
          | None =>
              if negb (dty_beq rt EMPTY) then Err EMissingReturnValue else OK (TSReturn None, en)
          end
      end
  | SBreak => OK (TSBreak, en)
  | SContinue => OK (TSContinue, en)
  | SExpr e => e' <- elab_expr en e ;; OK (TSExpr e', en)
  | SBlock ss =>
      r <- elab_block elab_stmt (e_unreach en) ss (push_scope en) M_NONE false ;;
      OK (TSBlock (fst r) (snd r), en)
  | SIf cond body els =>
      b <- elab_stmt en body ;;
      c <- elab_expr en cond ;; cc <- cast c (TData BOOL) ;;
      e <- elab_stmt en els ;;
      OK (TSIf (fst b) cc (fst e), en)
  | SLoop body cond cont =>
      b <- elab_stmt en body ;;
      c <- elab_expr en cond ;; cc <- cast c (TData BOOL) ;;
      k <- elab_stmt en cont ;;
      OK (TSLoop (fst b) cc (fst k), en)
  | STry body undo handler =>
      b <- elab_stmt en body ;;
      h <- elab_stmt en handler ;;
      OK (TSTry (fst b) undo (fst h), en)
  | SPreempt body =>
      b <- elab_stmt en body ;;
      OK (TSPreempt (fst b), en)
  end.

(** FuncDeclaration *)
Record fdecl : Type := mkFdecl {
  fd_ret : dty; fd_name : ident; fd_params : list var; fd_body : list stmt }.

Record tfdecl : Type := mkTfdecl {
  tf_ret : dty; tf_name : ident; tf_params : list var; tf_body : tstmt }.

Record program : Type := mkProgram { p_vars : list stmt; p_funcs : list fdecl }.
Record tprogram : Type := mkTprogram { tp_vars : list tstmt; tp_funcs : list tfdecl }.

Definition sig_of (f : fdecl) : fsig :=
  mkSig (fd_name f) (map v_type (fd_params f)) (fd_ret f).

Definition builtin_fsigs : list fsig :=
  map (fun b => match b with (n, fl, ps, r) => mkSig (mkId n fl) ps r end) builtin_sigs.

(** Environment.add_funcs *)
Fixpoint add_funcs (table : list fsig) (fs : list fsig) : result (list fsig) :=
  match fs with
  | [] => OK table
  | f :: tl =>
      if existsb (exact_sig (f_id f) (f_params f)) table
      then Err (ERedefinition (f_id f) (f_params f))
      else add_funcs (table ++ [f]) tl
  end.

Fixpoint bind_params (en : env) (ps : list var) : result env :=
  match ps with
  | [] => OK en
  | p :: tl =>
      if redeclared en (v_name p) then Err (ERedeclaration (v_name p)) else
      r <- finish_decl en p (TParam p) ;;
      bind_params (snd r) tl
  end.

Definition elab_func (en : env) (f : fdecl) : result tfdecl :=
  en1 <- bind_params (child_env en (Some (fd_ret f))) (fd_params f) ;;
  r <- elab_stmt en1 (SBlock (fd_body f)) ;;
  match fst r with
  | TSBlock ss m =>
      if m_break m then Err (ECrash "assert BREAK not in exit_modes") else
      if m_defeat m && negb (flavor_eqb (id_flavor (fd_name f)) FL_DEFEAT)
      then Err (ECrash "assert DEFEAT only in defeat functions") else
      if m_none m then
        if negb (dty_beq (fd_ret f) EMPTY) then Err EMissingReturnStatement
        else OK (mkTfdecl (fd_ret f) (fd_name f) (fd_params f)
                   (TSBlock (ss ++ [TSReturn None]) (m_replace m M_NONE M_RETURN)))
      else OK (mkTfdecl (fd_ret f) (fd_name f) (fd_params f) (TSBlock ss m))
  | _ => Err (ECrash "function body")
  end.

Fixpoint elab_globals (en : env) (ds : list stmt) : result (list tstmt * env) :=
  match ds with
  | [] => OK ([], en)
  | d :: tl =>
      r <- elab_stmt en d ;;
      rest <- elab_globals (snd r) tl ;;
      OK (fst r :: fst rest, snd rest)
  end.

Fixpoint elab_funcs (en : env) (fs : list fdecl) : result (list tfdecl) :=
  match fs with
  | [] => OK []
  | f :: tl => f' <- elab_func en f ;; tl' <- elab_funcs en tl ;; OK (f' :: tl')
  end.

(** Program.evaluate on Environment.empty with the given options *)
Definition elab_program (unreach : bool) (p : program) : result tprogram :=
  t1 <- add_funcs [] builtin_fsigs ;;
  t2 <- add_funcs t1 (map sig_of (p_funcs p)) ;;
  let en := mkEnv [[]] t2 None unreach in
  g <- elab_globals en (p_vars p) ;;
  fs <- elab_funcs (snd g) (p_funcs p) ;;
  OK (mkTprogram (fst g) fs).

(* ========================================================================================== *)
(** * PROOFS *)
Local Open Scope list_scope.
(* ========================================================================================== *)

Lemma forall_types : forall P : ty -> bool,
  forallb P all_types = true -> forall t, P t = true.
Proof.
  intros P H t. rewrite forallb_forall in H. apply H. apply all_types_complete.
Qed.

Lemma forall_types2 : forall P : ty -> ty -> bool,
  forallb (fun a => forallb (P a) all_types) all_types = true -> forall a b, P a b = true.
Proof.
  intros P H a b. apply (forall_types (P a)). apply (forall_types _ H a).
Qed.

Lemma flavor_eqb_eq : forall a b, flavor_eqb a b = true <-> a = b.
Proof. intros [] []; simpl; split; intros H; try reflexivity; try discriminate. Qed.

Lemma ident_eqb_eq : forall a b, ident_eqb a b = true <-> a = b.
Proof.
  intros [n1 f1] [n2 f2]. unfold ident_eqb. simpl. split.
  - intros H. apply andb_prop in H as [H1 H2].
    apply String.eqb_eq in H1. apply flavor_eqb_eq in H2. now subst.
  - intros H. inversion H. subst. rewrite String.eqb_refl.
    now rewrite (proj2 (flavor_eqb_eq f2 f2) eq_refl).
Qed.

Lemma tys_eqb_eq : forall a b, tys_eqb a b = true <-> a = b.
Proof.
  induction a as [|x a IH]; intros [|y b]; simpl; split; intros H; try reflexivity; try discriminate.
  - apply andb_prop in H as [H1 H2]. apply ty_eqb_eq in H1. apply IH in H2. now subst.
  - inversion H. subst. rewrite ty_eqb_refl. simpl. now apply IH.
Qed.

(* ------------------------------------------------------------------------------------------ *)
(** ** C07-1: the coercion lattice *)

(** The documented implicit coercions between types (README "Types", "Arrays and strings"). *)
Definition doc_coercible_ty (a b : ty) : bool :=
  match a, b with
  | TData BYTE, TData INT => true                 (* byte: "Coercible to int" *)
  | TData STRING, TArr BYTE true => true          (* string: "Coercible to const byte[]" *)
  | TArr x false, TArr y true => dty_beq x y      (* "a non-const array may be coerced into a const array" *)
  | _, _ => ty_eqb a b
  end.

(** The documented explicit casts (README "Allowed explicit type casts"), plus the identity and
    the const view of a mutable array (`x is T[]`, documented only in a source comment). *)
Definition doc_cast_ty (a b : ty) : bool :=
  ty_eqb a b ||
  match a, b with
  | TData BYTE, TData INT | TData BOOL, TData INT => true
  | TData INT, TData BYTE | TData BOOL, TData BYTE => true
  | TData INT, TData BOOL | TData BYTE, TData BOOL | TData STRING, TData BOOL => true
  | TArr _ _, TData BOOL => true
  | TData STRING, TArr BYTE true => true
  | TArr x false, TArr y true => dty_beq x y
  | _, _ => false
  end.

(** node classes that inherit Expression.coercible / Expression.cast unchanged *)
Definition is_plain (e : texpr) : bool :=
  match e with
  | TVar _ | TParam _ | TIndex _ _ | TLen _ | TCall _ _ _ | TCast _ _ | TSpec _ _ | TArrInit _ _ => true
  | TUn c _ _ | TBin c _ _ _ => negb (is_arith c)
  | _ => false
  end.

Definition is_ok {A} (r : result A) : bool := match r with OK _ => true | Err _ => false end.

Definition rep_plain (t : ty) : texpr := TParam (mkVar "p" t true).

Theorem lattice_plain : forall a b, coercible_plain a b = doc_coercible_ty a b.
Proof.
  intros a b.
  apply (proj1 (Bool.eqb_true_iff _ _)).
  apply (forall_types2 (fun a b => Bool.eqb (coercible_plain a b) (doc_coercible_ty a b))).
  vm_compute. reflexivity.
Qed.

Lemma coercible_of_plain : forall e t, is_plain e = true -> coercible e t = coercible_plain (ty_of e) t.
Proof.
  intros e t H. destruct e; simpl in H; try discriminate; try reflexivity.
  - simpl. apply negb_true_iff in H. rewrite H. simpl. now rewrite orb_false_r.
  - simpl. apply negb_true_iff in H. rewrite H. simpl. now rewrite orb_false_r.
Qed.

Lemma cast_of_plain : forall e t, is_plain e = true -> cast e t = cast_plain e (ty_of e) t.
Proof. intros e t H. destruct e; simpl in H; try discriminate; reflexivity. Qed.

Theorem cast_table_plain : forall a b,
  is_ok (cast_plain (rep_plain a) a b) = doc_cast_ty a b.
Proof.
  intros a b.
  apply (proj1 (Bool.eqb_true_iff _ _)).
  apply (forall_types2 (fun a b => Bool.eqb (is_ok (cast_plain (rep_plain a) a b)) (doc_cast_ty a b))).
  vm_compute. reflexivity.
Qed.

(** cast_plain's success does not depend on the node, only on the two types *)
Lemma cast_plain_ok_indep : forall e1 e2 a b,
  is_ok (cast_plain e1 a b) = is_ok (cast_plain e2 a b).
Proof.
  intros. unfold cast_plain, cast_plain0, cast_tail.
  repeat match goal with
         | |- context [if ?c then _ else _] => destruct c; simpl; try reflexivity
         | |- context [match ?x with _ => _ end] => destruct x; simpl; try reflexivity
         end.
Qed.

Theorem is_table_plain : forall e b, is_plain e = true ->
  is_ok (cast e b) = doc_cast_ty (ty_of e) b.
Proof.
  intros e b H. rewrite cast_of_plain by assumption.
  rewrite (cast_plain_ok_indep e (rep_plain (ty_of e))). apply cast_table_plain.
Qed.

(** int / byte literals *)
Theorem lattice_intlit : forall d s c t,
  coercible (TInt d s c) t = doc_coercible_ty (TData INT) t || (s && ty_eqb t (TData BYTE)).
Proof. intros. simpl. now rewrite lattice_plain. Qed.

Theorem lattice_bytelit : forall d s c t,
  coercible (TByte d s c) t = doc_coercible_ty (TData BYTE) t || (s && ty_eqb t (TData BYTE)).
Proof. intros. simpl. now rewrite lattice_plain. Qed.

(** array literals: "coercible to any type all entries can be coerced to ... Preferentially
    const, but may be coerced to non-const"; a type-locked literal only changes constness *)
Theorem lattice_arrlit : forall vs t new,
  coercible (TArrLit vs t false) new =
  match new with
  | TArr el _ => forallb (fun v => coercible v (TData el)) vs
  | TData _ => false
  end.
Proof. intros. destruct new; reflexivity. Qed.

Theorem lattice_arrlit_locked : forall vs el c new,
  coercible (TArrLit vs (TArr el c) true) new =
  match new with TArr el' _ => dty_beq el el' | TData _ => false end.
Proof. intros. destruct new; reflexivity. Qed.

Theorem lattice_volatile : forall x new, coercible (TVolatile x) new = coercible x new.
Proof. reflexivity. Qed.

Theorem lattice_arith : forall c l r s t, is_arith c = true ->
  coercible (TBin c l r s) t = doc_coercible_ty (TData INT) t || (s && ty_eqb t (TData BYTE)).
Proof. intros. simpl. rewrite H. simpl. now rewrite lattice_plain. Qed.

(** The finite table: 15 types x the expression classes *)
Inductive eclass : Type :=
| CPlain (t : ty)                 (* variable, call, lookup, cast node ... of type t *)
| CIntLit (shr : bool)            (* int literal / folded constant *)
| CByteLit (shr : bool)
| CArrLit (el : dty)              (* unlocked literal with one plain element of type el *)
| CArrLitEmpty                    (* [] *)
| CArrLitLocked (el : dty) (c : bool)
| CVolatile (el : dty).           (* `x is T[]` for a mutable x *)

Definition rep (c : eclass) : texpr :=
  match c with
  | CPlain t => rep_plain t
  | CIntLit s => TInt 0 s false
  | CByteLit s => TByte 0 s false
  | CArrLit el => TArrLit [rep_plain (TData el)] (TArr el true) false
  | CArrLitEmpty => TArrLit [] (TArr EMPTY true) false
  | CArrLitLocked el c => TArrLit [rep_plain (TData el)] (TArr el c) true
  | CVolatile el => TVolatile (rep_plain (TArr el false))
  end.

Definition all_classes : list eclass :=
  map CPlain all_types ++ [CIntLit true; CIntLit false; CByteLit true; CByteLit false]
  ++ map CArrLit dty_all ++ [CArrLitEmpty]
  ++ map (fun d => CArrLitLocked d false) dty_all ++ map (fun d => CArrLitLocked d true) dty_all
  ++ map CVolatile dty_all.

Lemma all_classes_complete : forall c, In c all_classes.
Proof.
  intros [t | [] | [] | [] | | [] [] | []]; try (vm_compute; tauto).
  unfold all_classes. apply in_or_app. left. apply in_map. apply all_types_complete.
Qed.

(** the documented rule, per class *)
Definition doc_coercible (c : eclass) (new : ty) : bool :=
  match c with
  | CPlain t => doc_coercible_ty t new
  | CIntLit s => doc_coercible_ty (TData INT) new || (s && ty_eqb new (TData BYTE))
  | CByteLit _ => doc_coercible_ty (TData BYTE) new
  | CArrLit el => match new with TArr el' _ => doc_coercible_ty (TData el) (TData el') | _ => false end
  | CArrLitEmpty => is_array new
  | CArrLitLocked el _ => match new with TArr el' _ => dty_beq el el' | _ => false end
  | CVolatile el => match new with TArr el' _ => dty_beq el el' | _ => false end
  end.

Lemma forall_classes_types : forall P : eclass -> ty -> bool,
  forallb (fun c => forallb (P c) all_types) all_classes = true -> forall c t, P c t = true.
Proof.
  intros P H c t. rewrite forallb_forall in H. apply (forall_types (P c)). apply H.
  apply all_classes_complete.
Qed.

Theorem lattice_table : forall c t, coercible (rep c) t = doc_coercible c t.
Proof.
  intros c t. apply (proj1 (Bool.eqb_true_iff _ _)).
  apply (forall_classes_types (fun c t => Bool.eqb (coercible (rep c) t) (doc_coercible c t))).
  vm_compute. reflexivity.
Qed.

Theorem lattice_reflexive : forall c, coercible (rep c) (ty_of (rep c)) = true.
Proof.
  intros c. pose proof (all_classes_complete c) as H. revert c H.
  apply (proj1 (forallb_forall (fun c => coercible (rep c) (ty_of (rep c))) all_classes)).
  vm_compute. reflexivity.
Qed.

Theorem lattice_cast_defined : forall c t, coercible (rep c) t = true -> exists e', cast (rep c) t = OK e'.
Proof.
  intros c t H.
  assert (implb (coercible (rep c) t) (is_ok (cast (rep c) t)) = true) as I.
  { apply (forall_classes_types (fun c t => implb (coercible (rep c) t) (is_ok (cast (rep c) t)))).
    vm_compute. reflexivity. }
  rewrite H in I. simpl in I. destruct (cast (rep c) t); [eauto | discriminate].
Qed.

Theorem lattice_coerce_defined : forall c t, coercible (rep c) t = true -> exists e', coerce (rep c) t = OK e'.
Proof.
  intros c t H.
  assert (implb (coercible (rep c) t) (is_ok (coerce (rep c) t)) = true) as I.
  { apply (forall_classes_types (fun c t => implb (coercible (rep c) t) (is_ok (coerce (rep c) t)))).
    vm_compute. reflexivity. }
  rewrite H in I. simpl in I. destruct (coerce (rep c) t); [eauto | discriminate].
Qed.

(** Readable consequences. *)
Definition is_scalar (t : ty) : bool := match t with TData _ => true | _ => false end.

Theorem only_scalar_coercions : forall c a b,
  ty_of (rep c) = TData a -> coercible (rep c) (TData b) = true ->
  a = b \/ (a = BYTE /\ b = INT) \/ (c = CIntLit true /\ b = BYTE).
Proof.
  intros c a b Ht Hc. rewrite lattice_table in Hc.
  destruct c as [t | s | s | el | | el k | el]; simpl in Ht; try discriminate.
  - subst t. destruct a, b; simpl in Hc; try discriminate; auto.
  - inversion Ht; subst a. destruct s, b; simpl in Hc; try discriminate; auto.
  - inversion Ht; subst a. destruct b; simpl in Hc; try discriminate; auto.
Qed.

Theorem scalar_to_array_only_string : forall c a el k,
  ty_of (rep c) = TData a -> coercible (rep c) (TArr el k) = true ->
  a = STRING /\ el = BYTE /\ k = true.
Proof.
  intros c a el k Ht Hc. rewrite lattice_table in Hc.
  destruct c as [t | s | s | el' | | el' k' | el']; simpl in Ht; try discriminate;
    [ subst t; destruct a, el, k; simpl in Hc; try discriminate; auto | .. ];
    try destruct s; destruct el, k; simpl in Hc; discriminate.
Qed.

Theorem array_never_to_scalar : forall c el k b,
  ty_of (rep c) = TArr el k -> coercible (rep c) (TData b) = false.
Proof.
  intros c el k b Ht. rewrite lattice_table.
  destruct c as [t | s | s | el' | | el' k' | el']; simpl in Ht; try discriminate; try reflexivity.
  subst t. destruct k; reflexivity.
Qed.

Theorem never_const_to_mutable : forall x y, coercible_plain (TArr x true) (TArr y false) = false.
Proof. intros. rewrite lattice_plain. destruct x, y; reflexivity. Qed.

Theorem mutable_to_const_same_element : forall x y k,
  coercible_plain (TArr x false) (TArr y k) = dty_beq x y.
Proof. intros. rewrite lattice_plain. destruct x, y, k; reflexivity. Qed.

Theorem never_from_empty : forall b, coercible_plain (TData EMPTY) b = true -> b = TData EMPTY.
Proof. intros b H. rewrite lattice_plain in H. destruct b as [[]|[] []]; simpl in H; try discriminate; reflexivity. Qed.

Theorem never_to_empty : forall c, coercible (rep c) (TData EMPTY) = true -> c = CPlain (TData EMPTY).
Proof.
  intros c H. rewrite lattice_table in H.
  destruct c as [t | s | s | el | | el k | el]; simpl in H; try discriminate.
  - destruct t as [[]|[] []]; simpl in H; try discriminate; reflexivity.
  - destruct s; discriminate.
Qed.

(* ------------------------------------------------------------------------------------------ *)
(** ** C07-2: overload resolution *)

Lemma exact_sig_spec : forall f tys s,
  exact_sig f tys s = true <-> f_id s = f /\ f_params s = tys.
Proof.
  intros f tys s. unfold exact_sig. rewrite andb_true_iff, ident_eqb_eq, tys_eqb_eq.
  split; intros [A B]; split; congruence.
Qed.

Lemma all_coercible_spec : forall args ps,
  all_coercible args ps = true <-> Forall2 (fun a p => coercible a p = true) args ps.
Proof.
  induction args as [|a args IH]; intros [|p ps]; simpl; split; intros H;
    try discriminate; try constructor; try (inversion H; fail).
  - apply andb_prop in H. tauto.
  - apply IH. apply andb_prop in H. tauto.
  - inversion H; subst. rewrite H3. simpl. now apply IH.
Qed.

Lemma Forall2_len : forall {A B} (R : A -> B -> Prop) l1 l2,
  Forall2 R l1 l2 -> List.length l1 = List.length l2.
Proof. induction 1; simpl; congruence. Qed.

(** "equal arity and every argument coercible to the corresponding parameter" *)
Lemma coercible_sig_spec : forall f args s,
  coercible_sig f args s = true <->
  f_id s = f /\ List.length (f_params s) = List.length args /\
  Forall2 (fun a p => coercible a p = true) args (f_params s).
Proof.
  intros f args s. unfold coercible_sig. rewrite andb_true_iff, ident_eqb_eq, all_coercible_spec.
  split.
  - intros [A B]. split; [congruence|]. split; [|assumption].
    symmetry. eapply Forall2_len; eauto.
  - intros [A [_ B]]. split; [congruence | assumption].
Qed.

Lemma find_first : forall {A} (P : A -> bool) pre s post,
  P s = true -> (forall x, In x pre -> P x = false) -> find P (pre ++ s :: post) = Some s.
Proof.
  intros A P pre. induction pre as [|y pre IH]; intros s post Hs Hpre; simpl.
  - now rewrite Hs.
  - rewrite (Hpre y) by (simpl; auto). apply IH; [assumption|]. intros x Hx. apply Hpre. simpl; auto.
Qed.

Lemma find_none_iff : forall {A} (P : A -> bool) l,
  find P l = None <-> (forall x, In x l -> P x = false).
Proof.
  intros A P l. split.
  - apply find_none.
  - induction l as [|y l IH]; intros H; simpl; [reflexivity|].
    rewrite (H y) by (simpl; auto). apply IH. intros x Hx. apply H. simpl; auto.
Qed.

Lemma find_split : forall {A} (P : A -> bool) l s,
  find P l = Some s -> exists pre post, l = pre ++ s :: post /\ P s = true /\
                                        (forall x, In x pre -> P x = false).
Proof.
  intros A P l. induction l as [|y l IH]; intros s H; simpl in H; [discriminate|].
  destruct (P y) eqn:E.
  - inversion H; subst. exists [], l. simpl. repeat split; auto. intros x [].
  - destruct (IH s H) as (pre & post & -> & Hs & Hpre).
    exists (y :: pre), post. repeat split; auto.
    intros x [<-|Hx]; auto.
Qed.

Definition overload_spec_stmt : Prop :=
  forall (decls : list fsig) (f : ident) (args : list texpr),
    let tys := map ty_of args in
    (* 1. an exact match wins (the first one, were there several) *)
    (forall pre s post,
        decls = pre ++ s :: post -> exact_sig f tys s = true ->
        (forall x, In x pre -> exact_sig f tys x = false) ->
        resolve decls f args = OK s) /\
    (* 2. otherwise the first declared signature every argument can be coerced to *)
    ((forall x, In x decls -> exact_sig f tys x = false) ->
     forall pre s post,
        decls = pre ++ s :: post -> coercible_sig f args s = true ->
        (forall x, In x pre -> coercible_sig f args x = false) ->
        resolve decls f args = OK s) /\
    (* 3. otherwise a compile error *)
    ((forall x, In x decls -> exact_sig f tys x = false) ->
     (forall x, In x decls -> coercible_sig f args x = false) ->
     resolve decls f args = Err (ENoMatchingFunction f tys)) /\
    (* 4. and nothing else: whatever resolve returns is one of the two *)
    (forall s, resolve decls f args = OK s ->
        In s decls /\
        (exact_sig f tys s = true \/
         ((forall x, In x decls -> exact_sig f tys x = false) /\ coercible_sig f args s = true))).

Theorem overload_spec : overload_spec_stmt.
Proof.
  intros decls f args tys. unfold resolve. fold tys. repeat split.
  - intros pre s post -> Hs Hpre. now rewrite (find_first _ pre s post Hs Hpre).
  - intros Hno pre s post -> Hs Hpre.
    rewrite (proj2 (find_none_iff _ _) Hno). now rewrite (find_first _ pre s post Hs Hpre).
  - intros Hno Hnc.
    rewrite (proj2 (find_none_iff _ _) Hno). now rewrite (proj2 (find_none_iff _ _) Hnc).
  - destruct (find (exact_sig f tys) decls) eqn:E.
    + inversion H; subst. apply find_some in E. tauto.
    + destruct (find (coercible_sig f args) decls) eqn:E2; [|discriminate].
      inversion H; subst. apply find_some in E2. tauto.
  - destruct (find (exact_sig f tys) decls) eqn:E.
    + inversion H; subst. apply find_some in E. tauto.
    + destruct (find (coercible_sig f args) decls) eqn:E2; [|discriminate].
      inversion H; subst. apply find_some in E2. right. split; [|tauto].
      now apply find_none_iff.
Qed.

(** an exact match is preferred over any earlier declared coercible signature *)
Theorem resolve_exact_first : forall decls f args s,
  In s decls -> exact_sig f (map ty_of args) s = true ->
  exists s', resolve decls f args = OK s' /\ f_id s' = f /\ f_params s' = map ty_of args.
Proof.
  intros decls f args s Hin Hs. unfold resolve.
  destruct (find (exact_sig f (map ty_of args)) decls) eqn:E.
  - exists f0. split; [reflexivity|]. apply find_some in E. now apply exact_sig_spec.
  - exfalso. rewrite (find_none _ _ E s Hin) in Hs. discriminate.
Qed.

(* ------------------------------------------------------------------------------------------ *)
(** ** C07-4 and the narrowing rule *)

Definition shrinkable_node (e : texpr) : bool :=
  match e with
  | TInt _ s _ => s
  | TUn c _ s | TBin c _ _ s => is_arith c && s
  | _ => false
  end.

(** An int-typed expression is implicitly narrowed to byte only if it is a literal (or folded
    constant) still marked shrinkable, or an arithmetic node marked shrinkable. *)
Theorem no_implicit_narrowing : forall e,
  ty_of e = TData INT -> coercible e (TData BYTE) = true -> shrinkable_node e = true.
Proof.
  intros e Ht Hc.
  destruct e; simpl in *; try (rewrite Ht in Hc; vm_compute in Hc; discriminate).
  - (* TInt *) destruct shr; [reflexivity|]. vm_compute in Hc. discriminate.
  - (* TByte *) vm_compute in Ht. discriminate.
  - (* TArrLit *) discriminate.
  - (* TVolatile *) discriminate.
  - (* TUn *) destruct (is_arith c); simpl in *.
    + destruct shr; [reflexivity|]. vm_compute in Hc. discriminate.
    + discriminate.
  - (* TBin *) destruct (is_arith c); simpl in *.
    + destruct shr; [reflexivity|]. vm_compute in Hc. discriminate.
    + discriminate.
Qed.

Theorem coerce_narrowing_only_shrinkable : forall e e',
  ty_of e = TData INT -> coerce e (TData BYTE) = OK e' -> shrinkable_node e = true.
Proof.
  intros e e' Ht H. unfold coerce in H.
  destruct (coercible e (TData BYTE)) eqn:E; [|discriminate].
  now apply no_implicit_narrowing.
Qed.

Lemma simplify_arith2_coercible : forall c l r s te, is_arith c = true ->
  simplify_arith2 c l r s = OK te -> coercible te (TData BYTE) = s.
Proof.
  intros c l r s te Hc H. unfold simplify_arith2 in H.
  destruct l; try (inversion H; subst; simpl; rewrite Hc; destruct s; reflexivity).
  destruct r; try (inversion H; subst; simpl; rewrite Hc; destruct s; reflexivity).
  destruct (lift_fold (fold_arith2 c d d0)); inversion H; subst. simpl. destruct s; reflexivity.
Qed.

Lemma simplify_arith1_coercible : forall c a s te, is_arith c = true ->
  simplify_arith1 c a s = OK te -> coercible te (TData BYTE) = s.
Proof.
  intros c a s te Hc H. unfold simplify_arith1 in H.
  destruct a; try (inversion H; subst; simpl; rewrite Hc; destruct s; reflexivity).
  destruct (lift_fold (fold_arith1 c d)); inversion H; subst. simpl. destruct s; reflexivity.
Qed.

(** "if all of the operands are coercible to byte, the resulting value is also coercible to
    byte" -- and only then *)
Theorem arith_shrinkable : forall en c l r te,
  op_family c = FamBinArith -> elab_expr en (EBin c l r) = OK te ->
  exists l' r', elab_expr en l = OK l' /\ elab_expr en r = OK r' /\
    coercible te (TData BYTE) = coercible l' (TData BYTE) && coercible r' (TData BYTE).
Proof.
  intros en c l r te Hf H. simpl in H. rewrite Hf in H.
  destruct (elab_expr en l) as [l'|]; [|discriminate].
  destruct (elab_expr en r) as [r'|]; [|discriminate].
  destruct (coerce l' (TData INT)) as [cl|]; [|discriminate].
  destruct (coerce r' (TData INT)) as [cr|]; [|discriminate].
  exists l', r'. split; [reflexivity|]. split; [reflexivity|].
  apply simplify_arith2_coercible in H; [exact H|]. unfold is_arith. now rewrite Hf.
Qed.

Theorem arith_shrinkable_unary : forall en c a te,
  op_family c = FamUnArith -> elab_expr en (EUn c a) = OK te ->
  exists a', elab_expr en a = OK a' /\ coercible te (TData BYTE) = coercible a' (TData BYTE).
Proof.
  intros en c a te Hf H. simpl in H. rewrite Hf in H.
  destruct (elab_expr en a) as [a'|]; [|discriminate].
  destruct (coerce a' (TData INT)) as [ca|]; [|discriminate].
  exists a'. split; [reflexivity|].
  apply simplify_arith1_coercible in H; [exact H|]. unfold is_arith. now rewrite Hf.
Qed.

(* ------------------------------------------------------------------------------------------ *)
(** ** const arrays are never bound or passed where a mutable array is required *)

(** the expression denotes an array whose elements must not be written through it *)
Fixpoint denotes_const_array (e : texpr) : bool :=
  match e with
  | TVolatile x => denotes_const_array x      (* a const *view* of x: as const as x itself *)
  | TArrLit _ _ _ => false                    (* a fresh array *)
  | _ => match ty_of e with TArr _ true => true | _ => false end
  end.

Theorem const_array_not_to_mutable : forall e el,
  denotes_const_array e = true -> coercible e (TArr el false) = false.
Proof.
  induction e; intros el H; simpl in H; try discriminate;
    try (simpl; destruct (v_type v) as [|x []]; try discriminate;
         rewrite never_const_to_mutable; reflexivity).
  - (* TIndex *) simpl. destruct (ty_of e1) as [[]|]; discriminate.
  - (* TCall *) simpl. destruct ret as [|x []]; try discriminate. apply never_const_to_mutable.
  - (* TCast *) change (coercible (TCast k e) (TArr el false)) with (coercible_plain (snd (cast_map k)) (TArr el false)).
    destruct (snd (cast_map k)) as [|x []]; try discriminate. apply never_const_to_mutable.
  - (* TVolatile *) simpl. now apply IHe.
  - (* TUn *) destruct (is_arith c); discriminate.
  - (* TBin *) destruct (is_arith c); discriminate.
  - (* TSpec *) change (coercible (TSpec e1 e2) (TArr el false)) with (coercible_plain (ty_of e1) (TArr el false)).
    destruct (ty_of e1) as [|x []]; try discriminate. apply never_const_to_mutable.
  - (* TArrInit *) simpl. destruct t as [|x []]; try discriminate. apply never_const_to_mutable.
Qed.

Theorem const_array_not_coerced_to_mutable : forall e el e',
  coerce e (TArr el false) = OK e' -> denotes_const_array e = false.
Proof.
  intros e el e' H. unfold coerce in H.
  destruct (denotes_const_array e) eqn:D; [|reflexivity].
  rewrite (const_array_not_to_mutable e el D) in H. discriminate.
Qed.

(* ------------------------------------------------------------------------------------------ *)
(** ** Types of cast / coerce results *)

Ltac inv_res H :=
  repeat match type of H with
         | (match ?x with OK _ => _ | Err _ => _ end) = OK _ =>
             let E := fresh "E" in destruct x eqn:E; [|discriminate H]
         | (if ?c then _ else _) = OK _ =>
             let E := fresh "E" in destruct c eqn:E; try discriminate H
         | OK _ = OK _ => inversion H; subst; clear H
         | Err _ = OK _ => discriminate H
         end.

Lemma pair_is_snd : forall t new k, pair_is t new k = true -> snd (cast_map k) = new.
Proof.
  intros t new k H. unfold pair_is in H. apply andb_prop in H as [_ H].
  apply ty_eqb_eq in H. now symmetry.
Qed.

Lemma cast_tail_type : forall e t new e',
  ty_of e = t -> cast_tail e t new = OK e' -> ty_of e' = new.
Proof.
  intros e t new e' Ht H. unfold cast_tail in H.
  destruct (pair_is t new KStringToByteArray) eqn:P.
  - inversion H; subst. simpl. now apply pair_is_snd in P.
  - destruct t as [|a []]; try discriminate. destruct new as [|b []]; try discriminate.
    destruct (dty_beq a b) eqn:D; [|discriminate]. inversion H; subst. simpl.
    rewrite Ht. simpl. apply dty_beq_eq in D. now subst.
Qed.

Lemma cast_plain0_type : forall e t new e',
  ty_of e = t -> cast_plain0 e t new = OK e' -> ty_of e' = new.
Proof.
  intros e t new e' Ht H. unfold cast_plain0 in H.
  destruct (ty_eqb t new) eqn:E1.
  { inversion H; subst. now apply ty_eqb_eq. }
  destruct (pair_is t new KIntToByte) eqn:E2.
  { inversion H; subst. simpl. now apply pair_is_snd in E2. }
  destruct (pair_is t new KByteToInt) eqn:E3.
  { inversion H; subst. simpl. now apply pair_is_snd in E3. }
  eapply cast_tail_type; eauto.
Qed.

Lemma cast_plain_type : forall e t new e',
  ty_of e = t -> cast_plain e t new = OK e' -> ty_of e' = new.
Proof.
  intros e t new e' Ht H. unfold cast_plain in H.
  destruct (ty_eqb t new) eqn:E1.
  { inversion H; subst. now apply ty_eqb_eq. }
  destruct (pair_is t new KIntToByte) eqn:E2.
  { inversion H; subst. simpl. now apply pair_is_snd in E2. }
  destruct (pair_is t new KByteToInt) eqn:E3.
  { inversion H; subst. simpl. now apply pair_is_snd in E3. }
  destruct (ty_eqb new (TData BOOL)) eqn:E4.
  { apply ty_eqb_eq in E4. subst new.
    destruct (is_str_or_arr t).
    - inversion H; subst. reflexivity.
    - destruct (cast_plain0 e t (TData INT)); [|discriminate]. inversion H; subst. reflexivity. }
  destruct (ty_eqb t (TData BOOL)) eqn:E5.
  { eapply cast_plain0_type; [|exact H]. reflexivity. }
  eapply cast_tail_type; eauto.
Qed.

Lemma cast_intvalue_type : forall self d s c new imp e',
  cast_intvalue self d s c new imp = OK e' -> ty_of e' = new.
Proof.
  intros self d s c new imp e' H. unfold cast_intvalue in H.
  destruct (ty_eqb new (TData BOOL)) eqn:E1.
  { inversion H; subst. apply ty_eqb_eq in E1. now subst. }
  destruct (ty_eqb new (TData BYTE)) eqn:E2.
  { inversion H; subst. apply ty_eqb_eq in E2. now subst. }
  destruct (ty_eqb new (TData INT)) eqn:E3.
  { inversion H; subst. apply ty_eqb_eq in E3. now subst. }
  eapply cast_plain_type; [|exact H]. reflexivity.
Qed.

Theorem cast_type : forall e new e', cast e new = OK e' -> ty_of e' = new.
Proof.
  induction e; intros new e' H; simpl in H;
    try (eapply cast_plain_type; [|exact H]; reflexivity);
    try (eapply cast_intvalue_type; exact H).
  - (* TBool *)
    destruct (ty_eqb new (TData INT)) eqn:E1.
    { inversion H; subst. apply ty_eqb_eq in E1. now subst. }
    destruct (ty_eqb new (TData BYTE)) eqn:E2.
    { inversion H; subst. apply ty_eqb_eq in E2. now subst. }
    eapply cast_plain_type; [|exact H]. reflexivity.
  - (* TStr *)
    destruct (ty_eqb new (TData BOOL)) eqn:E1.
    { inversion H; subst. apply ty_eqb_eq in E1. now subst. }
    eapply cast_plain_type; [|exact H]. reflexivity.
  - (* TArrLit *)
    destruct new as [d|el' k].
    + eapply cast_plain_type; [|exact H]. reflexivity.
    + destruct (map_result (fun v : texpr => cast v (TData el')) vs); [|discriminate].
      inversion H; subst. reflexivity.
  - (* TVolatile *) now apply IHe.
Qed.

Theorem coerce_type : forall e new e', coerce e new = OK e' -> ty_of e' = new.
Proof.
  intros e new e' H. unfold coerce in H.
  destruct (coercible e new); [|discriminate].
  destruct e; try (eapply cast_type; exact H); eapply cast_intvalue_type; exact H.
Qed.

(* ------------------------------------------------------------------------------------------ *)
(** ** C07-3: statement-level soundness *)

Lemma stmt_ind' : forall P : stmt -> Prop,
  (forall v i, P (SDecl v i)) -> (forall l r, P (SAssign l r)) ->
  (forall l c r, P (SIncAssign l c r)) -> (forall v, P (SReturn v)) -> P SBreak -> P SContinue ->
  (forall e, P (SExpr e)) ->
  (forall ss, Forall P ss -> P (SBlock ss)) ->
  (forall c b e, P b -> P e -> P (SIf c b e)) ->
  (forall b c k, P b -> P k -> P (SLoop b c k)) ->
  (forall b u h, P b -> P h -> P (STry b u h)) ->
  (forall b, P b -> P (SPreempt b)) ->
  forall s, P s.
Proof.
  intros P H1 H2 H3 H4 H5 H6 H7 H8 H9 H10 H11 H12.
  fix IH 1. intros [v i|l r|l c r|v| | |e|ss|c b e|b c k|b u h|b].
  - apply H1.
  - apply H2.
  - apply H3.
  - apply H4.
  - apply H5.
  - apply H6.
  - apply H7.
  - apply H8. induction ss as [|s ss IHss]; constructor; [apply IH | exact IHss].
  - apply H9; apply IH.
  - apply H10; apply IH.
  - apply H11; apply IH.
  - apply H12; apply IH.
Qed.

Fixpoint stmt_all (P : tstmt -> bool) (s : tstmt) : bool :=
  P s &&
  match s with
  | TSBlock ss _ => forallb (stmt_all P) ss
  | TSIf b _ e => stmt_all P b && stmt_all P e
  | TSLoop b _ k => stmt_all P b && stmt_all P k
  | TSTry b _ h => stmt_all P b && stmt_all P h
  | TSPreempt b => stmt_all P b
  | _ => true
  end.

Lemma add_decl_ret : forall en d, e_ret (add_decl en d) = e_ret en.
Proof. intros en d. unfold add_decl. destruct (e_scopes en); reflexivity. Qed.

Lemma finish_decl_ret : forall en v i t en',
  finish_decl en v i = OK (t, en') -> e_ret en' = e_ret en /\ exists i', t = TSDecl v i'.
Proof.
  intros en v i t en' H. unfold finish_decl in H.
  destruct (coerce i (v_type v)) as [ci|]; [|discriminate].
  destruct ci; inversion H; subst; split; try apply add_decl_ret; eauto.
Qed.

(** a property of single checked statements, possibly depending on the enclosing function's
    return type, which elab_stmt establishes for the node it builds *)
Definition local_prop (P : option dty -> tstmt -> bool) : Prop :=
  forall en s t en', elab_stmt en s = OK (t, en') -> P (e_ret en) t = true.

Lemma elab_stmt_env_ret : forall s en t en', elab_stmt en s = OK (t, en') -> e_ret en' = e_ret en.
Proof.
  intros s en t en' H. destruct s; simpl in H.
  - inv_res H. apply finish_decl_ret in H. tauto.
  - inv_res H. reflexivity.
  - inv_res H. reflexivity.
  - destruct (e_ret en) eqn:R; [|discriminate]. destruct val; inv_res H; exact R.
  - inv_res H. reflexivity.
  - inv_res H. reflexivity.
  - inv_res H. reflexivity.
  - inv_res H. reflexivity.
  - inv_res H. reflexivity.
  - inv_res H. reflexivity.
  - inv_res H. reflexivity.
  - inv_res H. reflexivity.
Qed.

Lemma elab_block_all : forall (P : tstmt -> bool) rt elab unreach ss,
  Forall (fun s => forall en t en', e_ret en = rt -> elab en s = OK (t, en') ->
                   stmt_all P t = true /\ e_ret en' = rt) ss ->
  forall en mode cont r, e_ret en = rt ->
    elab_block elab unreach ss en mode cont = OK r -> forallb (stmt_all P) (fst r) = true.
Proof.
  intros P rt elab unreach ss HF. induction HF as [|s ss Hs HF IH]; intros en mode cont r Hen H.
  - simpl in H. inversion H; subst. reflexivity.
  - simpl in H. destruct (negb (m_none mode) || cont).
    + destruct unreach; inversion H; subst; reflexivity.
    + destruct (elab en s) as [[t1 en1]|] eqn:E; [|discriminate]. simpl in H.
      destruct (Hs en t1 en1 Hen E) as [Ht1 Hen1].
      match type of H with (match ?x with OK _ => _ | Err _ => _ end) = _ => destruct x as [rest|] eqn:E2; [|discriminate] end.
      inversion H; subst. simpl. rewrite Ht1. simpl. eapply IH; [exact Hen1 | exact E2].
Qed.

Theorem elab_stmt_all : forall P, local_prop P ->
  forall s en t en', elab_stmt en s = OK (t, en') -> stmt_all (P (e_ret en)) t = true.
Proof.
  intros P HL. induction s as [v i|l r|l c r|v| | |e|ss HF|c b e IHb IHe|b c k IHb IHk|b u h IHb IHh|b IHb]
    using stmt_ind'; intros en t en' HE;
    pose proof (HL en _ t en' HE) as Hloc; simpl in HE.
  - (* SDecl *) inv_res HE. apply finish_decl_ret in HE as [_ [i' ->]]. simpl. now rewrite Hloc.
  - inv_res HE. simpl in *. now rewrite Hloc.
  - inv_res HE. simpl in *. now rewrite Hloc.
  - destruct (e_ret en); [|discriminate]. destruct v; inv_res HE; simpl in *; now rewrite Hloc.
  - inv_res HE. simpl in *. now rewrite Hloc.
  - inv_res HE. simpl in *. now rewrite Hloc.
  - inv_res HE. simpl in *. now rewrite Hloc.
  - (* SBlock *)
    match type of HE with (match ?x with OK _ => _ | Err _ => _ end) = _ => destruct x as [r|] eqn:E; [|discriminate] end.
    inversion HE; subst. simpl. rewrite Hloc. simpl.
    eapply (elab_block_all (P (e_ret en')) (e_ret en')); [| |exact E]; [|reflexivity].
    rewrite Forall_forall in *. intros s Hin en0 t0 en0' Hr He.
    split; [|rewrite <- Hr; eapply elab_stmt_env_ret; exact He].
    rewrite <- Hr. eapply HF; eauto.
  - (* SIf *)
    destruct (elab_stmt en b) as [[tb eb]|] eqn:E1; [|discriminate].
    destruct (elab_expr en c) as [c'|]; [|discriminate]. destruct (cast c' (TData BOOL)); [|discriminate].
    destruct (elab_stmt en e) as [[te ee]|] eqn:E2; [|discriminate].
    inversion HE; subst. simpl. rewrite Hloc.
    rewrite (IHb _ _ _ E1), (IHe _ _ _ E2). reflexivity.
  - (* SLoop *)
    destruct (elab_stmt en b) as [[tb eb]|] eqn:E1; [|discriminate].
    destruct (elab_expr en c) as [c'|]; [|discriminate]. destruct (cast c' (TData BOOL)); [|discriminate].
    destruct (elab_stmt en k) as [[tk ek]|] eqn:E2; [|discriminate].
    inversion HE; subst. simpl. rewrite Hloc.
    rewrite (IHb _ _ _ E1), (IHk _ _ _ E2). reflexivity.
  - (* STry *)
    destruct (elab_stmt en b) as [[tb eb]|] eqn:E1; [|discriminate].
    destruct (elab_stmt en h) as [[th eh]|] eqn:E2; [|discriminate].
    inversion HE; subst. simpl. rewrite Hloc.
    rewrite (IHb _ _ _ E1), (IHh _ _ _ E2). reflexivity.
  - (* SPreempt *)
    destruct (elab_stmt en b) as [[tb eb]|] eqn:E1; [|discriminate].
    inversion HE; subst. simpl. rewrite Hloc.
    now rewrite (IHb _ _ _ E1).
Qed.

(** *** assignment targets *)
Definition target_ok (l : texpr) : bool := is_assignable l && negb (lookup_const l).

Definition assign_ok (_ : option dty) (s : tstmt) : bool :=
  match s with TSAssign l _ | TSIncAssign l _ _ => target_ok l | _ => true end.

(** what target_ok says: the target is a non-const variable or an element of a non-const array
    (never an element of a string: ArrayLookup.const is True for strings) *)
Lemma target_ok_shape : forall l, target_ok l = true ->
  (exists v, l = TVar v /\ v_const v = false) \/
  (exists src i el, l = TIndex src i /\ ty_of src = TArr el false).
Proof.
  intros l H. unfold target_ok in H. apply andb_prop in H as [H1 H2]. apply negb_true_iff in H2.
  destruct l; simpl in H1; try discriminate.
  - left. eauto.
  - simpl in H2. destruct (ty_of l1) as [[]|el []] eqn:T; try discriminate.
    right. eauto 6.
Qed.

Lemma elab_assign_target : forall en l r mk p,
  elab_assign en l r mk = OK p -> target_ok (fst p) = true /\ ty_of (snd p) = ty_of (fst p).
Proof.
  intros en l r mk p H. unfold elab_assign in H.
  destruct (elab_expr en l) as [l'|]; [|discriminate].
  destruct (negb (is_assignable l') || lookup_const l') eqn:C; [discriminate|].
  destruct (elab_expr en (mk r)) as [r'|]; [|discriminate].
  destruct (coerce r' (ty_of l')) as [cr|] eqn:E; [|discriminate].
  inversion H; subst. simpl. apply orb_false_iff in C as [C1 C2]. apply negb_false_iff in C1.
  split; [unfold target_ok; now rewrite C1, C2 | eapply coerce_type; eauto].
Qed.

Lemma assign_ok_local : local_prop assign_ok.
Proof.
  intros en s t en' H. destruct s; simpl in H.
  - inv_res H. apply finish_decl_ret in H as [_ [i' ->]]. reflexivity.
  - inv_res H. simpl. now apply elab_assign_target in E.
  - inv_res H. simpl. now apply elab_assign_target in E.
  - destruct (e_ret en); [|discriminate]. destruct val; inv_res H; reflexivity.
  - inv_res H. reflexivity.
  - inv_res H. reflexivity.
  - inv_res H. reflexivity.
  - inv_res H. reflexivity.
  - inv_res H. reflexivity.
  - inv_res H. reflexivity.
  - inv_res H. reflexivity.
  - inv_res H. reflexivity.
Qed.

(** *** return statements *)
Definition return_ok (rt : option dty) (s : tstmt) : bool :=
  match s with
  | TSReturn (Some v) =>
      match rt with
      | Some d => negb (dty_beq d EMPTY) && ty_eqb (ty_of v) (TData d)
      | None => false
      end
  | TSReturn None => match rt with Some d => dty_beq d EMPTY | None => false end
  | _ => true
  end.

Lemma return_ok_local : local_prop return_ok.
Proof.
  intros en s t en' H. destruct s; simpl in H.
  - inv_res H. apply finish_decl_ret in H as [_ [i' ->]]. reflexivity.
  - inv_res H. reflexivity.
  - inv_res H. reflexivity.
  - destruct (e_ret en) as [rt|]; [|discriminate]. destruct val; inv_res H; simpl.
    + rewrite E. simpl. apply coerce_type in E1. rewrite E1. apply ty_eqb_refl.
    + now apply negb_false_iff in E.
  - inv_res H. reflexivity.
  - inv_res H. reflexivity.
  - inv_res H. reflexivity.
  - inv_res H. reflexivity.
  - inv_res H. reflexivity.
  - inv_res H. reflexivity.
  - inv_res H. reflexivity.
  - inv_res H. reflexivity.
Qed.

(** *** functions and programs *)
Lemma bind_params_ret : forall ps en en1, bind_params en ps = OK en1 -> e_ret en1 = e_ret en.
Proof.
  induction ps as [|p ps IH]; intros en en1 H; simpl in H.
  - now inversion H.
  - destruct (redeclared en (v_name p)); [discriminate|].
    destruct (finish_decl en p (TParam p)) as [[t e2]|] eqn:E; [|discriminate]. simpl in H.
    apply IH in H. apply finish_decl_ret in E as [E _]. congruence.
Qed.

Definition compound (s : tstmt) : bool :=
  match s with
  | TSDecl _ _ | TSAssign _ _ | TSIncAssign _ _ _ | TSReturn _ | TSBreak | TSContinue | TSExpr _ => false
  | _ => true
  end.

Lemma elab_func_all : forall P, local_prop P ->
  (forall rt ss m, P rt (TSBlock ss m) = true) ->
  P (Some EMPTY) (TSReturn None) = true ->
  forall en f tf, elab_func en f = OK tf ->
    stmt_all (P (Some (tf_ret tf))) (tf_body tf) = true.
Proof.
  intros P HL HC HR en f tf H. unfold elab_func in H.
  destruct (bind_params (child_env en (Some (fd_ret f))) (fd_params f)) as [en1|] eqn:B; [|discriminate].
  apply bind_params_ret in B. simpl in B.
  destruct (elab_stmt en1 (SBlock (fd_body f))) as [[t en2]|] eqn:E; [|discriminate].
  pose proof (elab_stmt_all P HL _ _ _ _ E) as A. rewrite B in A.
  simpl in H. destruct t; try discriminate.
  destruct (m_break mode); [discriminate|].
  destruct (m_defeat mode && negb (flavor_eqb (id_flavor (fd_name f)) FL_DEFEAT)); [discriminate|].
  destruct (m_none mode).
  - destruct (negb (dty_beq (fd_ret f) EMPTY)) eqn:R; [discriminate|].
    inversion H; subst. simpl.
    apply negb_false_iff in R. apply dty_beq_eq in R.
    simpl in A. apply andb_prop in A as [_ A].
    rewrite HC. simpl. rewrite forallb_app, A. simpl. rewrite R, HR. reflexivity.
  - inversion H; subst. exact A.
Qed.

Lemma elab_funcs_all : forall P, local_prop P ->
  (forall rt ss m, P rt (TSBlock ss m) = true) ->
  P (Some EMPTY) (TSReturn None) = true ->
  forall fs en tfs, elab_funcs en fs = OK tfs ->
    forallb (fun tf => stmt_all (P (Some (tf_ret tf))) (tf_body tf)) tfs = true.
Proof.
  intros P HL HC HR. induction fs as [|f fs IH]; intros en tfs H; simpl in H.
  - inversion H. reflexivity.
  - destruct (elab_func en f) as [tf|] eqn:E; [|discriminate].
    destruct (elab_funcs en fs) as [tl|] eqn:E2; [|discriminate].
    inversion H; subst. simpl. rewrite (elab_func_all P HL HC HR _ _ _ E). simpl. eapply IH; eauto.
Qed.

Definition funcs_all (P : option dty -> tstmt -> bool) (tp : tprogram) : bool :=
  forallb (fun tf => stmt_all (P (Some (tf_ret tf))) (tf_body tf)) (tp_funcs tp).

Lemma elab_program_all : forall P, local_prop P ->
  (forall rt ss m, P rt (TSBlock ss m) = true) ->
  P (Some EMPTY) (TSReturn None) = true ->
  forall u p tp, elab_program u p = OK tp -> funcs_all P tp = true.
Proof.
  intros P HL HC HR u p tp H. unfold elab_program in H.
  destruct (add_funcs [] builtin_fsigs); [|discriminate].
  destruct (add_funcs a (map sig_of (p_funcs p))); [|discriminate].
  destruct (elab_globals _ (p_vars p)) as [g|]; [|discriminate].
  destruct (elab_funcs (snd g) (p_funcs p)) as [fs|] eqn:E; [|discriminate].
  inversion H; subst. unfold funcs_all. simpl. eapply elab_funcs_all; eauto.
Qed.

(** No accepted program assigns to a const variable or to an element of a const array:
    every assignment target in the checked tree is a non-const variable, an element of a
    non-const array. *)
Theorem no_assign_to_const : forall u p tp,
  elab_program u p = OK tp -> funcs_all assign_ok tp = true.
Proof.
  intros. eapply (elab_program_all assign_ok assign_ok_local); eauto.
Qed.

(** Every return statement of an accepted program matches its function's return type. *)
Theorem returns_match : forall u p tp,
  elab_program u p = OK tp -> funcs_all return_ok tp = true.
Proof.
  intros. eapply (elab_program_all return_ok return_ok_local); eauto.
Qed.

(** No accepted program assigns to an element of a string (`s[0] = 'c'`, `s[0] += 1`). *)
Definition not_string_target (_ : option dty) (s : tstmt) : bool :=
  match s with
  | TSAssign (TIndex src _) _ | TSIncAssign (TIndex src _) _ _ =>
      negb (ty_eqb (ty_of src) (TData STRING))
  | _ => true
  end.

Lemma local_prop_mono : forall P Q : option dty -> tstmt -> bool,
  local_prop P -> (forall rt s, P rt s = true -> Q rt s = true) -> local_prop Q.
Proof. intros P Q HP HI en s t en' H. apply HI. eapply HP; eauto. Qed.

Lemma target_ok_not_string : forall src i,
  target_ok (TIndex src i) = true -> negb (ty_eqb (ty_of src) (TData STRING)) = true.
Proof.
  intros src i H. unfold target_ok in H. apply andb_prop in H as [_ H]. apply negb_true_iff in H.
  simpl in H. destruct (ty_of src) as [[]|el k]; try reflexivity; discriminate.
Qed.

Theorem no_assign_to_string_element : forall u p tp,
  elab_program u p = OK tp -> funcs_all not_string_target tp = true.
Proof.
  intros. eapply (elab_program_all not_string_target); eauto.
  apply (local_prop_mono assign_ok); [exact assign_ok_local|].
  intros rt s Hs. destruct s; try reflexivity; simpl in *;
    destruct lhs; try reflexivity; now apply target_ok_not_string in Hs.
Qed.

(** the former F7 / F6 witnesses are now rejected *)
Definition f7_witness : program :=
  mkProgram []
    [mkFdecl EMPTY (mkId "f" FL_NONE) []
       [SDecl (mkVar "s" (TData STRING) false) (EStr "ab");
        SAssign (EIndex (EVar "s") (EInt 0)) (EChar 99)]].

Definition f6_witness : program :=
  mkProgram []
    [mkFdecl EMPTY (mkId "e" FL_NONE) [] [];
     mkFdecl EMPTY (mkId "f" FL_NONE) []
       [SExpr (ECall (mkId "write" FL_NONE) [ELen (EArr [ECall (mkId "e" FL_NONE) []])])]].

Lemma former_defect_witnesses_rejected :
  elab_program false f7_witness = Err EAssignConst /\
  elab_program false f6_witness = Err EArrayEmptyElement.
Proof. split; vm_compute; reflexivity. Qed.

(* ------------------------------------------------------------------------------------------ *)
(** ** Well-formedness of checked expressions; no nested arrays *)

Lemma texpr_ind' : forall P : texpr -> Prop,
  (forall d s c, P (TInt d s c)) -> (forall d s c, P (TByte d s c)) -> (forall b, P (TBool b)) ->
  (forall s, P (TStr s)) -> (forall v, P (TVar v)) -> (forall v, P (TParam v)) ->
  (forall vs t k, Forall P vs -> P (TArrLit vs t k)) ->
  (forall s i, P s -> P i -> P (TIndex s i)) -> (forall s, P s -> P (TLen s)) ->
  (forall f args r, Forall P args -> P (TCall f args r)) ->
  (forall k e, P e -> P (TCast k e)) -> (forall e, P e -> P (TVolatile e)) ->
  (forall c e s, P e -> P (TUn c e s)) -> (forall c l r s, P l -> P r -> P (TBin c l r s)) ->
  (forall l r, P l -> P r -> P (TSpec l r)) -> (forall t l, P l -> P (TArrInit t l)) ->
  forall e, P e.
Proof.
  intros P H1 H2 H3 H4 H5 H6 H7 H8 H9 H10 H11 H12 H13 H14 H15 H16.
  fix IH 1. intros [d s c|d s c|b|s|v|v|vs t k|s i|s|f args r|k e|e|c e s|c l r s|l r|t l].
  - apply H1. - apply H2. - apply H3. - apply H4. - apply H5. - apply H6.
  - apply H7. induction vs as [|x vs IHvs]; constructor; [apply IH | exact IHvs].
  - apply H8; apply IH.
  - apply H9; apply IH.
  - apply H10. induction args as [|x vs IHvs]; constructor; [apply IH | exact IHvs].
  - apply H11; apply IH.
  - apply H12; apply IH.
  - apply H13; apply IH.
  - apply H14; apply IH.
  - apply H15; apply IH.
  - apply H16; apply IH.
Qed.

Lemma expr_ind' : forall P : expr -> Prop,
  (forall n, P (EInt n)) -> (forall n, P (EChar n)) -> (forall b, P (EBool b)) -> (forall s, P (EStr s)) ->
  (forall x, P (EVar x)) -> (forall es, Forall P es -> P (EArr es)) ->
  (forall s i, P s -> P i -> P (EIndex s i)) -> (forall s, P s -> P (ELen s)) ->
  (forall f args, Forall P args -> P (ECall f args)) ->
  (forall c e, P e -> P (EUn c e)) -> (forall c l r, P l -> P r -> P (EBin c l r)) ->
  (forall e t, P e -> P (EIs e t)) -> (forall l r, P l -> P r -> P (ESpec l r)) ->
  (forall t l, P l -> P (EArrInit t l)) ->
  forall e, P e.
Proof.
  intros P H1 H2 H3 H4 H5 H6 H7 H8 H9 H10 H11 H12 H13 H14.
  fix IH 1. intros [n|n|b|s|x|es|s i|s|f args|c e|c l r|e t|l r|t l].
  - apply H1. - apply H2. - apply H3. - apply H4. - apply H5.
  - apply H6. induction es as [|x vs IHvs]; constructor; [apply IH | exact IHvs].
  - apply H7; apply IH.
  - apply H8; apply IH.
  - apply H9. induction args as [|x vs IHvs]; constructor; [apply IH | exact IHvs].
  - apply H10; apply IH.
  - apply H11; apply IH.
  - apply H12; apply IH.
  - apply H13; apply IH.
  - apply H14; apply IH.
Qed.

(** Every array literal has an array type and scalar-typed, non-`empty`-typed, well-formed
    elements (of exactly the element type once it is type-locked); every Volatile wraps an
    array. *)
Fixpoint wf (e : texpr) : bool :=
  match e with
  | TArrLit vs t locked =>
      is_array t &&
      forallb (fun v => wf v && is_scalar (ty_of v) &&
                        (negb locked || ty_eqb (ty_of v) (TData (el_of t))) &&
                        negb (ty_eqb (ty_of v) (TData EMPTY))) vs
  | TIndex s i => wf s && wf i
  | TLen s => wf s
  | TCall _ args _ => forallb wf args
  | TCast _ x => wf x
  | TVolatile x => wf x && is_array (ty_of x)
  | TUn _ x _ => wf x
  | TBin _ l r _ => wf l && wf r
  | TSpec l r => wf l && wf r
  | TArrInit _ l => wf l
  | _ => true
  end.

Lemma coercible_plain_arr_scalar : forall el k d, coercible_plain (TArr el k) (TData d) = false.
Proof. intros. rewrite lattice_plain. destruct k; reflexivity. Qed.

Lemma arr_not_coercible_scalar : forall e d,
  wf e = true -> is_array (ty_of e) = true -> coercible e (TData d) = false.
Proof.
  induction e using texpr_ind'; intros d0 W A; simpl in A; try discriminate; simpl.
  - destruct (v_type v); [discriminate|]. apply coercible_plain_arr_scalar.
  - destruct (v_type v); [discriminate|]. apply coercible_plain_arr_scalar.
  - reflexivity.
  - destruct (ty_of e1) as [[]|]; discriminate.
  - destruct r; [discriminate|]. apply coercible_plain_arr_scalar.
  - destruct (snd (cast_map k)); [discriminate|]. apply coercible_plain_arr_scalar.
  - simpl in W. apply andb_prop in W as [W1 W2]. now apply IHe.
  - destruct (is_arith c); discriminate.
  - destruct (is_arith c); discriminate.
  - destruct (ty_of e1); [discriminate|]. apply coercible_plain_arr_scalar.
  - destruct t; [discriminate|]. apply coercible_plain_arr_scalar.
Qed.

Lemma map_result_Forall : forall {A B} (f : A -> result B) (P : A -> Prop) (Q : B -> Prop) l l',
  Forall (fun x => forall y, P x -> f x = OK y -> Q y) l -> Forall P l ->
  map_result f l = OK l' -> Forall Q l'.
Proof.
  intros A B f P Q l. induction l as [|x l IH]; intros l' HF HP H; simpl in H.
  - inversion H. constructor.
  - destruct (f x) as [y|] eqn:E; [|discriminate].
    destruct (map_result f l) as [tl|] eqn:E2; [|discriminate].
    inversion H; subst. inversion HF; subst. inversion HP; subst.
    constructor; [eapply H2; eauto | eapply IH; eauto].
Qed.

Lemma map_result_types : forall vs el vs',
  map_result (fun v => cast v (TData el)) vs = OK vs' ->
  Forall (fun v' => ty_of v' = TData el) vs'.
Proof.
  induction vs as [|x l IH]; intros el vs' H; simpl in H.
  - inversion H. constructor.
  - destruct (cast x (TData el)) as [y|] eqn:E; [|discriminate].
    destruct (map_result (fun v => cast v (TData el)) l) as [tl|] eqn:E2; [|discriminate].
    inversion H; subst. constructor; [eapply cast_type; eauto | eapply IH; eauto].
Qed.

(** an `empty`-typed expression is coercible to nothing else, and nothing else can be cast to
    `empty` *)
Lemma empty_not_coercible : forall e d,
  ty_of e = TData EMPTY -> coercible e (TData d) = true -> d = EMPTY.
Proof.
  intros e d T C.
  assert (P : coercible_plain (TData EMPTY) (TData d) = true -> d = EMPTY).
  { intros H. apply never_from_empty in H. now inversion H. }
  destruct e; simpl in T, C; try discriminate; try (rewrite T in C; now apply P).
  - destruct (is_arith c); discriminate.
  - destruct (is_arith c); discriminate.
Qed.

Lemma cast_plain_to_empty : forall e t e',
  cast_plain e t (TData EMPTY) = OK e' -> t = TData EMPTY.
Proof.
  intros e t e' H. destruct t as [[]|[] []]; vm_compute in H; try discriminate; reflexivity.
Qed.

Lemma cast_to_empty : forall e e',
  wf e = true -> cast e (TData EMPTY) = OK e' -> ty_of e = TData EMPTY.
Proof.
  induction e using texpr_ind'; intros e' W HC; simpl in HC;
    try (apply cast_plain_to_empty in HC; exact HC);
    try (vm_compute in HC; discriminate).
  (* TVolatile *)
  simpl in W. apply andb_prop in W as [W A]. rewrite (IHe _ W HC) in A. discriminate.
Qed.

Lemma cast_tail_wf : forall e t new e',
  ty_of e = t -> wf e = true -> cast_tail e t new = OK e' -> wf e' = true.
Proof.
  intros e t new e' Ht W H. unfold cast_tail in H.
  destruct (pair_is t new KStringToByteArray).
  - inversion H; subst. exact W.
  - destruct t as [|a []]; try discriminate. destruct new as [|b []]; try discriminate.
    destruct (dty_beq a b); [|discriminate]. inversion H; subst. simpl. rewrite W, Ht. reflexivity.
Qed.

Lemma cast_plain0_wf : forall e t new e',
  ty_of e = t -> wf e = true -> cast_plain0 e t new = OK e' -> wf e' = true.
Proof.
  intros e t new e' Ht W H. unfold cast_plain0 in H.
  destruct (ty_eqb t new); [inversion H; subst; exact W|].
  destruct (pair_is t new KIntToByte); [inversion H; subst; exact W|].
  destruct (pair_is t new KByteToInt); [inversion H; subst; exact W|].
  eapply cast_tail_wf; eauto.
Qed.

Lemma cast_plain_wf : forall e t new e',
  ty_of e = t -> wf e = true -> cast_plain e t new = OK e' -> wf e' = true.
Proof.
  intros e t new e' Ht W H. unfold cast_plain in H.
  destruct (ty_eqb t new); [inversion H; subst; exact W|].
  destruct (pair_is t new KIntToByte); [inversion H; subst; exact W|].
  destruct (pair_is t new KByteToInt); [inversion H; subst; exact W|].
  destruct (ty_eqb new (TData BOOL)).
  { destruct (is_str_or_arr t); [inversion H; subst; exact W|].
    destruct (cast_plain0 e t (TData INT)) as [x|] eqn:E; [|discriminate].
    inversion H; subst. simpl. eapply cast_plain0_wf; [| |exact E]; auto. }
  destruct (ty_eqb t (TData BOOL)).
  { eapply cast_plain0_wf; [| |exact H]; [reflexivity | exact W]. }
  eapply cast_tail_wf; eauto.
Qed.

Lemma cast_intvalue_wf : forall self d s c new imp e',
  wf self = true -> cast_intvalue self d s c new imp = OK e' -> wf e' = true.
Proof.
  intros self d s c new imp e' W H. unfold cast_intvalue in H.
  destruct (ty_eqb new (TData BOOL)); [inversion H; reflexivity|].
  destruct (ty_eqb new (TData BYTE)); [inversion H; reflexivity|].
  destruct (ty_eqb new (TData INT)); [inversion H; reflexivity|].
  eapply cast_plain_wf; [| |exact H]; [reflexivity | exact W].
Qed.

Theorem cast_wf : forall e new e', wf e = true -> cast e new = OK e' -> wf e' = true.
Proof.
  induction e using texpr_ind'; intros new e' W HC; simpl in HC;
    try (eapply cast_plain_wf; [| |exact HC]; [reflexivity | exact W]);
    try (eapply cast_intvalue_wf; [|exact HC]; exact W).
  - (* TBool *)
    destruct (ty_eqb new (TData INT)); [inversion HC; reflexivity|].
    destruct (ty_eqb new (TData BYTE)); [inversion HC; reflexivity|].
    eapply cast_plain_wf; [| |exact HC]; [reflexivity | exact W].
  - (* TStr *)
    destruct (ty_eqb new (TData BOOL)); [inversion HC; reflexivity|].
    eapply cast_plain_wf; [| |exact HC]; [reflexivity | exact W].
  - (* TArrLit *)
    destruct new as [d|el' k'].
    + eapply cast_plain_wf; [| |exact HC]; [reflexivity | exact W].
    + destruct (map_result (fun v => cast v (TData el')) vs) as [vs'|] eqn:E; [|discriminate].
      inversion HC; subst. simpl.
      simpl in W. apply andb_prop in W as [_ W]. rewrite forallb_forall in W.
      pose proof (map_result_types _ _ _ E) as HT.
      assert (HW : Forall (fun v' => wf v' = true) vs').
      { eapply (map_result_Forall _ (fun v => wf v = true)); [| |exact E].
        - rewrite Forall_forall in *. intros x Hx y Wx Ex. eapply H; eauto.
        - rewrite Forall_forall. intros x Hx. specialize (W x Hx).
          apply andb_prop in W as [W _]. apply andb_prop in W as [W _].
          apply andb_prop in W as [W _]. exact W. }
      destruct (dty_beq el' EMPTY) eqn:EM.
      { (* a literal with elements cannot be cast to empty[]: its elements are not empty-typed *)
        apply dty_beq_eq in EM. subst el'. destruct vs as [|x vs0]; [simpl in E; inversion E; reflexivity|].
        exfalso. simpl in E. destruct (cast x (TData EMPTY)) as [x'|] eqn:EX; [|discriminate].
        specialize (W x (or_introl eq_refl)). apply andb_prop in W as [W NE].
        apply andb_prop in W as [W _]. apply andb_prop in W as [W _].
        rewrite (cast_to_empty _ _ W EX) in NE. discriminate. }
      rewrite forallb_forall. intros v' Hv'.
      rewrite Forall_forall in HT, HW. rewrite (HW v' Hv'), (HT v' Hv'). simpl.
      destruct el'; try reflexivity; discriminate.
  - (* TVolatile *) simpl in W. apply andb_prop in W as [W _]. eapply IHe; eauto.
Qed.

Theorem coerce_wf : forall e new e', wf e = true -> coerce e new = OK e' -> wf e' = true.
Proof.
  intros e new e' W H. unfold coerce in H. destruct (coercible e new); [|discriminate].
  destruct e; try (eapply cast_wf; eauto; fail); eapply cast_intvalue_wf; eauto.
Qed.

Lemma coerce_all_wf : forall args ps cargs,
  forallb wf args = true -> coerce_all args ps = OK cargs -> forallb wf cargs = true.
Proof.
  induction args as [|a args IH]; intros ps cargs W H; simpl in H.
  - inversion H. reflexivity.
  - destruct ps as [|p ps]; [inversion H; reflexivity|].
    simpl in W. apply andb_prop in W as [W1 W2].
    destruct (coerce a p) as [a'|] eqn:E; [|discriminate].
    destruct (coerce_all args ps) as [tl|] eqn:E2; [|discriminate].
    inversion H; subst. simpl. rewrite (coerce_wf _ _ _ W1 E). simpl. eapply IH; eauto.
Qed.

Lemma arr_pick_wf : forall vs cands seen te,
  forallb wf vs = true -> arr_pick vs cands seen = OK te -> wf te = true.
Proof.
  intros vs cands. induction cands as [|t tl IH]; intros seen te W H; simpl in H; [discriminate|].
  destruct (existsb (ty_eqb t) seen); [eapply IH; eauto|].
  destruct t as [d|]; [|discriminate].
  destruct (dty_beq d EMPTY) eqn:NE; [discriminate|].
  destruct (forallb (fun v => coercible v (TData d)) vs) eqn:C; [|eapply IH; eauto].
  inversion H; subst. simpl. rewrite forallb_forall in *. intros v Hv.
  rewrite (W v Hv). simpl.
  destruct (ty_of v) as [dv|] eqn:T.
  - simpl. destruct (dty_beq dv EMPTY) eqn:EV; [|reflexivity].
    exfalso. apply dty_beq_eq in EV. subst dv.
    pose proof (empty_not_coercible v d T (C v Hv)) as D. subst d. discriminate.
  - exfalso. pose proof (arr_not_coercible_scalar v d (W v Hv)) as A. rewrite T in A.
    rewrite (C v Hv) in A. discriminate (A eq_refl).
Qed.

Lemma at_subst_wf : forall e, is_primitive e = true -> wf (at_subst e) = true.
Proof. intros e H. destruct e; try discriminate; reflexivity. Qed.

Lemma simplify_arith2_wf : forall c l r s te,
  wf l = true -> wf r = true -> simplify_arith2 c l r s = OK te -> wf te = true.
Proof.
  intros c l r s te Wl Wr H. unfold simplify_arith2 in H.
  assert (G : wf (TBin c l r s) = true) by (simpl; now rewrite Wl, Wr).
  destruct l; try (inversion H; subst; exact G).
  destruct r; try (inversion H; subst; exact G).
  destruct (lift_fold (fold_arith2 c d d0)); inversion H; reflexivity.
Qed.

Lemma simplify_arith1_wf : forall c a s te,
  wf a = true -> simplify_arith1 c a s = OK te -> wf te = true.
Proof.
  intros c a s te W H. unfold simplify_arith1 in H.
  assert (G : wf (TUn c a s) = true) by (simpl; exact W).
  destruct a; try (inversion H; subst; exact G).
  destruct (lift_fold (fold_arith1 c d)); inversion H; reflexivity.
Qed.

Lemma simplify_bool2_wf : forall c l r te,
  wf l = true -> wf r = true -> simplify_bool2 c l r = OK te -> wf te = true.
Proof.
  intros c l r te Wl Wr H. unfold simplify_bool2 in H.
  destruct (is_primitive l && is_primitive r).
  - destruct (prim_data l); [|discriminate]. destruct (prim_data r); [|discriminate].
    destruct (lift_fold (fold_bool2 c z z0)); inversion H; reflexivity.
  - inversion H; subst. simpl. now rewrite Wl, Wr.
Qed.

Lemma simplify_bool1_wf : forall c a te,
  wf a = true -> simplify_bool1 c a = OK te -> wf te = true.
Proof.
  intros c a te W H. unfold simplify_bool1 in H.
  destruct (is_primitive a).
  - destruct (prim_data a); [|discriminate].
    destruct (lift_fold (fold_bool1 c z)); inversion H; reflexivity.
  - inversion H; subst. simpl. exact W.
Qed.

Lemma map_result_wf : forall en es vs,
  Forall (fun e => forall te, elab_expr en e = OK te -> wf te = true) es ->
  map_result (elab_expr en) es = OK vs -> forallb wf vs = true.
Proof.
  intros en es. induction es as [|x es IH]; intros vs HF H; simpl in H.
  - inversion H. reflexivity.
  - destruct (elab_expr en x) as [x'|] eqn:E; [|discriminate].
    destruct (map_result (elab_expr en) es) as [tl|] eqn:E2; [|discriminate].
    inversion H; subst. inversion HF; subst. simpl. rewrite (H2 _ E). simpl. eapply IH; eauto.
Qed.

Theorem elab_expr_wf : forall e en te, elab_expr en e = OK te -> wf te = true.
Proof.
  induction e using expr_ind'; intros en te HE; simpl in HE.
  - inversion HE; reflexivity.
  - inversion HE; reflexivity.
  - inversion HE; reflexivity.
  - inversion HE; reflexivity.
  - destruct (lookup_var en x) as [d|]; [|discriminate].
    destruct ((v_const (d_var d) || is_global en) && is_primitive (d_init d)) eqn:C.
    + inversion HE; subst. apply andb_prop in C as [_ C]. now apply at_subst_wf.
    + inversion HE; reflexivity.
  - destruct es as [|e0 es]; [inversion HE; reflexivity|].
    destruct (map_result (elab_expr en) (e0 :: es)) as [vs|] eqn:E; [|discriminate].
    eapply arr_pick_wf; [|exact HE]. eapply map_result_wf; [|exact E].
    rewrite Forall_forall in *. intros x Hx te0 Hte. eapply H; eauto.
  - (* EIndex *)
    destruct (elab_expr en e1) as [s'|] eqn:E1; [|discriminate].
    destruct (negb (is_str_or_arr (ty_of s'))); [discriminate|].
    pose proof (IHe1 _ _ E1) as W1.
    match type of HE with (match ?x with OK _ => _ | Err _ => _ end) = _ => destruct x as [s''|] eqn:ES; [|discriminate] end.
    assert (W2 : wf s'' = true).
    { destruct s'; try (destruct (is_array _ && dty_beq _ EMPTY); [discriminate|]; inversion ES; subst; exact W1).
      destruct (dty_beq (el_of t) EMPTY); [discriminate|]. eapply coerce_wf; eauto. }
    destruct (elab_expr en e2) as [i'|] eqn:E2; [|discriminate].
    destruct (coerce i' (TData INT)) as [i''|] eqn:E3; [|discriminate].
    inversion HE; subst. simpl. rewrite W2. simpl. eapply coerce_wf; [|exact E3]. eapply IHe2; eauto.
  - (* ELen *)
    destruct (elab_expr en e) as [s'|] eqn:E1; [|discriminate].
    destruct (negb (is_str_or_arr (ty_of s'))); [discriminate|].
    inversion HE; subst. simpl. eapply IHe; eauto.
  - (* ECall *)
    destruct (map_result (elab_expr en) args) as [args'|] eqn:E; [|discriminate].
    destruct (resolve (e_funcs en) f args') as [sg|]; [|discriminate].
    destruct (coerce_all args' (f_params sg)) as [cargs|] eqn:E2; [|discriminate].
    inversion HE; subst. simpl. eapply coerce_all_wf; [|exact E2]. eapply map_result_wf; [|exact E].
    rewrite Forall_forall in *. intros x Hx te0 Hte. eapply H; eauto.
  - (* EUn *)
    destruct (op_family c).
    + discriminate.
    + destruct (elab_expr en e) as [a'|] eqn:E1; [|discriminate].
      destruct (coerce a' (TData INT)) as [ca|] eqn:E2; [|discriminate].
      eapply simplify_arith1_wf; [|exact HE]. eapply coerce_wf; [|exact E2]. eapply IHe; eauto.
    + discriminate.
    + destruct (elab_expr en e) as [a'|] eqn:E1; [|discriminate].
      destruct (cast a' (TData BOOL)) as [ca|] eqn:E2; [|discriminate].
      eapply simplify_bool1_wf; [|exact HE]. eapply cast_wf; [|exact E2]. eapply IHe; eauto.
    + discriminate.
    + discriminate.
  - (* EBin *)
    destruct (op_family c).
    + destruct (elab_expr en e1) as [l'|] eqn:E1; [|discriminate].
      destruct (elab_expr en e2) as [r'|] eqn:E2; [|discriminate].
      destruct (coerce l' (TData INT)) as [cl|] eqn:E3; [|discriminate].
      destruct (coerce r' (TData INT)) as [cr|] eqn:E4; [|discriminate].
      eapply simplify_arith2_wf; [eapply coerce_wf; [eapply IHe1; exact E1 | exact E3] | eapply coerce_wf; [eapply IHe2; exact E2 | exact E4] | exact HE].
    + discriminate.
    + destruct (elab_expr en e1) as [l'|] eqn:E1; [|discriminate].
      destruct (cast l' (TData BOOL)) as [cl|] eqn:E3; [|discriminate].
      destruct (elab_expr en e2) as [r'|] eqn:E2; [|discriminate].
      destruct (cast r' (TData BOOL)) as [cr|] eqn:E4; [|discriminate].
      eapply simplify_bool2_wf; [eapply cast_wf; [eapply IHe1; exact E1 | exact E3] | eapply cast_wf; [eapply IHe2; exact E2 | exact E4] | exact HE].
    + discriminate.
    + destruct (elab_expr en e1) as [l'|] eqn:E1; [|discriminate].
      destruct (coerce l' (TData INT)) as [cl|] eqn:E3; [|discriminate].
      destruct (elab_expr en e2) as [r'|] eqn:E2; [|discriminate].
      destruct (coerce r' (TData INT)) as [cr|] eqn:E4; [|discriminate].
      eapply simplify_bool2_wf; [eapply coerce_wf; [eapply IHe1; exact E1 | exact E3] | eapply coerce_wf; [eapply IHe2; exact E2 | exact E4] | exact HE].
    + destruct (elab_expr en e1) as [l'|] eqn:E1; [|discriminate].
      destruct (elab_expr en e2) as [r'|] eqn:E2; [|discriminate].
      destruct (ty_eqb (ty_of l') (TData BOOL) && ty_eqb (ty_of r') (TData BOOL)).
      * eapply simplify_bool2_wf; [eapply IHe1; exact E1 | eapply IHe2; exact E2 | exact HE].
      * destruct (coerce l' (TData INT)) as [cl|] eqn:E3; [|discriminate].
        destruct (coerce r' (TData INT)) as [cr|] eqn:E4; [|discriminate].
        eapply simplify_bool2_wf; [eapply coerce_wf; [eapply IHe1; exact E1 | exact E3] | eapply coerce_wf; [eapply IHe2; exact E2 | exact E4] | exact HE].
  - (* EIs *)
    destruct (elab_expr en e) as [a'|] eqn:E1; [|discriminate].
    eapply cast_wf; [|exact HE]. eapply IHe; eauto.
  - (* ESpec *)
    destruct (elab_expr en e1) as [l'|] eqn:E1; [|discriminate].
    destruct (negb (spec_type_ok (ty_of l'))); [discriminate|].
    destruct (elab_expr en e2) as [r'|] eqn:E2; [|discriminate].
    destruct (coerce r' (ty_of l')) as [cr|] eqn:E3; [|discriminate].
    pose proof (IHe1 _ _ E1) as W1. pose proof (coerce_wf _ _ _ (IHe2 _ _ E2) E3) as W2.
    destruct (is_primitive l' && is_primitive cr); inversion HE; subst; [exact W1|].
    simpl. now rewrite W1, W2.
  - (* EArrInit *)
    destruct (elab_expr en e) as [len'|] eqn:E1; [|discriminate].
    destruct (coerce len' (TData INT)) as [cl|] eqn:E2; [|discriminate].
    inversion HE; subst. simpl. eapply coerce_wf; [|exact E2]. eapply IHe; eauto.
Qed.

(** *** every expression of the checked tree is well formed *)
Definition stmt_exprs_wf (_ : option dty) (s : tstmt) : bool :=
  match s with
  | TSDecl _ i => wf i
  | TSAssign l r => wf l && wf r
  | TSIncAssign l r _ => wf l && wf r
  | TSReturn (Some v) => wf v
  | TSExpr e => wf e
  | TSIf _ c _ => wf c
  | TSLoop _ c _ => wf c
  | _ => true
  end.

Lemma finish_decl_wf : forall en v i t en',
  wf i = true -> finish_decl en v i = OK (t, en') -> exists i', t = TSDecl v i' /\ wf i' = true.
Proof.
  intros en v i t en' W H. unfold finish_decl in H.
  destruct (coerce i (v_type v)) as [ci|] eqn:E; [|discriminate].
  pose proof (coerce_wf _ _ _ W E) as Wc.
  destruct ci; inversion H; subst; eauto.
Qed.

Lemma elab_assign_wf : forall en l r mk p,
  elab_assign en l r mk = OK p -> wf (fst p) = true /\ wf (snd p) = true.
Proof.
  intros en l r mk p H. unfold elab_assign in H.
  destruct (elab_expr en l) as [l'|] eqn:E1; [|discriminate].
  destruct (negb (is_assignable l') || lookup_const l'); [discriminate|].
  destruct (elab_expr en (mk r)) as [r'|] eqn:E2; [|discriminate].
  destruct (coerce r' (ty_of l')) as [cr|] eqn:E3; [|discriminate].
  inversion H; subst. simpl. split; [eapply elab_expr_wf; eauto|].
  eapply coerce_wf; [|exact E3]. eapply elab_expr_wf; eauto.
Qed.

Lemma stmt_exprs_wf_local : local_prop stmt_exprs_wf.
Proof.
  intros en s t en' H. destruct s; simpl in H.
  - inv_res H. eapply finish_decl_wf in H as [i' [-> W]]; [exact W | eapply elab_expr_wf; eauto].
  - inv_res H. simpl. apply elab_assign_wf in E as [A B]. now rewrite A, B.
  - inv_res H. simpl. apply elab_assign_wf in E as [A B]. rewrite A. simpl. eapply elab_expr_wf; eauto.
  - destruct (e_ret en); [|discriminate]. destruct val; inv_res H; simpl; [|reflexivity].
    eapply coerce_wf; [|exact E1]. eapply elab_expr_wf; eauto.
  - inv_res H. reflexivity.
  - inv_res H. reflexivity.
  - inv_res H. simpl. eapply elab_expr_wf; eauto.
  - inv_res H. reflexivity.
  - inv_res H. simpl. eapply cast_wf; [|exact E1]. eapply elab_expr_wf; eauto.
  - inv_res H. simpl. eapply cast_wf; [|exact E1]. eapply elab_expr_wf; eauto.
  - inv_res H. reflexivity.
  - inv_res H. reflexivity.
Qed.

Lemma elab_globals_all : forall P, local_prop P ->
  forall ds en r, elab_globals en ds = OK r ->
    e_ret (snd r) = e_ret en /\ forallb (stmt_all (P (e_ret en))) (fst r) = true.
Proof.
  intros P HL. induction ds as [|d ds IH]; intros en r H; simpl in H.
  - inversion H; subst. split; reflexivity.
  - destruct (elab_stmt en d) as [[t en1]|] eqn:E; [|discriminate]. simpl in H.
    destruct (elab_globals en1 ds) as [rest|] eqn:E2; [|discriminate].
    inversion H; subst. simpl.
    pose proof (elab_stmt_env_ret _ _ _ _ E) as R1.
    destruct (IH _ _ E2) as [R2 A]. rewrite R1 in *. split; [exact R2|].
    rewrite (elab_stmt_all P HL _ _ _ _ E). exact A.
Qed.

(** "nested ... arrays" are rejected: in every accepted program every array literal (anywhere
    in any expression) has an array type whose elements are scalar-typed expressions, the
    elements of a type-locked literal have exactly its element type, and a Volatile only ever
    wraps an array; no element of an array literal has type `empty` (see also
    no_empty_typed_arrays below). *)
Theorem no_nested_arrays : forall u p tp,
  elab_program u p = OK tp ->
  funcs_all stmt_exprs_wf tp = true /\ forallb (stmt_all (stmt_exprs_wf None)) (tp_vars tp) = true.
Proof.
  intros u p tp H. split.
  - eapply (elab_program_all stmt_exprs_wf stmt_exprs_wf_local); eauto.
  - unfold elab_program in H.
    destruct (add_funcs [] builtin_fsigs); [|discriminate].
    destruct (add_funcs a (map sig_of (p_funcs p))); [|discriminate].
    destruct (elab_globals _ (p_vars p)) as [g|] eqn:G; [|discriminate].
    destruct (elab_funcs (snd g) (p_funcs p)) as [fs|]; [|discriminate].
    inversion H; subst. simpl.
    apply (elab_globals_all stmt_exprs_wf stmt_exprs_wf_local) in G. apply G.
Qed.

(** "empty-typed arrays" are rejected: no array literal of an accepted program has an element
    of type `empty` (the literal `[]`, which has no elements, keeps the placeholder type
    `const empty[]` until it is coerced). *)
Fixpoint no_empty_elems (e : texpr) : bool :=
  match e with
  | TArrLit vs _ _ =>
      forallb (fun v => no_empty_elems v && negb (ty_eqb (ty_of v) (TData EMPTY))) vs
  | TIndex s i => no_empty_elems s && no_empty_elems i
  | TLen s => no_empty_elems s
  | TCall _ args _ => forallb no_empty_elems args
  | TCast _ x => no_empty_elems x
  | TVolatile x => no_empty_elems x
  | TUn _ x _ => no_empty_elems x
  | TBin _ l r _ => no_empty_elems l && no_empty_elems r
  | TSpec l r => no_empty_elems l && no_empty_elems r
  | TArrInit _ l => no_empty_elems l
  | _ => true
  end.

Lemma wf_no_empty_elems : forall e, wf e = true -> no_empty_elems e = true.
Proof.
  induction e using texpr_ind'; intros W; simpl in W |- *; try reflexivity.
  - apply andb_prop in W as [_ W]. rewrite forallb_forall in *. rewrite Forall_forall in H.
    intros v Hv. specialize (W v Hv). apply andb_prop in W as [W NE].
    apply andb_prop in W as [W _]. apply andb_prop in W as [W _].
    rewrite (H v Hv W), NE. reflexivity.
  - apply andb_prop in W as [W1 W2]. now rewrite IHe1, IHe2.
  - now apply IHe.
  - rewrite forallb_forall in *. rewrite Forall_forall in H. intros v Hv. apply H; auto.
  - now apply IHe.
  - apply andb_prop in W as [W _]. now apply IHe.
  - now apply IHe.
  - apply andb_prop in W as [W1 W2]. now rewrite IHe1, IHe2.
  - apply andb_prop in W as [W1 W2]. now rewrite IHe1, IHe2.
  - now apply IHe.
Qed.

Definition stmt_exprs_no_empty (_ : option dty) (s : tstmt) : bool :=
  match s with
  | TSDecl _ i => no_empty_elems i
  | TSAssign l r => no_empty_elems l && no_empty_elems r
  | TSIncAssign l r _ => no_empty_elems l && no_empty_elems r
  | TSReturn (Some v) => no_empty_elems v
  | TSExpr e => no_empty_elems e
  | TSIf _ c _ => no_empty_elems c
  | TSLoop _ c _ => no_empty_elems c
  | _ => true
  end.

Lemma stmt_exprs_no_empty_local : local_prop stmt_exprs_no_empty.
Proof.
  apply (local_prop_mono stmt_exprs_wf); [exact stmt_exprs_wf_local|].
  intros rt s H. destruct s; simpl in *; try reflexivity;
    repeat match goal with
           | H : _ && _ = true |- _ => apply andb_prop in H as [? ?]
           end;
    try (destruct val; [|reflexivity]);
    rewrite ?wf_no_empty_elems by assumption; reflexivity.
Qed.

Theorem no_empty_typed_arrays : forall u p tp,
  elab_program u p = OK tp ->
  funcs_all stmt_exprs_no_empty tp = true /\
  forallb (stmt_all (stmt_exprs_no_empty None)) (tp_vars tp) = true.
Proof.
  intros u p tp H. split.
  - eapply (elab_program_all stmt_exprs_no_empty stmt_exprs_no_empty_local); eauto.
  - unfold elab_program in H.
    destruct (add_funcs [] builtin_fsigs); [|discriminate].
    destruct (add_funcs a (map sig_of (p_funcs p))); [|discriminate].
    destruct (elab_globals _ (p_vars p)) as [g|] eqn:G; [|discriminate].
    destruct (elab_funcs (snd g) (p_funcs p)) as [fs|]; [|discriminate].
    inversion H; subst. simpl.
    apply (elab_globals_all stmt_exprs_no_empty stmt_exprs_no_empty_local) in G. apply G.
Qed.

(** coercible implies castable, for every well-formed expression (the general form of
    lattice_cast_defined) *)
Lemma plain_coercible_castable : forall e a b,
  coercible_plain a b = true -> is_ok (cast_plain e a b) = true.
Proof.
  intros e a b H. rewrite (cast_plain_ok_indep e (rep_plain a)). rewrite cast_table_plain.
  rewrite lattice_plain in H.
  assert (I : implb (doc_coercible_ty a b) (doc_cast_ty a b) = true).
  { apply (forall_types2 (fun a b => implb (doc_coercible_ty a b) (doc_cast_ty a b))).
    vm_compute. reflexivity. }
  rewrite H in I. exact I.
Qed.

Lemma is_ok_true : forall {A} (r : result A), is_ok r = true -> exists a, r = OK a.
Proof. intros A [a|e] H; [eauto | discriminate]. Qed.

Lemma cast_same_scalar_ok : forall e d,
  wf e = true -> ty_of e = TData d -> is_ok (cast e (TData d)) = true.
Proof.
  intros e d W T.
  destruct e; simpl in T |- *;
    try (unfold cast_plain; rewrite T, ty_eqb_refl; reflexivity).
  - unfold cast_intvalue. inversion T. reflexivity.
  - unfold cast_intvalue. inversion T. reflexivity.
  - inversion T. subst. reflexivity.
  - inversion T. subst. reflexivity.
  - discriminate.
Qed.

Lemma map_result_ok : forall {A B} (f : A -> result B) l,
  (forall x, In x l -> is_ok (f x) = true) -> is_ok (map_result f l) = true.
Proof.
  intros A B f. induction l as [|x l IH]; intros H; simpl; [reflexivity|].
  destruct (f x) eqn:E.
  - assert (is_ok (map_result f l) = true) as I by (apply IH; intros; apply H; simpl; auto).
    destruct (map_result f l); [reflexivity | discriminate].
  - specialize (H x (or_introl eq_refl)). rewrite E in H. discriminate.
Qed.

Theorem coercible_cast_ok : forall e new,
  wf e = true -> coercible e new = true -> is_ok (cast e new) = true.
Proof.
  induction e using texpr_ind'; intros new W C;
    try (rewrite cast_of_plain by reflexivity; rewrite coercible_of_plain in C by reflexivity;
         now apply plain_coercible_castable).
  - (* TInt *) simpl in *. unfold cast_intvalue.
    destruct (ty_eqb new (TData BOOL)); [reflexivity|]. destruct (ty_eqb new (TData BYTE)) eqn:B; [reflexivity|].
    destruct (ty_eqb new (TData INT)); [reflexivity|].
    rewrite andb_false_r, orb_false_r in C. now apply plain_coercible_castable.
  - (* TByte *) simpl in *. unfold cast_intvalue.
    destruct (ty_eqb new (TData BOOL)); [reflexivity|]. destruct (ty_eqb new (TData BYTE)) eqn:B; [reflexivity|].
    destruct (ty_eqb new (TData INT)); [reflexivity|].
    rewrite andb_false_r, orb_false_r in C. now apply plain_coercible_castable.
  - (* TBool *) simpl in *.
    destruct (ty_eqb new (TData INT)); [reflexivity|]. destruct (ty_eqb new (TData BYTE)); [reflexivity|].
    now apply plain_coercible_castable.
  - (* TStr *) simpl in *.
    destruct (ty_eqb new (TData BOOL)); [reflexivity|]. now apply plain_coercible_castable.
  - (* TArrLit *) simpl in C. destruct new as [d|el' k']; [discriminate|]. simpl.
    simpl in W. apply andb_prop in W as [WA W]. rewrite forallb_forall in W.
    assert (I : is_ok (map_result (fun v => cast v (TData el')) vs) = true).
    { apply map_result_ok. intros x Hx. specialize (W x Hx).
      apply andb_prop in W as [W1 _]. apply andb_prop in W1 as [W1 WL]. apply andb_prop in W1 as [Wx Sx].
      rewrite Forall_forall in H. destruct k.
      - simpl in WL. apply ty_eqb_eq in WL. apply dty_beq_eq in C. subst el'.
        now apply cast_same_scalar_ok.
      - rewrite forallb_forall in C. apply H; auto. }
    destruct (map_result (fun v => cast v (TData el')) vs); [reflexivity | discriminate].
  - (* TVolatile *) simpl in *. apply andb_prop in W as [W _]. now apply IHe.
  - (* TUn *) simpl in C |- *. destruct (is_arith c) eqn:A; simpl in C.
    + destruct (ty_eqb new (TData BYTE)) eqn:B.
      * apply ty_eqb_eq in B. subst. reflexivity.
      * rewrite andb_false_r, orb_false_r in C. now apply plain_coercible_castable.
    + rewrite orb_false_r in C. now apply plain_coercible_castable.
  - (* TBin *) simpl in C |- *. destruct (is_arith c) eqn:A; simpl in C.
    + destruct (ty_eqb new (TData BYTE)) eqn:B.
      * apply ty_eqb_eq in B. subst. reflexivity.
      * rewrite andb_false_r, orb_false_r in C. now apply plain_coercible_castable.
    + rewrite orb_false_r in C. now apply plain_coercible_castable.
Qed.

(* ========================================================================================== *)
(** * The documented typing rules, written independently of the elaborator (SPECIFICATION)

    `wt_program` decides "the program follows the documented typing rules" (README "Types",
    "Arrays and strings", "Operators", property C07) on an abstract domain: no tree is built, no
    constant is evaluated.  It is the right-hand side of C07_full_statement.  It deliberately
    says nothing about control flow (missing return *statements*, unreachable code: C16). *)

Inductive aexp : Type :=
| AX (t : ty) (shr : bool)                        (* an expression of type t; shr: an int that is
                                                     still coercible to byte *)
| ALit (els : list aexp) (t : ty) (locked : bool) (* an array literal *)
| AVol (el : dty).                                (* `x is T[]` for a mutable array x *)

Definition a_type (a : aexp) : ty :=
  match a with AX t _ => t | ALit _ t _ => t | AVol el => TArr el true end.

Fixpoint a_coercible (a : aexp) (new : ty) : bool :=
  match a with
  | AX t shr => doc_coercible_ty t new || (shr && ty_eqb new (TData BYTE))
  | ALit els t locked =>
      match new with
      | TArr el' _ => if locked then dty_beq (el_of t) el'
                      else forallb (fun x => a_coercible x (TData el')) els
      | _ => false
      end
  | AVol el => match new with TArr el' _ => dty_beq el el' | _ => false end
  end.

Fixpoint a_castable (a : aexp) (new : ty) : bool :=
  match a with
  | AX t _ => doc_cast_ty t new
  | ALit els t _ =>
      match new with
      | TArr el' _ => forallb (fun x => a_castable x (TData el')) els
      | TData BOOL => true
      | _ => false
      end
  | AVol el => doc_cast_ty (TArr el false) new
  end.

(** the result of an explicit cast / of a successful coercion *)
Definition a_cast_result (a : aexp) (new : ty) : aexp :=
  match a, new with
  | ALit els _ _, TArr el' _ => ALit (map (fun _ => AX (TData el') false) els) new true
  | AX (TArr el false) _, TArr _ true => AVol el
  | AVol el, TArr _ false => AX (TArr el false) false
  | AVol el, TArr _ true => AVol el
  | AX (TData INT) shr, TData BYTE => AX new false
  | _, _ => AX new false
  end.

Record senv : Type := mkSenv {
  s_scopes : list (list (string * (ty * bool)));
  s_funcs : list fsig;
  s_ret : option dty }.

Fixpoint s_find1 (x : string) (s : list (string * (ty * bool))) : option (ty * bool) :=
  match s with
  | [] => None
  | (y, v) :: tl => if String.eqb x y then Some v else s_find1 x tl
  end.

Fixpoint s_find (x : string) (ss : list (list (string * (ty * bool)))) : option (ty * bool) :=
  match ss with
  | [] => None
  | s :: tl => match s_find1 x s with Some v => Some v | None => s_find x tl end
  end.

Fixpoint s_found_local (x : string) (ss : list (list (string * (ty * bool)))) : bool :=
  match ss with
  | [] | [_] => false
  | s :: tl => match s_find1 x s with Some _ => true | None => s_found_local x tl end
  end.

Definition s_push (e : senv) : senv := mkSenv ([] :: s_scopes e) (s_funcs e) (s_ret e).
Definition s_add (e : senv) (x : string) (t : ty) (c : bool) : senv :=
  match s_scopes e with
  | [] => mkSenv [[(x, (t, c))]] (s_funcs e) (s_ret e)
  | s :: tl => mkSenv (((x, (t, c)) :: s) :: tl) (s_funcs e) (s_ret e)
  end.

Fixpoint a_all_coercible (args : list aexp) (ps : list ty) : bool :=
  match args, ps with
  | [], [] => true
  | a :: args', p :: ps' => a_coercible a p && a_all_coercible args' ps'
  | _, _ => false
  end.

(** "bound to the overload with exactly matching parameter types if there is one, otherwise to
    the first declared overload every argument can be coerced to" *)
Definition s_resolve (decls : list fsig) (f : ident) (args : list aexp) : option fsig :=
  match find (exact_sig f (map a_type args)) decls with
  | Some s => Some s
  | None => find (fun s => ident_eqb f (f_id s) && a_all_coercible args (f_params s)) decls
  end.

Definition is_scalar_a (a : aexp) : bool := match a with AX (TData _) _ => true | _ => false end.

Fixpoint pick_elem_type (els : list aexp) (cands : list aexp) : option dty :=
  match cands with
  | [] => None
  | c :: tl =>
      match a_type c with
      | TData d => if forallb (fun x => a_coercible x (TData d)) els then Some d
                   else pick_elem_type els tl
      | _ => None
      end
  end.

Definition opt_bind {A B} (o : option A) (f : A -> option B) : option B :=
  match o with Some a => f a | None => None end.

Definition opt_map_all {A B} (f : A -> option B) : list A -> option (list B) :=
  fix go (l : list A) : option (list B) :=
    match l with
    | [] => Some []
    | x :: tl => opt_bind (f x) (fun x' => opt_bind (go tl) (fun tl' => Some (x' :: tl')))
    end.

Fixpoint wt_expr (e : senv) (x : expr) {struct x} : option aexp :=
  match x with
  | EInt _ => Some (AX (TData INT) true)          (* "Type: int, but coercible to byte" *)
  | EChar _ => Some (AX (TData BYTE) false)
  | EBool _ => Some (AX (TData BOOL) false)
  | EStr _ => Some (AX (TData STRING) false)
  | EVar n => opt_bind (s_find n (s_scopes e)) (fun v => Some (AX (fst v) false))
  | EArr es =>
      match es with
      | [] => Some (ALit [] (TArr EMPTY true) false)
      | _ =>
          opt_bind (opt_map_all (wt_expr e) es) (fun els =>
          if negb (forallb is_scalar_a els) then None                 (* nested arrays *)
          else opt_bind (pick_elem_type els els) (fun d =>
               if dty_beq d EMPTY then None                            (* empty-typed arrays *)
               else Some (ALit els (TArr d true) false)))
      end
  | EIndex s i =>
      opt_bind (wt_expr e s) (fun sa =>
      opt_bind (wt_expr e i) (fun ia =>
      if negb (a_coercible ia (TData INT)) then None else
      match a_type sa with
      | TData STRING => Some (AX (TData BYTE) false)
      | TArr el _ => if dty_beq el EMPTY then None else Some (AX (TData el) false)
      | _ => None
      end))
  | ELen s =>
      opt_bind (wt_expr e s) (fun sa =>
      if is_str_or_arr (a_type sa) then Some (AX (TData INT) false) else None)
  | ECall f args =>
      opt_bind (opt_map_all (wt_expr e) args) (fun args' =>
      opt_bind (s_resolve (s_funcs e) f args') (fun sg => Some (AX (TData (f_ret sg)) false)))
  | EUn c a =>
      opt_bind (wt_expr e a) (fun aa =>
      match op_family c with
      | FamUnArith => if a_coercible aa (TData INT)
                      then Some (AX (TData INT) (a_coercible aa (TData BYTE))) else None
      | FamUnLogic => if a_castable aa (TData BOOL) then Some (AX (TData BOOL) false) else None
      | _ => None
      end)
  | EBin c l r =>
      opt_bind (wt_expr e l) (fun la =>
      opt_bind (wt_expr e r) (fun ra =>
      match op_family c with
      | FamBinArith =>
          if a_coercible la (TData INT) && a_coercible ra (TData INT)
          then Some (AX (TData INT) (a_coercible la (TData BYTE) && a_coercible ra (TData BYTE)))
          else None
      | FamCompare =>
          if a_coercible la (TData INT) && a_coercible ra (TData INT)
          then Some (AX (TData BOOL) false) else None
      | FamEquality =>
          if (ty_eqb (a_type la) (TData BOOL) && ty_eqb (a_type ra) (TData BOOL))
             || (a_coercible la (TData INT) && a_coercible ra (TData INT))
          then Some (AX (TData BOOL) false) else None
      | FamBinLogic =>
          if a_castable la (TData BOOL) && a_castable ra (TData BOOL)
          then Some (AX (TData BOOL) false) else None
      | _ => None
      end))
  | EIs a t =>
      match a, t with
      | EArr ((_ :: _) as es), TArr el' _ =>
          (* "(array literal) is T[] - valid if all entries in the array literal can be cast
             to T" -- no common element type is required *)
          opt_bind (opt_map_all (wt_expr e) es) (fun els =>
          if forallb is_scalar_a els && forallb (fun x => a_castable x (TData el')) els
             && negb (dty_beq el' EMPTY)
          then Some (ALit (map (fun _ => AX (TData el') false) els) t true) else None)
      | _, _ =>
          opt_bind (wt_expr e a) (fun aa =>
          if a_castable aa t then Some (a_cast_result aa t) else None)
      end
  | ESpec l r =>
      opt_bind (wt_expr e l) (fun la =>
      opt_bind (wt_expr e r) (fun ra =>
      if spec_type_ok (a_type la) && a_coercible ra (a_type la)
      then Some (AX (a_type la) false) else None))
  | EArrInit t len =>
      opt_bind (wt_expr e len) (fun la =>
      if a_coercible la (TData INT) then Some (AX t false) else None)
  end.

(** a declaration `T x = init`: init coercible to T; a const array variable may not be bound to
    a mutable array (only to a literal or another const array) *)
Definition wt_init (v : var) (a : aexp) : bool :=
  a_coercible a (v_type v) &&
  match v_type v, a with
  | TArr _ true, AX (TArr _ false) _ => false
  | TArr _ true, AVol _ => false
  | _, _ => true
  end.

Definition s_redeclared (e : senv) (x : string) : bool :=
  match s_find x (s_scopes e) with
  | Some _ => (List.length (s_scopes e) <=? 1)%nat || s_found_local x (s_scopes e)
  | None => false
  end.

(** assignment target: a non-const scalar variable or an element of a mutable array *)
Definition wt_target (e : senv) (lhs : expr) : option ty :=
  match lhs with
  | EVar n =>
      opt_bind (s_find n (s_scopes e)) (fun v => if snd v then None else Some (fst v))
  | EIndex s i =>
      opt_bind (wt_expr e s) (fun sa =>
      opt_bind (wt_expr e i) (fun ia =>
      if negb (a_coercible ia (TData INT)) then None else
      match sa with
      | AX (TArr el false) _ => Some (TData el)
      | _ => None                      (* const arrays, literals, const views and STRINGS *)
      end))
  | _ => None
  end.

Definition wt_block (wt : senv -> stmt -> option senv) : list stmt -> senv -> bool :=
  fix go (ss : list stmt) (e : senv) : bool :=
    match ss with
    | [] => true
    | s :: tl => match wt e s with Some e' => go tl e' | None => false end
    end.

Fixpoint wt_stmt (e : senv) (s : stmt) {struct s} : option senv :=
  let ok (b : bool) := if b then Some e else None in
  match s with
  | SDecl v init =>
      if s_redeclared e (v_name v) then None else
      opt_bind (wt_expr e init) (fun a =>
      if wt_init v a then Some (s_add e (v_name v) (v_type v) (v_const v)) else None)
  | SAssign lhs rhs =>
      opt_bind (wt_target e lhs) (fun t =>
      opt_bind (wt_expr e rhs) (fun a => ok (a_coercible a t)))
  | SIncAssign lhs c rhs =>
      opt_bind (wt_target e lhs) (fun t =>
      opt_bind (wt_expr e (EBin c lhs rhs)) (fun a => ok (a_coercible a t)))
  | SReturn val =>
      match s_ret e, val with
      | Some rt, Some v =>
          if dty_beq rt EMPTY then None
          else opt_bind (wt_expr e v) (fun a => ok (a_coercible a (TData rt)))
      | Some rt, None => ok (dty_beq rt EMPTY)
      | None, _ => None
      end
  | SBreak | SContinue => Some e
  | SExpr x => opt_bind (wt_expr e x) (fun _ => Some e)
  | SBlock ss => ok (wt_block wt_stmt ss (s_push e))
  | SIf c b els =>
      opt_bind (wt_expr e c) (fun a =>
      if a_castable a (TData BOOL)
      then opt_bind (wt_stmt e b) (fun _ => opt_bind (wt_stmt e els) (fun _ => Some e)) else None)
  | SLoop b c k =>
      opt_bind (wt_expr e c) (fun a =>
      if a_castable a (TData BOOL)
      then opt_bind (wt_stmt e b) (fun _ => opt_bind (wt_stmt e k) (fun _ => Some e)) else None)
  | STry b _ h => opt_bind (wt_stmt e b) (fun _ => opt_bind (wt_stmt e h) (fun _ => Some e))
  | SPreempt b => opt_bind (wt_stmt e b) (fun _ => Some e)
  end.

Fixpoint no_dup_sigs (seen : list fsig) (fs : list fsig) : bool :=
  match fs with
  | [] => true
  | f :: tl => negb (existsb (exact_sig (f_id f) (f_params f)) seen) && no_dup_sigs (seen ++ [f]) tl
  end.

Fixpoint wt_params (e : senv) (ps : list var) : option senv :=
  match ps with
  | [] => Some e
  | p :: tl => if s_redeclared e (v_name p) then None
               else wt_params (s_add e (v_name p) (v_type p) (v_const p)) tl
  end.

Definition wt_func (e : senv) (f : fdecl) : bool :=
  match wt_params (mkSenv ([] :: s_scopes e) (s_funcs e) (Some (fd_ret f))) (fd_params f) with
  | Some e1 => wt_block wt_stmt (fd_body f) (s_push e1)
  | None => false
  end.

Fixpoint wt_globals (e : senv) (ds : list stmt) : option senv :=
  match ds with
  | [] => Some e
  | d :: tl => opt_bind (wt_stmt e d) (fun e' => wt_globals e' tl)
  end.

Definition wt_program (p : program) : bool :=
  let sigs := builtin_fsigs ++ map sig_of (p_funcs p) in
  no_dup_sigs [] sigs &&
  match wt_globals (mkSenv [[]] sigs None) (p_vars p) with
  | Some e => forallb (wt_func e) (p_funcs p)
  | None => false
  end.

(** C07, in full: the typechecker accepts exactly the programs that follow the documented
    rules, and binds every call as documented (overload_spec_stmt).  Control-flow rejections
    (missing return statement, unreachable statement with the option on) belong to C16 and are
    excluded by hypothesis. *)
Definition control_flow_error (e : err) : bool :=
  match e with EMissingReturnStatement | EUnreachable => true | _ => false end.

Definition C07_full_statement : Prop :=
  (forall u p,
     match elab_program u p with
     | OK _ => wt_program p = true
     | Err e => control_flow_error e = true \/ wt_program p = false
     end) /\
  overload_spec_stmt.

(** It does not hold of the code as it is.  With F6 and F7 fixed, the witness is the narrowing
    of an explicit-cast result: `byte x = true is int;` is accepted, because BoolValue.cast(INT)
    builds a *shrinkable* IntValue (the dataclass default), whereas the documented rule makes only
    numeric literals and arithmetic over byte-coercible operands coercible to byte (`1 is int`
    and `b is int` for a bool variable b are rejected).  Other departures of the same kind, all
    agreeing with the model: type errors in unreachable statements are never reported;
    `[2, s] is bool[]` is rejected although every entry can be cast; `byte x = 5 ?? 5`. *)
Definition narrowing_witness : program :=
  mkProgram []
    [mkFdecl EMPTY (mkId "t" FL_NONE) []
       [SDecl (mkVar "x" (TData BYTE) false) (EIs (EBool true) (TData INT))]].

Lemma narrowing_witness_facts :
  (exists tp, elab_program false narrowing_witness = OK tp) /\ wt_program narrowing_witness = false.
Proof. split; [eexists; vm_compute; reflexivity | vm_compute; reflexivity]. Qed.

Theorem C07_full_statement_refuted : ~ C07_full_statement.
Proof.
  intros [H _]. specialize (H false narrowing_witness).
  destruct narrowing_witness_facts as [[tp E] W]. rewrite E, W in H. discriminate.
Qed.

(* ========================================================================================== *)
(** * C07_partial: the proved part of C07 *)

Definition C07_partial_stmt : Prop :=
  (* (1) the coercion lattice *)
  ((forall a b, coercible_plain a b = doc_coercible_ty a b) /\
   (forall e t, is_plain e = true -> coercible e t = coercible_plain (ty_of e) t) /\
   (forall c t, coercible (rep c) t = doc_coercible c t) /\
   (forall c, coercible (rep c) (ty_of (rep c)) = true) /\
   (forall c t, coercible (rep c) t = true -> exists e', cast (rep c) t = OK e') /\
   (forall e new, wf e = true -> coercible e new = true -> is_ok (cast e new) = true) /\
   (forall c a b, ty_of (rep c) = TData a -> coercible (rep c) (TData b) = true ->
                  a = b \/ (a = BYTE /\ b = INT) \/ (c = CIntLit true /\ b = BYTE)) /\
   (forall c a el k, ty_of (rep c) = TData a -> coercible (rep c) (TArr el k) = true ->
                     a = STRING /\ el = BYTE /\ k = true) /\
   (forall x y, coercible_plain (TArr x true) (TArr y false) = false) /\
   (forall x y k, coercible_plain (TArr x false) (TArr y k) = dty_beq x y) /\
   (forall b, coercible_plain (TData EMPTY) b = true -> b = TData EMPTY) /\
   (forall c, coercible (rep c) (TData EMPTY) = true -> c = CPlain (TData EMPTY)) /\
   (forall e b, is_plain e = true -> is_ok (cast e b) = doc_cast_ty (ty_of e) b)) /\
  (* (2) overload resolution *)
  overload_spec_stmt /\
  (* (3) soundness of the rejections, on the checked tree of every accepted program *)
  ((forall u p tp, elab_program u p = OK tp ->
      funcs_all assign_ok tp = true /\ funcs_all not_string_target tp = true /\
      funcs_all return_ok tp = true /\
      funcs_all stmt_exprs_wf tp = true /\
      forallb (stmt_all (stmt_exprs_wf None)) (tp_vars tp) = true /\
      funcs_all stmt_exprs_no_empty tp = true /\
      forallb (stmt_all (stmt_exprs_no_empty None)) (tp_vars tp) = true) /\
   (forall l, target_ok l = true ->
      (exists v, l = TVar v /\ v_const v = false) \/
      (exists src i el, l = TIndex src i /\ ty_of src = TArr el false)) /\
   (forall e, ty_of e = TData INT -> coercible e (TData BYTE) = true -> shrinkable_node e = true) /\
   (forall e el, denotes_const_array e = true -> coercible e (TArr el false) = false) /\
   (forall e new e', coerce e new = OK e' -> ty_of e' = new)) /\
  (* (4) arithmetic shrinkability *)
  ((forall en c l r te, op_family c = FamBinArith -> elab_expr en (EBin c l r) = OK te ->
      exists l' r', elab_expr en l = OK l' /\ elab_expr en r = OK r' /\
        coercible te (TData BYTE) = coercible l' (TData BYTE) && coercible r' (TData BYTE)) /\
   (forall en c a te, op_family c = FamUnArith -> elab_expr en (EUn c a) = OK te ->
      exists a', elab_expr en a = OK a' /\ coercible te (TData BYTE) = coercible a' (TData BYTE))).

Theorem C07_partial : C07_partial_stmt.
Proof.
  split; [|split; [|split]].
  - repeat split.
    + exact lattice_plain.
    + exact coercible_of_plain.
    + exact lattice_table.
    + exact lattice_reflexive.
    + exact lattice_cast_defined.
    + exact coercible_cast_ok.
    + exact only_scalar_coercions.
    + eapply scalar_to_array_only_string; eauto.
    + eapply scalar_to_array_only_string; eauto.
    + eapply scalar_to_array_only_string; eauto.
    + exact never_const_to_mutable.
    + exact mutable_to_const_same_element.
    + exact never_from_empty.
    + exact never_to_empty.
    + exact is_table_plain.
  - exact overload_spec.
  - split; [|split; [|split; [|split]]].
    + intros u p tp H. split; [eapply no_assign_to_const; eauto|].
      split; [eapply no_assign_to_string_element; eauto|].
      split; [eapply returns_match; eauto|].
      destruct (no_nested_arrays u p tp H) as [A B]. destruct (no_empty_typed_arrays u p tp H) as [C D].
      repeat split; assumption.
    + exact target_ok_shape.
    + exact no_implicit_narrowing.
    + exact const_array_not_to_mutable.
    + exact coerce_type.
  - split; [exact arith_shrinkable | exact arith_shrinkable_unary].
Qed.

(* ------------------------------------------------------------------------------------------ *)
(** * The hypotheses of the implications above are satisfiable *)

Definition ex_decls : list fsig :=
  [mkSig (mkId "f" FL_NONE) [TData INT] INT; mkSig (mkId "f" FL_NONE) [TData BYTE] BYTE;
   mkSig (mkId "f" FL_NONE) [TArr INT true] BOOL].

(** an exact match beats an earlier coercible overload; a literal falls to the first coercible *)
Lemma resolve_examples :
  resolve ex_decls (mkId "f" FL_NONE) [rep_plain (TData BYTE)]
    = OK (mkSig (mkId "f" FL_NONE) [TData BYTE] BYTE) /\
  resolve ex_decls (mkId "f" FL_NONE) [TArrLit [TByte 97 true true] (TArr BYTE true) false]
    = OK (mkSig (mkId "f" FL_NONE) [TArr INT true] BOOL) /\
  resolve ex_decls (mkId "f" FL_NONE) [rep_plain (TData STRING)]
    = Err (ENoMatchingFunction (mkId "f" FL_NONE) [TData STRING]).
Proof. repeat split; vm_compute; reflexivity. Qed.

Definition ex_program : program :=
  mkProgram [SDecl (mkVar "g" (TData INT) false) (EInt 3)]
    [mkFdecl INT (mkId "f" FL_NONE) [mkVar "b" (TData BYTE) false; mkVar "a" (TArr INT false) true]
       [SDecl (mkVar "y" (TData BYTE) false) (EBin OAdd (EBin OMul (EVar "b") (EInt 3)) (EInt 4));
        SAssign (EIndex (EVar "a") (EInt 0)) (EVar "y");
        SExpr (ECall (mkId "write" FL_NONE) [EArr [EVar "y"; EInt 1]]);
        SReturn (Some (EBin OAdd (EVar "g") (EVar "y")))]].

Lemma elab_accepts_example : exists tp, elab_program false ex_program = OK tp.
Proof. eexists. vm_compute. reflexivity. Qed.

Lemma wt_accepts_example : wt_program ex_program = true.
Proof. vm_compute. reflexivity. Qed.

Lemma arith_hyps_example : exists te,
  op_family OAdd = FamBinArith /\
  elab_expr (mkEnv [[("b", mkDecl (mkVar "b" (TData BYTE) false) (TParam (mkVar "b" (TData BYTE) false)))]; []] [] None false)
            (EBin OAdd (EVar "b") (EInt 1)) = OK te /\ coercible te (TData BYTE) = true.
Proof. eexists. repeat split; vm_compute; reflexivity. Qed.

Lemma narrowing_hyps_example :
  ty_of (TInt 5 true false) = TData INT /\ coercible (TInt 5 true false) (TData BYTE) = true /\
  ty_of (rep_plain (TData INT)) = TData INT /\ coercible (rep_plain (TData INT)) (TData BYTE) = false.
Proof. repeat split; vm_compute; reflexivity. Qed.

Lemma const_array_hyps_example :
  denotes_const_array (rep_plain (TArr INT true)) = true /\
  denotes_const_array (TVolatile (rep_plain (TArr INT false))) = false /\
  coercible (TVolatile (rep_plain (TArr INT false))) (TArr INT false) = true.
Proof. repeat split; vm_compute; reflexivity. Qed.

(** "Numeric literals: Type int, but coercible to byte.  Byte literals: Type byte";  a const
    scalar substituted for its value is no longer a shrinkable literal *)
Theorem literal_rules : forall en n,
  (exists te, elab_expr en (EInt n) = OK te /\ ty_of te = TData INT /\ coercible te (TData BYTE) = true) /\
  (exists te, elab_expr en (EChar n) = OK te /\ ty_of te = TData BYTE /\ coercible te (TData INT) = true) /\
  (forall d s c, coercible (at_subst (TInt d s c)) (TData BYTE) = false).
Proof.
  intros en n. split; [|split].
  - eexists. split; [reflexivity|]. split; reflexivity.
  - eexists. split; [reflexivity|]. split; reflexivity.
  - intros. reflexivity.
Qed.
