(* Types.v -- executable model of hidc's elaborator (`evaluate` / `cast` / `coercible` / `coerce`
   of hidc/ast/*.py) on expressions, statements, blocks, functions and programs.  Property C07.

   The model mirrors THE CODE THAT EXISTS (defects F5, F6, F7 included); the documented typing
   rules are separate statements proved (or refuted with a witness) about it below.
   Data tables (types, cast maps, coercible pair set, operator table, builtin signatures) come
   from the regenerated Gen/GenTypes.v. *)
From Coq Require Import ZArith List Bool String Lia.
From HidV.Gen Require Import GenTypes.
From HidV.HiD Require Import Fold.
Import ListNotations.
Local Open Scope string_scope.
Local Open Scope Z_scope.

(* ------------------------------------------------------------------------------------------ *)
(** * Types *)

Definition ty_eqb (a b : ty) : bool :=
  match a, b with
  | TData x, TData y => dty_beq x y
  | TArr x c, TArr y d => dty_beq x y && Bool.eqb c d
  | _, _ => false
  end.

Lemma dty_beq_eq : forall a b, dty_beq a b = true <-> a = b.
Proof. intros a b; split; [apply internal_dty_dec_bl | apply internal_dty_dec_lb]. Qed.

Lemma ty_eqb_eq : forall a b, ty_eqb a b = true <-> a = b.
Proof.
  intros [x|x c] [y|y d]; simpl; split; intros H; try discriminate.
  - apply dty_beq_eq in H. now subst.
  - inversion H. now apply dty_beq_eq.
  - apply andb_prop in H as [H1 H2]. apply dty_beq_eq in H1. apply Bool.eqb_prop in H2. now subst.
  - inversion H. subst. rewrite Bool.eqb_reflx. rewrite (proj2 (dty_beq_eq y y) eq_refl). reflexivity.
Qed.

Lemma ty_eqb_refl : forall a, ty_eqb a a = true.
Proof. intros. now apply ty_eqb_eq. Qed.

Definition all_types : list ty :=
  map TData dty_all ++ map (fun d => TArr d false) dty_all ++ map (fun d => TArr d true) dty_all.

Lemma all_types_complete : forall t, In t all_types.
Proof. intros [[]|[] []]; vm_compute; tauto. Qed.

Definition is_array (t : ty) : bool := match t with TArr _ _ => true | _ => false end.
Definition is_str_or_arr (t : ty) : bool :=
  match t with TData STRING => true | TArr _ _ => true | _ => false end.

(* ------------------------------------------------------------------------------------------ *)
(** * Identifiers, variables, source expressions *)

Definition flavor_eqb (a b : flavor) : bool :=
  match a, b with
  | FL_NONE, FL_NONE | FL_YOU, FL_YOU | FL_DEFEAT, FL_DEFEAT => true
  | _, _ => false
  end.

Record ident : Type := mkId { id_name : string; id_flavor : flavor }.
Definition ident_eqb (a b : ident) : bool :=
  String.eqb (id_name a) (id_name b) && flavor_eqb (id_flavor a) (id_flavor b).

Record var : Type := mkVar { v_name : string; v_type : ty; v_const : bool }.

(** what the parser produces (spans dropped) *)
Inductive expr : Type :=
| EInt (n : Z)                         (* IntValue(n)  *)
| EChar (n : Z)                        (* ByteValue(n, is_char=True) *)
| EBool (b : bool)
| EStr (s : string)
| EVar (x : string)                    (* VariableLookup(UnresolvedName x) *)
| EArr (es : list expr)
| EIndex (src idx : expr)
| ELen (src : expr)
| ECall (f : ident) (args : list expr)
| EUn (c : opclass) (e : expr)
| EBin (c : opclass) (l r : expr)
| EIs (e : expr) (t : ty)
| ESpec (l r : expr)
| EArrInit (t : ty) (len : expr).      (* ArrayInitializer, only as a declaration initialiser *)

(* ------------------------------------------------------------------------------------------ *)
(** * The checked tree *)

Inductive texpr : Type :=
| TInt (d : Z) (shr ischar : bool)                 (* IntValue  *)
| TByte (d : Z) (shr ischar : bool)                (* ByteValue *)
| TBool (b : bool)
| TStr (s : string)
| TVar (v : var)                                   (* VariableLookup(Variable) *)
| TParam (v : var)                                 (* Parameter *)
| TArrLit (vs : list texpr) (t : ty) (locked : bool)
| TIndex (src idx : texpr)
| TLen (src : texpr)
| TCall (f : ident) (args : list texpr) (ret : ty)
| TCast (k : castkind) (e : texpr)
| TVolatile (e : texpr)
| TUn (c : opclass) (e : texpr) (shr : bool)
| TBin (c : opclass) (l r : texpr) (shr : bool)
| TSpec (l r : texpr)
| TArrInit (t : ty) (len : texpr).

Inductive err : Type :=
| ENotType (from to : ty)            (* "{from} is not {to}" *)
| EUndeclared (x : string)           (* "{x} is empty" *)
| EMustBeArrayOrString
| EArrayAmbiguous
| ENestedArray
| EArrayUnresolvable
| ENoMatchingFunction (f : ident) (args : list ty)
| EFold (msg : string)               (* Division by zero / Modulus of zero *)
| ESpeculateType (t : ty)
| ERedeclaration (x : string)
| EConstVolatileDecl (x : string)
| EAssignConst
| EUnexpectedReturn
| EUnexpectedReturnValue
| EMissingReturnValue
| EMissingReturnStatement
| EUnreachable
| ERedefinition (f : ident) (params : list ty)
| ECrash (what : string).            (* not a TypeCheckError: assertion / internal error *)

Inductive result (A : Type) : Type := OK (a : A) | Err (e : err).
Arguments OK {A} a.
Arguments Err {A} e.

Notation "x <- e ;; k" := (match e with OK x => k | Err er => Err er end)
  (at level 61, e at next level, right associativity).

Definition el_of (t : ty) : dty := match t with TArr el _ => el | TData _ => EMPTY end.

Definition is_arith (c : opclass) : bool :=
  match op_family c with FamBinArith | FamUnArith => true | _ => false end.

Fixpoint ty_of (e : texpr) : ty :=
  match e with
  | TInt _ _ _ => type_of_IntValue
  | TByte _ _ _ => type_of_ByteValue
  | TBool _ => type_of_BoolValue
  | TStr _ => type_of_StringValue
  | TVar v => v_type v
  | TParam v => v_type v
  | TArrLit _ t _ => t
  | TIndex src _ =>
      match ty_of src with
      | TData STRING => TData BYTE
      | t => TData (el_of t)
      end
  | TLen _ => type_of_LengthLookup
  | TCall _ _ ret => ret
  | TCast k _ => snd (cast_map k)
  | TVolatile x => TArr (el_of (ty_of x)) true
  | TUn c _ _ => if is_arith c then TData INT else TData BOOL
  | TBin c _ _ _ => if is_arith c then TData INT else TData BOOL
  | TSpec l _ => ty_of l
  | TArrInit t _ => t
  end.

(* ------------------------------------------------------------------------------------------ *)
(** * coercible / cast / coerce, per node class (expressions.py, operators.py) *)

(** Expression.coercible *)
Definition coercible_plain (t new : ty) : bool :=
  ty_eqb t new ||
  match t with
  | TArr el _ => ty_eqb (TArr el coercible_array_const) new
  | _ => existsb (fun p => ty_eqb (fst p) t && ty_eqb (snd p) new) coercible_scalar_pairs
  end.

Fixpoint coercible (e : texpr) (new : ty) : bool :=
  match e with
  | TInt _ shr _ | TByte _ shr _ =>
      coercible_plain (ty_of e) new || (shr && ty_eqb new (TData BYTE))
  | TArrLit vs t locked =>
      match new with
      | TArr el' _ =>
          if locked then dty_beq (el_of t) el'
          else forallb (fun v => coercible v (TData el')) vs
      | TData _ => false
      end
  | TVolatile x => coercible x new
  | TUn c _ shr | TBin c _ _ shr =>
      coercible_plain (ty_of e) new || (is_arith c && shr && ty_eqb new (TData BYTE))
  | _ => coercible_plain (ty_of e) new
  end.

Definition pair_is (t new : ty) (k : castkind) : bool :=
  ty_eqb t (fst (cast_map k)) && ty_eqb new (snd (cast_map k)).

(** the cases of Expression.cast that do not re-enter cast *)
Definition cast_tail (e : texpr) (t new : ty) : result texpr :=
  if pair_is t new KStringToByteArray then OK (TCast KStringToByteArray e)
  else match t, new with
       | TArr a false, TArr b true =>
           if dty_beq a b then OK (TVolatile e) else Err (ENotType t new)
       | _, _ => Err (ENotType t new)
       end.

Definition cast_plain0 (e : texpr) (t new : ty) : result texpr :=
  if ty_eqb t new then OK e
  else if pair_is t new KIntToByte then OK (TCast KIntToByte e)
  else if pair_is t new KByteToInt then OK (TCast KByteToInt e)
  else cast_tail e t new.

(** Expression.cast, for a node `e` of type `t` whose class does not override cast.  The two
    re-entrant cases (`(_, BOOL)` and `(BOOL, _)`) re-enter with a target / source that can only
    reach the non-re-entrant cases, so one level of unfolding is exact. *)
Definition cast_plain (e : texpr) (t new : ty) : result texpr :=
  if ty_eqb t new then OK e
  else if pair_is t new KIntToByte then OK (TCast KIntToByte e)
  else if pair_is t new KByteToInt then OK (TCast KByteToInt e)
  else if ty_eqb new (TData BOOL) then
    if is_str_or_arr t then OK (TCast KIntToBool (TLen e))
    else (e' <- cast_plain0 e t (TData INT) ;; OK (TCast KIntToBool e'))
  else if ty_eqb t (TData BOOL) then
    cast_plain0 (TCast KBoolToByte e) (snd (cast_map KBoolToByte)) new
  else cast_tail e t new.

(** IntValue.cast (inherited by ByteValue) *)
Definition cast_intvalue (self : texpr) (d : Z) (shr ischar : bool) (new : ty) (implicit : bool)
  : result texpr :=
  if ty_eqb new (TData BOOL) then OK (TBool (fold_int_to_bool d))
  else if ty_eqb new (TData BYTE) then OK (TByte (fold_int_to_byte d) shr ischar)
  else if ty_eqb new (TData INT) then OK (TInt d implicit ischar)
  else cast_plain self (ty_of self) new.

Fixpoint cast (e : texpr) (new : ty) {struct e} : result texpr :=
  match e with
  | TInt d shr ic | TByte d shr ic => cast_intvalue e d shr ic new false
  | TBool b =>
      if ty_eqb new (TData INT)
      then OK (TInt (fold_bool_to_int b) intvalue_shrinkable_default intvalue_is_char_default)
      else if ty_eqb new (TData BYTE)
      then OK (TByte (fold_bool_to_int b) intvalue_shrinkable_default intvalue_is_char_default)
      else cast_plain e (ty_of e) new
  | TStr s =>
      if ty_eqb new (TData BOOL) then OK (TBool (fold_string_to_bool (String.length s)))
      else cast_plain e (ty_of e) new
  | TArrLit vs t locked =>
      match new with
      | TArr el' _ =>
          vs' <- (fix go (l : list texpr) : result (list texpr) :=
                    match l with
                    | [] => OK []
                    | v :: tl => v' <- cast v (TData el') ;; tl' <- go tl ;; OK (v' :: tl')
                    end) vs ;;
          OK (TArrLit vs' new true)
      | TData _ => cast_plain e t new
      end
  | TVolatile x => cast x new
  | _ => cast_plain e (ty_of e) new
  end.

(** Expression.coerce / IntValue.coerce *)
Definition coerce (e : texpr) (new : ty) : result texpr :=
  if coercible e new then
    match e with
    | TInt d shr ic | TByte d shr ic => cast_intvalue e d shr ic new true
    | _ => cast e new
    end
  else Err (ENotType (ty_of e) new).

(* ------------------------------------------------------------------------------------------ *)
(** * Environment *)

Record decl : Type := mkDecl { d_var : var; d_init : texpr }.
Definition scope : Type := list (string * decl).

Record fsig : Type := mkSig { f_id : ident; f_params : list ty; f_ret : dty }.

Record env : Type := mkEnv {
  e_scopes : list scope;      (* innermost first; the last one is the global scope *)
  e_funcs : list fsig;        (* insertion order: builtins, then the program's functions *)
  e_ret : option dty;
  e_unreach : bool            (* option unreachable_error *)
}.

Definition is_global (en : env) : bool := (length (e_scopes en) <=? 1)%nat.

Fixpoint scope_find (x : string) (s : scope) : option decl :=
  match s with
  | [] => None
  | (y, d) :: tl => if String.eqb x y then Some d else scope_find x tl
  end.

Fixpoint scopes_find (x : string) (ss : list scope) : option decl :=
  match ss with
  | [] => None
  | s :: tl => match scope_find x s with Some d => Some d | None => scopes_find x tl end
  end.

(** found in a scope that is not the outermost (global) one *)
Fixpoint found_local (x : string) (ss : list scope) : bool :=
  match ss with
  | [] | [_] => false
  | s :: tl => match scope_find x s with Some _ => true | None => found_local x tl end
  end.

Definition push_scope (en : env) : env :=
  mkEnv ([] :: e_scopes en) (e_funcs en) (e_ret en) (e_unreach en).

Definition child_env (en : env) (ret : option dty) : env :=
  mkEnv ([] :: e_scopes en) (e_funcs en)
        (match ret with Some r => Some r | None => e_ret en end) (e_unreach en).

Definition add_decl (en : env) (d : decl) : env :=
  match e_scopes en with
  | [] => mkEnv [[(v_name (d_var d), d)]] (e_funcs en) (e_ret en) (e_unreach en)
  | s :: tl => mkEnv (((v_name (d_var d), d) :: s) :: tl) (e_funcs en) (e_ret en) (e_unreach en)
  end.

(* ------------------------------------------------------------------------------------------ *)
(** * Overload resolution (FuncCall.evaluate) *)

Fixpoint tys_eqb (a b : list ty) : bool :=
  match a, b with
  | [], [] => true
  | x :: a', y :: b' => ty_eqb x y && tys_eqb a' b'
  | _, _ => false
  end.

Fixpoint all_coercible (args : list texpr) (ps : list ty) : bool :=
  match args, ps with
  | [], [] => true
  | a :: args', p :: ps' => coercible a p && all_coercible args' ps'
  | _, _ => false
  end.

Definition exact_sig (f : ident) (tys : list ty) (s : fsig) : bool :=
  ident_eqb f (f_id s) && tys_eqb tys (f_params s).

Definition coercible_sig (f : ident) (args : list texpr) (s : fsig) : bool :=
  ident_eqb f (f_id s) && all_coercible args (f_params s).

Definition resolve (decls : list fsig) (f : ident) (args : list texpr) : result fsig :=
  match find (exact_sig f (map ty_of args)) decls with
  | Some s => OK s
  | None =>
      match find (coercible_sig f args) decls with
      | Some s => OK s
      | None => Err (ENoMatchingFunction f (map ty_of args))
      end
  end.

Fixpoint coerce_all (args : list texpr) (ps : list ty) : result (list texpr) :=
  match args, ps with
  | a :: args', p :: ps' => a' <- coerce a p ;; tl <- coerce_all args' ps' ;; OK (a' :: tl)
  | _, _ => OK []
  end.

(* ------------------------------------------------------------------------------------------ *)
(** * Expression elaboration (`evaluate`) *)

Definition is_primitive (e : texpr) : bool :=
  match e with TInt _ _ _ | TByte _ _ _ | TBool _ | TStr _ => true | _ => false end.

(** PrimitiveValue.at / IntValue.at *)
Definition at_subst (e : texpr) : texpr :=
  match e with
  | TInt d _ ic => TInt d false ic
  | TByte d _ ic => TByte d false ic
  | _ => e
  end.

Definition lift_fold {A} (r : fres A) : result A :=
  match r with
  | FVal a => OK a
  | FErr m => Err (EFold m)
  | FCrash => Err (ECrash "fold")
  end.

(** ArrayLiteral.evaluate, after the values have been evaluated: iterate over the distinct
    element types in order of first occurrence *)
Fixpoint arr_pick (vs : list texpr) (cands : list ty) (seen : list ty) : result texpr :=
  match cands with
  | [] => Err EArrayUnresolvable
  | t :: tl =>
      if existsb (ty_eqb t) seen then arr_pick vs tl seen
      else match t with
           | TArr _ _ => Err ENestedArray
           | TData d =>
               if forallb (fun v => coercible v t) vs
               then OK (TArrLit vs (TArr d true) arrayliteral_locked_default)
               else arr_pick vs tl (t :: seen)
           end
  end.

Definition simplify_arith2 (c : opclass) (l r : texpr) (shr : bool) : result texpr :=
  match l, r with
  | TInt a _ _, TInt b _ _ =>
      v <- lift_fold (fold_arith2 c a b) ;; OK (TInt v shr intvalue_is_char_default)
  | _, _ => OK (TBin c l r shr)
  end.

Definition simplify_arith1 (c : opclass) (a : texpr) (shr : bool) : result texpr :=
  match a with
  | TInt x _ _ => v <- lift_fold (fold_arith1 c x) ;; OK (TInt v shr intvalue_is_char_default)
  | _ => OK (TUn c a shr)
  end.

Definition prim_data (e : texpr) : option Z :=
  match e with
  | TInt d _ _ | TByte d _ _ => Some d
  | TBool b => Some (b2z b)
  | _ => None
  end.

(** BooleanOp.simplify: all arguments PrimitiveValue.  (String data never reaches here: the
    callers have cast to bool or coerced to int first; a StringValue argument is kept
    unsimplified by this model and reported as a crash.) *)
Definition simplify_bool2 (c : opclass) (l r : texpr) : result texpr :=
  if is_primitive l && is_primitive r then
    match prim_data l, prim_data r with
    | Some a, Some b => v <- lift_fold (fold_bool2 c a b) ;; OK (TBool v)
    | _, _ => Err (ECrash "string operand in BooleanOp.simplify")
    end
  else OK (TBin c l r false).

Definition simplify_bool1 (c : opclass) (a : texpr) : result texpr :=
  if is_primitive a then
    match prim_data a with
    | Some x => v <- lift_fold (fold_bool1 c x) ;; OK (TBool v)
    | None => Err (ECrash "string operand in BooleanOp.simplify")
    end
  else OK (TUn c a false).

Definition spec_type_ok (t : ty) : bool :=
  match t with TData BYTE | TData INT | TData BOOL => true | _ => false end.

Definition lookup_var (en : env) (x : string) : option decl := scopes_find x (e_scopes en).

Fixpoint elab_expr (en : env) (e : expr) {struct e} : result texpr :=
  let elab_list :=
    (fix go (es : list expr) : result (list texpr) :=
       match es with
       | [] => OK []
       | x :: tl => x' <- elab_expr en x ;; tl' <- go tl ;; OK (x' :: tl')
       end) in
  match e with
  | EInt n => OK (TInt n intvalue_shrinkable_default intvalue_is_char_default)
  | EChar n => OK (TByte n intvalue_shrinkable_default true)
  | EBool b => OK (TBool b)
  | EStr s => OK (TStr s)
  | EVar x =>
      match lookup_var en x with
      | None => Err (EUndeclared x)
      | Some d =>
          if (v_const (d_var d) || is_global en) && is_primitive (d_init d)
          then OK (at_subst (d_init d))
          else OK (TVar (d_var d))
      end
  | EArr es =>
      match es with
      | [] => OK (TArrLit [] arrayliteral_type_default arrayliteral_locked_default)
      | _ => vs <- elab_list es ;; arr_pick vs (map ty_of vs) []
      end
  | EIndex s i =>
      s' <- elab_expr en s ;;
      if negb (is_str_or_arr (ty_of s')) then Err EMustBeArrayOrString else
      s'' <- match s' with
             | TArrLit _ t _ =>
                 if dty_beq (el_of t) EMPTY then Err EArrayAmbiguous else coerce s' t
             | _ => if is_array (ty_of s') && dty_beq (el_of (ty_of s')) EMPTY
                    then Err (ECrash "assert el_type != EMPTY") else OK s'
             end ;;
      i' <- elab_expr en i ;;
      i'' <- coerce i' (TData INT) ;;
      OK (TIndex s'' i'')
  | ELen s =>
      s' <- elab_expr en s ;;
      if negb (is_str_or_arr (ty_of s')) then Err EMustBeArrayOrString else OK (TLen s')
  | ECall f args =>
      args' <- elab_list args ;;
      s <- resolve (e_funcs en) f args' ;;
      cargs <- coerce_all args' (f_params s) ;;
      OK (TCall f cargs (TData (f_ret s)))
  | EUn c a =>
      match op_family c with
      | FamUnArith =>
          a' <- elab_expr en a ;;
          ca <- coerce a' (TData INT) ;;
          simplify_arith1 c ca (arithop_shrinkable_default || coercible a' (TData BYTE))
      | FamUnLogic =>
          a' <- elab_expr en a ;;
          ca <- cast a' (TData BOOL) ;;
          simplify_bool1 c ca
      | _ => Err (ECrash "unary operator class")
      end
  | EBin c l r =>
      match op_family c with
      | FamBinArith =>
          l' <- elab_expr en l ;;
          r' <- elab_expr en r ;;
          cl <- coerce l' (TData INT) ;;
          cr <- coerce r' (TData INT) ;;
          simplify_arith2 c cl cr
            (arithop_shrinkable_default || (coercible l' (TData BYTE) && coercible r' (TData BYTE)))
      | FamBinLogic =>
          l' <- elab_expr en l ;;
          cl <- cast l' (TData BOOL) ;;
          r' <- elab_expr en r ;;
          cr <- cast r' (TData BOOL) ;;
          simplify_bool2 c cl cr
      | FamCompare =>
          l' <- elab_expr en l ;;
          cl <- coerce l' (TData INT) ;;
          r' <- elab_expr en r ;;
          cr <- coerce r' (TData INT) ;;
          simplify_bool2 c cl cr
      | FamEquality =>
          l' <- elab_expr en l ;;
          r' <- elab_expr en r ;;
          if ty_eqb (ty_of l') (TData BOOL) && ty_eqb (ty_of r') (TData BOOL)
          then simplify_bool2 c l' r'
          else (cl <- coerce l' (TData INT) ;;
                cr <- coerce r' (TData INT) ;;
                simplify_bool2 c cl cr)
      | _ => Err (ECrash "binary operator class")
      end
  | EIs a t => a' <- elab_expr en a ;; cast a' t
  | ESpec l r =>
      l' <- elab_expr en l ;;
      if negb (spec_type_ok (ty_of l')) then Err (ESpeculateType (ty_of l')) else
      r' <- elab_expr en r ;;
      cr <- coerce r' (ty_of l') ;;
      if is_primitive l' && is_primitive cr then OK l' else OK (TSpec l' cr)
  | EArrInit t len =>
      len' <- elab_expr en len ;;
      cl <- coerce len' (TData INT) ;;
      OK (TArrInit t cl)
  end.

(* ------------------------------------------------------------------------------------------ *)
(** * Statements, blocks, functions, programs *)

Inductive stmt : Type :=
| SDecl (v : var) (init : expr)
| SAssign (lhs rhs : expr)
| SIncAssign (lhs : expr) (c : opclass) (rhs : expr)
| SReturn (val : option expr)
| SBreak
| SContinue
| SExpr (e : expr)
| SBlock (ss : list stmt)                       (* CodeBlock *)
| SIf (cond : expr) (body els : stmt)
| SLoop (body : stmt) (cond : expr) (cont : stmt)
| STry (body : stmt) (undo : bool) (handler : stmt)   (* handler = Undo/StopBlock(handler) *)
| SPreempt (body : stmt).

(** ExitMode flag sets *)
Record emode : Type := mkMode { m_none : bool; m_break : bool; m_loop : bool; m_defeat : bool; m_return : bool }.
Definition M0 := mkMode false false false false false.
Definition M_NONE := mkMode true false false false false.
Definition M_BREAK := mkMode false true false false false.
Definition M_LOOP := mkMode false false true false false.
Definition M_DEFEAT := mkMode false false false true false.
Definition M_RETURN := mkMode false false false false true.
Definition m_or (a b : emode) : emode :=
  mkMode (m_none a || m_none b) (m_break a || m_break b) (m_loop a || m_loop b)
         (m_defeat a || m_defeat b) (m_return a || m_return b).
Definition m_minus (a b : emode) : emode :=
  mkMode (m_none a && negb (m_none b)) (m_break a && negb (m_break b)) (m_loop a && negb (m_loop b))
         (m_defeat a && negb (m_defeat b)) (m_return a && negb (m_return b)).
(** ExitMode.replace: (self & ~old) | new *)
Definition m_replace (m old new : emode) : emode := m_or (m_minus m old) new.

Inductive tstmt : Type :=
| TSDecl (v : var) (init : texpr)
| TSAssign (lhs rhs : texpr)
| TSIncAssign (lhs rhs : texpr) (c : opclass)
| TSReturn (val : option texpr)
| TSBreak
| TSContinue
| TSExpr (e : texpr)
| TSBlock (ss : list tstmt) (mode : emode)
| TSIf (body : tstmt) (cond : texpr) (els : tstmt)
| TSLoop (body : tstmt) (cond : texpr) (cont : tstmt)
| TSTry (body : tstmt) (undo : bool) (handler : tstmt)
| TSPreempt (body : tstmt).

(** Block.exit_modes() of an evaluated block; None for a non-block *)
Fixpoint exit_modes (s : tstmt) : option emode :=
  match s with
  | TSBlock _ m => Some m
  | TSIf b _ e =>
      match exit_modes b, exit_modes e with
      | Some mb, Some me => Some (m_or mb me)
      | _, _ => None
      end
  | TSLoop b cond _ =>
      match exit_modes b with
      | Some m =>
          if negb (m_break m) && (match cond with TBool true => true | _ => false end)
          then Some (m_replace m M_NONE M_LOOP)
          else Some (m_replace m M_BREAK M_NONE)
      | None => None
      end
  | TSTry b _ h =>
      match exit_modes b, exit_modes h with
      | Some mb, Some mh => Some (m_replace mb M_DEFEAT mh)
      | _, _ => None
      end
  | TSPreempt b => match exit_modes b with Some m => Some (m_or m M_NONE) | None => None end
  | _ => None
  end.

Definition is_assignable (e : texpr) : bool :=
  match e with TVar _ | TIndex _ _ => true | _ => false end.

(** Assignable.const *)
Definition lookup_const (e : texpr) : bool :=
  match e with
  | TVar v => v_const v
  | TIndex src _ =>
      match ty_of src with
      | TData STRING => false                  (* F7: ArrayLookup.const is False for strings *)
      | TArr _ c => c
      | _ => true
      end
  | _ => true
  end.

(** Declaration.evaluate *)
Definition elab_decl (en : env) (v : var) (init : texpr) : result (tstmt * env) :=
  if (match lookup_var en (v_name v) with
      | Some _ => is_global en || found_local (v_name v) (e_scopes en)
      | None => false
      end)
  then Err (ERedeclaration (v_name v))
  else
    i <- coerce init (v_type v) ;;
    match i with
    | TVolatile _ => Err (EConstVolatileDecl (v_name v))
    | _ => OK (TSDecl v i, add_decl en (mkDecl v i))
    end.

(** Assignment.evaluate *)
Definition elab_assign (en : env) (lhs : expr) (rhs : expr) (mk : expr -> expr)
  : result (texpr * texpr) :=
  l <- elab_expr en lhs ;;
  if negb (is_assignable l) || lookup_const l then Err EAssignConst else
  r <- elab_expr en (mk rhs) ;;
  cr <- coerce r (ty_of l) ;;
  OK (l, cr).

Definition call_mode (f : ident) (args : list texpr) (m : emode) : emode :=
  if ident_eqb f (mkId "is_defeat" FL_DEFEAT) && (match args with [] => true | _ => false end)
  then m_replace m M_NONE M_DEFEAT
  else if (ident_eqb f (mkId "all_is_win" FL_NONE) || ident_eqb f (mkId "all_is_broken" FL_NONE))
          && (match args with [] => true | _ => false end)
  then m_replace m M_NONE M_LOOP
  else if flavor_eqb (id_flavor f) FL_DEFEAT then m_or m M_DEFEAT
  else m.

Fixpoint elab_stmt (en : env) (s : stmt) {struct s} : result (tstmt * env) :=
  let elab_block :=
    (fix go (ss : list stmt) (en' : env) (mode : emode) (cont : bool)
       : result (list tstmt * emode) :=
       match ss with
       | [] => OK ([], mode)
       | s1 :: tl =>
           if negb (m_none mode) || cont then
             (if e_unreach en then Err EUnreachable else OK ([], mode))
           else
             r <- elab_stmt en' s1 ;;
             let (t1, en'') := r in
             let mode' :=
               match t1 with
               | TSReturn _ => m_replace mode M_NONE M_RETURN
               | TSBreak => m_replace mode M_NONE M_BREAK
               | TSExpr (TCall f args _) => call_mode f args mode
               | _ => match exit_modes t1 with
                      | Some bm => m_replace mode M_NONE bm
                      | None => mode
                      end
               end in
             let cont' := match t1 with TSContinue => true | _ => cont end in
             rest <- go tl en'' mode' cont' ;;
             OK (t1 :: fst rest, snd rest)
       end) in
  match s with
  | SDecl v init => i <- elab_expr en init ;; elab_decl_pre en v i
  | SAssign lhs rhs =>
      p <- elab_assign en lhs rhs (fun r => r) ;;
      OK (TSAssign (fst p) (snd p), en)
  | SIncAssign lhs c rhs =>
      p <- elab_assign en lhs rhs (fun r => EBin c lhs r) ;;
      r' <- elab_expr en rhs ;;
      OK (TSIncAssign (fst p) r' c, en)
  | SReturn val =>
      match e_ret en with
      | None => Err EUnexpectedReturn
      | Some rt =>
          match val with
          | Some v =>
              if dty_beq rt EMPTY then Err EUnexpectedReturnValue else
              v' <- elab_expr en v ;; cv <- coerce v' (TData rt) ;; OK (TSReturn (Some cv), en)
          | None =>
              if negb (dty_beq rt EMPTY) then Err EMissingReturnValue else OK (TSReturn None, en)
          end
      end
  | SBreak => OK (TSBreak, en)
  | SContinue => OK (TSContinue, en)
  | SExpr e => e' <- elab_expr en e ;; OK (TSExpr e', en)
  | SBlock ss =>
      r <- elab_block ss (push_scope en) M_NONE false ;;
      OK (TSBlock (fst r) (snd r), en)
  | SIf cond body els =>
      b <- elab_stmt en body ;;
      c <- elab_expr en cond ;; cc <- cast c (TData BOOL) ;;
      e <- elab_stmt en els ;;
      OK (TSIf (fst b) cc (fst e), en)
  | SLoop body cond cont =>
      b <- elab_stmt en body ;;
      c <- elab_expr en cond ;; cc <- cast c (TData BOOL) ;;
      k <- elab_stmt en cont ;;
      OK (TSLoop (fst b) cc (fst k), en)
  | STry body undo handler =>
      b <- elab_stmt en body ;;
      h <- elab_stmt en handler ;;
      OK (TSTry (fst b) undo (fst h), en)
  | SPreempt body =>
      b <- elab_stmt en body ;;
      OK (TSPreempt (fst b), en)
  end.
