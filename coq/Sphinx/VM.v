(* The verification VM: a fuelled interpreter with backtracking, proved sound with respect to
   Halts / the committed timeline.  Every run the harness performs on the extracted VM therefore
   carries a theorem instance: OHalt is a proof that the machine halts on its committed
   timeline, OAbsorbed/OFault a proof that it never halts together with its committed event
   trace.  OFuel / OStop are "no verdict".

   The pending Turing jumps are kept on an explicit stack (so the extracted code is a loop, not a
   deep recursion) and the fuel bounds the TOTAL number of executed instructions, speculative
   ones included. *)
From Coq Require Import ZArith List Bool Lia FMapPositive.
From HidV Require Import Machine Halts.
Import ListNotations.
Open Scope Z_scope.

Inductive outcome :=
| OHalt
| OAbsorbed (evs : list event) (s : state) (snaps : list state)
| OFault (evs : list event) (s : state) (snaps : list state)
| OStop (evs : list event) (s : state) (snaps : list state)   (* monitor said stop: no verdict *)
| OFuel (evs : list event) (snaps : list state).

Lemma tree_eqb_eq a : forall b, tree_eqb a b = true -> a = b.
Proof.
  induction a as [|l IHl o r IHr]; intros [|l2 o2 r2] H; simpl in H; try discriminate; [reflexivity|].
  apply andb_prop in H; destruct H as [H Hr]. apply andb_prop in H; destruct H as [Ho Hl].
  rewrite (IHl _ Hl), (IHr _ Hr). f_equal.
  destruct o as [x|], o2 as [y|]; try discriminate; [|reflexivity].
  apply Z.eqb_eq in Ho; now subst.
Qed.
Lemma mem_eqb_eq a b : mem_eqb a b = true -> a = b.
Proof.
  destruct a as [sa da], b as [sb db]; unfold mem_eqb; simpl; intro H.
  apply andb_prop in H; destruct H as [H1 H2]. apply Z.eqb_eq in H1. apply tree_eqb_eq in H2. now subst.
Qed.
Definition state_eqb (a b : state) : bool := Z.eqb (pc a) (pc b) && mem_eqb (mm a) (mm b).
Lemma state_eqb_eq a b : state_eqb a b = true -> a = b.
Proof.
  destruct a as [pa ma], b as [pb mb]; unfold state_eqb; simpl; intro H.
  apply andb_prop in H; destruct H as [H1 H2]. apply Z.eqb_eq in H1. apply mem_eqb_eq in H2. now subst.
Qed.

(* a pending Turing jump: the state at the jump, its two successors, and what had been
   accumulated when it was reached *)
Record frame := mkframe {
  fs : state; fsn : state; fsj : state;
  facc : list event; fsnaps : list state; flast : option state }.

Section VM.
Variable w : Z.
Variable code : Z -> option instr.
Variable cmem : mem.
Variable mon : state -> bool.            (* monitor: false = stop here (speculative paths included) *)
Variable watch : state -> bool.          (* committed states to record *)
Notation act := (Machine.act w code cmem).
Notation Halts := (Halts.Halts act).
Notation csteps := (Halts.csteps act).
Notation cstep := (Halts.cstep act).
Notation cplus := (Halts.cplus act).
Notation splus := (Halts.splus act).

(* where to compare whole states: only a heuristic for *when* to look; soundness rests on the
   comparison itself and succ_cycle_not_halts *)
Definition is_sleep (s : state) : bool :=
  match code (pc s) with Some (ISleep _) => true | _ => false end.
Definition cons_ev (e : option event) (acc : list event) : list event :=
  match e with Some v => v :: acc | None => acc end.
Definition snap (s : state) (sn : list state) : list state := if watch s then s :: sn else sn.

Fixpoint vm (fuel : nat) (s : state) (acc : list event) (sn : list state) (last : option state)
         (stk : list frame) : outcome :=
  match fuel with
  | O => OFuel (rev acc) (rev sn)
  | S f =>
      if negb (mon s) then OStop (rev acc) s (rev sn) else
      match act s with
      | AHalt =>
          match stk with
          | [] => OHalt
          | fr :: rest =>
              (* the fall-through of the most recent pending jump halts: the jump is taken *)
              if state_eqb (fsj fr) (fs fr) then OAbsorbed (rev (facc fr)) (fs fr) (rev (fsnaps fr))
              else vm f (fsj fr) (facc fr) (fsnaps fr) (flast fr) rest
          end
      | AFault => OFault (rev acc) s (rev sn)
      | ANext s' e =>
          if is_sleep s then
            match last with
            | Some l => if state_eqb l s then OAbsorbed (rev acc) s (rev sn)
                        else vm f s' (cons_ev e acc) (snap s sn) (Some s) stk
            | None => vm f s' (cons_ev e acc) (snap s sn) (Some s) stk
            end
          else vm f s' (cons_ev e acc) (snap s sn) last stk
      | AJump s1 sj =>
          vm f s1 acc (snap s sn) last (mkframe s s1 sj acc (snap s sn) last :: stk)
      end
  end.

Lemma csteps_snoc s l s' e s'' : csteps s l s' -> cstep s' e s'' -> csteps s (l ++ evl e) s''.
Proof.
  intros A B. eapply csteps_app; [exact A|].
  destruct e; simpl; [eapply CS_ev | eapply CS_tau]; eauto; constructor.
Qed.
Lemma rev_cons_ev e acc : rev (cons_ev e acc) = rev acc ++ evl e.
Proof. destruct e; simpl; [reflexivity | now rewrite app_nil_r]. Qed.

Section Sound.
Variable s0 : state.                      (* the state the whole run started from *)

(* what is known about the current state c, its accumulated events and the last watched sleep *)
Definition good (c : state) (acc : list event) (last : option state) : Prop :=
  (~ Halts c -> csteps s0 (rev acc) c) /\
  (forall l, last = Some l -> splus l c /\ (~ Halts c -> cplus l c)).

(* the pending jumps: c is being explored as (a descendant of) the fall-through of the top
   frame's jump, and haltingness is transported along the whole chain down to s0 *)
Fixpoint stk_ok (c : state) (stk : list frame) : Prop :=
  match stk with
  | [] => Halts c <-> Halts s0
  | fr :: rest =>
      (Halts c <-> Halts (fsn fr)) /\ act (fs fr) = AJump (fsn fr) (fsj fr) /\
      good (fs fr) (facc fr) (flast fr) /\ stk_ok (fs fr) rest
  end.

Lemma stk_ok_iff a b stk : (Halts a <-> Halts b) -> stk_ok a stk -> stk_ok b stk.
Proof. destruct stk as [|fr rest]; simpl; intros E H; [tauto|]. destruct H as (H1 & H2 & H3 & H4). tauto. Qed.

Lemma stk_not_halts : forall stk c, stk_ok c stk -> ~ Halts c -> ~ Halts s0.
Proof.
  induction stk as [|fr rest IH]; simpl; intros c H N; [tauto|].
  destruct H as (H1 & H2 & H3 & H4). apply (IH (fs fr) H4).
  intro Hs. eapply halts_jump_inv in Hs; eauto. tauto.
Qed.

Definition verdict_ok (o : outcome) : Prop :=
  match o with
  | OHalt => Halts s0
  | OAbsorbed evs s' _ => ~ Halts s0 /\ csteps s0 evs s' /\ cplus s' s'
  | OFault evs s' _ => ~ Halts s0 /\ csteps s0 evs s' /\ act s' = AFault
  | OStop _ _ _ | OFuel _ _ => True
  end.

Lemma good_next c c' e acc last : act c = ANext c' e -> good c acc last -> good c' (cons_ev e acc) last.
Proof.
  intros A [Hacc Hlast]. assert (Cst : cstep c e c') by (now apply C_next).
  assert (Hn' : ~ Halts c' -> ~ Halts c) by (intros N H; apply N; eapply halts_next_inv; eauto).
  split.
  - intros N. rewrite rev_cons_ev. eapply csteps_snoc; eauto.
  - intros l El. destruct (Hlast l El) as [P1 P2]. split.
    + eapply splus_snoc; eauto using cstep_succ.
    + intros N. eapply cplus_snoc; eauto.
Qed.
Lemma good_next_mark c c' e acc last : act c = ANext c' e -> good c acc last -> good c' (cons_ev e acc) (Some c).
Proof.
  intros A [Hacc Hlast]. assert (Cst : cstep c e c') by (now apply C_next).
  assert (Hn' : ~ Halts c' -> ~ Halts c) by (intros N H; apply N; eapply halts_next_inv; eauto).
  split.
  - intros N. rewrite rev_cons_ev. eapply csteps_snoc; eauto.
  - intros l El. injection El as <-. split.
    + apply SP_one. eauto using cstep_succ.
    + intros _. eapply P_one; eauto.
Qed.
Lemma good_fall c s1 sj acc last : act c = AJump s1 sj -> good c acc last -> good s1 acc last.
Proof.
  intros A [Hacc Hlast].
  assert (Hnn : ~ Halts s1 -> ~ Halts c) by (intros N H; eapply halts_jump_inv in H; eauto; tauto).
  split.
  - intros N. rewrite <- (app_nil_r (rev acc)). change (@nil event) with (evl None).
    eapply csteps_snoc; [apply Hacc; auto | eapply C_fall; eauto].
  - intros l El. destruct (Hlast l El) as [P1 P2]. split.
    + eapply splus_snoc; eauto using succ.
    + intros N. eapply cplus_snoc; [apply P2; auto | eapply C_fall; eauto].
Qed.
Lemma good_take c s1 sj acc last : act c = AJump s1 sj -> Halts s1 -> good c acc last -> good sj acc last.
Proof.
  intros A H1 [Hacc Hlast].
  assert (Hnj : ~ Halts sj -> ~ Halts c) by (intros N H; eapply halts_jump_inv in H; eauto; tauto).
  split.
  - intros N. rewrite <- (app_nil_r (rev acc)). change (@nil event) with (evl None).
    eapply csteps_snoc; [apply Hacc; auto | eapply C_take; eauto].
  - intros l El. destruct (Hlast l El) as [P1 P2]. split.
    + eapply splus_snoc; eauto using succ.
    + intros N. eapply cplus_snoc; [apply P2; auto | eapply C_take; eauto].
Qed.

Lemma vm_sound_gen fuel : forall c acc sp last stk,
  good c acc last -> stk_ok c stk -> verdict_ok (vm fuel c acc sp last stk).
Proof.
  induction fuel as [|f IH]; intros c acc sp last stk G K; cbn [vm]; [exact I|].
  destruct (mon c); cbn [negb]; [|exact I].
  destruct (act c) as [|c' e|s1 sj|] eqn:A.
  - (* halt *)
    assert (Hc : Halts c) by (now apply H_halt).
    destruct stk as [|fr rest]; [simpl in *; tauto|].
    simpl in K. destruct K as (K1 & K2 & K3 & K4).
    assert (Hsn : Halts (fsn fr)) by tauto.
    destruct (state_eqb (fsj fr) (fs fr)) eqn:Eq.
    + apply state_eqb_eq in Eq.
      assert (N : ~ Halts (fs fr)).
      { apply succ_cycle_not_halts. apply SP_one. eapply S_r. rewrite <- Eq at 2. exact K2. }
      simpl. split; [exact (stk_not_halts rest (fs fr) K4 N)|]. split; [apply K3; exact N|].
      eapply P_one. rewrite <- Eq at 2. eapply C_take; eauto.
    + apply IH.
      * eapply good_take; eauto.
      * eapply stk_ok_iff; [|exact K4]. split; intro H.
        -- eapply halts_jump_inv in H; eauto; tauto.
        -- eapply H_jump; eauto.
  - (* next *)
    assert (E : Halts c <-> Halts c').
    { split; intro H; [eapply halts_next_inv; eauto | eapply H_next; eauto]. }
    assert (K' : stk_ok c' stk) by (eapply stk_ok_iff; eauto).
    destruct (is_sleep c).
    + destruct last as [l|].
      * destruct (state_eqb l c) eqn:Eq.
        -- apply state_eqb_eq in Eq. subst l. destruct G as [G1 G2]. destruct (G2 c eq_refl) as [P1 P2].
           assert (N : ~ Halts c) by (now apply succ_cycle_not_halts).
           simpl. split; [exact (stk_not_halts stk c K N)|]. split; [apply G1; exact N | apply P2; exact N].
        -- apply IH; [eapply good_next_mark; eauto | exact K'].
      * apply IH; [eapply good_next_mark; eauto | exact K'].
    + apply IH; [eapply good_next; eauto | exact K'].
  - (* jump: explore the fall-through with the jump pending *)
    apply IH.
    + eapply good_fall; eauto.
    + simpl. split; [tauto|]. split; [exact A|]. split; [exact G | exact K].
  - (* fault *)
    assert (N : ~ Halts c) by (now apply halts_fault_inv).
    destruct G as [G1 G2]. simpl. split; [exact (stk_not_halts stk c K N)|]. split; [apply G1; exact N | exact A].
Qed.
End Sound.

Definition run (fuel : nat) (s : state) : outcome := vm fuel s [] [] None [].

Theorem vm_sound fuel s : verdict_ok s (run fuel s).
Proof.
  apply vm_sound_gen.
  - split; [intros _; constructor | intros l E; discriminate].
  - simpl. tauto.
Qed.

Corollary vm_halt_is_committed_halt fuel s : run fuel s = OHalt -> Halts s.
Proof. intro E. pose proof (vm_sound fuel s) as V. now rewrite E in V. Qed.
Corollary vm_absorbed_never_halts fuel s evs s' sp :
  run fuel s = OAbsorbed evs s' sp -> ~ Halts s /\ csteps s evs s' /\ cplus s' s'.
Proof. intro E. pose proof (vm_sound fuel s) as V. now rewrite E in V. Qed.
Corollary vm_fault_never_halts fuel s evs s' sp :
  run fuel s = OFault evs s' sp -> ~ Halts s /\ csteps s evs s' /\ act s' = AFault.
Proof. intro E. pose proof (vm_sound fuel s) as V. now rewrite E in V. Qed.

End VM.
