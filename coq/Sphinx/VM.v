(* The verification VM: a fuelled depth-first interpreter with backtracking, proved sound with
   respect to Halts / the committed timeline.  Every run the harness performs on the extracted
   VM therefore carries a theorem instance: OHalt is a proof that the machine halts on its
   committed timeline, OAbsorbed/OFault a proof that it never halts together with its committed
   event trace.  OFuel is "no verdict". *)
From Coq Require Import ZArith List Bool Lia FMapPositive.
From HidV Require Import Machine Halts.
Import ListNotations.
Open Scope Z_scope.

Inductive outcome :=
| OHalt
| OAbsorbed (evs : list event) (s : state) (snaps : list state)
| OFault (evs : list event) (s : state) (snaps : list state)
| OStop (evs : list event) (s : state) (snaps : list state)   (* monitor said stop: no verdict *)
| OFuel (evs : list event) (snaps : list state).

Lemma tree_eqb_eq a : forall b, tree_eqb a b = true -> a = b.
Proof.
  induction a as [|l IHl o r IHr]; intros [|l2 o2 r2] H; simpl in H; try discriminate; [reflexivity|].
  apply andb_prop in H; destruct H as [H Hr]. apply andb_prop in H; destruct H as [Ho Hl].
  rewrite (IHl _ Hl), (IHr _ Hr). f_equal.
  destruct o as [x|], o2 as [y|]; try discriminate; [|reflexivity].
  apply Z.eqb_eq in Ho; now subst.
Qed.
Lemma mem_eqb_eq a b : mem_eqb a b = true -> a = b.
Proof.
  destruct a as [sa da], b as [sb db]; unfold mem_eqb; simpl; intro H.
  apply andb_prop in H; destruct H as [H1 H2]. apply Z.eqb_eq in H1. apply tree_eqb_eq in H2. now subst.
Qed.
Definition state_eqb (a b : state) : bool := Z.eqb (pc a) (pc b) && mem_eqb (mm a) (mm b).
Lemma state_eqb_eq a b : state_eqb a b = true -> a = b.
Proof.
  destruct a as [pa ma], b as [pb mb]; unfold state_eqb; simpl; intro H.
  apply andb_prop in H; destruct H as [H1 H2]. apply Z.eqb_eq in H1. apply mem_eqb_eq in H2. now subst.
Qed.

Section VM.
Variable w : Z.
Variable code : Z -> option instr.
Variable cmem : mem.
Variable mon : state -> bool.            (* monitor: false = stop here (speculative paths included) *)
Variable watch : state -> bool.          (* committed states to record *)
Notation act := (Machine.act w code cmem).
Notation Halts := (Halts.Halts act).
Notation csteps := (Halts.csteps act).
Notation cstep := (Halts.cstep act).
Notation cplus := (Halts.cplus act).
Notation splus := (Halts.splus act).

(* where to compare whole states: only a heuristic for *when* to look; soundness rests on the
   comparison itself and succ_cycle_not_halts *)
Definition is_sleep (s : state) : bool :=
  match code (pc s) with Some (ISleep _) => true | _ => false end.
Definition cons_ev (e : option event) (acc : list event) : list event :=
  match e with Some v => v :: acc | None => acc end.

Definition snap (s : state) (sn : list state) : list state := if watch s then s :: sn else sn.

Fixpoint vm (fuel : nat) (s : state) (acc : list event) (sn : list state) (last : option state) : outcome :=
  match fuel with
  | O => OFuel (rev acc) (rev sn)
  | S f =>
      if negb (mon s) then OStop (rev acc) s (rev sn) else
      match act s with
      | AHalt => OHalt
      | AFault => OFault (rev acc) s (rev sn)
      | ANext s' e =>
          if is_sleep s then
            match last with
            | Some l => if state_eqb l s then OAbsorbed (rev acc) s (rev sn)
                        else vm f s' (cons_ev e acc) (snap s sn) (Some s)
            | None => vm f s' (cons_ev e acc) (snap s sn) (Some s)
            end
          else vm f s' (cons_ev e acc) (snap s sn) last
      | AJump s1 sj =>
          match vm f s1 acc (snap s sn) last with
          | OHalt => if state_eqb sj s then OAbsorbed (rev acc) s (rev sn) else vm f sj acc (snap s sn) last
          | r => r
          end
      end
  end.

Lemma csteps_snoc s l s' e s'' : csteps s l s' -> cstep s' e s'' -> csteps s (l ++ evl e) s''.
Proof.
  intros A B. eapply csteps_app; [exact A|].
  destruct e; simpl; [eapply CS_ev | eapply CS_tau]; eauto; constructor.
Qed.
Lemma rev_cons_ev e acc : rev (cons_ev e acc) = rev acc ++ evl e.
Proof. destruct e; simpl; [reflexivity | now rewrite app_nil_r]. Qed.

Definition good (s0 s : state) (acc : list event) (last : option state) : Prop :=
  (~ Halts s -> csteps s0 (rev acc) s) /\
  (forall l, last = Some l -> splus l s /\ (~ Halts s -> cplus l s)).

Definition verdict_ok (s0 s : state) (o : outcome) : Prop :=
  match o with
  | OHalt => Halts s
  | OAbsorbed evs s' _ => ~ Halts s /\ csteps s0 evs s' /\ cplus s' s'
  | OFault evs s' _ => ~ Halts s /\ csteps s0 evs s' /\ act s' = AFault
  | OStop _ _ _ | OFuel _ _ => True
  end.

Lemma verdict_weaken s0 s s' o :
  (Halts s' -> Halts s) -> (~ Halts s' -> ~ Halts s) -> verdict_ok s0 s' o -> verdict_ok s0 s o.
Proof. destruct o; simpl; tauto. Qed.

Lemma vm_sound_gen fuel : forall s acc sp last s0,
  good s0 s acc last -> verdict_ok s0 s (vm fuel s acc sp last).
Proof.
  induction fuel as [|f IH]; intros s acc sp last s0 [Hacc Hlast]; cbn [vm]; [exact I|].
  destruct (mon s); cbn [negb]; [|exact I].
  destruct (act s) as [|s' e|sn sj|] eqn:A.
  - (* halt *) simpl. now apply H_halt.
  - (* next *)
    assert (Hs' : Halts s' -> Halts s) by (intro; eapply H_next; eauto).
    assert (Hn' : ~ Halts s' -> ~ Halts s) by (intros N H; apply N; eapply halts_next_inv; eauto).
    assert (Cst : cstep s e s') by (now apply C_next).
    assert (G1 : good s0 s' (cons_ev e acc) last).
    { split.
      - intros N. rewrite rev_cons_ev. eapply csteps_snoc; eauto.
      - intros l El. destruct (Hlast l El) as [P1 P2]. split.
        + eapply splus_snoc; eauto using cstep_succ.
        + intros N. eapply cplus_snoc; eauto. }
    assert (G2 : good s0 s' (cons_ev e acc) (Some s)).
    { split.
      - intros N. rewrite rev_cons_ev. eapply csteps_snoc; eauto.
      - intros l El. injection El as <-. split.
        + apply SP_one. eauto using cstep_succ.
        + intros _. eapply P_one; eauto. }
    destruct (is_sleep s).
    + destruct last as [l|].
      * destruct (state_eqb l s) eqn:Eq.
        -- apply state_eqb_eq in Eq. subst l. destruct (Hlast s eq_refl) as [P1 P2].
           assert (N : ~ Halts s) by (now apply succ_cycle_not_halts).
           simpl. auto.
        -- eapply verdict_weaken; [exact Hs' | exact Hn' | apply IH, G2].
      * eapply verdict_weaken; [exact Hs' | exact Hn' | apply IH, G2].
    + eapply verdict_weaken; [exact Hs' | exact Hn' | apply IH, G1].
  - (* jump *)
    assert (Hnn : ~ Halts sn -> ~ Halts s) by (intros N H; eapply halts_jump_inv in H; eauto; tauto).
    assert (Hnj : ~ Halts sj -> ~ Halts s) by (intros N H; eapply halts_jump_inv in H; eauto; tauto).
    assert (Gn : good s0 sn acc last).
    { split.
      - intros N. rewrite <- (app_nil_r (rev acc)). change (@nil event) with (evl None).
        eapply csteps_snoc; [apply Hacc; auto | eapply C_fall; eauto].
      - intros l El. destruct (Hlast l El) as [P1 P2]. split.
        + eapply splus_snoc; eauto using succ.
        + intros N. eapply cplus_snoc; [apply P2; auto | eapply C_fall; eauto]. }
    pose proof (IH sn acc (snap s sp) last s0 Gn) as Rn.
    destruct (vm f sn acc (snap s sp) last) as [|evs sa ?|evs sf ?|? ? ?|evs ?] eqn:En.
    + (* fall-through halts: the jump is taken *)
      simpl in Rn.
      destruct (state_eqb sj s) eqn:Eq.
      * apply state_eqb_eq in Eq. subst sj.
        assert (N : ~ Halts s) by (apply succ_cycle_not_halts; apply SP_one; eapply S_r; eauto).
        simpl. split; [exact N|]. split; [auto|]. eapply P_one. eapply C_take; eauto.
      * assert (Gj : good s0 sj acc last).
        { split.
          - intros N. rewrite <- (app_nil_r (rev acc)). change (@nil event) with (evl None).
            eapply csteps_snoc; [apply Hacc; auto | eapply C_take; eauto].
          - intros l El. destruct (Hlast l El) as [P1 P2]. split.
            + eapply splus_snoc; eauto using succ.
            + intros N. eapply cplus_snoc; [apply P2; auto | eapply C_take; eauto]. }
        eapply verdict_weaken; [| exact Hnj | apply IH, Gj].
        intro Hj. eapply H_jump; eauto.
    + simpl in *. tauto.
    + simpl in *. tauto.
    + exact I.
    + exact I.
  - (* fault *)
    assert (N : ~ Halts s) by (now apply halts_fault_inv).
    simpl. auto.
Qed.

Definition run (fuel : nat) (s : state) : outcome := vm fuel s [] [] None.

Theorem vm_sound fuel s : verdict_ok s s (run fuel s).
Proof.
  apply vm_sound_gen. split; [intros _; constructor | intros l E; discriminate].
Qed.

Corollary vm_halt_is_committed_halt fuel s : run fuel s = OHalt -> Halts s.
Proof. intro E. pose proof (vm_sound fuel s) as V. now rewrite E in V. Qed.
Corollary vm_absorbed_never_halts fuel s evs s' sp :
  run fuel s = OAbsorbed evs s' sp -> ~ Halts s /\ csteps s evs s' /\ cplus s' s'.
Proof. intro E. pose proof (vm_sound fuel s) as V. now rewrite E in V. Qed.
Corollary vm_fault_never_halts fuel s evs s' sp :
  run fuel s = OFault evs s' sp -> ~ Halts s /\ csteps s evs s' /\ act s' = AFault.
Proof. intro E. pose proof (vm_sound fuel s) as V. now rewrite E in V. Qed.

End VM.
