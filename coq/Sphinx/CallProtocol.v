(* The call protocol and the array-pointer discipline of the code generator, as machine-level
   theorems over ABSTRACT code (C01 item 4, C08).  Every w >= 2, all values.

   Source shapes (hidc/codegen/generator.py):
     eval_func_call            swso [fp],-(off+w),E   (RA)   pushes of the arguments below it
                               add [fp],[fp],-off;  j F;  halt;  E: add [fp],[fp],off
     ReturnStatement           (value in r0)  lwso [r1],[fp],-w;  swso|sbso [fp],-size,[r0]
                               [mov [defeat],..]  [lwso [ap],[fp],-k0]  [j nonlocal_preempt]
                               j [r1];  halt
     ArrayLiteral/Initializer  swso [fp],-k,[ap]  (origin slot := ap)  ...  add [ap],[ap],size
     pop / reset_ap            static: sub [ap],[ap],S      dynamic: lwso [ap],[fp],-k(first)
     break / continue          reset_ap(restore point) then goto

   The callee is a HYPOTHESIS (a specification for the entry state at hand), so call_idiom says
   what the caller may conclude from it; return_idiom is what a callee body ends with. *)
From Coq Require Import ZArith List Bool Lia.
From HidV Require Import Machine Halts WordLemmas MemLemmas Idioms TimeTravel GenTables OpTables Driver Guards Patterns.
Import ListNotations.
Open Scope Z_scope.
Ltac Zify.zify_post_hook ::= Z.to_euclidean_division_equations.

Section CallProtocol.
Variable w : Z.
Hypothesis Hw : 2 <= w.

Notation W := (Machine.W w).
Notation wrap := (Machine.wrap w).
Notation sgn := (Machine.sgn w).
Notation lw := (Machine.lw w).
Notation sw := (Machine.sw w).
Notation inrange := (WordLemmas.inrange w).

Let Hw1 : 1 <= w. Proof. lia. Qed.

(* ================================================================================= *)
(* word arithmetic (before `code` is in scope)                                        *)
(* ================================================================================= *)
Lemma wrap_add_l x y : wrap (wrap x + y) = wrap (x + y).
Proof. unfold Machine.wrap. apply Zplus_mod_idemp_l. Qed.
Lemma wrap_add_r x y : wrap (x + wrap y) = wrap (x + y).
Proof. unfold Machine.wrap. apply Zplus_mod_idemp_r. Qed.
Lemma wrap_sub_l x y : wrap (wrap x - y) = wrap (x - y).
Proof. unfold Machine.wrap. apply Zminus_mod_idemp_l. Qed.
Lemma wrap_sub_r x y : wrap (x - wrap y) = wrap (x - y).
Proof. unfold Machine.wrap. apply Zminus_mod_idemp_r. Qed.

(* 1. add fp,-off ... add fp,off is the identity on the fp word, modulo W -- for EVERY off
      (no 0 <= off < W/2 needed) and every in-range fp *)
Theorem fp_rebase_arith x noff off : wrap noff = wrap (- off) ->
  wrap (wrap (x + wrap noff) + wrap off) = wrap x.
Proof.
  intros E. rewrite E, wrap_add_l, wrap_add_r.
  replace (x + wrap (- off) + off) with (x + off + wrap (- off)) by ring.
  rewrite wrap_add_r. f_equal. ring.
Qed.
(* the addresses the protocol uses are the plain ones when the frame lies in [0, W/2) *)
Theorem frame_addresses fp0 off : 0 <= off -> off + w <= fp0 -> fp0 < W / 2 ->
  wrap (fp0 + wrap (- off)) = fp0 - off /\
  sgn fp0 + sgn (wrap (- (off + w))) = fp0 - off - w /\
  sgn (fp0 - off) + sgn (wrap (- w)) = fp0 - off - w.
Proof.
  intros O F H. pose proof (W_even w Hw1). pose proof (half_pos w Hw1).
  split; [|split].
  - rewrite wrap_add_r. apply wrap_small. unfold WordLemmas.inrange. lia.
  - rewrite (sgn_small w fp0) by lia.
    destruct (Z.eq_dec (off + w) 0) as [Z0|NZ]; [lia|].
    rewrite (sgn_neg_imm w Hw1 (off + w)) by lia. lia.
  - rewrite (sgn_small w (fp0 - off)) by lia. rewrite (sgn_neg_imm w Hw1 w) by lia. lia.
Qed.

(* byte-level frame facts *)
Lemma getb_sw_other m a v x : 0 <= a -> 0 <= x -> (x < a \/ a + w <= x) -> getb (sw m a v) x = getb m x.
Proof.
  intros Ha Hx D. unfold Machine.sw. apply storen_outside; try assumption. rewrite (wn_w w Hw1). lia.
Qed.
Lemma lw_agree m m' a : (forall x, a <= x < a + w -> getb m' x = getb m x) -> lw m' a = lw m a.
Proof. intros H. unfold Machine.lw. apply loadn_ext. intros x Hx. rewrite (wn_w w Hw1) in Hx. now apply H. Qed.


(* ================================================================================= *)
(* 4 (memory level).  Allocations of one scope and what resets undo                    *)
(* ================================================================================= *)
Variable ap : Z.                       (* address of the ap register *)

Definition keeps (A : list Z) (m m' : mem) : Prop := forall a, In a A -> lw m' a = lw m a.
(* one allocation, with whatever the generator interleaves (size computation, guards, element
   stores): the origin slot receives ap, ap advances by the size, earlier origin slots survive *)
Definition alloc_step (A : list Z) (slot s : Z) (m m' : mem) : Prop :=
  lw m' slot = lw m ap /\ lw m' ap = wrap (lw m ap + s) /\ keeps A m m'.
(* the allocations of a scope in order, as (origin slot, size); A = origin slots of enclosing
   allocations that must survive; the code after the last allocation keeps ap and the slots *)
Inductive scope_allocs : list (Z * Z) -> list Z -> mem -> mem -> Prop :=
| SA_nil A m m' : keeps (ap :: A) m m' -> scope_allocs [] A m m'
| SA_cons slot s l A m m1 m2 :
    alloc_step A slot s m m1 -> scope_allocs l (slot :: A) m1 m2 -> scope_allocs ((slot, s) :: l) A m m2.
Definition sizes_sum (l : list (Z * Z)) : Z := fold_right (fun e acc => snd e + acc) 0 l.

Theorem scope_allocs_spec L : forall A m m', scope_allocs L A m m' -> inrange (lw m ap) ->
  lw m' ap = wrap (lw m ap + sizes_sum L) /\ keeps A m m' /\
  (forall slot s l, L = (slot, s) :: l -> lw m' slot = lw m ap).
Proof.
  induction L as [|[slot s] l IH]; intros A m m' H R.
  - inversion H as [A' ma mb Hk|]; subst. cbn [sizes_sum fold_right]. rewrite Z.add_0_r.
    split; [|split].
    + rewrite (wrap_small w _ R). apply Hk. now left.
    + intros a Ha. apply Hk. now right.
    + intros; discriminate.
  - inversion H as [|slot' s' l' A' ma m1 mb Hstep Hrest]; subst. destruct Hstep as [Hs [Ha Hk]].
    assert (R1 : inrange (lw m1 ap)) by (rewrite Ha; apply (wrap_range w Hw1)).
    destruct (IH _ _ _ Hrest R1) as [Ia [Ik _]].
    split; [|split].
    + rewrite Ia, Ha, wrap_add_l. cbn [sizes_sum fold_right snd]. now rewrite Z.add_assoc.
    + intros a Hin. rewrite (Ik a) by now right. now apply Hk.
    + intros slot'' s'' l'' E. inversion E; subst. rewrite (Ik slot'') by now left. exact Hs.
Qed.
(* the static total undoes the allocations exactly, modulo W (no no-wrap condition is needed for
   the RESTORE; `ap + sum <= fp < W/2` is what keeps the arrays themselves apart, see Guards.v) *)
Theorem static_pop_arith a0 S D : inrange a0 -> wrap D = wrap S -> wrap (wrap (a0 + S) - wrap D) = a0.
Proof.
  intros R E. rewrite E, wrap_sub_l, wrap_sub_r. replace (a0 + S - S) with a0 by ring. now apply wrap_small.
Qed.

(* the no-wrap condition under which "ap advanced by the sum" is literally ap0 + sum *)
Theorem allocs_no_wrap L A m0 mf fpv : scope_allocs L A m0 mf -> inrange (lw m0 ap) ->
  0 <= sizes_sum L -> lw m0 ap + sizes_sum L <= fpv -> fpv < W / 2 ->
  lw mf ap = lw m0 ap + sizes_sum L.
Proof.
  intros SA R S0 Le Hf. destruct (scope_allocs_spec _ _ _ _ SA R) as [La _]. rewrite La.
  apply wrap_small. unfold WordLemmas.inrange in *. pose proof (W_even w Hw1). lia.
Qed.

(* ================================================================================= *)
(* machine level                                                                      *)
(* ================================================================================= *)
Variable code : Z -> option instr.
Variable cmem : mem.
Notation act := (Machine.act w code cmem).
Notation Halts := (HidV.Sphinx.Halts.Halts act).
Notation runs := (HidV.Sphinx.Halts.runs act).
Notation cstep := (HidV.Sphinx.Halts.cstep act).
Notation oval := (Idioms.oval w cmem).

(* stores of either width *)
Definition stm (wd : width) (m : mem) (a v : Z) : mem :=
  match wd with WWord => sw m a v | WByte => Machine.sb m a v end.
Definition wdsz (wd : width) : Z := match wd with WWord => w | WByte => 1 end.
Lemma act_storeo p m wd b o vo x y z : code p = Some (IStoreO wd b o vo) ->
  oval m b = Some x -> oval m o = Some y -> oval m vo = Some z -> inb m (sgn x + sgn y) (wdsz wd) = true ->
  act (mk p m) = ANext (mk (p + 1) (stm wd m (sgn x + sgn y) z)) None.
Proof.
  intros C A B V I. unfold Machine.act; cbn [pc]; rewrite C; cbn [exec].
  rewrite !val_oval; cbn [mm]; rewrite A, B, V. unfold store; cbn [mm].
  destruct wd; cbn [wdsz] in I; rewrite I; reflexivity.
Qed.
Lemma getb_stm_other wd m a v x : 0 <= a -> 0 <= x -> (x < a \/ a + wdsz wd <= x) ->
  getb (stm wd m a v) x = getb m x.
Proof.
  intros Ha Hx D. destruct wd; cbn [stm wdsz] in *.
  - now apply getb_sw_other.
  - unfold Machine.sb. apply getb_setb_other; lia.
Qed.
Lemma inb_stm wd m a v b n : inb (stm wd m a v) b n = inb m b n.
Proof. destruct wd; cbn [stm]; [apply inb_sw | reflexivity]. Qed.
Lemma lw_stm_other wd m a v b : 0 <= a -> 0 <= b -> (b + w <= a \/ a + wdsz wd <= b) ->
  lw (stm wd m a v) b = lw m b.
Proof. intros Ha Hb D. apply lw_agree. intros x Hx. apply getb_stm_other; lia. Qed.
Lemma lw_stm_same m a v : 0 <= a -> lw (stm WWord m a v) a = wrap v.
Proof. intros Ha. cbn [stm]. now apply lw_sw_same. Qed.
Lemma lb_stm_same m a v : Machine.lb (stm WByte m a v) a = v mod 256.
Proof. cbn [stm]. apply lb_sb_same. Qed.

(* ---------- 1. the fp rebase pair, as instructions ---------- *)
Theorem fp_rebase_identity p q m fp noff off m2 :
  code p = Some (IArith Aadd (St fp) (St fp) (Imm noff)) ->
  code q = Some (IArith Aadd (St fp) (St fp) (Imm off)) ->
  wrap noff = wrap (- off) -> 0 <= fp -> inb m fp w = true -> inrange (lw m fp) ->
  let m1 := sw m fp (lw m fp + wrap noff) in
  (* whatever happens in between keeps the fp word and the size of the state section *)
  lw m2 fp = lw m1 fp -> msize m2 = msize m1 ->
  let m3 := sw m2 fp (lw m2 fp + wrap off) in
  runs (mk p m) [] (mk (p + 1) m1) /\ runs (mk q m2) [] (mk (q + 1) m3) /\
  lw m3 fp = lw m fp /\
  (forall a, 0 <= a -> (a < fp \/ fp + w <= a) -> getb m1 a = getb m a) /\
  (forall a, 0 <= a -> (a < fp \/ fp + w <= a) -> getb m3 a = getb m2 a).
Proof.
  intros Cp Cq E Hf I R m1 L2 S2 m3.
  assert (I2 : inb m2 fp w = true).
  { unfold inb in *. rewrite S2. unfold m1. now rewrite msize_sw. }
  split; [|split; [|split; [|split]]].
  - apply (runs_next act _ _ None).
    eapply act_arith; [exact Cp | apply oval_st, I | apply oval_imm | reflexivity | exact I].
  - apply (runs_next act _ _ None).
    eapply act_arith; [exact Cq | apply oval_st, I2 | apply oval_imm | reflexivity | exact I2].
  - unfold m3. rewrite lw_sw_same by (assumption || lia). rewrite L2. unfold m1.
    rewrite lw_sw_same by (assumption || lia). rewrite (fp_rebase_arith _ _ _ E). now apply wrap_small.
  - intros a Ha D. unfold m1. now apply getb_sw_other.
  - intros a Ha D. unfold m3. now apply getb_sw_other.
Qed.

(* ---------- 2. the call ---------- *)
(* p: add [fp],[fp],-off;  p+1: j F;  p+2: halt;  E = p+3: add [fp],[fp],off;  continuation p+4.
   Callee specification (for the entry state m1 at hand): it runs, emitting evs, to the return
   address stored just below its frame pointer, with fp back at its entry value, and preserves
   the bytes in P.  P is any set of byte addresses away from the fp register. *)
Theorem call_idiom p m0 fp noff off F Fv evs m2 (P : Z -> Prop) :
  code p = Some (IArith Aadd (St fp) (St fp) (Imm noff)) ->
  code (p + 1) = Some (IJ F) -> code (p + 2) = Some IHalt ->
  code (p + 3) = Some (IArith Aadd (St fp) (St fp) (Imm off)) ->
  wrap noff = wrap (- off) ->
  0 <= fp -> inb m0 fp w = true -> inrange (lw m0 fp) ->
  let fpc := wrap (lw m0 fp + wrap noff) in
  let m1 := sw m0 fp (lw m0 fp + wrap noff) in
  oval m1 F = Some Fv ->
  lw m1 (fpc - w) = p + 3 ->                                   (* the pushed return address *)
  runs (mk Fv m1) evs (mk (lw m1 (fpc - w)) m2) ->             (* callee: returns there ... *)
  msize m2 = msize m1 -> lw m2 fp = fpc ->                     (* ... with fp as at its entry *)
  (forall a, P a -> getb m2 a = getb m1 a) ->                  (* ... preserving P *)
  (forall a, P a -> 0 <= a /\ (a < fp \/ fp + w <= a)) ->
  let m3 := sw m2 fp (fpc + wrap off) in
  runs (mk p m0) evs (mk (p + 4) m3) /\
  lw m3 fp = lw m0 fp /\                                        (* fp restored *)
  (forall a, P a -> getb m3 a = getb m0 a) /\                   (* P preserved across the call *)
  (* what the callee left (its results) is readable: only the fp register differs from m2 *)
  (forall a, 0 <= a -> (a < fp \/ fp + w <= a) -> getb m3 a = getb m2 a).
Proof.
  intros C0 C1 C2 C3 E Hf I R fpc m1 AF RA Rc S2 L2 HP PD m3.
  assert (L1 : lw m1 fp = fpc) by (unfold m1, fpc; now rewrite lw_sw_same by (assumption || lia)).
  rewrite <- L1 in L2.
  destruct (fp_rebase_identity p (p + 3) m0 fp noff off m2 C0 C3 E Hf I R L2 S2) as [R0 [R3 [Lf [F1 F3]]]].
  fold m1 in R0, F1. rewrite L2, L1 in R3, Lf, F3. fold m3 in R3, Lf, F3.
  rewrite RA in Rc.
  split; [|split; [exact Lf | split; [|exact F3]]].
  - replace evs with ([] ++ ([] ++ (evs ++ []))) by (cbn; apply app_nil_r).
    eapply runs_trans; [exact R0|]. eapply runs_trans; [|eapply runs_trans; [exact Rc|]].
    + eapply goto_idiom; eauto. replace (p + 1 + 1) with (p + 2) by ring. exact C2.
    + replace (p + 4) with (p + 3 + 1) by ring. exact R3.
  - intros a Pa. destruct (PD a Pa) as [A0 AD]. rewrite (F3 a A0 AD), (HP a Pa). now apply F1.
Qed.
(* instance with the regions the property names: the caller's frame (bytes at or above the
   callee's fp) and the live arrays [ss, ap) except what the callee may write through array
   references it was given; ap itself unchanged; the result at the callee's slot 0 readable *)
Corollary call_idiom_frame p m0 fp apr noff off F Fv evs m2 ss (may_write : Z -> Prop) :
  code p = Some (IArith Aadd (St fp) (St fp) (Imm noff)) ->
  code (p + 1) = Some (IJ F) -> code (p + 2) = Some IHalt ->
  code (p + 3) = Some (IArith Aadd (St fp) (St fp) (Imm off)) ->
  wrap noff = wrap (- off) ->
  0 <= fp -> inb m0 fp w = true -> inrange (lw m0 fp) ->
  0 <= apr -> (apr + w <= fp \/ fp + w <= apr) ->
  let fpc := wrap (lw m0 fp + wrap noff) in
  let m1 := sw m0 fp (lw m0 fp + wrap noff) in
  oval m1 F = Some Fv ->
  fp + w <= ss -> ss <= fpc - w ->
  lw m1 (fpc - w) = p + 3 ->
  runs (mk Fv m1) evs (mk (lw m1 (fpc - w)) m2) ->
  msize m2 = msize m1 -> lw m2 fp = fpc -> lw m2 apr = lw m1 apr ->
  (forall a, fpc <= a -> getb m2 a = getb m1 a) ->
  (forall a, ss <= a < lw m1 apr -> ~ may_write a -> getb m2 a = getb m1 a) ->
  let m3 := sw m2 fp (fpc + wrap off) in
  runs (mk p m0) evs (mk (p + 4) m3) /\
  lw m3 fp = lw m0 fp /\ lw m3 apr = lw m0 apr /\
  (forall a, fpc <= a -> getb m3 a = getb m0 a) /\
  (forall a, ss <= a < lw m0 apr -> ~ may_write a -> getb m3 a = getb m0 a) /\
  lw m3 (fpc - w) = lw m2 (fpc - w).
Proof.
  intros C0 C1 C2 C3 E Hf I R Ha Da fpc m1 AF S1 S2 RA Rc Sz L2 La Hfr Har m3.
  assert (La1 : lw m1 apr = lw m0 apr) by (unfold m1; now rewrite lw_sw_other by (assumption || lia)).
  set (P := fun a => fpc <= a \/ (ss <= a < lw m1 apr /\ ~ may_write a)).
  destruct (call_idiom p m0 fp noff off F Fv evs m2 P C0 C1 C2 C3 E Hf I R AF RA Rc Sz L2) as [Rr [Lf [HP F3]]].
  - intros a [X|[X Y]]; [now apply Hfr | now apply Har].
  - intros a [X|[X Y]]; lia.
  - fold m3 in Rr, Lf, HP, F3.
    split; [exact Rr | split; [exact Lf | split; [|split; [|split]]]].
    + rewrite <- La1, <- La. apply lw_agree. intros x Hx. apply F3; lia.
    + intros a X. apply HP. now left.
    + intros a X Y. apply HP. right. rewrite La1. tauto.
    + apply lw_agree. intros x Hx. apply F3; lia.
Qed.

(* ---------- 3. the return sequence ---------- *)
(* q: lwso [r1],[fp],kra;  q+1: swso|sbso [fp],kv,VAL;  q+2: lwso [ap],[fp],ko;  then the tail.
   Addresses: sra = return-address slot, sv = the callee's slot 0 (result), so = origin slot of
   the function's first array. *)
Section Return.
Variables (q : Z) (m : mem) (fp apr r1 kra kv ko : Z) (wd : width) (vo : operand) (v : Z).
Hypothesis C0 : code q = Some (ILoadO WWord SState (St r1) (St fp) (Imm kra)).
Hypothesis C1 : code (q + 1) = Some (IStoreO wd (St fp) (Imm kv) vo).
Hypothesis C2 : code (q + 2) = Some (ILoadO WWord SState (St apr) (St fp) (Imm ko)).
Let fpv := lw m fp.
Let sra := sgn fpv + sgn (wrap kra).
Let sv := sgn fpv + sgn (wrap kv).
Let so := sgn fpv + sgn (wrap ko).
Hypothesis If : inb m fp w = true.
Hypothesis Ir : inb m r1 w = true.
Hypothesis Ia : inb m apr w = true.
Hypothesis Isra : inb m sra w = true.
Hypothesis Isv : inb m sv (wdsz wd) = true.
Hypothesis Iso : inb m so w = true.
Hypothesis N0 : 0 <= fp /\ 0 <= r1 /\ 0 <= apr /\ 0 <= sv /\ 0 <= so.
(* registers pairwise apart; the result slot and the origin slot are stack slots, apart from the
   registers and from each other *)
Hypothesis Drf : r1 + w <= fp \/ fp + w <= r1.
Hypothesis Daf : apr + w <= fp \/ fp + w <= apr.
Hypothesis Dra : r1 + w <= apr \/ apr + w <= r1.
Hypothesis Dvf : fp + w <= sv \/ sv + wdsz wd <= fp.
Hypothesis Dvr : r1 + w <= sv \/ sv + wdsz wd <= r1.
Hypothesis Dor : so + w <= r1 \/ r1 + w <= so.
Hypothesis Dov : so + w <= sv \/ sv + wdsz wd <= so.
Let m1 := sw m r1 (lw m sra).
Hypothesis Av : oval m1 vo = Some v.
Let m2 := stm wd m1 sv v.
Let m3 := sw m2 apr (lw m2 so).

Lemma return_prefix :
  runs (mk q m) [] (mk (q + 3) m3) /\
  lw m3 r1 = wrap (lw m sra) /\ lw m3 fp = fpv /\ lw m3 apr = wrap (lw m so) /\
  (sv + wdsz wd <= apr \/ apr + w <= sv ->
     match wd with WWord => lw m3 sv = wrap v | WByte => Machine.lb m3 sv = v mod 256 end) /\
  (forall a, 0 <= a -> (a < r1 \/ r1 + w <= a) -> (a < apr \/ apr + w <= a) -> (a < sv \/ sv + wdsz wd <= a) ->
     getb m3 a = getb m a) /\
  inb m3 r1 w = true.
Proof.
  destruct N0 as [Hf [Hr [Ha [Hsv Hso]]]].
  assert (Sz : wdsz wd <= w) by (destruct wd; cbn; lia). assert (Sz1 : 1 <= wdsz wd) by (destruct wd; cbn; lia).
  assert (L1f : lw m1 fp = fpv) by (unfold m1; now rewrite lw_sw_other by (assumption || lia)).
  assert (L2f : lw m2 fp = fpv) by (unfold m2; rewrite lw_stm_other by (assumption || lia); exact L1f).
  assert (L2o : lw m2 so = lw m so).
  { unfold m2. rewrite lw_stm_other by (assumption || lia). unfold m1. now rewrite lw_sw_other by (assumption || lia). }
  assert (R : runs (mk q m) [] (mk (q + 3) m3)).
  { eapply runs_tau.
    { eapply act_lwso; [exact C0 | apply oval_st, If | apply oval_imm | exact Isra | exact Ir]. }
    fold fpv sra m1. eapply runs_tau.
    { eapply act_storeo; [exact C1 | apply oval_st; unfold m1; now rewrite inb_sw | apply oval_imm | exact Av |].
      rewrite L1f. fold sv. unfold m1. now rewrite inb_sw. }
    rewrite L1f. fold sv m2. pcn. eapply runs_tau.
    { eapply act_lwso; [exact C2 | apply oval_st; unfold m2, m1; now rewrite inb_stm, inb_sw | apply oval_imm | |].
      - rewrite L2f. fold so. unfold m2, m1. now rewrite inb_stm, inb_sw.
      - unfold m2, m1. now rewrite inb_stm, inb_sw. }
    rewrite L2f. fold so m3. pcn. apply runs_refl. }
  split; [exact R | split; [|split; [|split; [|split; [|split]]]]].
  - unfold m3. rewrite lw_sw_other by (assumption || lia). unfold m2. rewrite lw_stm_other by (assumption || lia).
    unfold m1. now rewrite lw_sw_same by (assumption || lia).
  - unfold m3. rewrite lw_sw_other by (assumption || lia). exact L2f.
  - unfold m3. rewrite lw_sw_same by (assumption || lia). now rewrite L2o.
  - intros Dva. unfold m3, m2. destruct wd; cbn [wdsz] in *.
    + rewrite lw_sw_other by (assumption || lia). now apply lw_stm_same.
    + unfold Machine.lb. rewrite getb_sw_other by (assumption || lia). apply lb_stm_same.
  - intros a A0 D1 D2 D3. unfold m3. rewrite getb_sw_other by (assumption || lia).
    unfold m2. rewrite getb_stm_other by (assumption || lia). unfold m1. now apply getb_sw_other.
  - unfold m3, m2, m1. now rewrite inb_sw, inb_stm, inb_sw.
Qed.

(* plain tail: q+3: j [r1]; q+4: halt *)
Theorem return_idiom :
  code (q + 3) = Some (IJ (St r1)) -> code (q + 4) = Some IHalt ->
  let ra := wrap (lw m sra) in
  runs (mk q m) [] (mk ra m3) /\
  lw m3 fp = fpv /\ lw m3 apr = wrap (lw m so) /\
  (sv + wdsz wd <= apr \/ apr + w <= sv ->
     match wd with WWord => lw m3 sv = wrap v | WByte => Machine.lb m3 sv = v mod 256 end) /\
  (forall a, 0 <= a -> (a < r1 \/ r1 + w <= a) -> (a < apr \/ apr + w <= a) -> (a < sv \/ sv + wdsz wd <= a) ->
     getb m3 a = getb m a).
Proof.
  intros C3 C4 ra. destruct return_prefix as [R [Lr [Lf [La [Lv [Fr I3]]]]]].
  split; [|auto].
  change (@nil event) with (@nil event ++ []). eapply runs_trans; [exact R|].
  unfold ra. rewrite <- Lr. apply goto_reg; [exact C3 | | exact I3].
  replace (q + 3 + 1) with (q + 4) by ring. exact C4.
Qed.
(* protected tail (preemptive defeat functions): q+3: j nonlocal_preempt; q+4: j [r1]; q+5: halt *)
Theorem return_idiom_protected nlp N :
  code (q + 3) = Some (IJ nlp) -> oval m3 nlp = Some N ->
  code (q + 4) = Some (IJ (St r1)) -> code (q + 5) = Some IHalt ->
  let ra := wrap (lw m sra) in
  (~ Halts (mk ra m3) -> runs (mk q m) [] (mk ra m3)) /\          (* returning is fine: return *)
  (Halts (mk ra m3) -> runs (mk q m) [] (mk N m3)) /\             (* the caller would be defeated: stub *)
  (* stub absorbing: never halts *)
  (~ Halts (mk N m3) -> ~ Halts (mk q m)).
Proof.
  intros C3 AN C4 C5 ra. destruct return_prefix as [R [Lr [_ [_ [_ [_ I3]]]]]].
  replace (q + 4) with (q + 3 + 1) in C4 by ring. replace (q + 5) with (q + 3 + 2) in C5 by ring.
  destruct (return_protection_idiom w code cmem (q + 3) m3 nlp N r1 C3 AN C4 C5 I3) as [X [Y Z]].
  rewrite Lr in X, Y. fold ra in X, Y.
  split; [|split].
  - intros Nh. change (@nil event) with (@nil event ++ []). eapply runs_trans; [exact R | apply Y, Nh].
  - intros Hh. change (@nil event) with (@nil event ++ []). eapply runs_trans; [exact R | apply X, Hh].
  - intros Nn Hq. apply (Z Nn). apply (proj1 R). exact Hq.
Qed.
End Return.

(* a function without value and without arrays: lwso [r1],[fp],kra; j [r1]; halt *)
Theorem return_idiom_void q m fp r1 kra :
  code q = Some (ILoadO WWord SState (St r1) (St fp) (Imm kra)) ->
  code (q + 1) = Some (IJ (St r1)) -> code (q + 2) = Some IHalt ->
  let sra := sgn (lw m fp) + sgn (wrap kra) in
  inb m fp w = true -> inb m r1 w = true -> inb m sra w = true -> 0 <= r1 ->
  let m1 := sw m r1 (lw m sra) in
  runs (mk q m) [] (mk (wrap (lw m sra)) m1) /\
  (forall a, 0 <= a -> (a < r1 \/ r1 + w <= a) -> getb m1 a = getb m a).
Proof.
  intros C0 C1 C2 sra If Ir Is Hr m1. split.
  - eapply runs_tau.
    { eapply act_lwso; [exact C0 | apply oval_st, If | apply oval_imm | exact Is | exact Ir]. }
    fold sra m1. rewrite <- (lw_sw_same w Hw1 m r1 (lw m sra)) by assumption. fold m1.
    apply goto_reg; [exact C1 | | unfold m1; now rewrite inb_sw].
    replace (q + 1 + 1) with (q + 2) by ring. exact C2.
  - intros a A0 D. unfold m1. now apply getb_sw_other.
Qed.

(* ---------- 4. allocation and the resets, as instructions ---------- *)
(* origin store: swso [fp],k,[ap] *)
Theorem alloc_origin_store p m fp k :
  code p = Some (IStoreO WWord (St fp) (Imm k) (St ap)) ->
  inb m fp w = true -> inb m ap w = true ->
  let slot := sgn (lw m fp) + sgn (wrap k) in
  inb m slot w = true -> 0 <= slot ->
  let m' := sw m slot (lw m ap) in
  runs (mk p m) [] (mk (p + 1) m') /\
  (inrange (lw m ap) -> lw m' slot = lw m ap) /\
  (forall a, 0 <= a -> (a + w <= slot \/ slot + w <= a) -> lw m' a = lw m a) /\
  (forall a, 0 <= a -> (a < slot \/ slot + w <= a) -> getb m' a = getb m a).
Proof.
  intros C If Ia slot Is Hs m'. split; [|split; [|split]].
  - apply (runs_next act _ _ None). eapply (act_storeo p m WWord); eauto using oval_st; apply oval_imm.
  - intros R. unfold m'. rewrite lw_sw_same by (assumption || lia). now apply wrap_small.
  - intros a A0 D. unfold m'. apply lw_sw_other; assumption || lia.
  - intros a A0 D. unfold m'. now apply getb_sw_other.
Qed.
(* bump: add [ap],[ap],size *)
Theorem alloc_bump p m so s :
  code p = Some (IArith Aadd (St ap) (St ap) so) -> oval m so = Some s ->
  inb m ap w = true -> 0 <= ap ->
  let m' := sw m ap (lw m ap + s) in
  runs (mk p m) [] (mk (p + 1) m') /\ lw m' ap = wrap (lw m ap + s) /\
  (forall a, 0 <= a -> (a + w <= ap \/ ap + w <= a) -> lw m' a = lw m a) /\
  (forall a, 0 <= a -> (a < ap \/ ap + w <= a) -> getb m' a = getb m a).
Proof.
  intros C A Ia Ha m'. split; [|split; [|split]].
  - apply (runs_next act _ _ None). eapply act_arith; eauto using oval_st; reflexivity.
  - unfold m'. now rewrite lw_sw_same by (assumption || lia).
  - intros a A0 D. unfold m'. apply lw_sw_other; assumption || lia.
  - intros a A0 D. unfold m'. now apply getb_sw_other.
Qed.
(* the two together (ArrayLiteral emits them back to back; ArrayInitializer puts the size
   computation and the guards in between, which write only r0/r1) give an alloc_step for every
   set A of enclosing origin slots lying apart from this slot and from the ap register *)
Theorem array_alloc_idiom p m fp k so s A :
  code p = Some (IStoreO WWord (St fp) (Imm k) (St ap)) ->
  code (p + 1) = Some (IArith Aadd (St ap) (St ap) so) ->
  inb m fp w = true -> inb m ap w = true -> 0 <= ap -> inrange (lw m ap) ->
  let slot := sgn (lw m fp) + sgn (wrap k) in
  inb m slot w = true -> 0 <= slot -> (slot + w <= ap \/ ap + w <= slot) ->
  let m1 := sw m slot (lw m ap) in
  oval m1 so = Some s ->
  (forall a, In a A -> 0 <= a /\ (a + w <= slot \/ slot + w <= a) /\ (a + w <= ap \/ ap + w <= a)) ->
  let m2 := sw m1 ap (lw m ap + s) in
  runs (mk p m) [] (mk (p + 2) m2) /\ alloc_step A slot s m m2.
Proof.
  intros C0 C1 If Ia Ha R slot Is Hs D m1 As HA m2.
  destruct (alloc_origin_store p m fp k C0 If Ia Is Hs) as [R0 [L0 [F0 _]]]. fold slot m1 in R0, L0, F0.
  assert (La : lw m1 ap = lw m ap) by (apply F0; assumption || lia).
  destruct (alloc_bump (p + 1) m1 so s C1 As) as [R1 [L1 [F1 _]]]; [unfold m1; now rewrite inb_sw | exact Ha |].
  rewrite La in R1, L1, F1. fold m2 in R1, L1, F1.
  split.
  - change (@nil event) with (@nil event ++ []). eapply runs_trans; [exact R0|].
    replace (p + 2) with (p + 1 + 1) by ring. exact R1.
  - split; [|split].
    + rewrite F1 by (assumption || lia). now apply L0.
    + exact L1.
    + intros a Hin. destruct (HA a Hin) as [A0 [D1 D2]]. rewrite F1 by (assumption || lia). now apply F0.
Qed.

(* dynamic reset (scope exit, break, continue, return): lwso [ap],[fp],k with k the origin slot of
   the FIRST array of the scope being left: ap is exactly what it was at scope entry *)
Theorem reset_ap_restores p m0 mf fp k slot1 s1 l A :
  scope_allocs ((slot1, s1) :: l) A m0 mf -> inrange (lw m0 ap) ->
  code p = Some (ILoadO WWord SState (St ap) (St fp) (Imm k)) ->
  slot1 = sgn (lw mf fp) + sgn (wrap k) ->
  inb mf fp w = true -> inb mf ap w = true -> inb mf slot1 w = true -> 0 <= ap ->
  let m' := sw mf ap (lw mf slot1) in
  runs (mk p mf) [] (mk (p + 1) m') /\ lw m' ap = lw m0 ap /\
  (forall a, In a A -> (a + w <= ap \/ ap + w <= a) -> 0 <= a -> lw m' a = lw m0 a) /\
  (forall a, 0 <= a -> (a < ap \/ ap + w <= a) -> getb m' a = getb mf a).
Proof.
  intros SA R C Es If Ia Is Ha m'.
  destruct (scope_allocs_spec _ _ _ _ SA R) as [_ [Kp Sl]]. specialize (Sl slot1 s1 l eq_refl).
  split; [|split; [|split]].
  - apply (runs_next act _ _ None). subst slot1.
    eapply act_lwso; [exact C | apply oval_st, If | apply oval_imm | exact Is | exact Ia].
  - unfold m'. rewrite lw_sw_same by (assumption || lia). rewrite Sl. now apply wrap_small.
  - intros a Hin D A0. unfold m'. rewrite lw_sw_other by (assumption || lia). now apply Kp.
  - intros a A0 D. unfold m'. now apply getb_sw_other.
Qed.
(* static pop: sub [ap],[ap],S with S the sum of the (static) sizes *)
Theorem static_pop_restores p m0 mf L A D :
  scope_allocs L A m0 mf -> inrange (lw m0 ap) ->
  code p = Some (IArith Asub (St ap) (St ap) (Imm D)) -> wrap D = wrap (sizes_sum L) ->
  inb mf ap w = true -> 0 <= ap ->
  let m' := sw mf ap (lw mf ap - wrap D) in
  runs (mk p mf) [] (mk (p + 1) m') /\ lw m' ap = lw m0 ap /\
  (forall a, In a A -> (a + w <= ap \/ ap + w <= a) -> 0 <= a -> lw m' a = lw m0 a) /\
  (forall a, 0 <= a -> (a < ap \/ ap + w <= a) -> getb m' a = getb mf a).
Proof.
  intros SA R C E Ia Ha m'.
  destruct (scope_allocs_spec _ _ _ _ SA R) as [La [Kp _]].
  split; [|split; [|split]].
  - apply (runs_next act _ _ None).
    eapply act_arith; [exact C | apply oval_st, Ia | apply oval_imm | reflexivity | exact Ia].
  - unfold m'. rewrite lw_sw_same by (assumption || lia). rewrite La. now apply static_pop_arith.
  - intros a Hin Dd A0. unfold m'. rewrite lw_sw_other by (assumption || lia). now apply Kp.
  - intros a A0 Dd. unfold m'. now apply getb_sw_other.
Qed.
End CallProtocol.


(* ================================================================================= *)
(* the tie: a jump Patterns.classify names `Call` has the code shape of call_idiom      *)
(* ================================================================================= *)
Section ClassifiedCall.
Variable c : cfg.
Hypothesis Hw : 2 <= cw c.
Variable code : Z -> option instr.
Variable cmem : mem.
Variable pc : Z.
Notation w := (cw c).
Notation act := (Machine.act w code cmem).
Notation runs := (HidV.Sphinx.Halts.runs act).
Notation oval := (Idioms.oval w cmem).
Notation lw := (Machine.lw w).
Notation sw := (Machine.sw w).
Notation wrap := (Machine.wrap w).

Theorem classified_call F fp off : classify_code c code pc = Some (Call F fp off) ->
  forall m0 evs m2 (P : Z -> Prop),
  0 <= fp -> inb m0 fp w = true -> WordLemmas.inrange w (lw m0 fp) ->
  let fpc := wrap (lw m0 fp + wrap (- off)) in
  let m1 := sw m0 fp (lw m0 fp + wrap (- off)) in
  lw m1 (fpc - w) = pc + 2 ->
  runs (mk F m1) evs (mk (lw m1 (fpc - w)) m2) ->
  msize m2 = msize m1 -> lw m2 fp = fpc ->
  (forall a, P a -> getb m2 a = getb m1 a) ->
  (forall a, P a -> 0 <= a /\ (a < fp \/ fp + w <= a)) ->
  let m3 := sw m2 fp (fpc + wrap off) in
  runs (mk (pc - 1) m0) evs (mk (pc + 3) m3) /\
  lw m3 fp = lw m0 fp /\
  (forall a, P a -> getb m3 a = getb m0 a) /\
  (forall a, 0 <= a -> (a < fp \/ fp + w <= a) -> getb m3 a = getb m2 a).
Proof.
  intros H m0 evs m2 P Hf I R fpc m1 RA Rc Sz L2 HP PD m3.
  destruct (classify_sound _ _ _ _ H) as [C0 [C1 [C2 [C3 [WF _]]]]].
  pose proof (call_idiom w Hw code cmem (pc - 1) m0 fp (- off) off (Imm F) F evs m2 P) as S.
  replace (pc - 1 + 1) with pc in S by ring. replace (pc - 1 + 2) with (pc + 1) in S by ring.
  replace (pc - 1 + 3) with (pc + 2) in S by ring. replace (pc - 1 + 4) with (pc + 3) in S by ring.
  apply S; auto. rewrite oval_imm. now rewrite WF.
Qed.
End ClassifiedCall.

(* ================================================================================= *)
(* Satisfiability examples (w = 2; ap=[0] fp=[2] r0=[4] r1=[6]; 40 bytes of state)     *)
(* ================================================================================= *)
Section Examples.
Let cm := zmem 0.
Notation A c := (act 2 c cm).
Let two : 2 <= 2. Proof. lia. Qed.

(* caller at 0..4 (frame offset 6, fp = 30, RA slot 22 holds 3), callee at 5: a void function *)
Definition c_call := code_of [IArith Aadd (St 2) (St 2) (Imm (-6)); IJ (Imm 5); IHalt; IArith Aadd (St 2) (St 2) (Imm 6); IFlag 0;
                              ILoadO WWord SState (St 6) (St 2) (Imm (-2)); IJ (St 6); IHalt].
Definition m_call : mem := sw 2 (sw 2 (sw 2 (zmem 40) 2 30) 0 10) 22 3.
Definition m_call1 : mem := sw 2 m_call 2 (30 + wrap 2 (-6)).
Definition m_call2 : mem := sw 2 m_call1 6 3.
Example return_idiom_void_ex : runs (A c_call) (mk 5 m_call1) [] (mk 3 m_call2).
Proof.
  exact (proj1 (return_idiom_void 2 two c_call cm 5 m_call1 2 6 (-2) eq_refl eq_refl eq_refl eq_refl eq_refl eq_refl ltac:(lia))).
Qed.
Example call_idiom_ex :
  let m3 := sw 2 m_call2 2 (24 + wrap 2 6) in
  runs (A c_call) (mk 0 m_call) [] (mk 4 m3) /\ lw 2 m3 2 = 30 /\
  (forall a, 24 <= a < 40 -> getb m3 a = getb m_call a).
Proof.
  intro m3.
  destruct (call_idiom 2 two c_call cm 0 m_call 2 (-6) 6 (Imm 5) 5 [] m_call2 (fun a => 24 <= a < 40))
    as [R [L [P _]]]; try reflexivity; try lia; try zc; try (unfold inrange; zc).
  - exact return_idiom_void_ex.
  - intros a Ha. cbv beta in Ha. unfold m_call2. apply (getb_sw_other 2 two); lia.
  - split; [exact R | split; [exact L | exact P]].
Qed.
Example fp_rebase_arith_ex : wrap 2 (wrap 2 (30 + wrap 2 (-6)) + wrap 2 6) = wrap 2 30
  /\ wrap 2 (wrap 2 (30 + wrap 2 (-40000)) + wrap 2 40000) = wrap 2 30.
Proof. split; reflexivity. Qed.
Example frame_addresses_ex : wrap 2 (30 + wrap 2 (-6)) = 24 /\ sgn 2 30 + sgn 2 (wrap 2 (-(6 + 2))) = 22.
Proof. split; reflexivity. Qed.

(* return with a value: fp = 30; RA slot 28 holds 9; result slot 28 (size 2: it overwrites the RA
   slot, as the generator does); origin slot 26 holds 12; value 77 in r0 *)
Definition c_ret := code_of [ILoadO WWord SState (St 6) (St 2) (Imm (-2)); IStoreO WWord (St 2) (Imm (-2)) (St 4);
                             ILoadO WWord SState (St 0) (St 2) (Imm (-4)); IJ (St 6); IHalt].
Definition m_ret : mem := sw 2 (sw 2 (sw 2 (sw 2 (sw 2 (zmem 40) 2 30) 0 20) 4 77) 28 9) 26 12.
Example return_idiom_ex :
  exists m3, runs (A c_ret) (mk 0 m_ret) [] (mk 9 m3) /\ lw 2 m3 0 = 12 /\ lw 2 m3 28 = 77 /\ lw 2 m3 2 = 30.
Proof.
  pose proof (return_idiom 2 two c_ret cm 0 m_ret 2 0 6 (-2) (-2) (-4) WWord (St 4) 77) as H. cbv zeta in H.
  destruct H as [R [Lf [La [Lv _]]]]; try reflexivity; try zc; try (unfold inrange; zc).
  eexists. split; [exact R | split; [exact La | split; [|exact Lf]]].
  apply Lv. zc.
Qed.
(* protected: 3: j 6 (stub); 4: j [r1]; 5: halt; 6: stub; the return address 9 loops (8..9) *)
Definition c_retp := code_of [ILoadO WWord SState (St 6) (St 2) (Imm (-2)); IStoreO WWord (St 2) (Imm (-2)) (St 4);
                              ILoadO WWord SState (St 0) (St 2) (Imm (-4)); IJ (Imm 6); IJ (St 6); IHalt;
                              IJ (Imm 6); IHalt; IHalt; IJ (Imm 9); IHalt].
Example return_idiom_protected_ex : ~ Halts (A c_retp) (mk 0 m_ret).
Proof.
  pose proof (return_idiom_protected 2 two c_retp cm 0 m_ret 2 0 6 (-2) (-2) (-4) WWord (St 4) 77) as H. cbv zeta in H.
  destruct H with (nlp := Imm 6) (N := 6) as [_ [_ Zz]]; try reflexivity; try zc; try (unfold inrange; zc).
  apply Zz. apply stub_absorbing; [reflexivity | lia].
Qed.

(* two allocations (sizes 6 and 4; origin slots 26 and 24), then either reset *)
Definition c_alloc := code_of [IStoreO WWord (St 2) (Imm (-4)) (St 0); IArith Aadd (St 0) (St 0) (Imm 6);
                               IStoreO WWord (St 2) (Imm (-6)) (St 0); IArith Aadd (St 0) (St 0) (Imm 4);
                               ILoadO WWord SState (St 0) (St 2) (Imm (-4)); IArith Asub (St 0) (St 0) (Imm 10)].
Definition m_al0 : mem := sw 2 (sw 2 (zmem 40) 2 30) 0 10.
Definition m_al1 : mem := sw 2 (sw 2 m_al0 26 10) 0 (10 + 6).
Definition m_al2 : mem := sw 2 (sw 2 m_al1 24 16) 0 (16 + 4).
Example array_alloc_idiom_ex :
  runs (A c_alloc) (mk 0 m_al0) [] (mk 4 m_al2) /\ scope_allocs 2 0 [(26, 6); (24, 4)] [] m_al0 m_al2.
Proof.
  destruct (array_alloc_idiom 2 two 0 c_alloc cm 0 m_al0 2 (-4) (Imm 6) 6 []) as [R1 S1]; try reflexivity; try lia; try zc; try (unfold inrange; zc).
  { intros a []. }
  destruct (array_alloc_idiom 2 two 0 c_alloc cm 2 m_al1 2 (-6) (Imm 4) 4 [26]) as [R2 S2]; try reflexivity; try lia; try zc; try (unfold inrange; zc).
  { intros a [<-|[]]. zc. }
  split.
  - change (@nil event) with (@nil event ++ []). eapply runs_trans; [exact R1 | exact R2].
  - eapply SA_cons; [exact S1|]. eapply SA_cons; [exact S2|]. apply SA_nil. intros a _. reflexivity.
Qed.
Example reset_ap_restores_ex :
  exists m', runs (A c_alloc) (mk 4 m_al2) [] (mk 5 m') /\ lw 2 m' 0 = 10.
Proof.
  destruct (reset_ap_restores 2 two 0 c_alloc cm 4 m_al0 m_al2 2 (-4) 26 6 [(24, 4)] []) as [R [L _]];
    try reflexivity; try lia; try zc; try (unfold inrange; zc).
  - exact (proj2 array_alloc_idiom_ex).
  - eexists. split; [exact R | exact L].
Qed.
Example static_pop_restores_ex :
  exists m', runs (A c_alloc) (mk 5 m_al2) [] (mk 6 m') /\ lw 2 m' 0 = 10.
Proof.
  destruct (static_pop_restores 2 two 0 c_alloc cm 5 m_al0 m_al2 [(26, 6); (24, 4)] [] 10) as [R [L _]];
    try reflexivity; try lia; try zc; try (unfold inrange; zc).
  - exact (proj2 array_alloc_idiom_ex).
  - eexists. split; [exact R | exact L].
Qed.
End Examples.
