(* Word arithmetic facts: W = 2^(8w), wrap, sgn. *)
From Coq Require Import ZArith List Bool Lia.
From HidV Require Import Machine.
Open Scope Z_scope.
Ltac Zify.zify_post_hook ::= Z.to_euclidean_division_equations.

Section Word.
Variable w : Z.
Hypothesis Hw : 1 <= w.
Notation W := (Machine.W w).
Notation wrap := (Machine.wrap w).
Notation sgn := (Machine.sgn w).

Lemma W_eq : W = 2 * 2 ^ (8 * w - 1).
Proof. unfold Machine.W. rewrite <- Z.pow_succ_r by lia. f_equal; lia. Qed.
Lemma W_half : W / 2 = 2 ^ (8 * w - 1).
Proof. rewrite W_eq. rewrite Z.mul_comm, Z.div_mul; lia. Qed.
Lemma W_ge : 256 <= W.
Proof. unfold Machine.W. change 256 with (2 ^ 8). apply Z.pow_le_mono_r; lia. Qed.
Lemma W_pos : 0 < W.
Proof. pose proof W_ge; lia. Qed.
Lemma W_even : W = 2 * (W / 2).
Proof. rewrite W_half. apply W_eq. Qed.
Lemma half_pos : 128 <= W / 2.
Proof. pose proof W_ge. pose proof W_even. lia. Qed.

Definition inrange (x : Z) := 0 <= x < W.

Lemma wrap_range x : inrange (wrap x).
Proof. unfold inrange, Machine.wrap. apply Z.mod_pos_bound, W_pos. Qed.
Lemma wrap_small x : inrange x -> wrap x = x.
Proof. unfold inrange, Machine.wrap. intros; apply Z.mod_small; assumption. Qed.
Lemma wrap_wrap x : wrap (wrap x) = wrap x.
Proof. apply wrap_small, wrap_range. Qed.

Lemma sgn_range x : inrange x -> - (W / 2) <= sgn x < W / 2.
Proof. unfold inrange, Machine.sgn. intros Hx. pose proof W_even. destruct (Z.ltb_spec x (W / 2)); lia. Qed.
Lemma sgn_cases x : inrange x -> (x < W / 2 /\ sgn x = x) \/ (W / 2 <= x /\ sgn x = x - W).
Proof. unfold Machine.sgn. intros H. destruct (Z.ltb_spec x (W / 2)); [left|right]; lia. Qed.
Lemma wrap_sgn x : inrange x -> wrap (sgn x) = x.
Proof.
  intros H. destruct (sgn_cases x H) as [[_ E]|[_ E]]; rewrite E; unfold Machine.wrap.
  - apply Z.mod_small, H.
  - unfold inrange in H. pose proof W_pos.
    replace (x - W) with (x + (-1) * W) by ring. rewrite Z.mod_add by lia. apply Z.mod_small, H.
Qed.
Lemma sgn_inj x y : inrange x -> inrange y -> sgn x = sgn y -> x = y.
Proof. intros Hx Hy E. rewrite <- (wrap_sgn x Hx), <- (wrap_sgn y Hy), E. reflexivity. Qed.
Lemma sgn_small x : 0 <= x < W / 2 -> sgn x = x.
Proof. intros H; unfold Machine.sgn. destruct (Z.ltb_spec x (W / 2)); lia. Qed.
Lemma sgn_wrap_small z : - (W / 2) <= z < W / 2 -> sgn (wrap z) = z.
Proof.
  intros H. pose proof W_even. pose proof W_pos. unfold Machine.sgn, Machine.wrap.
  destruct (Z_lt_le_dec z 0).
  - replace (z mod W) with (z + W).
    + destruct (Z.ltb_spec (z + W) (W / 2)); lia.
    + apply Z.mod_unique_pos with (q := -1); lia.
  - rewrite Z.mod_small by lia. destruct (Z.ltb_spec z (W / 2)); lia.
Qed.
Lemma wrap_eq_mod a b : wrap a = wrap b <-> (a - b) mod W = 0.
Proof.
  unfold Machine.wrap. pose proof W_pos as HW. split; intro HE.
  - rewrite Zminus_mod, HE, Z.sub_diag. apply Z.mod_0_l; lia.
  - apply Z.mod_divide in HE; [|lia]. destruct HE as [k Hk].
    replace a with (b + k * W) by lia. apply Z.mod_add; lia.
Qed.
Lemma wrap_add_sgn x y : inrange x -> inrange y -> wrap (x + y) = wrap (sgn x + sgn y).
Proof.
  intros Hx Hy. apply wrap_eq_mod. pose proof W_pos.
  destruct (sgn_cases x Hx) as [[_ Ex]|[_ Ex]], (sgn_cases y Hy) as [[_ Ey]|[_ Ey]]; rewrite Ex, Ey.
  - replace (x + y - (x + y)) with 0 by ring. apply Z.mod_0_l; lia.
  - replace (x + y - (x + (y - W))) with (1 * W) by ring. apply Z.mod_mul; lia.
  - replace (x + y - (x - W + y)) with (1 * W) by ring. apply Z.mod_mul; lia.
  - replace (x + y - (x - W + (y - W))) with (2 * W) by ring. apply Z.mod_mul; lia.
Qed.
Lemma wrap_sub_sgn x y : inrange x -> inrange y -> wrap (x - y) = wrap (sgn x - sgn y).
Proof.
  intros Hx Hy. apply wrap_eq_mod. pose proof W_pos.
  destruct (sgn_cases x Hx) as [[_ Ex]|[_ Ex]], (sgn_cases y Hy) as [[_ Ey]|[_ Ey]]; rewrite Ex, Ey.
  - replace (x - y - (x - y)) with 0 by ring. apply Z.mod_0_l; lia.
  - replace (x - y - (x - (y - W))) with ((-1) * W) by ring. apply Z.mod_mul; lia.
  - replace (x - y - (x - W - y)) with (1 * W) by ring. apply Z.mod_mul; lia.
  - replace (x - y - (x - W - (y - W))) with 0 by ring. apply Z.mod_0_l; lia.
Qed.
End Word.
