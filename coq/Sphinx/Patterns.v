(* Verified idiom classifier: the tie between the idiom theorems (Idioms.v, TimeTravel.v,
   Guards.v) and the code the generator emits TODAY.

   `classify cfg prog pc` is an executable recogniser: at a `j` instruction of a concrete program
   (code address = index in `prog`, looked up through Driver.mkcode) it names the idiom the jump
   belongs to, with its parameters -- or answers None.  Every side condition that matters for
   soundness is CHECKED by the recogniser: the conditional halt of a branch is directly at pc+1;
   the branch target carries the inverse condition on the SAME operands, the pair taken from the
   regenerated table GenTables.halt_inversion; the `halt` of a goto really follows; the
   continuation label of a guard is exactly the instruction after its `halt`; error targets
   start with `flag`; label immediates are code addresses inside the program and below W.

   `classify_sound : classify_code cfg code pc = Some i -> premises_of cfg code pc i`, where
   `premises_of` is, constructor by constructor, the code-shape hypothesis list of the
   corresponding idiom theorem; the `classified_*` corollaries then APPLY those theorems, so that
   what remains to be assumed about a classified jump is only semantic (Halts / runs of the
   surrounding code, in-bounds registers), never the shape of the code.

   tools/corr_patterns.py runs the extracted recogniser over every `j` of every program hidc
   emits in its streams (checked and unchecked, several word sizes): each must classify. *)
From Coq Require Import ZArith List Bool Lia FMapPositive.
From HidV Require Import Machine Halts WordLemmas MemLemmas GenTables OpTables Driver Idioms TimeTravel Guards.
Import ListNotations.
Open Scope Z_scope.

(* ---------- the idioms ---------- *)
Inductive idiom :=
| Goto (X : Z)                                             (* j X; halt *)
| GotoReg (r : Z)                                          (* j [r]; halt  (return) *)
| Branch (cc cc' : cond) (a b : operand) (L : Z)           (* j L; hcc a,b ...  L: hcc' a,b *)
| BranchBool (v : operand) (L : Z)                         (* j L; hne v,0 ...  L: heq v,0 *)
| BoolNormalise (r : Z)                                    (* j N; hleu [r],1; mov [r],1; N: hgtu [r],1 *)
| Guard (cc : cond) (a b : operand) (E : Z)                (* j OK; hcc a,b; j E; halt; OK: *)
| GuardEntry (r1 fp ap N E : Z)                            (* j OK; sub r1,fp,ap; hgeu r1,N; j E; halt; OK: *)
| GuardVla (r1 fp ap N' : Z) (size : operand) (E : Z)      (* ... two subs ... hgeu r1,size *)
| Undo (H : Z)                                             (* j H; BODY; j E; halt; H: *)
| PreemptStatic (D E : Z)                                  (* j D; j E; halt; D: *)
| PreemptVirtual (D E h : Z)                               (* j D; hne [defeat],h; j E; halt; D: *)
| Speculation (E : Z) (lop rop : operand) (rout : Z)       (* j E; LEFT; heq l,r; mov [rout],l; E: *)
| SpeculationNoMov (E : Z) (lop rop : operand)             (* j E; LEFT; heq l,r; E: *)
| DefeatVirtual                                            (* j [defeat]; halt *)
| DefeatVirtualCond (cc : cond) (a b : operand)            (* j [defeat]; hcc a,b *)
| StopInstall (H h fp ap tfp k : Z)                        (* mov [defeat],H; j B; mov [defeat],h; B:
                                                              with H: mov [defeat],h; mov [fp],[tfp]; lwso [ap],[fp],k *)
| ReturnProtection (N r : Z)                               (* j N; j [r]; halt *)
| Call (F fp off : Z).                                     (* add [fp],[fp],-off; j F; halt; add [fp],[fp],off *)

(* what the recogniser is told about the program: word size, address of the `defeat` word *)
Record cfg := mkcfg { cw : Z; cdefeat : option Z }.

(* ---------- decidable tests ---------- *)
Definition operand_eqb (a b : operand) : bool :=
  match a, b with
  | Imm x, Imm y => x =? y | St x, St y => x =? y | Cn x, Cn y => x =? y
  | _, _ => false
  end.
Lemma operand_eqb_eq a b : operand_eqb a b = true -> a = b.
Proof. destruct a, b; cbn; intros H; try discriminate; apply Z.eqb_eq in H; now subst. Qed.
Lemma cond_eqb_eq a b : cond_eqb a b = true -> a = b.
Proof. destruct a, b; cbn; intros H; try discriminate; reflexivity. Qed.

Definition in_inv (cc cc' : cond) : bool :=
  existsb (fun e => cond_eqb (fst e) cc && cond_eqb (snd e) cc') halt_inversion.
Lemma in_inv_In cc cc' : in_inv cc cc' = true -> In (cc, cc') halt_inversion.
Proof.
  unfold in_inv. rewrite existsb_exists. intros [[x y] [Hin H]]. cbn [fst snd] in H.
  apply andb_prop in H. destruct H as [H1 H2]. apply cond_eqb_eq in H1, H2. now subst.
Qed.

Definition inW (w L : Z) : bool := (0 <=? L) && (L <? 2 ^ (8 * w)).
Lemma inW_wrap w L : inW w L = true -> wrap w L = L.
Proof.
  unfold inW. intros H. apply andb_prop in H. destruct H as [H1 H2].
  apply Z.leb_le in H1. apply Z.ltb_lt in H2. unfold wrap, W. apply Z.mod_small. lia.
Qed.

Definition is_defeat (c : cfg) (r : Z) : bool :=
  match cdefeat c with Some d => d =? r | None => false end.
Lemma is_defeat_eq c r : is_defeat c r = true -> cdefeat c = Some r.
Proof. unfold is_defeat. destruct (cdefeat c); [|discriminate]. intros H. apply Z.eqb_eq in H. now subst. Qed.

Definition is_flag (o : option instr) : bool := match o with Some (IFlag _) => true | _ => false end.
Lemma is_flag_ex o : is_flag o = true -> exists f, o = Some (IFlag f).
Proof. destruct o as [[]|]; try discriminate. eauto. Qed.
Definition is_halt (o : option instr) : bool := match o with Some IHalt => true | _ => false end.
Lemma is_halt_eq o : is_halt o = true -> o = Some IHalt.
Proof. destruct o as [[]|]; try discriminate. reflexivity. Qed.
Definition present (o : option instr) : bool := match o with Some _ => true | None => false end.
Lemma present_ne o : present o = true -> o <> None.
Proof. destruct o; [discriminate | discriminate]. Qed.

Definition orelse (x y : option idiom) : option idiom := match x with Some _ => x | None => y end.
Lemma orelse_some x y i : orelse x y = Some i -> x = Some i \/ y = Some i.
Proof. destruct x; cbn; auto. Qed.

(* ---------- the recogniser ---------- *)
Section Classify.
Variable c : cfg.
Variable code : Z -> option instr.
Variable pc : Z.
Notation w := (cw c).

(* j X; halt -- and, when it is bracketed by the frame-pointer rebase of eval_func_call
   (pc-1: add [fp],[fp],-off ... pc+2: add [fp],[fp],off, same register, opposite offsets), a call *)
Definition try_goto (L : Z) : option idiom :=
  if is_halt (code (pc + 1)) then
    match code (pc - 1), code (pc + 2) with
    | Some (IArith Aadd (St f) (St f') (Imm n)), Some (IArith Aadd (St g) (St g') (Imm n')) =>
        if (f =? f') && (f =? g) && (f =? g') && (n + n' =? 0) then Some (Call L f n') else Some (Goto L)
    | _, _ => Some (Goto L)
    end
  else None.

(* j N; hleu [r],1; mov [r],1; N = pc+3: hgtu [r],1 *)
Definition try_boolnorm (L : Z) : option idiom :=
  match code (pc + 1), code (pc + 2), code (pc + 3) with
  | Some (IHc Cleu (St r) (Imm 1)), Some (IMov (St r') (Imm 1)), Some (IHc Cgtu (St r'') (Imm 1)) =>
      if (L =? pc + 3) && (r =? r') && (r =? r'') && in_inv Cleu Cgtu then Some (BoolNormalise r) else None
  | _, _, _ => None
  end.

(* j L; hcc a,b ... L: hcc' a,b  with (cc,cc') in the regenerated table *)
Definition try_branch (L : Z) : option idiom :=
  match code (pc + 1), code L with
  | Some (IHc cc a b), Some (IHc cc' a' b') =>
      if operand_eqb a a' && operand_eqb b b' && in_inv cc cc' then
        if cond_eqb cc Cne && cond_eqb cc' Ceq && operand_eqb b (Imm 0)
        then Some (BranchBool a L) else Some (Branch cc cc' a b L)
      else None
  | _, _ => None
  end.

(* j OK; hcc a,b; j E; halt; OK = pc+4   (E starts an error stub: `flag`)
   j D;  hne [defeat],h; j E; halt; D = pc+4   (virtual preempt; h is the address of `halt: halt`) *)
Definition try_guard (L : Z) : option idiom :=
  match code (pc + 1), code (pc + 2) with
  | Some (IHc cc a b), Some (IJ (Imm E)) =>
      if is_halt (code (pc + 3)) && (L =? pc + 4) && inW w E then
        match cc, a, b with
        | Cne, St d, Imm h =>
            if is_defeat c d then
              if inW w h && is_halt (code h) && present (code E) then Some (PreemptVirtual L E h) else None
            else if is_flag (code E) then Some (Guard cc a b E) else None
        | _, _, _ => if is_flag (code E) then Some (Guard cc a b E) else None
        end
      else None
  | _, _ => None
  end.

(* j N; j [r]; halt  (N a stub)   /   j D; j E; halt; D = pc+3 *)
Definition try_jj (L : Z) : option idiom :=
  match code (pc + 1) with
  | Some (IJ (St r)) =>
      if is_halt (code (pc + 2)) && is_flag (code L) then Some (ReturnProtection L r) else None
  | Some (IJ (Imm E)) =>
      if is_halt (code (pc + 2)) && (L =? pc + 3) && inW w E && present (code E) then Some (PreemptStatic L E) else None
  | _ => None
  end.

(* j OK; sub [r1],[fp],[ap]; hgeu [r1],N; j E; halt; OK = pc+5 *)
Definition try_entry (L : Z) : option idiom :=
  match code (pc + 1), code (pc + 2), code (pc + 3) with
  | Some (IArith Asub (St r1) (St fp) (St ap)), Some (IHc Cgeu (St r1') (Imm N)), Some (IJ (Imm E)) =>
      if (r1 =? r1') && is_halt (code (pc + 4)) && (L =? pc + 5) && inW w E && is_flag (code E)
      then Some (GuardEntry r1 fp ap N E) else None
  | _, _, _ => None
  end.

(* j OK; sub [r1],[fp],[ap]; sub [r1],[r1],N'; hgeu [r1],size; j E; halt; OK = pc+6 *)
Definition try_vla (L : Z) : option idiom :=
  match code (pc + 1), code (pc + 2), code (pc + 3), code (pc + 4) with
  | Some (IArith Asub (St r1) (St fp) (St ap)), Some (IArith Asub (St r1') (St r1'') (Imm N')),
    Some (IHc Cgeu (St r1''') size), Some (IJ (Imm E)) =>
      if (r1 =? r1') && (r1 =? r1'') && (r1 =? r1''') && is_halt (code (pc + 5)) && (L =? pc + 6)
         && inW w E && is_flag (code E)
      then Some (GuardVla r1 fp ap N' size E) else None
  | _, _, _, _ => None
  end.

(* pc-1: mov [defeat],H; pc: j B; pc+1: mov [defeat],h; B = pc+2;
   h is the address of `halt: halt`; the handler H starts with the reset `mov [defeat],h`
   followed by `mov [fp],[tfp]; lwso [ap],[fp],k` *)
Definition try_stop (L : Z) : option idiom :=
  match code (pc - 1), code (pc + 1) with
  | Some (IMov (St d) (Imm H)), Some (IMov (St d') (Imm h)) =>
      if is_defeat c d && (d =? d') && (L =? pc + 2) && inW w H && inW w h && is_halt (code h) then
        match code H, code (H + 1), code (H + 2) with
        | Some (IMov (St d'') (Imm h')), Some (IMov (St fp) (St tfp)), Some (ILoadO WWord SState (St ap) (St fp') (Imm k)) =>
            if (d =? d'') && (h =? h') && (fp =? fp') then Some (StopInstall H h fp ap tfp k) else None
        | _, _, _ => None
        end
      else None
  | _, _ => None
  end.

(* j E; LEFT; heq l,r; [mov [rout],l;] E: *)
Definition try_spec (L : Z) : option idiom :=
  if pc + 1 <? L then
    match code (L - 1) with
    | Some (IHc Ceq lop rop) => Some (SpeculationNoMov L lop rop)
    | Some (IMov (St rout) lop') =>
        match code (L - 2) with
        | Some (IHc Ceq lop rop) =>
            if operand_eqb lop lop' && (pc + 2 <? L) then Some (Speculation L lop rop rout) else None
        | _ => None
        end
    | _ => None
    end
  else None.

(* j H; BODY; j E; halt; H:
   This is the loosest shape (only the body's closing goto before H is seen), so it must not
   swallow a damaged branch: `j L; hcc a,b; ...; j E; halt; L: hcc'' c,d` whose target does not
   carry the inverse on the same operands is REFUSED here (an undo block never starts with a bare
   conditional halt: defeat calls are not allowed there), and therefore stays unclassified. *)
Definition looks_like_branch (L : Z) : bool :=
  match code (pc + 1), code L with
  | Some (IHc _ _ _), Some (IHc _ _ _) => true
  | _, _ => false
  end.
Definition try_undo (L : Z) : option idiom :=
  match code (L - 2) with
  | Some (IJ (Imm _)) =>
      if (pc + 2 <? L) && is_halt (code (L - 1)) && negb (looks_like_branch L) then Some (Undo L) else None
  | _ => None
  end.

Definition classify_imm (L : Z) : option idiom :=
  orelse (try_goto L) (orelse (try_boolnorm L) (orelse (try_branch L) (orelse (try_guard L)
  (orelse (try_jj L) (orelse (try_entry L) (orelse (try_vla L) (orelse (try_stop L)
  (orelse (try_spec L) (try_undo L))))))))).

Definition classify_code : option idiom :=
  match code pc with
  | Some (IJ (St r)) =>
      match code (pc + 1) with
      | Some IHalt => if is_defeat c r then Some DefeatVirtual else Some (GotoReg r)
      | Some (IHc cc a b) => if is_defeat c r then Some (DefeatVirtualCond cc a b) else None
      | _ => None
      end
  | Some (IJ (Imm L)) => if inW w L && present (code L) then classify_imm L else None
  | _ => None
  end.

(* ---------- what a classification guarantees about the code ---------- *)
Definition premises_of (i : idiom) : Prop :=
  match i with
  | Goto X => code pc = Some (IJ (Imm X)) /\ code (pc + 1) = Some IHalt /\ wrap w X = X /\ code X <> None
  | GotoReg r => code pc = Some (IJ (St r)) /\ code (pc + 1) = Some IHalt
  | Branch cc cc' a b L =>
      code pc = Some (IJ (Imm L)) /\ wrap w L = L /\ code (pc + 1) = Some (IHc cc a b) /\
      code L = Some (IHc cc' a b) /\ In (cc, cc') halt_inversion
  | BranchBool v L =>
      code pc = Some (IJ (Imm L)) /\ wrap w L = L /\ code (pc + 1) = Some (IHc Cne v (Imm 0)) /\
      code L = Some (IHc Ceq v (Imm 0)) /\ In (Cne, Ceq) halt_inversion
  | BoolNormalise r =>
      code pc = Some (IJ (Imm (pc + 3))) /\ wrap w (pc + 3) = pc + 3 /\
      code (pc + 1) = Some (IHc Cleu (St r) (Imm 1)) /\ code (pc + 2) = Some (IMov (St r) (Imm 1)) /\
      code (pc + 3) = Some (IHc Cgtu (St r) (Imm 1)) /\ In (Cleu, Cgtu) halt_inversion
  | Guard cc a b E =>
      code pc = Some (IJ (Imm (pc + 4))) /\ wrap w (pc + 4) = pc + 4 /\
      code (pc + 1) = Some (IHc cc a b) /\ code (pc + 2) = Some (IJ (Imm E)) /\
      code (pc + 3) = Some IHalt /\ wrap w E = E /\ exists f, code E = Some (IFlag f)
  | GuardEntry r1 fp ap N E =>
      code pc = Some (IJ (Imm (pc + 5))) /\ wrap w (pc + 5) = pc + 5 /\
      code (pc + 1) = Some (IArith Asub (St r1) (St fp) (St ap)) /\
      code (pc + 2) = Some (IHc Cgeu (St r1) (Imm N)) /\
      code (pc + 3) = Some (IJ (Imm E)) /\ code (pc + 4) = Some IHalt /\
      wrap w E = E /\ exists f, code E = Some (IFlag f)
  | GuardVla r1 fp ap N' size E =>
      code pc = Some (IJ (Imm (pc + 6))) /\ wrap w (pc + 6) = pc + 6 /\
      code (pc + 1) = Some (IArith Asub (St r1) (St fp) (St ap)) /\
      code (pc + 2) = Some (IArith Asub (St r1) (St r1) (Imm N')) /\
      code (pc + 3) = Some (IHc Cgeu (St r1) size) /\
      code (pc + 4) = Some (IJ (Imm E)) /\ code (pc + 5) = Some IHalt /\
      wrap w E = E /\ exists f, code E = Some (IFlag f)
  | Undo H =>
      code pc = Some (IJ (Imm H)) /\ wrap w H = H /\ code H <> None /\
      (exists E, code (H - 2) = Some (IJ (Imm E))) /\ code (H - 1) = Some IHalt /\ pc + 2 < H
  | PreemptStatic D E =>
      code pc = Some (IJ (Imm D)) /\ D = pc + 3 /\ wrap w D = D /\
      code (pc + 1) = Some (IJ (Imm E)) /\ code (pc + 2) = Some IHalt /\ wrap w E = E /\ code E <> None
  | PreemptVirtual D E h =>
      exists d, cdefeat c = Some d /\
      code pc = Some (IJ (Imm D)) /\ D = pc + 4 /\ wrap w D = D /\
      code (pc + 1) = Some (IHc Cne (St d) (Imm h)) /\ code (pc + 2) = Some (IJ (Imm E)) /\
      code (pc + 3) = Some IHalt /\ wrap w E = E /\ code E <> None /\ wrap w h = h /\ code h = Some IHalt
  | Speculation E lop rop rout =>
      code pc = Some (IJ (Imm E)) /\ wrap w E = E /\
      code (E - 2) = Some (IHc Ceq lop rop) /\ code (E - 1) = Some (IMov (St rout) lop) /\ pc + 2 < E
  | SpeculationNoMov E lop rop =>
      code pc = Some (IJ (Imm E)) /\ wrap w E = E /\ code (E - 1) = Some (IHc Ceq lop rop) /\ pc + 1 < E
  | DefeatVirtual =>
      exists d, cdefeat c = Some d /\ code pc = Some (IJ (St d)) /\ code (pc + 1) = Some IHalt
  | DefeatVirtualCond cc a b =>
      exists d, cdefeat c = Some d /\ code pc = Some (IJ (St d)) /\ code (pc + 1) = Some (IHc cc a b)
  | StopInstall H h fp ap tfp k =>
      exists d, cdefeat c = Some d /\
      code (pc - 1) = Some (IMov (St d) (Imm H)) /\ code pc = Some (IJ (Imm (pc + 2))) /\
      wrap w (pc + 2) = pc + 2 /\ code (pc + 1) = Some (IMov (St d) (Imm h)) /\
      wrap w H = H /\ wrap w h = h /\ code h = Some IHalt /\
      code H = Some (IMov (St d) (Imm h)) /\ code (H + 1) = Some (IMov (St fp) (St tfp)) /\
      code (H + 2) = Some (ILoadO WWord SState (St ap) (St fp) (Imm k))
  | ReturnProtection N r =>
      code pc = Some (IJ (Imm N)) /\ wrap w N = N /\ code (pc + 1) = Some (IJ (St r)) /\
      code (pc + 2) = Some IHalt /\ exists f, code N = Some (IFlag f)
  | Call F fp off =>
      code (pc - 1) = Some (IArith Aadd (St fp) (St fp) (Imm (- off))) /\
      code pc = Some (IJ (Imm F)) /\ code (pc + 1) = Some IHalt /\
      code (pc + 2) = Some (IArith Aadd (St fp) (St fp) (Imm off)) /\ wrap w F = F /\ code F <> None
  end.

(* break a successful attempt into its boolean facts *)
Ltac brk H :=
  repeat match type of H with
  | context [match ?x with _ => _ end] => destruct x eqn:?; try discriminate H
  end.
Ltac facts :=
  repeat match goal with
  | H : _ && _ = true |- _ => apply andb_prop in H; destruct H
  | H : (_ =? _) = true |- _ => apply Z.eqb_eq in H
  | H : (_ <? _) = true |- _ => apply Z.ltb_lt in H
  | H : operand_eqb _ _ = true |- _ => apply operand_eqb_eq in H
  | H : cond_eqb _ _ = true |- _ => apply cond_eqb_eq in H
  | H : in_inv _ _ = true |- _ => apply in_inv_In in H
  | H : inW _ _ = true |- _ => apply inW_wrap in H
  | H : is_halt _ = true |- _ => apply is_halt_eq in H
  | H : is_flag _ = true |- _ => apply is_flag_ex in H
  | H : present _ = true |- _ => apply present_ne in H
  | H : is_defeat _ _ = true |- _ => apply is_defeat_eq in H
  end.

(* each attempt: if it answers, the answer's premises hold -- given the facts classify_code
   established before calling it (Hj, HL, HP) *)
Section Attempts.
Variable L : Z.
Hypothesis Hj : code pc = Some (IJ (Imm L)).
Hypothesis HL : wrap w L = L.
Hypothesis HP : code L <> None.

Lemma try_goto_sound i : try_goto L = Some i -> premises_of i.
Proof.
  unfold try_goto. intros H. brk H; inversion H; subst; facts; subst; cbn; repeat split; auto.
  match goal with E : ?n + ?n' = 0 |- _ => replace (- n') with n by lia end. assumption.
Qed.

Lemma try_boolnorm_sound i : try_boolnorm L = Some i -> premises_of i.
Proof.
  unfold try_boolnorm. intros H. brk H. inversion H; subst. facts. subst. cbn.
  repeat split; auto.
Qed.

Lemma try_branch_sound i : try_branch L = Some i -> premises_of i.
Proof.
  unfold try_branch. intros H. brk H; inversion H; subst; facts; subst; cbn; repeat split; auto.
Qed.

Lemma try_guard_sound i : try_guard L = Some i -> premises_of i.
Proof.
  unfold try_guard. intros H. brk H; inversion H; subst; facts; subst; cbn;
    try (repeat split; auto; fail).
  all: eexists; repeat split; eauto.
Qed.

Lemma try_jj_sound i : try_jj L = Some i -> premises_of i.
Proof.
  unfold try_jj. intros H. brk H; inversion H; subst; facts; subst; cbn; repeat split; auto.
Qed.

Lemma try_entry_sound i : try_entry L = Some i -> premises_of i.
Proof.
  unfold try_entry. intros H. brk H; inversion H; subst; facts; subst; cbn; repeat split; auto.
Qed.

Lemma try_vla_sound i : try_vla L = Some i -> premises_of i.
Proof.
  unfold try_vla. intros H. brk H; inversion H; subst; facts; subst; cbn; repeat split; auto.
Qed.

Lemma try_stop_sound i : try_stop L = Some i -> premises_of i.
Proof.
  unfold try_stop. intros H. brk H; inversion H; subst; facts; subst; cbn.
  eexists; repeat split; eauto.
Qed.

Lemma try_spec_sound i : try_spec L = Some i -> premises_of i.
Proof.
  unfold try_spec. intros H. brk H; inversion H; subst; facts; subst; cbn; repeat split; auto; lia.
Qed.

Lemma try_undo_sound i : try_undo L = Some i -> premises_of i.
Proof.
  unfold try_undo. intros H. brk H; inversion H; subst; facts; subst; cbn; repeat split; eauto.
Qed.

Lemma classify_imm_sound i : classify_imm L = Some i -> premises_of i.
Proof.
  unfold classify_imm. intros H.
  repeat (apply orelse_some in H; destruct H as [H|H]);
    eauto using try_goto_sound, try_boolnorm_sound, try_branch_sound, try_guard_sound, try_jj_sound,
      try_entry_sound, try_vla_sound, try_stop_sound, try_spec_sound, try_undo_sound.
Qed.
End Attempts.

Theorem classify_sound i : classify_code = Some i -> premises_of i.
Proof.
  unfold classify_code. intros H. brk H.
  - (* immediate *) facts. eapply classify_imm_sound; eauto.
  - inversion H; subst. facts. cbn. eauto.
  - inversion H; subst. cbn. auto.
  - inversion H; subst. facts. cbn. eauto.
Qed.

End Classify.

(* ---------- over a concrete program ---------- *)
Definition classify (c : cfg) (prog : list instr) (pc : Z) : option idiom :=
  classify_code c (mkcode prog) pc.

Fixpoint jumps_from (l : list instr) (pc : Z) : list Z :=
  match l with
  | [] => []
  | IJ _ :: r => pc :: jumps_from r (pc + 1)
  | _ :: r => jumps_from r (pc + 1)
  end.
(* every jump of the program with its classification (the code trie is built once) *)
Definition classify_all (c : cfg) (prog : list instr) : list (Z * option idiom) :=
  let code := mkcode prog in
  map (fun pc => (pc, classify_code c code pc)) (jumps_from prog 0).
Definition unclassified (c : cfg) (prog : list instr) : list Z :=
  map fst (filter (fun x => match snd x with None => true | Some _ => false end) (classify_all c prog)).

(* the idioms of the sequential core: no time travel *)
Definition sequential_idiom (i : idiom) : bool :=
  match i with
  | Goto _ | GotoReg _ | Branch _ _ _ _ _ | BranchBool _ _ | BoolNormalise _
  | Guard _ _ _ _ | GuardEntry _ _ _ _ _ | GuardVla _ _ _ _ _ _ | Call _ _ _ => true
  | _ => false
  end.
Definition sequential_only (c : cfg) (prog : list instr) : bool :=
  forallb (fun x => match snd x with Some i => sequential_idiom i | None => false end) (classify_all c prog).

(* ---------- mkcode is list indexing: classify_all misses no jump ---------- *)
Lemma find_fillc l : forall s t a, 0 <= s -> 0 <= a ->
  PositiveMap.find (key a) (fillc l s t) =
  if (s <=? a) && (a <? s + Z.of_nat (length l)) then nth_error l (Z.to_nat (a - s)) else PositiveMap.find (key a) t.
Proof.
  induction l as [|i r IH]; intros s t a Hs Ha; cbn [fillc length].
  - replace (s + Z.of_nat 0) with s by (cbn; lia).
    destruct (Z.leb_spec s a); destruct (Z.ltb_spec a s); cbn; try reflexivity; lia.
  - rewrite IH by lia. rewrite Nat2Z.inj_succ.
    destruct (Z.eq_dec a s) as [->|N].
    + replace (s + 1 <=? s) with false by (symmetry; apply Z.leb_gt; lia). cbn [andb].
      rewrite PositiveMap.gss. rewrite Z.leb_refl.
      replace (s <? s + Z.succ (Z.of_nat (length r))) with true by (symmetry; apply Z.ltb_lt; lia).
      cbn [andb]. rewrite Z.sub_diag. reflexivity.
    + rewrite PositiveMap.gso by (intro E; apply N; apply key_inj in E; lia).
      destruct (Z.leb_spec (s + 1) a); destruct (Z.leb_spec s a); try lia; cbn [andb].
      * destruct (Z.ltb_spec a (s + 1 + Z.of_nat (length r))); destruct (Z.ltb_spec a (s + Z.succ (Z.of_nat (length r)))); try lia; [|reflexivity].
        replace (Z.to_nat (a - s)) with (S (Z.to_nat (a - (s + 1)))) by lia. reflexivity.
      * reflexivity.
Qed.
Lemma mkcode_nth l a : 0 <= a -> mkcode l a = nth_error l (Z.to_nat a).
Proof.
  intros Ha. unfold mkcode. replace (a <? 0) with false by (symmetry; apply Z.ltb_ge; lia).
  rewrite find_fillc by lia. rewrite Z.sub_0_r, Z.add_0_l.
  destruct (Z.leb_spec 0 a); [|lia]. cbn [andb].
  destruct (Z.ltb_spec a (Z.of_nat (length l))) as [Lt|Ge]; [reflexivity|].
  rewrite PositiveMap.gempty. symmetry. apply nth_error_None. lia.
Qed.
Lemma mkcode_neg l a : a < 0 -> mkcode l a = None.
Proof. intros Ha. unfold mkcode. now replace (a <? 0) with true by (symmetry; apply Z.ltb_lt; lia). Qed.

Lemma jumps_from_complete l : forall s n a, nth_error l n = Some (IJ a) -> In (s + Z.of_nat n) (jumps_from l s).
Proof.
  induction l as [|i r IH]; intros s n a H; [destruct n; discriminate|].
  destruct n as [|n].
  - cbn in H. inversion H; subst. cbn [jumps_from]. left. cbn. lia.
  - cbn [nth_error] in H. specialize (IH (s + 1) n a H).
    replace (s + Z.of_nat (S n)) with (s + 1 + Z.of_nat n) by lia.
    cbn [jumps_from]. destruct i; try exact IH. right. exact IH.
Qed.
Theorem classify_all_complete c prog pc a :
  mkcode prog pc = Some (IJ a) -> In (pc, classify c prog pc) (classify_all c prog).
Proof.
  intros H. destruct (Z_lt_le_dec pc 0) as [Neg|Pos]; [rewrite mkcode_neg in H by assumption; discriminate|].
  rewrite mkcode_nth in H by assumption.
  unfold classify_all, classify. apply (in_map (fun pc => (pc, classify_code c (mkcode prog) pc))).
  replace pc with (0 + Z.of_nat (Z.to_nat pc)) by lia. eapply jumps_from_complete; eauto.
Qed.
(* hence: if nothing is unclassified, every jump of the program has premises *)
Theorem all_classified_sound c prog :
  unclassified c prog = [] ->
  forall pc a, mkcode prog pc = Some (IJ a) ->
  exists i, classify c prog pc = Some i /\ premises_of c (mkcode prog) pc i.
Proof.
  intros U pc a H. pose proof (classify_all_complete c prog pc a H) as Hin.
  destruct (classify c prog pc) as [i|] eqn:E.
  - exists i. split; [reflexivity|]. apply classify_sound. exact E.
  - exfalso. unfold unclassified in U.
    assert (In pc (map fst (filter (fun x => match snd x with None => true | Some _ => false end) (classify_all c prog)))).
    { apply in_map_iff. exists (pc, None). split; [reflexivity|]. apply filter_In. split; [exact Hin | reflexivity]. }
    rewrite U in H0. destruct H0.
Qed.

(* ================================================================================= *)
(* The idiom theorems APPLY to classified jumps: what is left to assume is semantic     *)
(* (operand values, registers in bounds, Halts of the surrounding code), never shape.   *)
(* ================================================================================= *)
Section Apply.
Variable c : cfg.
Hypothesis Hw : 2 <= cw c.
Variable code : Z -> option instr.
Variable cmem : mem.
Variable pc : Z.
Notation w := (cw c).
Notation act := (Machine.act w code cmem).
Notation Halts := (HidV.Sphinx.Halts.Halts act).
Notation runs := (HidV.Sphinx.Halts.runs act).
Notation cstep := (HidV.Sphinx.Halts.cstep act).
Notation oval := (Idioms.oval w cmem).
Notation lw := (Machine.lw w).
Notation sw := (Machine.sw w).
Notation cls := (classify_code c code pc).

Lemma oval_label m L : wrap w L = L -> oval m (Imm L) = Some L.
Proof. intros E. rewrite oval_imm. now rewrite E. Qed.

Theorem classified_goto X : cls = Some (Goto X) -> forall m, runs (mk pc m) [] (mk X m).
Proof.
  intros H m. destruct (classify_sound _ _ _ _ H) as [Cj [Ch [Wx _]]].
  pose proof (goto_label w code cmem pc m X Cj Ch) as R. now rewrite Wx in R.
Qed.
Theorem classified_goto_reg r : cls = Some (GotoReg r) ->
  forall m, inb m r w = true -> runs (mk pc m) [] (mk (lw m r) m).
Proof. intros H m I. destruct (classify_sound _ _ _ _ H) as [Cj Ch]. now apply goto_reg. Qed.

Theorem classified_branch cc cc' a b L : cls = Some (Branch cc cc' a b L) ->
  forall m x y, oval m a = Some x -> oval m b = Some y ->
  runs (mk pc m) [] (if cond_holds w cc x y then mk (L + 1) m else mk (pc + 2) m).
Proof.
  intros H m x y A B. destruct (classify_sound _ _ _ _ H) as [Cj [Wl [Cc [Ct Hin]]]].
  eapply branch_idiom_table; eauto using oval_label.
Qed.
Theorem classified_branch_bool v L : cls = Some (BranchBool v L) ->
  forall m x, oval m v = Some x ->
  runs (mk pc m) [] (if x =? 0 then mk (pc + 2) m else mk (L + 1) m).
Proof.
  intros H m x A. destruct (classify_sound _ _ _ _ H) as [Cj [Wl [Cc [Ct _]]]].
  eapply branch_bool_idiom; eauto using oval_label.
Qed.
Theorem classified_bool_normalise r : cls = Some (BoolNormalise r) ->
  forall m, 0 <= r -> inb m r w = true ->
  let x := lw m r in
  let m' := if x <=? 1 then m else sw m r 1 in
  runs (mk pc m) [] (mk (pc + 4) m') /\ (0 <= x -> lw m' r = if x =? 0 then 0 else 1).
Proof.
  intros H m Hr I. destruct (classify_sound _ _ _ _ H) as [Cj [Wl [C1 [C2 [C3 _]]]]].
  eapply bool_normalise; eauto using oval_label.
Qed.

Theorem classified_guard cc a b E : cls = Some (Guard cc a b E) ->
  forall m x y, oval m a = Some x -> oval m b = Some y ->
  (cond_holds w cc x y = true -> runs (mk pc m) [] (mk (pc + 4) m)) /\
  (cond_holds w cc x y = false -> ~ Halts (mk E m) -> runs (mk pc m) [] (mk E m) /\ ~ Halts (mk pc m)) /\
  (cond_holds w cc x y = false -> (Halts (mk pc m) <-> Halts (mk E m) /\ Halts (mk (pc + 4) m))).
Proof.
  intros H m x y A B. destruct (classify_sound _ _ _ _ H) as [Cj [Wl [Cc [Ce [Ch [We _]]]]]].
  eapply guard_idiom; eauto using oval_label.
Qed.
Theorem classified_guard_entry r1 fp ap N E : cls = Some (GuardEntry r1 fp ap N E) ->
  forall m, 0 <= r1 -> inb m r1 w = true -> inb m fp w = true -> inb m ap w = true ->
  let g := wrap w (lw m fp - lw m ap) in
  let m1 := sw m r1 (lw m fp - lw m ap) in
  (wrap w N <= g -> runs (mk pc m) [] (mk (pc + 5) m)) /\
  (g < wrap w N -> ~ Halts (mk E m1) -> runs (mk pc m) [] (mk E m1) /\ ~ Halts (mk pc m)) /\
  (g < wrap w N -> (Halts (mk pc m) <-> Halts (mk E m1) /\ Halts (mk (pc + 5) m))).
Proof.
  intros H m Hr I1 I2 I3. destruct (classify_sound _ _ _ _ H) as [Cj [Wl [C1 [C2 [C3 [C4 [We _]]]]]]].
  eapply entry_guard_idiom; eauto using oval_label.
Qed.
Theorem classified_guard_vla r1 fp ap N' size E : cls = Some (GuardVla r1 fp ap N' size E) ->
  forall m s, 0 <= r1 -> inb m r1 w = true -> inb m fp w = true -> inb m ap w = true ->
  let m1 := sw m r1 (lw m fp - lw m ap) in
  let m2 := sw m1 r1 (wrap w (lw m fp - lw m ap) - wrap w N') in
  let g := wrap w (wrap w (lw m fp - lw m ap) - wrap w N') in
  oval m2 size = Some s ->
  (s <= g -> runs (mk pc m) [] (mk (pc + 6) m)) /\
  (g < s -> ~ Halts (mk E m2) -> runs (mk pc m) [] (mk E m2) /\ ~ Halts (mk pc m)) /\
  (g < s -> (Halts (mk pc m) <-> Halts (mk E m2) /\ Halts (mk (pc + 6) m))).
Proof.
  intros H m s Hr I1 I2 I3 m1 m2 g Sz.
  destruct (classify_sound _ _ _ _ H) as [Cj [Wl [C1 [C2 [C3 [C4 [C5 [We _]]]]]]]].
  eapply vla_space_guard_idiom; eauto using oval_label.
Qed.

Theorem classified_undo H : cls = Some (Undo H) ->
  forall m,
  (~ Halts (mk (pc + 1) m) -> runs (mk pc m) [] (mk (pc + 1) m) /\ ~ Halts (mk pc m) /\ cstep (mk pc m) None (mk (pc + 1) m)) /\
  (Halts (mk (pc + 1) m) -> runs (mk pc m) [] (mk H m) /\ cstep (mk pc m) None (mk H m)).
Proof.
  intros Hc m. destruct (classify_sound _ _ _ _ Hc) as [Cj [Wl _]].
  eapply undo_idiom; eauto using oval_label.
Qed.
(* the body's closing goto is where the recogniser saw it: undo_commit applies with q = H-2 *)
Theorem classified_undo_commit H : cls = Some (Undo H) ->
  forall m mb evs, runs (mk (pc + 1) m) evs (mk (H - 2) mb) ->
  exists E, code (H - 2) = Some (IJ (Imm E)) /\
  (~ Halts (mk (wrap w E) mb) ->
   runs (mk pc m) evs (mk (wrap w E) mb) /\ ~ Halts (mk pc m) /\ HidV.Sphinx.Halts.csteps act (mk pc m) evs (mk (wrap w E) mb)).
Proof.
  intros Hc m mb evs Rb. destruct (classify_sound _ _ _ _ Hc) as [Cj [Wl [_ [[E Ce] [Ch _]]]]].
  exists E. split; [exact Ce|]. intros N.
  eapply (undo_commit w code cmem pc m (Imm H) H (H - 2) mb evs (Imm E) (wrap w E)); eauto using oval_label.
  all: try (replace (H - 2 + 1) with (H - 1) by ring; exact Ch); try apply oval_imm.
Qed.

Theorem classified_preempt_static D E : cls = Some (PreemptStatic D E) ->
  forall m,
  (Halts (mk E m) -> runs (mk pc m) [] (mk D m) /\ cstep (mk pc m) None (mk D m)) /\
  (~ Halts (mk E m) -> runs (mk pc m) [] (mk E m) /\ ~ Halts (mk pc m)).
Proof.
  intros H m. destruct (classify_sound _ _ _ _ H) as [Cj [_ [Wd [C1 [C2 [We _]]]]]].
  eapply preempt_idiom_static; eauto using oval_label.
Qed.
Theorem classified_preempt_virtual D E h : cls = Some (PreemptVirtual D E h) ->
  exists d, cdefeat c = Some d /\ code h = Some IHalt /\
  forall m, inb m d w = true ->
  (lw m d <> h \/ Halts (mk E m) -> runs (mk pc m) [] (mk D m) /\ cstep (mk pc m) None (mk D m)) /\
  (lw m d = h /\ ~ Halts (mk E m) -> runs (mk pc m) [] (mk E m) /\ ~ Halts (mk pc m)).
Proof.
  intros H. destruct (classify_sound _ _ _ _ H) as [d [Hd [Cj [_ [Wd [C1 [C2 [C3 [We [_ [Wh Chh]]]]]]]]]]].
  exists d. split; [exact Hd | split; [exact Chh|]]. intros m I.
  eapply preempt_idiom_virtual; eauto using oval_label, oval_st.
Qed.

Theorem classified_defeat_virtual : cls = Some DefeatVirtual ->
  exists d, cdefeat c = Some d /\
  forall m, inb m d w = true -> runs (mk pc m) [] (mk (lw m d) m) /\ cstep (mk pc m) None (mk (lw m d) m).
Proof.
  intros H. destruct (classify_sound _ _ _ _ H) as [d [Hd [Cj Ch]]].
  exists d. split; [exact Hd|]. intros m I. now apply defeat_call_virtual.
Qed.
Theorem classified_defeat_virtual_cond cc a b : cls = Some (DefeatVirtualCond cc a b) ->
  exists d, cdefeat c = Some d /\
  forall m x y, inb m d w = true -> oval m a = Some x -> oval m b = Some y ->
  let hd := lw m d in
  (cond_holds w cc x y = true -> runs (mk pc m) [] (mk hd m) /\ cstep (mk pc m) None (mk hd m)) /\
  (cond_holds w cc x y = false -> ~ Halts (mk (pc + 2) m) -> runs (mk pc m) [] (mk (pc + 2) m) /\ ~ Halts (mk pc m)) /\
  (cond_holds w cc x y = false -> Halts (mk (pc + 2) m) -> runs (mk pc m) [] (mk hd m) /\ cstep (mk pc m) None (mk hd m)).
Proof.
  intros H. destruct (classify_sound _ _ _ _ H) as [d [Hd [Cj Cc]]].
  exists d. split; [exact Hd|]. intros m x y I A B.
  exact (defeat_call_virtual_cond w code cmem pc m d cc a b x y Cj I Cc A B).
Qed.

Theorem classified_speculation E lop rop rout : cls = Some (Speculation E lop rop rout) ->
  forall m evs ml l r, runs (mk (pc + 1) m) evs (mk (E - 2) ml) ->
  oval ml lop = Some l -> oval ml rop = Some r -> inb ml rout w = true ->
  let m2 := sw ml rout l in
  (l = r -> runs (mk pc m) [] (mk E m) /\ cstep (mk pc m) None (mk E m)) /\
  (l <> r -> ~ Halts (mk E m2) -> runs (mk pc m) evs (mk E m2) /\ ~ Halts (mk pc m)) /\
  (l <> r -> Halts (mk E m2) -> runs (mk pc m) [] (mk E m) /\ cstep (mk pc m) None (mk E m)).
Proof.
  intros H m evs ml l r Rl Al Ar I. destruct (classify_sound _ _ _ _ H) as [Cj [We [Cq [Cm _]]]].
  pose proof (speculation_idiom w code cmem pc m (Imm E) evs (E - 2) ml lop rop l r rout Cj) as S.
  replace (E - 2 + 2) with E in S by ring. replace (E - 2 + 1) with (E - 1) in S by ring.
  exact (S (oval_label m E We) Rl Cq Al Ar Cm I).
Qed.
Theorem classified_speculation_nomov E lop rop : cls = Some (SpeculationNoMov E lop rop) ->
  forall m evs ml l r, runs (mk (pc + 1) m) evs (mk (E - 1) ml) ->
  oval ml lop = Some l -> oval ml rop = Some r ->
  (l = r -> runs (mk pc m) [] (mk E m)) /\
  (l <> r -> ~ Halts (mk E ml) -> runs (mk pc m) evs (mk E ml) /\ ~ Halts (mk pc m)) /\
  (l <> r -> Halts (mk E ml) -> runs (mk pc m) [] (mk E m)).
Proof.
  intros H m evs ml l r Rl Al Ar. destruct (classify_sound _ _ _ _ H) as [Cj [We [Cq _]]].
  pose proof (speculation_idiom_nomov w code cmem pc m (Imm E) evs (E - 1) ml lop rop l r Cj) as S.
  replace (E - 1 + 1) with E in S by ring.
  exact (S (oval_label m E We) Rl Cq Al Ar).
Qed.

Theorem classified_stop_install H h fp ap tfp k : cls = Some (StopInstall H h fp ap tfp k) ->
  exists d, cdefeat c = Some d /\ code h = Some IHalt /\
  (* the install sequence, started one instruction earlier at the `mov [defeat],H` *)
  (forall m, 0 <= d -> inb m d w = true ->
     let m1 := sw m d H in
     let m2 := sw m1 d h in
     (~ Halts (mk (pc + 2) m2) -> runs (mk (pc - 1) m) [] (mk (pc + 2) m2) /\ ~ Halts (mk (pc - 1) m) /\ lw m2 d = h) /\
     (Halts (mk (pc + 2) m2) -> runs (mk (pc - 1) m) [] (mk (pc + 2) m1) /\ lw m1 d = H)) /\
  (* the handler it installs starts by resetting the defeat word to the halt address *)
  (forall mh, inb mh d w = true -> inb mh fp w = true -> inb mh ap w = true -> inb mh tfp w = true ->
     0 <= fp -> 0 <= ap -> 0 <= d -> 0 <= tfp ->
     (fp + w <= ap \/ ap + w <= fp) -> (d + w <= fp \/ fp + w <= d) -> (d + w <= ap \/ ap + w <= d) ->
     (d + w <= tfp \/ tfp + w <= d) ->
     inb mh (sgn w (wrap w (lw mh tfp)) + sgn w (wrap w k)) w = true ->
     exists m', runs (mk H mh) [] (mk (H + 3) m') /\ lw m' d = h /\ lw m' fp = wrap w (lw mh tfp)).
Proof.
  intros Hc. destruct (classify_sound _ _ _ _ Hc) as [d [Hd [C0 [Cj [Wb [C1 [WH [Wh [Chh [CH0 [CH1 CH2]]]]]]]]]]].
  exists d. split; [exact Hd | split; [exact Chh | split]].
  - intros m Hd0 I m1 m2.
    pose proof (stop_idiom w Hw code cmem (pc - 1) m d (Imm H) (Imm (pc + 2)) (Imm h) H h) as S.
    replace (pc - 1 + 1) with pc in S by ring. replace (pc - 1 + 2) with (pc + 1) in S by ring.
    replace (pc - 1 + 3) with (pc + 2) in S by ring.
    specialize (S C0 (oval_label m H WH) Cj C1 Hd0 I (oval_label _ _ Wb) (oval_label _ _ Wh)).
    fold m1 m2 in S. rewrite WH, Wh in S. exact S.
  - intros mh Id If Ia It Hf Ha Hd0 Ht D1 D2 D3 D4 Is.
    destruct (stop_handler_entry_resets_defeat w Hw code cmem H mh fp ap tfp k d (Imm h) h CH0 (oval_label mh h Wh)
                CH1 CH2 Id If Ia It Hf Ha Hd0 Ht D1 D2 D3 D4 Is) as [m' [R [L1 L2]]].
    exists m'. rewrite Wh in L1. auto.
Qed.

Theorem classified_return_protection N r : cls = Some (ReturnProtection N r) ->
  forall m, inb m r w = true ->
  let ra := lw m r in
  (Halts (mk ra m) -> runs (mk pc m) [] (mk N m) /\ cstep (mk pc m) None (mk N m)) /\
  (~ Halts (mk ra m) -> runs (mk pc m) [] (mk ra m) /\ ~ Halts (mk pc m)) /\
  (~ Halts (mk N m) -> ~ Halts (mk pc m)).
Proof.
  intros H m I. destruct (classify_sound _ _ _ _ H) as [Cj [Wn [C1 [C2 _]]]].
  eapply return_protection_idiom; eauto using oval_label.
Qed.
End Apply.

(* ---------- examples: the stdlib tail and a branch, classified by computation ---------- *)
Example classify_ex :
  let prog := [IJ (Imm 4); IHc Clt (St 4) (St 6); IJ (Imm 6); IHalt; IHc Cge (St 4) (St 6); IJ (St 4); IHalt] in
  map snd (classify_all (mkcfg 2 None) prog) =
    [Some (Branch Clt Cge (St 4) (St 6) 4); Some (Goto 6); Some (GotoReg 4)]
  /\ sequential_only (mkcfg 2 None) prog = true /\ unclassified (mkcfg 2 None) prog = [].
Proof. repeat split; vm_compute; reflexivity. Qed.
(* a call: the goto bracketed by the fp rebase *)
Example classify_ex_call :
  classify (mkcfg 2 None) [IArith Aadd (St 2) (St 2) (Imm (-6)); IJ (Imm 4); IHalt; IArith Aadd (St 2) (St 2) (Imm 6); IHalt] 1
    = Some (Call 4 2 6).
Proof. vm_compute. reflexivity. Qed.
(* a branch whose target tests the operands in the other order does not classify *)
Example classify_ex_swapped :
  classify (mkcfg 2 None) [IJ (Imm 3); IHc Clt (St 4) (St 6); IHalt; IHc Cge (St 6) (St 4)] 0 = None.
Proof. vm_compute. reflexivity. Qed.
(* ... nor does it fall back to Undo when an unrelated goto happens to precede the target *)
Example classify_ex_wrong_inverse :
  classify (mkcfg 2 None) [IJ (Imm 5); IHc Clt (St 4) (St 6); IFlag 0; IJ (Imm 6); IHalt; IHc Cle (St 4) (St 6); IFlag 0] 0 = None.
Proof. vm_compute. reflexivity. Qed.
(* a goto without its halt does not classify *)
Example classify_ex_nohalt :
  classify (mkcfg 2 None) [IJ (Imm 2); IFlag 0; IFlag 0] 0 = None.
Proof. vm_compute. reflexivity. Qed.
