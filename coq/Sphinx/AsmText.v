(* The strict literal grammar of the assembler model (DESIGN §3.3): what a string / character
   literal in the emitted text denotes.  Accepts only printable ASCII other than backslash and
   the quote, and the escapes backslash-backslash, backslash-quote (either quote), backslash-n,
   backslash-r and backslash-x followed by two hex digits.  Mirrors tools/sasm.py:parse_str (the
   harness assembler), which is compared with it by the C13 correspondence. *)
From Coq Require Import ZArith List Bool Lia.
Import ListNotations.
Open Scope Z_scope.

Definition memz (b : Z) (l : list Z) : bool := existsb (Z.eqb b) l.

Definition hexdigit (d : Z) : Z := if d <? 10 then 48 + d else 87 + d.   (* lowercase, as %02x *)
Definition hex2 (b : Z) : list Z := [hexdigit (b / 16); hexdigit (b mod 16)].

Definition unhex (c : Z) : option Z :=
  if (48 <=? c) && (c <=? 57) then Some (c - 48)
  else if (97 <=? c) && (c <=? 102) then Some (c - 87)
  else if (65 <=? c) && (c <=? 70) then Some (c - 55)
  else None.

Definition printable (c : Z) : bool := (32 <=? c) && (c <=? 126).

Definition cons_res (v : Z) (o : option (list Z * list Z)) : option (list Z * list Z) :=
  match o with Some (bs, rest) => Some (v :: bs, rest) | None => None end.

(* [unescape q s]: s starts just after the opening quote q; returns the denoted bytes and the
   text after the closing quote, or None if the literal is ill-formed. *)
Fixpoint unescape (q : Z) (s : list Z) : option (list Z * list Z) :=
  match s with
  | [] => None
  | c :: r =>
      if c =? q then Some ([], r)
      else if c =? 92 then
        match r with
        | [] => None
        | n :: r1 =>
            if n =? 120 then
              match r1 with
              | h1 :: h2 :: r2 =>
                  match unhex h1, unhex h2 with
                  | Some a, Some b => cons_res (16 * a + b) (unescape q r2)
                  | _, _ => None
                  end
              | _ => None
              end
            else
              if n =? 110 then cons_res 10 (unescape q r1)
              else if n =? 114 then cons_res 13 (unescape q r1)
              else if (n =? 92) || (n =? 34) || (n =? 39) then cons_res n (unescape q r1)
              else None
        end
      else if printable c then
        cons_res c (unescape q r)
      else None
  end.

(* no raw byte that could break the line/token structure of the assembly file *)
Definition safe_char (q c : Z) : bool := printable c && negb (c =? q).

Lemma unhex_hexdigit d : 0 <= d < 16 -> unhex (hexdigit d) = Some d.
Proof.
  intros H. unfold hexdigit, unhex.
  destruct (d <? 10) eqn:E.
  - apply Z.ltb_lt in E.
    replace ((48 <=? 48 + d) && (48 + d <=? 57)) with true
      by (symmetry; apply andb_true_intro; split; apply Z.leb_le; lia).
    f_equal; lia.
  - apply Z.ltb_ge in E.
    replace ((48 <=? 87 + d) && (87 + d <=? 57)) with false
      by (symmetry; apply andb_false_intro2; apply Z.leb_gt; lia).
    replace ((97 <=? 87 + d) && (87 + d <=? 102)) with true
      by (symmetry; apply andb_true_intro; split; apply Z.leb_le; lia).
    f_equal; lia.
Qed.

Lemma hexdigit_range d : 0 <= d < 16 -> 48 <= hexdigit d <= 102.
Proof. intros H; unfold hexdigit; destruct (d <? 10) eqn:E; [apply Z.ltb_lt in E | apply Z.ltb_ge in E]; lia. Qed.
