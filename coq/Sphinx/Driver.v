(* Glue between the verified VM and the OCaml driver: building code/const/state from lists.
   Nothing here is proved about; it only instantiates VM.run. *)
From Coq Require Import ZArith List Bool FMapPositive.
From HidV Require Import Machine Halts VM Monitor.
Import ListNotations.
Open Scope Z_scope.

Fixpoint fillc (l : list instr) (a : Z) (t : PositiveMap.t instr) : PositiveMap.t instr :=
  match l with [] => t | i :: r => fillc r (a + 1) (PositiveMap.add (key a) i t) end.
Definition mkcode (l : list instr) : Z -> option instr :=
  let t := fillc l 0 (PositiveMap.empty instr) in
  fun a => if a <? 0 then None else PositiveMap.find (key a) t.

Fixpoint fillw (l : list Z) (t : PositiveMap.t unit) : PositiveMap.t unit :=
  match l with [] => t | a :: r => fillw r (PositiveMap.add (key a) tt t) end.
Definition mkwatch (l : list Z) : state -> bool :=
  let t := fillw l (PositiveMap.empty unit) in
  fun s => if pc s <? 0 then false else
           match PositiveMap.find (key (pc s)) t with Some _ => true | None => false end.

Definition run_program (w : Z) (st cn : list Z) (code : list instr) (watch : list Z)
           (mon : state -> bool) (fuel : nat) : outcome :=
  run w (mkcode code) (mem_of_list cn) mon (mkwatch watch) fuel (mk 0 (mem_of_list st)).

Definition mon_none (s : state) : bool := true.

(* the C04 entitlement monitor instantiated for a concrete program *)
Definition mon_entitled (w : Z) (cn : list Z) (code : list instr) (stack_start stack_end lib_start : Z) : state -> bool :=
  Monitor.mon w (mkcode code) (mem_of_list cn) (mklayout stack_start stack_end lib_start 0 w).
