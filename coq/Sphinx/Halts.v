(* Turing-jump metatheory, for any action function over Machine.state.
   `j X` jumps iff not jumping leads to halting; "leads to halting" is the least fixed point
   Halts below, in which later jumps obey the same rule. *)
From Coq Require Import ZArith List Bool Lia.
From HidV Require Import Machine.
Import ListNotations.

Section TJ.
Variable act : state -> action.

Inductive Halts : state -> Prop :=
| H_halt s : act s = AHalt -> Halts s
| H_next s s' e : act s = ANext s' e -> Halts s' -> Halts s
| H_jump s sn sj : act s = AJump sn sj -> Halts sn -> Halts sj -> Halts s.

(* the committed timeline *)
Inductive cstep : state -> option event -> state -> Prop :=
| C_next s s' e : act s = ANext s' e -> cstep s e s'
| C_fall s sn sj : act s = AJump sn sj -> ~ Halts sn -> cstep s None sn
| C_take s sn sj : act s = AJump sn sj -> Halts sn -> cstep s None sj.

Inductive csteps : state -> list event -> state -> Prop :=
| CS_refl s : csteps s [] s
| CS_tau s s' s'' l : cstep s None s' -> csteps s' l s'' -> csteps s l s''
| CS_ev s s' s'' v l : cstep s (Some v) s' -> csteps s' l s'' -> csteps s (v :: l) s''.

(* at least one committed step *)
Inductive cplus : state -> state -> Prop :=
| P_one s e s' : cstep s e s' -> cplus s s'
| P_more s e s' s'' : cstep s e s' -> cplus s' s'' -> cplus s s''.

(* any successor, committed or not *)
Inductive succ : state -> state -> Prop :=
| S_next s s' e : act s = ANext s' e -> succ s s'
| S_l s sn sj : act s = AJump sn sj -> succ s sn
| S_r s sn sj : act s = AJump sn sj -> succ s sj.
Inductive splus : state -> state -> Prop :=
| SP_one s s' : succ s s' -> splus s s'
| SP_more s s' s'' : succ s s' -> splus s' s'' -> splus s s''.

Ltac uniq := repeat match goal with
  | H1 : act ?s = _, H2 : act ?s = _ |- _ => rewrite H1 in H2; inversion H2; subst; clear H2 end.

Lemma halts_next_inv s s' e : act s = ANext s' e -> Halts s -> Halts s'.
Proof. intros A H; inversion H; subst; uniq; try congruence; assumption. Qed.
Lemma halts_jump_inv s a b : act s = AJump a b -> Halts s -> Halts a /\ Halts b.
Proof. intros A H; inversion H; subst; uniq; try congruence; tauto. Qed.
Lemma halts_fault_inv s : act s = AFault -> ~ Halts s.
Proof. intros A H; inversion H; subst; congruence. Qed.

(* haltingness is invariant along the committed timeline *)
Lemma halts_cstep s e s' : cstep s e s' -> (Halts s <-> Halts s').
Proof.
  intros C; inversion C; subst; split; intro Hh.
  - eapply halts_next_inv; eauto.
  - eapply H_next; eauto.
  - eapply halts_jump_inv in Hh; eauto; tauto.
  - tauto.
  - eapply halts_jump_inv in Hh; eauto; tauto.
  - eapply H_jump; eauto.
Qed.
Lemma halts_csteps s l s' : csteps s l s' -> (Halts s <-> Halts s').
Proof. induction 1; [tauto | |]; match goal with H : cstep _ _ _ |- _ => apply halts_cstep in H end; tauto. Qed.
Lemma halts_cplus s s' : cplus s s' -> (Halts s <-> Halts s').
Proof. induction 1; match goal with H : cstep _ _ _ |- _ => apply halts_cstep in H end; tauto. Qed.

Lemma cstep_det s e1 a e2 b : cstep s e1 a -> cstep s e2 b -> a = b /\ e1 = e2.
Proof.
  intros A B; inversion A; inversion B; subst; uniq; try congruence; try tauto; split; congruence.
Qed.

Lemma cstep_succ s e s' : cstep s e s' -> succ s s'.
Proof. inversion 1; subst; eauto using succ. Qed.
Lemma cplus_splus s s' : cplus s s' -> splus s s'.
Proof. induction 1; eauto using splus, cstep_succ. Qed.

Lemma splus_snoc s s' s'' : splus s s' -> succ s' s'' -> splus s s''.
Proof. induction 1; intros; eauto using splus. Qed.
Lemma splus_trans s s' s'' : splus s s' -> splus s' s'' -> splus s s''.
Proof. induction 1; intros; eauto using splus. Qed.
Lemma cplus_snoc s s' e s'' : cplus s s' -> cstep s' e s'' -> cplus s s''.
Proof. induction 1; intros; eauto using cplus. Qed.
Lemma cplus_trans s s' s'' : cplus s s' -> cplus s' s'' -> cplus s s''.
Proof. induction 1; intros; eauto using cplus. Qed.

Lemma csteps_app s l s' l' s'' : csteps s l s' -> csteps s' l' s'' -> csteps s (l ++ l') s''.
Proof. induction 1; simpl; intros; eauto using csteps. Qed.

(* No state on a cycle of successors halts: a halting derivation would contain itself. *)
Lemma succ_cycle_not_halts s : splus s s -> ~ Halts s.
Proof.
  intros C H. induction H as [s E|s s' e E H IH|s sn sj E Hn IHn Hj IHj].
  - inversion C as [a b S|a b c S R]; subst; inversion S; congruence.
  - apply IH. inversion C as [a b S|a b c S R]; subst; inversion S; subst; uniq.
    + assumption.
    + eapply splus_snoc; eauto using succ.
  - inversion C as [a b S|a b c S R]; subst; inversion S; subst; uniq.
    + apply IHn; assumption.
    + apply IHj; assumption.
    + apply IHn. eapply splus_snoc; eauto using succ.
    + apply IHj. eapply splus_snoc; eauto using succ.
Qed.
Lemma cycle_not_halts s : cplus s s -> ~ Halts s.
Proof. intros C; apply succ_cycle_not_halts, cplus_splus, C. Qed.

(* coinduction principle: a set of states closed under "is not a halt and has a successor in the
   set" contains no halting state (angelic choice at jumps). *)
Lemma safe_set (S : state -> Prop) :
  (forall s, S s -> act s <> AHalt /\ exists s', succ s s' /\ S s') ->
  forall s, S s -> ~ Halts s.
Proof.
  intros Hc s Hs Hh. revert Hs. induction Hh; intros Hs;
  destruct (Hc _ Hs) as [Hn [s'' [Hsucc HS]]]; try congruence;
  inversion Hsucc; subst; uniq; auto.
Qed.

(* ---------- the compositional judgement used by all code-level proofs ---------- *)
Definition runs (s : state) (l : list event) (s' : state) : Prop :=
  (Halts s <-> Halts s') /\ (~ Halts s' -> csteps s l s').

Lemma runs_refl s : runs s [] s.
Proof. split; [tauto | intros; constructor]. Qed.
Lemma runs_trans s l s' l' s'' : runs s l s' -> runs s' l' s'' -> runs s (l ++ l') s''.
Proof.
  intros [E1 P1] [E2 P2]; split; [tauto|].
  intros N. eapply csteps_app; [apply P1; tauto | apply P2; assumption].
Qed.
Definition evl (e : option event) : list event := match e with Some v => [v] | None => [] end.
Lemma runs_next s s' e : act s = ANext s' e -> runs s (evl e) s'.
Proof.
  intros A; split.
  - split; intro H; [eapply halts_next_inv; eauto | eapply H_next; eauto].
  - intros _. destruct e; simpl; [eapply CS_ev | eapply CS_tau]; try (apply C_next; eassumption); constructor.
Qed.
(* goto: j X; halt *)
Lemma runs_goto s sn sj : act s = AJump sn sj -> act sn = AHalt -> runs s [] sj.
Proof.
  intros A B; assert (Hn : Halts sn) by now apply H_halt.
  split.
  - split; intro H; [eapply halts_jump_inv in H; eauto; tauto | eapply H_jump; eauto].
  - intros _. eapply CS_tau; [eapply C_take; eauto | constructor].
Qed.
(* branch taken: the fall-through halts at once; the target's first instruction (the inverse
   condition) passes *)
Lemma runs_branch_taken s sn sj sj' : act s = AJump sn sj -> act sn = AHalt ->
  act sj = ANext sj' None -> runs s [] sj'.
Proof.
  intros A B C. replace (@nil event) with (@nil event ++ evl None) by reflexivity.
  eapply runs_trans; [eapply runs_goto; eauto | apply (runs_next _ _ None C)].
Qed.
(* branch not taken: the fall-through's conditional halt passes; the target's inverse halts.
   The inverse at the target is what makes Halts propagate backwards (<-): without it a later
   halt on the fall-through path would make the jump escape to the target instead. *)
Lemma runs_branch_fall s sn sj sn' : act s = AJump sn sj -> act sn = ANext sn' None ->
  act sj = AHalt -> runs s [] sn'.
Proof.
  intros A B C. assert (Hj : Halts sj) by now apply H_halt.
  split.
  - split; intro H.
    + eapply halts_jump_inv in H; eauto. destruct H as [H _]. eapply halts_next_inv; eauto.
    + eapply H_jump; eauto. eapply H_next; eauto.
  - intros N. eapply CS_tau.
    + eapply C_fall; eauto. intro Hn. apply N. eapply halts_next_inv; eauto.
    + eapply CS_tau; [apply C_next; eassumption | constructor].
Qed.
(* the general Turing jump, stated with Halts of the two futures *)
Lemma runs_jump_fall s sn sj : act s = AJump sn sj -> ~ Halts sn -> runs s [] sn /\ ~ Halts s.
Proof.
  intros A N. split; [split|].
  - split; intro H; [eapply halts_jump_inv in H; eauto; tauto | tauto].
  - intros _. eapply CS_tau; [eapply C_fall; eauto | constructor].
  - intro H. eapply halts_jump_inv in H; eauto; tauto.
Qed.
Lemma runs_jump_take s sn sj : act s = AJump sn sj -> Halts sn -> runs s [] sj.
Proof.
  intros A Hn. split.
  - split; intro H; [eapply halts_jump_inv in H; eauto; tauto | eapply H_jump; eauto].
  - intros _. eapply CS_tau; [eapply C_take; eauto | constructor].
Qed.

(* a run that ends in a non-halting state did not halt *)
Lemma runs_not_halts s l s' : runs s l s' -> ~ Halts s' -> ~ Halts s /\ csteps s l s'.
Proof. intros [E P] N; split; [tauto | auto]. Qed.

End TJ.
