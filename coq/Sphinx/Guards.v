(* Exactness of the run-time checks the code generator emits, for all operand values and every
   word size w >= 2: the condition tested by each guard is exactly the fault condition, and the
   guard idiom (Idioms.guard_idiom / vla_space_guard_idiom) turns it into control flow.

   Source shapes (hidc/codegen/generator.py):
     division guard    1169-1180   j ok; hne v,0; j division_by_zero; halt; ok: div/mod d,l,v
     index guard       1228-1238   j ok; hltu i,len; j out_of_bounds; halt; ok:
     VLA length guard  800-812     j ok; hleu len,max_length; j stack_overflow; halt; ok:
                                   (for every element type except BYTE, since commit 661e8e7;
                                    before it: only when the element type was not byte_sized)
     VLA space guard   817-834     j ok; sub r1,fp,ap; sub r1,r1,N'; hgeu r1,size; j stack_overflow; halt; ok:
     bool array size   1446-1455   add r,len,7; asr r,[r],3

   Former defect F4 (fixed by 661e8e7): WITHOUT a length guard `bool a[n]` with n in -7..-1 passes
   the space guard (vla_guard_bool_without_length_guard_refuted: why the guard is needed).
   With it (vla_bool_length_guard_rejects_negative, vla_bool_guards_sound) the BOOL guards are
   sound; they are not exact for the seven lengths max_signed-6..max_signed, which are always
   rejected (vla_bool_near_max_rejected, vla_bool_near_max_spurious_overflow).

   Section C of the component `idioms`. *)
From Coq Require Import ZArith List Bool Lia.
From HidV Require Import Machine Halts WordLemmas MemLemmas GenTables OpTables GenLayout Idioms.
Import ListNotations.
Open Scope Z_scope.
Ltac Zify.zify_post_hook ::= Z.to_euclidean_division_equations.

Section Guards.
Variable w : Z.
Hypothesis Hw : 2 <= w.

Notation W := (Machine.W w).
Notation wrap := (Machine.wrap w).
Notation sgn := (Machine.sgn w).
Notation lw := (Machine.lw w).
Notation sw := (Machine.sw w).
Notation inrange := (WordLemmas.inrange w).

Let Hw1 : 1 <= w. Proof. lia. Qed.

Lemma wrap_lit z : 0 <= z < 256 -> wrap z = z.
Proof. intros H. apply wrap_small. unfold WordLemmas.inrange. pose proof (W_ge w Hw1). lia. Qed.
Lemma sgn_lit z : 0 <= z < 128 -> sgn z = z.
Proof. intros H. apply sgn_small. pose proof (half_pos w Hw1). lia. Qed.

(* ---------- layout constants ---------- *)
Lemma max_signed_eq : max_signed w = W / 2 - 1.
Proof. unfold max_signed. rewrite Z.shiftl_1_l. now rewrite (W_half w Hw1). Qed.
Lemma max_length_bound d : 0 <= max_length w d <= max_signed w /\ max_length w d < W / 2.
Proof.
  pose proof (half_pos w Hw1). rewrite max_signed_eq. unfold max_length. rewrite max_signed_eq.
  destruct (byte_sized d).
  - lia.
  - assert (0 <= (W / 2 - 1) / w) by (apply Z.div_pos; lia).
    assert ((W / 2 - 1) / w <= W / 2 - 1) by (apply Z.div_le_upper_bound; nia).
    lia.
Qed.

(* the no-wrap side conditions of Idioms.stack_monotone_* from __post_init__'s stack bound:
   stack_end = (stack+5)*w + e where e (RA word + entry arguments, gen_lines 285-292) is NOT
   covered by the bound; any e <= W/2 still keeps every gap fp - ap below W *)
Theorem post_init_gap_no_wrap stack e ap fp : stack_size_rejected w stack = false ->
  0 <= e <= W / 2 -> 0 <= ap <= fp -> fp <= (stack + 5) * w + e ->
  (stack + 5) * w <= max_signed w /\ 0 <= fp - ap < W.
Proof.
  intros R E A F. unfold stack_size_rejected in R. rewrite Z.gtb_ltb in R. apply Z.ltb_ge in R.
  split; [exact R|]. rewrite max_signed_eq in R. pose proof (W_even w Hw1). lia.
Qed.

(* ================================================================================= *)
(* division guard                                                                     *)
(* ================================================================================= *)
(* `hne v,0` fires (guard passes) iff the divisor is non-zero -- as a word and as a signed value *)
Theorem div_guard_cond x : inrange x ->
  cond_holds w Cne x (wrap 0) = negb (x =? 0) /\ cond_holds w Cne x (wrap 0) = negb (sgn x =? 0).
Proof.
  intros Hx. rewrite (wrap_lit 0) by lia. cbn [cond_holds].
  rewrite (eqb_sgn w Hw1 x 0 Hx) by (unfold WordLemmas.inrange; pose proof (W_pos w Hw1); lia).
  rewrite (sgn_lit 0) by lia. split; reflexivity.
Qed.
(* the guarded instruction faults exactly when the guard does not pass *)
Lemma div_faults_iff op lx x : inrange x -> (op = Adiv \/ op = Amod) ->
  (arith w op lx x = None <-> x = 0).
Proof.
  intros Hx Hop. pose proof (div_guard_cond x Hx) as [E1 E2]. rewrite E1 in E2.
  destruct Hop; subst op; cbn [arith]; destruct (Z.eqb_spec (sgn x) 0) as [S|S];
    destruct (Z.eqb_spec x 0) as [Z0|Z0]; cbn [negb] in E2; try discriminate; split; intro; congruence.
Qed.
(* ================================================================================= *)
(* VLA length guard                                                                   *)
(* ================================================================================= *)
Theorem vla_length_cond len ML : inrange len -> 0 <= ML < W / 2 ->
  cond_holds w Cleu len (wrap ML) = (0 <=? sgn len) && (sgn len <=? ML).
Proof.
  intros Hl HM. pose proof (W_even w Hw1) as We.
  rewrite (wrap_small w ML) by (unfold WordLemmas.inrange; lia). cbn [cond_holds].
  unfold WordLemmas.inrange in Hl.
  destruct (sgn_cases w len Hl) as [[Hs E]|[Hs E]]; rewrite E.
  - destruct (Z.leb_spec 0 len); [reflexivity | lia].
  - destruct (Z.leb_spec 0 (len - W)); [lia|]. destruct (Z.leb_spec len ML); [lia | reflexivity].
Qed.
(* what the length guard buys: for word-sized elements the size computation `mul r,len,w`
   cannot overflow, and equals the layout's array_size *)
Theorem vla_length_no_overflow d len : byte_sized d = false -> frame_size w d = w -> inrange len ->
  0 <= sgn len <= max_length w d ->
  arith w Amul len (wrap w) = Some (array_size w d (sgn len)) /\
  0 <= array_size w d (sgn len) <= max_signed w.
Proof.
  intros Bs Fs Hl Hn. pose proof (half_pos w Hw1) as Hp.
  assert (Dn : dtype_eqb d DBOOL = false) by (revert Bs; destruct d; cbn; congruence).
  unfold array_size. rewrite Dn, Fs. unfold max_length in Hn. rewrite Bs in Hn.
  assert (Ww : w < W / 2).
  { rewrite (W_half w Hw1). pose proof (Z.pow_gt_lin_r 2 (8 * w - 1)). lia. }
  split.
  - cbn [arith]. rewrite (wrap_small w w) by (unfold WordLemmas.inrange; pose proof (W_even w Hw1); lia).
    rewrite (sgn_small w w) by lia. reflexivity.
  - split; [nia|]. assert (sgn len * w <= max_signed w / w * w) by nia.
    pose proof (Z.mul_div_le (max_signed w) w ltac:(lia)). lia.
Qed.

(* ================================================================================= *)
(* VLA space guard arithmetic                                                         *)
(* ================================================================================= *)
(* g = fp - ap (true gap), N' = static reserve, s = requested size.  No-wrap conditions:
   0 <= N' <= g < W (the entry guard gives N' <= g; the stack bound gives g < W/2). *)
Theorem vla_space_cond_exact g N' s : 0 <= N' <= g -> g < W -> 0 <= s ->
  cond_holds w Cgeu (wrap (wrap g - wrap N')) s = (s + N' <=? g).
Proof.
  intros G G' S. cbn [cond_holds].
  rewrite (wrap_small w g), (wrap_small w N'), (wrap_small w (g - N')) by (unfold WordLemmas.inrange; lia).
  destruct (Z.leb_spec s (g - N')); destruct (Z.leb_spec (s + N') g); try reflexivity; lia.
Qed.
(* when it passes, the allocation `add ap,ap,s` keeps the reserve: the new gap is >= N' *)
Corollary vla_space_sound g N' s : 0 <= N' <= g -> g < W -> 0 <= s ->
  cond_holds w Cgeu (wrap (wrap g - wrap N')) s = true -> N' <= g - s.
Proof. intros G G' S H. rewrite vla_space_cond_exact in H by assumption. apply Z.leb_le in H. lia. Qed.
(* HAZARD if the invariant N' <= g is ever broken: the subtraction wraps and small sizes pass *)
Theorem vla_space_cond_wrapped g N' s : 0 <= g < N' -> N' < W -> 0 <= s ->
  cond_holds w Cgeu (wrap (wrap g - wrap N')) s = (s <=? g - N' + W).
Proof.
  intros G G' S. cbn [cond_holds].
  rewrite (wrap_small w g), (wrap_small w N') by (unfold WordLemmas.inrange; lia).
  replace (wrap (g - N')) with (g - N' + W); [reflexivity|].
  unfold Machine.wrap. apply Z.mod_unique_pos with (q := -1); lia.
Qed.
(* BYTE arrays (byte_sized, no length guard, size = len): a "negative" length is an unsigned
   size >= W/2 > gap, so the space guard alone rejects it -- the generator's comment is right
   for BYTE *)
Theorem vla_byte_space_guard_sound g N' len : 0 <= N' <= g -> g < W / 2 -> inrange len ->
  cond_holds w Cgeu (wrap (wrap g - wrap N')) len = true -> 0 <= sgn len /\ sgn len + N' <= g.
Proof.
  intros G G' Hl H. pose proof (W_even w Hw1). unfold WordLemmas.inrange in Hl.
  rewrite vla_space_cond_exact in H by lia. apply Z.leb_le in H.
  destruct (sgn_cases w len Hl) as [[Hs E]|[Hs E]]; rewrite E; lia.
Qed.

(* ================================================================================= *)
(* BOOL arrays: size = (len+7)>>3 computed by `add r,len,7; asr r,[r],3`               *)
(* ================================================================================= *)
Definition bool_size_word (len : Z) : Z := wrap (Z.shiftr (sgn (wrap (len + 7))) 3).

(* it is the layout's array_size whenever len+7 does not overflow *)
Theorem bool_size_matches_layout len : inrange len -> sgn len + 7 < W / 2 ->
  bool_size_word len = wrap (array_size w DBOOL (sgn len)).
Proof.
  intros Hl Hb. unfold bool_size_word, array_size. cbn [dtype_eqb].
  replace (wrap (len + 7)) with (wrap (sgn len + 7)).
  - rewrite (sgn_wrap_small w Hw1); [reflexivity|]. pose proof (sgn_range w Hw1 len Hl). lia.
  - rewrite <- (sgn_lit 7) at 1 by lia. rewrite <- (wrap_add_sgn w Hw1 len 7); [reflexivity | exact Hl |].
    unfold WordLemmas.inrange. pose proof (W_ge w Hw1). lia.
Qed.
(* WHY BOOL NEEDS THE LENGTH GUARD: for the lengths -7..-1 (words W-7..W-1) the size is ZERO, at
   every word size *)
Theorem bool_size_of_small_negative k : 1 <= k <= 7 ->
  sgn (W - k) = - k /\ bool_size_word (W - k) = 0 /\ array_size w DBOOL (- k) = 0.
Proof.
  intros K. pose proof (W_ge w Hw1). pose proof (half_pos w Hw1). pose proof (W_even w Hw1).
  split; [|split].
  - unfold Machine.sgn. destruct (Z.ltb_spec (W - k) (W / 2)); lia.
  - unfold bool_size_word. replace (wrap (W - k + 7)) with (7 - k).
    + rewrite sgn_lit by lia.
      assert (S0 : Z.shiftr (7 - k) 3 = 0) by (rewrite Z.shiftr_div_pow2 by lia; apply Z.div_small; change (2 ^ 3) with 8; lia).
      rewrite S0. apply wrap_lit; lia.
    + unfold Machine.wrap. apply Z.mod_unique_pos with (q := 1); lia.
  - unfold array_size. cbn [dtype_eqb]. rewrite Z.shiftr_div_pow2 by lia. apply Z.div_small. change (2 ^ 3) with 8. lia.
Qed.
(* hence the space guard alone accepts them whatever the gap (given only the reserve invariant) *)
Theorem vla_bool_negative_passes_space_guard k g N' : 1 <= k <= 7 -> 0 <= N' <= g -> g < W ->
  cond_holds w Cgeu (wrap (wrap g - wrap N')) (bool_size_word (W - k)) = true.
Proof.
  intros K G G'. destruct (bool_size_of_small_negative k K) as [_ [Z0 _]]. rewrite Z0.
  rewrite vla_space_cond_exact by lia. apply Z.leb_le. lia.
Qed.


(* ---------- BOOL with the length guard (the code as emitted since 661e8e7) ---------- *)
Lemma max_length_bool : max_length w DBOOL = max_signed w.
Proof. reflexivity. Qed.
(* the length guard `hleu len, max_length BOOL` passes exactly on the non-negative lengths *)
Theorem vla_bool_length_cond len : inrange len ->
  cond_holds w Cleu len (wrap (max_length w DBOOL)) = (0 <=? sgn len).
Proof.
  intros Hl. pose proof (half_pos w Hw1). pose proof (sgn_range w Hw1 len Hl).
  rewrite (vla_length_cond len (max_length w DBOOL) Hl) by (rewrite max_length_bool, max_signed_eq; lia).
  rewrite max_length_bool, max_signed_eq.
  destruct (Z.leb_spec (sgn len) (W / 2 - 1)); [apply andb_true_r | lia].
Qed.
(* below max_signed-6 the size computation is exact, and a non-negative number below W/2 *)
Theorem bool_size_sound len : inrange len -> 0 <= sgn len -> sgn len + 7 < W / 2 ->
  bool_size_word len = array_size w DBOOL (sgn len) /\ 0 <= array_size w DBOOL (sgn len) < W / 2.
Proof.
  intros Hl Hn Hb. rewrite (bool_size_matches_layout len Hl Hb).
  assert (R : 0 <= array_size w DBOOL (sgn len) < W / 2).
  { unfold array_size. cbn [dtype_eqb]. rewrite Z.shiftr_div_pow2 by lia. change (2 ^ 3) with 8. lia. }
  split; [|exact R]. apply wrap_small. unfold WordLemmas.inrange. pose proof (W_even w Hw1). lia.
Qed.
(* W is a multiple of 256 *)
Lemma W_256 : exists K, 1 <= K /\ W = 256 * K.
Proof.
  exists (2 ^ (8 * w - 8)). split.
  - assert (0 < 2 ^ (8 * w - 8)) by (apply Z.pow_pos_nonneg; lia). lia.
  - unfold Machine.W. replace (8 * w) with (8 + (8 * w - 8)) at 1 by ring.
    rewrite Z.pow_add_r by lia. reflexivity.
Qed.
(* the seven lengths max_signed-6..max_signed: len+7 overflows into the sign bit, the arithmetic
   shift keeps it negative, and the size word is W - W/16 (the true size would be W/16 bytes) *)
Theorem bool_size_near_max len : inrange len -> W / 2 - 7 <= sgn len ->
  bool_size_word len = W - W / 16 /\ array_size w DBOOL (sgn len) = W / 16.
Proof.
  intros Hl Hn. destruct W_256 as [K [K1 WK]]. pose proof (W_even w Hw1) as We.
  pose proof (sgn_range w Hw1 len Hl) as Sr. unfold WordLemmas.inrange in Hl.
  assert (Sl : sgn len = len) by (destruct (sgn_cases w len Hl) as [[_ E]|[X E]]; [exact E | lia]).
  rewrite Sl in *.
  assert (H2 : W / 2 = 128 * K) by lia. assert (H16 : W / 16 = 16 * K) by lia.
  split.
  - unfold bool_size_word.
    rewrite (wrap_small w (len + 7)) by (unfold WordLemmas.inrange; lia).
    assert (Sg : sgn (len + 7) = len + 7 - W).
    { unfold Machine.sgn. destruct (Z.ltb_spec (len + 7) (W / 2)); lia. }
    rewrite Sg, Z.shiftr_div_pow2 by lia. change (2 ^ 3) with 8.
    assert (D : (len + 7 - W) / 8 = - (16 * K)) by lia. rewrite D.
    unfold Machine.wrap. rewrite H16. symmetry. apply Z.mod_unique_pos with (q := -1); lia.
  - unfold array_size. cbn [dtype_eqb]. rewrite Z.shiftr_div_pow2 by lia. change (2 ^ 3) with 8. lia.
Qed.
(* ... so the space guard rejects them at every gap the stack bound allows (g < W/2), although
   W/16 bytes might well be available: sound, not exact *)
Theorem vla_bool_near_max_rejected g N' len : inrange len -> W / 2 - 7 <= sgn len ->
  0 <= N' <= g -> g < W / 2 ->
  cond_holds w Cgeu (wrap (wrap g - wrap N')) (bool_size_word len) = false.
Proof.
  intros Hl Hn G G'. destruct (bool_size_near_max len Hl Hn) as [E _]. rewrite E.
  destruct W_256 as [K [K1 WK]]. pose proof (W_even w Hw1).
  rewrite vla_space_cond_exact by lia. apply Z.leb_gt. lia.
Qed.
(* the two BOOL guards together: if the length guard passed (0 <= sgn len) and the space guard
   passes (under the reserve invariant and the stack bound), then the size word is the layout's
   array_size of the length and it fits: the allocation keeps the reserve *)
Theorem vla_bool_guards_sound g N' len : inrange len -> 0 <= sgn len ->
  0 <= N' <= g -> g < W / 2 ->
  cond_holds w Cgeu (wrap (wrap g - wrap N')) (bool_size_word len) = true ->
  sgn len + 7 < W / 2 /\ bool_size_word len = array_size w DBOOL (sgn len) /\
  array_size w DBOOL (sgn len) + N' <= g.
Proof.
  intros Hl Hn G G' H.
  destruct (Z_lt_le_dec (sgn len + 7) (W / 2)) as [Lt|Ge].
  - destruct (bool_size_sound len Hl Hn Lt) as [E R]. split; [exact Lt | split; [exact E|]].
    rewrite E in H. pose proof (W_even w Hw1). rewrite vla_space_cond_exact in H by lia. apply Z.leb_le in H. exact H.
  - rewrite vla_bool_near_max_rejected in H by (assumption || lia). discriminate.
Qed.
(* and the converse below the seven top lengths: exactness *)
Theorem vla_bool_space_guard_exact g N' len : inrange len -> 0 <= sgn len -> sgn len + 7 < W / 2 ->
  0 <= N' <= g -> g < W ->
  cond_holds w Cgeu (wrap (wrap g - wrap N')) (bool_size_word len) = (array_size w DBOOL (sgn len) + N' <=? g).
Proof.
  intros Hl Hn Lt G G'. destruct (bool_size_sound len Hl Hn Lt) as [E R]. rewrite E.
  apply vla_space_cond_exact; lia.
Qed.

(* ================================================================================= *)
(* the guards as idioms (from here on `code` is in scope)                              *)
(* ================================================================================= *)
Variable code : Z -> option instr.
Variable cmem : mem.
Notation act := (Machine.act w code cmem).
Notation Halts := (HidV.Sphinx.Halts.Halts act).
Notation runs := (HidV.Sphinx.Halts.runs act).
Notation oval := (Idioms.oval w cmem).

(* division guard *)
(* p: j OK; p+1: hne v,0; p+2: j DZ; p+3: halt; p+4: div/mod d,l,v *)
Theorem div_guard_idiom p m ok err e v x op d l lx :
  code p = Some (IJ ok) -> oval m ok = Some (p + 4) ->
  code (p + 1) = Some (IHc Cne v (Imm 0)) -> oval m v = Some x -> inrange x ->
  code (p + 2) = Some (IJ err) -> code (p + 3) = Some IHalt -> oval m err = Some e ->
  code (p + 4) = Some (IArith op (St d) l v) -> (op = Adiv \/ op = Amod) -> oval m l = Some lx ->
  inb m d w = true ->
  (* passes iff divisor <> 0; then memory is unchanged and the division does not fault *)
  (x <> 0 -> runs (mk p m) [] (mk (p + 4) m) /\
             exists r, arith w op lx x = Some r /\ act (mk (p + 4) m) = ANext (mk (p + 4 + 1) (sw m d r)) None) /\
  (* divisor = 0 and the stub is absorbing: committed to the stub, nothing written, no halt;
     the unguarded instruction would have faulted *)
  (x = 0 -> ~ Halts (mk e m) ->
     runs (mk p m) [] (mk e m) /\ ~ Halts (mk p m) /\ act (mk (p + 4) m) = AFault).
Proof.
  intros Cj Ok Cc Av Hx Ce Ch Er Cd Hop Al Id.
  pose proof (guard_idiom w code cmem p m ok err e Cne v (Imm 0) x (wrap 0) Cj Ok Cc Av (oval_imm w cmem m 0) Ce Ch Er)
    as [Gp [Gf _]].
  destruct (div_guard_cond x Hx) as [E _]. rewrite E in Gp, Gf.
  split.
  - intros Nz. split.
    + apply Gp. destruct (Z.eqb_spec x 0); [contradiction | reflexivity].
    + destruct (arith w op lx x) as [r|] eqn:Ar.
      * exists r. split; [reflexivity|]. eapply act_arith; eauto.
      * exfalso. apply Nz. apply (div_faults_iff op lx x Hx Hop). exact Ar.
  - intros Z0 N. destruct (Gf) as [R N0]; [subst x; reflexivity | exact N |].
    split; [exact R | split; [exact N0|]].
    unfold Machine.act; cbn [pc]; rewrite Cd; cbn [exec]. rewrite !val_oval; cbn [mm]. rewrite Al, Av.
    replace (arith w op lx x) with (@None Z); [reflexivity|].
    symmetry. apply (div_faults_iff op lx x Hx Hop). exact Z0.
Qed.

(* index guard *)
(* p: j OK; p+1: hltu i,len; p+2: j OOB; p+3: halt; OK = p+4.
   For a length 0 <= len <= max_signed the guard passes iff 0 <= sgn i < len. *)
Theorem index_guard_idiom p m ok err e io lo i len :
  code p = Some (IJ ok) -> oval m ok = Some (p + 4) ->
  code (p + 1) = Some (IHc Cltu io lo) -> oval m io = Some i -> oval m lo = Some len ->
  inrange i -> 0 <= len < W / 2 ->
  code (p + 2) = Some (IJ err) -> code (p + 3) = Some IHalt -> oval m err = Some e ->
  (0 <= sgn i < len -> runs (mk p m) [] (mk (p + 4) m)) /\
  (~ (0 <= sgn i < len) -> ~ Halts (mk e m) -> runs (mk p m) [] (mk e m) /\ ~ Halts (mk p m)).
Proof.
  intros Cj Ok Cc Ai Al Hi Hl Ce Ch Er.
  pose proof (guard_idiom w code cmem p m ok err e Cltu io lo i len Cj Ok Cc Ai Al Ce Ch Er) as [Gp [Gf _]].
  rewrite (index_check_exact w Hw1 i len Hi Hl) in Gp, Gf.
  split; intros X.
  - apply Gp. apply andb_true_intro. split; [apply Z.leb_le | apply Z.ltb_lt]; lia.
  - apply Gf. destruct (Z.leb_spec 0 (sgn i)); destruct (Z.ltb_spec (sgn i) len); cbn; try reflexivity. lia.
Qed.

(* VLA length guard *)
(* p: j OK; p+1: hleu len,max_length(d); p+2: j SO; p+3: halt; OK = p+4 *)
Theorem vla_length_guard_idiom p m ok err e lo len d :
  code p = Some (IJ ok) -> oval m ok = Some (p + 4) ->
  code (p + 1) = Some (IHc Cleu lo (Imm (max_length w d))) -> oval m lo = Some len -> inrange len ->
  code (p + 2) = Some (IJ err) -> code (p + 3) = Some IHalt -> oval m err = Some e ->
  (0 <= sgn len <= max_length w d -> runs (mk p m) [] (mk (p + 4) m)) /\
  (~ (0 <= sgn len <= max_length w d) -> ~ Halts (mk e m) -> runs (mk p m) [] (mk e m) /\ ~ Halts (mk p m)).
Proof.
  intros Cj Ok Cc Al Hl Ce Ch Er. pose proof (max_length_bound d) as [[M0 _] M1].
  pose proof (guard_idiom w code cmem p m ok err e Cleu lo (Imm (max_length w d)) len (wrap (max_length w d))
                Cj Ok Cc Al (oval_imm w cmem m _) Ce Ch Er) as [Gp [Gf _]].
  rewrite (vla_length_cond len (max_length w d) Hl) in Gp, Gf by lia.
  split; intros X.
  - apply Gp. apply andb_true_intro. split; apply Z.leb_le; lia.
  - apply Gf. destruct (Z.leb_spec 0 (sgn len)); destruct (Z.leb_spec (sgn len) (max_length w d)); cbn; try reflexivity. lia.
Qed.
(* BOOL length guard (emitted since 661e8e7): every negative length goes to the stub, every
   non-negative one passes with memory unchanged *)
Theorem vla_bool_length_guard_rejects_negative p m ok err e lo len :
  code p = Some (IJ ok) -> oval m ok = Some (p + 4) ->
  code (p + 1) = Some (IHc Cleu lo (Imm (max_length w DBOOL))) -> oval m lo = Some len -> inrange len ->
  code (p + 2) = Some (IJ err) -> code (p + 3) = Some IHalt -> oval m err = Some e ->
  (sgn len < 0 -> ~ Halts (mk e m) -> runs (mk p m) [] (mk e m) /\ ~ Halts (mk p m)) /\
  (0 <= sgn len -> runs (mk p m) [] (mk (p + 4) m)).
Proof.
  intros Cj Ok Cc Al Hl Ce Ch Er.
  destruct (vla_length_guard_idiom p m ok err e lo len DBOOL Cj Ok Cc Al Hl Ce Ch Er) as [Gp Gf].
  pose proof (sgn_range w Hw1 len Hl). pose proof max_signed_eq.
  split; intros X.
  - apply Gf. lia.
  - apply Gp. rewrite max_length_bool. lia.
Qed.

(* BOOL size computation *)
Theorem bool_size_idiom p m r lo len :
  code p = Some (IArith Aadd (St r) lo (Imm 7)) ->
  code (p + 1) = Some (IArith Aasr (St r) (St r) (Imm 3)) ->
  oval m lo = Some len -> 0 <= r -> inb m r w = true ->
  let m' := sw (sw m r (len + 7)) r (Z.shiftr (sgn (wrap (len + 7))) 3) in
  runs (mk p m) [] (mk (p + 2) m') /\ lw m' r = bool_size_word len.
Proof.
  intros C0 C1 Al Hr I m'.
  assert (W7 : wrap 7 = 7) by (apply wrap_lit; lia).
  assert (W3 : wrap 3 = 3) by (apply wrap_lit; lia).
  split.
  - eapply runs_tau.
    { eapply act_arith; [exact C0 | exact Al | apply oval_imm | reflexivity | exact I]. }
    rewrite W7. eapply runs_tau.
    { eapply act_arith; [exact C1 | apply oval_st_sw_same; assumption | apply oval_imm | | now rewrite inb_sw].
      cbn [arith]. rewrite W3, (sgn_lit 3) by lia. cbn [Z.leb Z.compare].
      rewrite Z.min_l by lia. reflexivity. }
    pcn. apply runs_refl.
  - unfold m', bool_size_word. now rewrite lw_sw_same by (assumption || lia).
Qed.

End Guards.

(* ================================================================================= *)
(* why BOOL needs the length guard (former defect F4): WITHOUT it the guards do not reject
   `bool a[-1]` -- machine witness at w = 2                                            *)
(* ================================================================================= *)
(* state: ap=[0], fp=[2], r0=[4], r1=[6], length slot [8]; stub `stack_overflow` at 9 (absorbing).
   The sequence emitted for a BOOL ArrayInitializer BEFORE commit 661e8e7 (checked build; no length
   guard because byte_sized BOOL = true), from the size computation on: *)
Definition f4_code : Z -> option instr := code_of [
  IArith Aadd (St 4) (St 8) (Imm 7);        (* 0  add [r0],len,7           *)
  IArith Aasr (St 4) (St 4) (Imm 3);        (* 1  asr [r0],[r0],3          *)
  IJ (Imm 8);                               (* 2  j no_overflow            *)
  IArith Asub (St 6) (St 2) (St 0);         (* 3  sub [r1],[fp],[ap]       *)
  IArith Asub (St 6) (St 6) (Imm 0);        (* 4  sub [r1],[r1],N'         *)
  IHc Cgeu (St 6) (St 4);                   (* 5  hgeu [r1],[r0]           *)
  IJ (Imm 9);                               (* 6  j stack_overflow         *)
  IHalt;                                    (* 7  halt                     *)
  IArith Aadd (St 0) (St 0) (St 4);         (* 8  no_overflow: add [ap],[ap],[r0] *)
  IJ (Imm 9); IHalt ].                      (* 9  stack_overflow stub (absorbing) *)
(* fp = ap = 0: the stack is EXACTLY full (gap 0); length word = 65535 = -1 *)
Definition f4_mem : mem := sw 2 (zmem 16) 8 65535.

Theorem vla_guard_bool_without_length_guard_refuted :
  byte_sized DBOOL = true /\                          (* so no `hleu len,max_length` was emitted *)
  sgn 2 (lw 2 f4_mem 8) = -1 /\                       (* the requested length is -1 *)
  array_size 2 DBOOL (-1) = 0 /\
  exists m',
    runs (act 2 f4_code (zmem 0)) (mk 0 f4_mem) [] (mk 8 m') /\   (* the space guard PASSES with a full stack *)
    lw 2 m' 4 = 0 /\                                   (* size 0: `add [ap],[ap],[r0]` allocates nothing *)
    lw 2 m' 0 = lw 2 f4_mem 0 /\ lw 2 m' 2 = lw 2 f4_mem 2 /\      (* ap, fp as before *)
    lw 2 m' 8 = 65535 /\                               (* the array's length word is 65535 *)
    (* every index below 65535 passes check_index *)
    (forall i, 0 <= i < 65535 -> cond_holds 2 Cltu i (lw 2 m' 8) = true).
Proof.
  split; [reflexivity | split; [reflexivity | split; [reflexivity|]]].
  set (A := act 2 f4_code (zmem 0)).
  set (m2 := sw 2 (sw 2 f4_mem 4 (65535 + 7)) 4 0).
  exists m2.
  assert (R01 : runs A (mk 0 f4_mem) [] (mk 2 m2)).
  { eapply (runs_tau 2 f4_code (zmem 0)); [reflexivity|].
    eapply (runs_tau 2 f4_code (zmem 0)); [reflexivity|]. apply runs_refl. }
  assert (Rg : runs A (mk 2 m2) [] (mk 8 m2)).
  { pose proof (vla_space_guard_idiom 2 ltac:(lia) f4_code (zmem 0) 2 m2 (Imm 8) (Imm 9) 9 6 2 0 0 (St 4) 0) as G.
    refine (proj1 (G _ _ _ _ _ _ _ _ _ _ _ _ _) _); try reflexivity; try lia; vm_compute; intro; discriminate. }
  split; [|split; [|split; [|split; [|split]]]].
  - change (@nil event) with (@nil event ++ []). eapply runs_trans; eauto.
  - reflexivity.
  - reflexivity.
  - reflexivity.
  - reflexivity.
  - intros i Hi. replace (lw 2 m2 8) with 65535 by reflexivity. cbn [cond_holds]. apply Z.ltb_lt. lia.
Qed.

(* ================================================================================= *)
(* Satisfiability examples (w = 2)                                                     *)
(* ================================================================================= *)
Section Examples.
Let cm := zmem 0.
Notation A c := (act 2 c cm).
Let ir2 x : 0 <= x < 65536 -> inrange 2 x. Proof. intros H. exact H. Qed.

(* [4] = 6 / [6]: divisor [6] = 3 passes; divisor 0 goes to the stub at 5 *)
Definition m_div (dv : Z) : mem := sw 2 (sw 2 (zmem 16) 4 6) 6 dv.
Definition c_div := code_of [IJ (Imm 4); IHc Cne (St 6) (Imm 0); IJ (Imm 5); IHalt; IArith Adiv (St 4) (St 4) (St 6); IJ (Imm 5); IHalt].
Example div_guard_ex_pass : runs (A c_div) (mk 0 (m_div 3)) [] (mk 4 (m_div 3)).
Proof.
  destruct (div_guard_idiom 2 ltac:(lia) c_div cm 0 (m_div 3) (Imm 4) (Imm 5) 5 (St 6) 3 Adiv 4 (St 4) 6) as [X _];
    try reflexivity; try (left; reflexivity); try (apply ir2; lia).
  apply X. lia.
Qed.
Example div_guard_ex_fail : ~ Halts (A c_div) (mk 0 (m_div 0)).
Proof.
  destruct (div_guard_idiom 2 ltac:(lia) c_div cm 0 (m_div 0) (Imm 4) (Imm 5) 5 (St 6) 0 Adiv 4 (St 4) 6) as [_ X];
    try reflexivity; try (left; reflexivity); try (apply ir2; lia).
  apply X; [reflexivity|]. apply stub_absorbing; [reflexivity | lia].
Qed.

(* index [4] against length [6] = 3 *)
Definition m_idx (i : Z) : mem := sw 2 (sw 2 (zmem 16) 4 i) 6 3.
Definition c_idx := code_of [IJ (Imm 4); IHc Cltu (St 4) (St 6); IJ (Imm 5); IHalt; IFlag 0; IJ (Imm 5); IHalt].
Example index_guard_ex_pass : runs (A c_idx) (mk 0 (m_idx 2)) [] (mk 4 (m_idx 2)).
Proof.
  destruct (index_guard_idiom 2 ltac:(lia) c_idx cm 0 (m_idx 2) (Imm 4) (Imm 5) 5 (St 4) (St 6) 2 3) as [X _];
    try reflexivity; try (apply ir2; lia); try zc.
  apply X. zc.
Qed.
Example index_guard_ex_fail : ~ Halts (A c_idx) (mk 0 (m_idx 65535)).   (* index -1 *)
Proof.
  destruct (index_guard_idiom 2 ltac:(lia) c_idx cm 0 (m_idx 65535) (Imm 4) (Imm 5) 5 (St 4) (St 6) 65535 3) as [_ X];
    try reflexivity; try (apply ir2; lia); try zc.
  apply X.
  - vm_compute. intros [H _]. apply H. reflexivity.
  - apply stub_absorbing; [reflexivity | lia].
Qed.

(* int a[[4]] at w = 2: max_length = 16383 *)
Definition m_len (n : Z) : mem := sw 2 (zmem 16) 4 n.
Definition c_len := code_of [IJ (Imm 4); IHc Cleu (St 4) (Imm (max_length 2 DINT)); IJ (Imm 5); IHalt; IFlag 0; IJ (Imm 5); IHalt].
Example vla_length_guard_ex_pass : runs (A c_len) (mk 0 (m_len 16383)) [] (mk 4 (m_len 16383)).
Proof.
  destruct (vla_length_guard_idiom 2 ltac:(lia) c_len cm 0 (m_len 16383) (Imm 4) (Imm 5) 5 (St 4) 16383 DINT) as [X _];
    try reflexivity; try (apply ir2; lia).
  apply X. zc.
Qed.
Example vla_length_guard_ex_fail : ~ Halts (A c_len) (mk 0 (m_len 16384)).
Proof.
  destruct (vla_length_guard_idiom 2 ltac:(lia) c_len cm 0 (m_len 16384) (Imm 4) (Imm 5) 5 (St 4) 16384 DINT) as [_ X];
    try reflexivity; try (apply ir2; lia).
  apply X.
  - vm_compute. intros [_ H]. apply H. reflexivity.
  - apply stub_absorbing; [reflexivity | lia].
Qed.
Example vla_length_no_overflow_ex : arith 2 Amul 16383 (wrap 2 2) = Some 32766 /\ max_signed 2 = 32767.
Proof. split; reflexivity. Qed.
Example vla_space_cond_ex : cond_holds 2 Cgeu (wrap 2 (wrap 2 100 - wrap 2 10)) 90 = true
  /\ cond_holds 2 Cgeu (wrap 2 (wrap 2 100 - wrap 2 10)) 91 = false
  /\ cond_holds 2 Cgeu (wrap 2 (wrap 2 5 - wrap 2 10)) 91 = true.       (* broken invariant: wraps *)
Proof. repeat split; reflexivity. Qed.
Example bool_size_ex : bool_size_word 2 9 = 2 /\ bool_size_word 2 65535 = 0 /\ bool_size_word 2 65529 = 0
  /\ bool_size_word 2 65528 = 65535.
Proof. repeat split; reflexivity. Qed.

(* C18 side remark: __post_init__'s bound (stack+5)*w <= max_signed counts the five registers
   but not the RA word and the entry arguments that gen_lines places between the stack and
   stack_end: at w = 2, stack = 16378 is accepted and stack_end = (5+16378+1)*2 = 32768 = W/2,
   i.e. the initial fp is NEGATIVE as a signed word. *)
Example stack_bound_edge : stack_size_rejected 2 16378 = false /\ (5 + 16378 + 1) * 2 = W 2 / 2
  /\ sgn 2 ((5 + 16378 + 1) * 2) = -32768.
Proof. repeat split; reflexivity. Qed.
Example post_init_gap_no_wrap_ex : (100 + 5) * 2 <= max_signed 2 /\ 0 <= 212 - 10 < W 2.
Proof. apply (post_init_gap_no_wrap 2 ltac:(lia) 100 2 10 212); try reflexivity; zc. Qed.
Example bool_size_idiom_ex : let c := code_of [IArith Aadd (St 4) (St 8) (Imm 7); IArith Aasr (St 4) (St 4) (Imm 3)] in
  exists m', runs (A c) (mk 0 (sw 2 (zmem 16) 8 9)) [] (mk 2 m') /\ lw 2 m' 4 = 2.
Proof.
  intro c. destruct (bool_size_idiom 2 ltac:(lia) c cm 0 (sw 2 (zmem 16) 8 9) 4 (St 8) 9) as [R V]; try reflexivity; try lia.
  eexists. split; [exact R | exact V].
Qed.
Example bool_size_matches_layout_ex : bool_size_word 2 9 = wrap 2 (array_size 2 DBOOL (sgn 2 9)).
Proof. apply (bool_size_matches_layout 2 ltac:(lia)); [apply ir2; lia | zc]. Qed.
Example vla_bool_negative_passes_space_guard_ex :
  cond_holds 2 Cgeu (wrap 2 (wrap 2 0 - wrap 2 0)) (bool_size_word 2 (W 2 - 1)) = true.
Proof. apply (vla_bool_negative_passes_space_guard 2 ltac:(lia)); lia || zc. Qed.
Example vla_byte_space_guard_sound_ex : 0 <= sgn 2 90 /\ sgn 2 90 + 10 <= 100.
Proof. apply (vla_byte_space_guard_sound 2 ltac:(lia) 100 10 90); try reflexivity; try lia; try (apply ir2; lia); zc. Qed.
Example vla_space_sound_ex : 10 <= 100 - 90.
Proof. apply (vla_space_sound 2 100 10 90); try reflexivity; try lia; zc. Qed.
(* bool a[-1] with the length guard (w = 2): to the stub; bool a[9]: passes *)
Definition c_blen := code_of [IJ (Imm 4); IHc Cleu (St 4) (Imm (max_length 2 DBOOL)); IJ (Imm 5); IHalt; IFlag 0; IJ (Imm 5); IHalt].
Example vla_bool_length_guard_rejects_negative_ex : ~ Halts (A c_blen) (mk 0 (m_len 65535)).
Proof.
  destruct (vla_bool_length_guard_rejects_negative 2 ltac:(lia) c_blen cm 0 (m_len 65535) (Imm 4) (Imm 5) 5 (St 4) 65535) as [X _];
    try reflexivity; try (apply ir2; lia).
  apply X; [reflexivity|]. apply stub_absorbing; [reflexivity | lia].
Qed.
Example vla_bool_length_guard_passes_ex : runs (A c_blen) (mk 0 (m_len 9)) [] (mk 4 (m_len 9)).
Proof.
  destruct (vla_bool_length_guard_rejects_negative 2 ltac:(lia) c_blen cm 0 (m_len 9) (Imm 4) (Imm 5) 5 (St 4) 9) as [_ X];
    try reflexivity; try (apply ir2; lia).
  apply X. zc.
Qed.
Example bool_size_sound_ex : bool_size_word 2 32760 = array_size 2 DBOOL 32760 /\ array_size 2 DBOOL 32760 = 4095.
Proof. split; reflexivity. Qed.
Example bool_size_near_max_ex : bool_size_word 2 32761 = 61440 /\ bool_size_word 2 32767 = 61440 /\ W 2 - W 2 / 16 = 61440.
Proof. repeat split; reflexivity. Qed.
Example vla_bool_guards_sound_ex : sgn 2 9 + 7 < W 2 / 2 /\ bool_size_word 2 9 = array_size 2 DBOOL (sgn 2 9) /\ array_size 2 DBOOL (sgn 2 9) + 10 <= 100.
Proof. apply (vla_bool_guards_sound 2 ltac:(lia) 100 10 9); try reflexivity; try lia; try (apply ir2; lia); zc. Qed.
End Examples.

(* Inexactness (safe direction) of the BOOL guards at the top seven lengths, witness at w = 2:
   `bool a[32767]` needs 4096 bytes; a stack of 10000 words (accepted by __post_init__) with a gap
   of 20000 bytes has room, yet the space guard sees size 61440 and reports stack_overflow. *)
Theorem vla_bool_near_max_spurious_overflow :
  stack_size_rejected 2 10000 = false /\
  cond_holds 2 Cleu 32767 (wrap 2 (max_length 2 DBOOL)) = true /\          (* the length guard passes *)
  array_size 2 DBOOL (sgn 2 32767) = 4096 /\ 4096 + 0 <= 20000 /\          (* it would fit *)
  (* ... and is rejected *)
  cond_holds 2 Cgeu (wrap 2 (wrap 2 20000 - wrap 2 0)) (bool_size_word 2 32767) = false.
Proof. repeat split; try reflexivity. vm_compute; intro; discriminate. Qed.
