(* Symbolic execution of the regenerated runtime library `GenStdlib.stdlib_code w B`:
   - `act_code_at`: the action at `B + k` is `exec` of the k-th instruction of the list (looked up
     by computation, never copied);
   - tactic `at_pc CA k`: rewrite `act (mk p m)` into the one-step unfolding of that instruction
     and discharge the in-bounds tests `inb` from hypotheses about the frame and `msize`;
   - the frame predicate `agree` (equal outside r0..r2, same size) with its load/store lemmas;
   - `bytes_from`: the bytes of a memory range as a list.
   Everything is for an arbitrary word size `w >= 2`. *)
From Coq Require Import ZArith List Bool Lia.
From HidV Require Import Machine Halts WordLemmas MemLemmas GenStdlib.
Import ListNotations.
Open Scope Z_scope.
Ltac Zify.zify_post_hook ::= Z.to_euclidean_division_equations.

(* ---------- small arithmetic facts used by every routine ---------- *)
Lemma W_ge_65536 w : 2 <= w -> 65536 <= Machine.W w.
Proof. intros Hw. unfold Machine.W. change 65536 with (2 ^ 16). apply Z.pow_le_mono_r; lia. Qed.

Lemma wrap_id w x : 0 <= x < Machine.W w -> Machine.wrap w x = x.
Proof. intros H. apply wrap_small. exact H. Qed.

Lemma msize_sb m a v : msize (Machine.sb m a v) = msize m.
Proof. reflexivity. Qed.
Lemma inb_sb m a v b n : inb (Machine.sb m a v) b n = inb m b n.
Proof. reflexivity. Qed.

(* a byte stored in a register reads back as itself *)
Lemma lw_sw_byte w m a v : 1 <= w -> 0 <= a -> 0 <= v < 256 -> Machine.lw w (Machine.sw w m a v) a = v.
Proof.
  intros Hw Ha Hv. rewrite (lw_sw_same w Hw m a v Ha). apply wrap_id. pose proof (W_ge w Hw). lia.
Qed.

(* ---------- code lookup ---------- *)
Section Lookup.
Variables (w : Z) (code : Z -> option instr) (cmem : mem) (B : Z).
Hypothesis CA : forall k, 0 <= k < stdlib_len ->
  code (B + k) = nth_error (stdlib_code w B) (Z.to_nat k).

Lemma act_code_at k i p m : p = B + k -> 0 <= k < stdlib_len ->
  nth_error (stdlib_code w B) (Z.to_nat k) = Some i ->
  Machine.act w code cmem (mk p m) = Machine.exec w cmem i (mk p m).
Proof. intros -> Hk Hn. unfold Machine.act; cbn [pc]. rewrite (CA k Hk), Hn. reflexivity. Qed.
End Lookup.

(* the k-th instruction of the regenerated list, by computation *)
Ltac stdlib_lookup k :=
  let n := eval vm_compute in (Z.to_nat k) in
  change (Z.to_nat k) with n;
  cbv [nth_error stdlib_code]; reflexivity.

Ltac exec_simpl :=
  cbn [Machine.exec Machine.val Machine.load Machine.store Machine.setdest
       Machine.cond_holds Machine.arith pc mm];
  unfold Machine.nxt, Machine.nxtm; cbn [pc mm].

(* in-bounds side conditions: from hypotheses on F / msize, through any number of stores *)
Ltac inb_solve := rewrite ?msize_sw, ?msize_sb; lia.
Ltac exec_inb :=
  repeat (first [ rewrite inb_sw | rewrite inb_sb | rewrite inb_true by inb_solve ]; exec_simpl).

(* `at_pc CA k`: the goal mentions `act w code cmem (mk p m)` with `p = B + k` provable by lia;
   afterwards that `act` is replaced by the unfolding of the k-th stdlib instruction. *)
Ltac at_pc CA k :=
  erewrite (act_code_at _ _ _ _ CA k);
  [ | lia | unfold stdlib_len; lia | stdlib_lookup k ];
  exec_simpl; exec_inb.

(* fold `B + a + b` with literal a b *)
Ltac norm_pc := repeat match goal with
  | |- context [?B + ?a + ?b] =>
      let c := eval vm_compute in (a + b) in
      match c with Zpos _ => idtac | Z0 => idtac end;
      replace (B + a + b) with (B + c) by ring
  end.

(* ---------- frame predicate: same size, equal outside r0..r2 ---------- *)
Definition agree (w : Z) (m m0 : mem) : Prop :=
  msize m = msize m0 /\ forall x, 0 <= x -> (x < 2 * w \/ 5 * w <= x) -> getb m x = getb m0 x.

Fixpoint bytes_from (m0 : mem) (p : Z) (n : nat) : list Z :=
  match n with O => [] | S k => getb m0 p :: bytes_from m0 (p + 1) k end.

Lemma bytes_from_length m p n : length (bytes_from m p n) = n.
Proof. revert p; induction n as [|n IH]; intros p; cbn [bytes_from length]; [reflexivity | now rewrite IH]. Qed.
Lemma bytes_from_ext n : forall m m' p, (forall x, p <= x < p + Z.of_nat n -> getb m x = getb m' x) ->
  bytes_from m p n = bytes_from m' p n.
Proof.
  induction n as [|n IH]; intros m m' p H; cbn [bytes_from]; [reflexivity|].
  rewrite (H p) by lia. f_equal. apply IH. intros x Hx. apply H. lia.
Qed.
Lemma bytes_from_app n1 : forall n2 m p,
  bytes_from m p (n1 + n2) = bytes_from m p n1 ++ bytes_from m (p + Z.of_nat n1) n2.
Proof.
  induction n1 as [|n1 IH]; intros n2 m p; cbn [bytes_from Nat.add app].
  - f_equal. lia.
  - f_equal. rewrite IH. f_equal. f_equal. lia.
Qed.

Section Agree.
Variable w : Z.
Hypothesis Hw : 2 <= w.
Notation lw := (Machine.lw w).
Notation sw := (Machine.sw w).
Notation agree := (agree w).

Lemma agree_refl m : agree m m.
Proof. split; [reflexivity | intros; reflexivity]. Qed.
Lemma agree_trans m1 m2 m3 : agree m1 m2 -> agree m2 m3 -> agree m1 m3.
Proof.
  intros [S1 A1] [S2 A2]; split; [congruence|]. intros x Hx Hr. rewrite (A1 x Hx Hr). apply A2; assumption.
Qed.
Lemma agree_sw m m0 a v : agree m m0 -> (a = 2 * w \/ a = 3 * w \/ a = 4 * w) -> agree (sw m a v) m0.
Proof.
  intros [S A] Ha; split; [rewrite msize_sw; exact S|]. intros x Hx Hr. unfold Machine.sw.
  rewrite storen_outside; [apply A; assumption | lia | lia |]. rewrite wn_w by lia. lia.
Qed.
Lemma agree_lw m m0 a : agree m m0 -> 0 <= a -> (a + w <= 2 * w \/ 5 * w <= a) -> lw m a = lw m0 a.
Proof.
  intros [S A] Ha0 Ha. unfold Machine.lw. apply loadn_ext. intros x Hx. rewrite wn_w in Hx by lia.
  apply A; lia.
Qed.
Lemma agree_lb m m0 a : agree m m0 -> 0 <= a -> (a < 2 * w \/ 5 * w <= a) -> Machine.lb m a = Machine.lb m0 a.
Proof. intros [S A] Ha0 Ha. apply A; assumption. Qed.
Lemma agree_msize m m0 : agree m m0 -> msize m = msize m0.
Proof. intros [S _]; exact S. Qed.

(* register-file facts after a word store into one register *)
Lemma lw_sw_reg_other m a v b : 0 <= a -> 0 <= b -> (b + w <= a \/ a + w <= b) -> lw (sw m a v) b = lw m b.
Proof. intros. apply lw_sw_other; try lia. Qed.
End Agree.
