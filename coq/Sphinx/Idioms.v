(* Control idioms of the code generator, as machine-level theorems about ARBITRARY surrounding
   code: the code memory is an abstract function `code : Z -> option instr`, constrained only by
   hypotheses `code (p + k) = Some ...` for the instructions of the idiom at position p; what the
   surrounding code does enters only through `Halts`/`runs` of the states entering it.
   All statements hold for every word size w >= 2 (most for w >= 1) and all operand values.

   Source shapes (hidc/codegen/generator.py):
     goto                 1389-1392     j X; halt
     return               530-549       j [r1]; halt
     bool_expr_branch     1048-1127     j L; hcc a,b; ... L: hcc^-1 a,b
     guards               356-362, 800-837, 1169-1180, 1228-1238
                                        j OK; [prelude;] hcc a,b; j ERR; halt; OK:
     IntToBool            660-668       j N; hleu [r],1; mov [r],1; N: hgtu [r],1
     un_op_reg_arg        1182-1193     sub r,0,x / sub r,1,x

   Section A of the component `idioms`; B is TimeTravel.v, C is Guards.v. *)
From Coq Require Import ZArith List Bool Lia.
From HidV Require Import Machine Halts WordLemmas MemLemmas GenTables OpTables.
Import ListNotations.
Open Scope Z_scope.
Ltac Zify.zify_post_hook ::= Z.to_euclidean_division_equations.

(* concrete code memories for the satisfiability examples *)
Definition code_of (l : list instr) : Z -> option instr :=
  fun p => if p <? 0 then None else nth_error l (Z.to_nat p).
Definition zmem (n : nat) : mem := mem_of_list (repeat 0 n).

(* fold p + a + b into p + (a+b) for literal a, b *)
Ltac pcn := repeat match goal with
  | |- context [?p + Zpos ?a + Zpos ?b] =>
      let c := eval vm_compute in (Zpos a + Zpos b) in
      replace (p + Zpos a + Zpos b) with (p + c) by ring
  end.

(* closed arithmetic side conditions of the examples (never applied to a goal about runs/Halts:
   vm_compute on those normalises the whole machine) *)
Ltac zc := match goal with
  | |- _ /\ _ => split; zc
  | |- _ <= _ => vm_compute; intro; discriminate
  | |- _ < _ => vm_compute; reflexivity
  | |- _ = true => vm_compute; reflexivity
  | |- _ <> _ => vm_compute; intro; discriminate
  | |- _ \/ _ => vm_compute; first [left; intro; discriminate | right; intro; discriminate]
  end.

Section Idioms.
Variable w : Z.
Hypothesis Hw : 2 <= w.

Notation W := (Machine.W w).
Notation wrap := (Machine.wrap w).
Notation sgn := (Machine.sgn w).
Notation lw := (Machine.lw w).
Notation sw := (Machine.sw w).

Let Hw1 : 1 <= w. Proof. lia. Qed.

(* pure word arithmetic used by A5 (stated before `code` enters the context: in Coq 8.16 `lia`
   makes every section variable in scope a dependency of the lemma) *)
Lemma entry_guard_cond_monotone N g g' : 0 <= g <= g' -> g' < W ->
  cond_holds w Cgeu (wrap g) (wrap N) = true -> cond_holds w Cgeu (wrap g') (wrap N) = true.
Proof.
  intros G G' H. cbn [cond_holds] in H |- *. apply Z.leb_le in H. apply Z.leb_le.
  rewrite (wrap_small w g) in H by (unfold inrange; lia).
  rewrite (wrap_small w g') by (unfold inrange; lia). lia.
Qed.
(* space guard: reserve N' (0 <= N' <= g, guaranteed by the entry guard), size s *)
Lemma vla_space_cond_monotone N' s g g' : 0 <= N' <= g -> g <= g' -> g' < W ->
  cond_holds w Cgeu (wrap (wrap g - wrap N')) s = true ->
  cond_holds w Cgeu (wrap (wrap g' - wrap N')) s = true.
Proof.
  intros G G1 G' H. cbn [cond_holds] in H |- *. apply Z.leb_le in H. apply Z.leb_le.
  rewrite (wrap_small w g), (wrap_small w N'), (wrap_small w (g - N')) in H by (unfold inrange; lia).
  rewrite (wrap_small w g'), (wrap_small w N'), (wrap_small w (g' - N')) by (unfold inrange; lia).
  lia.
Qed.

Variable code : Z -> option instr.
Variable cmem : mem.
Notation act := (Machine.act w code cmem).
Notation Halts := (HidV.Sphinx.Halts.Halts act).
Notation runs := (HidV.Sphinx.Halts.runs act).
Notation cstep := (HidV.Sphinx.Halts.cstep act).
Notation csteps := (HidV.Sphinx.Halts.csteps act).

(* ---------- operand values depend on the memory only ---------- *)
Definition oval (m : mem) (o : operand) : option Z := val w cmem (mk 0 m) o.
Lemma val_oval s o : val w cmem s o = oval (mm s) o.
Proof. destruct o; reflexivity. Qed.
Lemma oval_imm m z : oval m (Imm z) = Some (wrap z).
Proof. reflexivity. Qed.
Lemma oval_st m a : inb m a w = true -> oval m (St a) = Some (lw m a).
Proof. intros H. unfold oval, val; cbn [mm]. now rewrite H. Qed.
Lemma oval_st_inv m a x : oval m (St a) = Some x -> inb m a w = true /\ x = lw m a.
Proof. unfold oval, val; cbn [mm]. destruct (inb m a w); [intros E; inversion E; auto | discriminate]. Qed.

(* ---------- one instruction ---------- *)
Lemma act_halt p m : code p = Some IHalt -> act (mk p m) = AHalt.
Proof. intros C. unfold Machine.act; cbn [pc]; rewrite C; reflexivity. Qed.
Lemma act_hc p m c a b x y : code p = Some (IHc c a b) -> oval m a = Some x -> oval m b = Some y ->
  act (mk p m) = if cond_holds w c x y then AHalt else ANext (mk (p + 1) m) None.
Proof.
  intros C A B. unfold Machine.act; cbn [pc]; rewrite C; cbn [exec].
  rewrite !val_oval; cbn [mm]; rewrite A, B. reflexivity.
Qed.
Lemma act_hc_halt p m c a b x y : code p = Some (IHc c a b) -> oval m a = Some x -> oval m b = Some y ->
  cond_holds w c x y = true -> act (mk p m) = AHalt.
Proof. intros C A B T. rewrite (act_hc p m c a b x y C A B), T. reflexivity. Qed.
Lemma act_hc_next p m c a b x y : code p = Some (IHc c a b) -> oval m a = Some x -> oval m b = Some y ->
  cond_holds w c x y = false -> act (mk p m) = ANext (mk (p + 1) m) None.
Proof. intros C A B T. rewrite (act_hc p m c a b x y C A B), T. reflexivity. Qed.
Lemma act_j p m a t : code p = Some (IJ a) -> oval m a = Some t ->
  act (mk p m) = AJump (mk (p + 1) m) (mk t m).
Proof.
  intros C A. unfold Machine.act; cbn [pc]; rewrite C; cbn [exec].
  rewrite val_oval; cbn [mm]; rewrite A. reflexivity.
Qed.
Lemma act_mov p m d v x : code p = Some (IMov (St d) v) -> oval m v = Some x -> inb m d w = true ->
  act (mk p m) = ANext (mk (p + 1) (sw m d x)) None.
Proof.
  intros C A I. unfold Machine.act; cbn [pc]; rewrite C; cbn [exec].
  rewrite val_oval; cbn [mm]; rewrite A. unfold setdest; cbn [mm]; rewrite I. reflexivity.
Qed.
Lemma act_arith p m op d a b x y r : code p = Some (IArith op (St d) a b) ->
  oval m a = Some x -> oval m b = Some y -> arith w op x y = Some r -> inb m d w = true ->
  act (mk p m) = ANext (mk (p + 1) (sw m d r)) None.
Proof.
  intros C A B R I. unfold Machine.act; cbn [pc]; rewrite C; cbn [exec].
  rewrite !val_oval; cbn [mm]; rewrite A, B, R. unfold setdest; cbn [mm]; rewrite I. reflexivity.
Qed.
Lemma act_lwso p m d b o x y : code p = Some (ILoadO WWord SState (St d) b o) ->
  oval m b = Some x -> oval m o = Some y -> inb m (sgn x + sgn y) w = true -> inb m d w = true ->
  act (mk p m) = ANext (mk (p + 1) (sw m d (lw m (sgn x + sgn y)))) None.
Proof.
  intros C A B I J. unfold Machine.act; cbn [pc]; rewrite C; cbn [exec].
  rewrite !val_oval; cbn [mm]; rewrite A, B. unfold load; cbn [mm]; rewrite I.
  unfold setdest; cbn [mm]; rewrite J. reflexivity.
Qed.

Lemma act_swso p m b o v x y z : code p = Some (IStoreO WWord b o v) ->
  oval m b = Some x -> oval m o = Some y -> oval m v = Some z -> inb m (sgn x + sgn y) w = true ->
  act (mk p m) = ANext (mk (p + 1) (sw m (sgn x + sgn y) z)) None.
Proof.
  intros C A B V I. unfold Machine.act; cbn [pc]; rewrite C; cbn [exec].
  rewrite !val_oval; cbn [mm]; rewrite A, B, V. unfold store; cbn [mm]; rewrite I. reflexivity.
Qed.

(* reading a register just written / another one *)
Lemma oval_st_sw_same m a v : 0 <= a -> inb m a w = true -> oval (sw m a v) (St a) = Some (wrap v).
Proof. intros Ha I. rewrite oval_st by now rewrite inb_sw. now rewrite lw_sw_same. Qed.
Lemma oval_st_sw_other m a v b : 0 <= a -> 0 <= b -> (b + w <= a \/ a + w <= b) ->
  oval (sw m a v) (St b) = oval m (St b).
Proof.
  intros Ha Hb D. unfold oval, val; cbn [mm]. rewrite inb_sw.
  destruct (inb m b w); [|reflexivity]. now rewrite lw_sw_other.
Qed.
Lemma oval_imm_any m m' z : oval m (Imm z) = oval m' (Imm z).
Proof. reflexivity. Qed.

(* one silent ordinary step, then a run *)
Lemma runs_tau s s' s'' : act s = ANext s' None -> runs s' [] s'' -> runs s [] s''.
Proof.
  intros A R. change (@nil event) with (evl None ++ []).
  eapply runs_trans; [apply (runs_next act _ _ None A) | exact R].
Qed.

(* a state whose jump targets itself never halts (the shape of every absorbing stub's tail) *)
Lemma goto_self_not_halts p m a : code p = Some (IJ a) -> oval m a = Some p -> ~ Halts (mk p m).
Proof.
  intros C A. apply succ_cycle_not_halts. apply SP_one.
  eapply S_r. apply (act_j p m a p C A).
Qed.

(* ================================================================================= *)
(* A1  goto: j X; halt                                                               *)
(* ================================================================================= *)
Theorem goto_idiom p m a t :
  code p = Some (IJ a) -> code (p + 1) = Some IHalt -> oval m a = Some t ->
  runs (mk p m) [] (mk t m).
Proof.
  intros Cj Ch A. eapply runs_goto; [apply (act_j p m a t Cj A) | apply act_halt, Ch].
Qed.
(* immediate label *)
Corollary goto_label p m X :
  code p = Some (IJ (Imm X)) -> code (p + 1) = Some IHalt -> runs (mk p m) [] (mk (wrap X) m).
Proof. intros Cj Ch. eapply goto_idiom; eauto. Qed.
(* return: j [r]; halt *)
Corollary goto_reg p m r :
  code p = Some (IJ (St r)) -> code (p + 1) = Some IHalt -> inb m r w = true ->
  runs (mk p m) [] (mk (lw m r) m).
Proof. intros Cj Ch I. eapply goto_idiom; eauto using oval_st. Qed.
(* a goto neither creates nor removes halting *)
Corollary goto_halts_iff p m a t :
  code p = Some (IJ a) -> code (p + 1) = Some IHalt -> oval m a = Some t ->
  (Halts (mk p m) <-> Halts (mk t m)).
Proof. intros Cj Ch A. exact (proj1 (goto_idiom p m a t Cj Ch A)). Qed.

(* ================================================================================= *)
(* A2  two-way branch: j L; hcc a,b; ...   L: hcc' a,b   with cc' the negation of cc   *)
(* ================================================================================= *)
Theorem branch_idiom p m l t cc cc' a b x y :
  code p = Some (IJ l) -> code (p + 1) = Some (IHc cc a b) -> oval m l = Some t ->
  code t = Some (IHc cc' a b) ->
  (forall u v, cond_holds w cc' u v = negb (cond_holds w cc u v)) ->
  oval m a = Some x -> oval m b = Some y ->
  runs (mk p m) [] (if cond_holds w cc x y then mk (t + 1) m else mk (p + 2) m).
Proof.
  intros Cj Cc L Ct Inv A B.
  pose proof (act_j p m l t Cj L) as Aj.
  destruct (cond_holds w cc x y) eqn:E.
  - eapply runs_branch_taken; [exact Aj | |].
    + eapply act_hc_halt; eauto.
    + eapply act_hc_next; eauto. rewrite Inv, E. reflexivity.
  - replace (p + 2) with (p + 1 + 1) by ring.
    eapply runs_branch_fall; [exact Aj | |].
    + eapply act_hc_next; eauto.
    + eapply act_hc_halt; eauto. rewrite Inv, E. reflexivity.
Qed.
(* with the pair taken from the regenerated table halt_inversion *)
Corollary branch_idiom_table p m l t cc cc' a b x y :
  In (cc, cc') halt_inversion ->
  code p = Some (IJ l) -> code (p + 1) = Some (IHc cc a b) -> oval m l = Some t ->
  code t = Some (IHc cc' a b) ->
  oval m a = Some x -> oval m b = Some y ->
  runs (mk p m) [] (if cond_holds w cc x y then mk (t + 1) m else mk (p + 2) m).
Proof.
  intros Hin Cj Cc L Ct A B. eapply branch_idiom; eauto.
  pose proof (halt_inversion_is_negation w) as F. rewrite Forall_forall in F.
  exact (F _ Hin).
Qed.
(* boolean-value form: j T; hne v,0; ...  T: heq v,0 *)
Corollary branch_bool_idiom p m l t v x :
  code p = Some (IJ l) -> code (p + 1) = Some (IHc Cne v (Imm 0)) -> oval m l = Some t ->
  code t = Some (IHc Ceq v (Imm 0)) -> oval m v = Some x ->
  runs (mk p m) [] (if x =? 0 then mk (p + 2) m else mk (t + 1) m).
Proof.
  intros Cj Cc L Ct A.
  pose proof (branch_idiom_table p m l t Cne Ceq v (Imm 0) x (wrap 0)) as H.
  cbn [cond_holds] in H. replace (wrap 0) with 0 in H by (unfold Machine.wrap; now rewrite Z.mod_0_l by (pose proof (W_pos w Hw1); lia)).
  destruct (x =? 0); cbn [negb] in H; apply H; auto; cbn; tauto.
Qed.
(* a branch neither creates nor removes halting *)
Corollary branch_halts_iff p m l t cc cc' a b x y :
  In (cc, cc') halt_inversion ->
  code p = Some (IJ l) -> code (p + 1) = Some (IHc cc a b) -> oval m l = Some t ->
  code t = Some (IHc cc' a b) -> oval m a = Some x -> oval m b = Some y ->
  (Halts (mk p m) <-> Halts (if cond_holds w cc x y then mk (t + 1) m else mk (p + 2) m)).
Proof. intros. eapply proj1. eapply branch_idiom_table; eauto. Qed.

(* ================================================================================= *)
(* A4  guards: j OK; [prelude;] hcc a,b; j ERR; halt; OK:                              *)
(* ================================================================================= *)
(* General form: the prelude (possibly empty) is given by a `runs` from the fall-through state to
   the state (q, m') at the conditional halt.  No inverse at OK: none is needed, because the
   only way the fall-through can avoid halting is to reach ERR. *)
Section Guard.
Variables (p q : Z) (m m' : mem) (ok err : operand) (t e : Z) (cc : cond) (a b : operand) (x y : Z).
Hypothesis Cj : code p = Some (IJ ok).
Hypothesis Ok : oval m ok = Some t.
Hypothesis Pre : runs (mk (p + 1) m) [] (mk q m').
Hypothesis Cc : code q = Some (IHc cc a b).
Hypothesis A : oval m' a = Some x.
Hypothesis B : oval m' b = Some y.

(* condition holds: the fall-through halts, the jump is taken AT ONCE, and whatever the prelude
   wrote is invisible: memory is exactly m *)
Lemma guard_pass_gen : cond_holds w cc x y = true -> runs (mk p m) [] (mk t m).
Proof.
  intros T. eapply runs_jump_take; [apply (act_j p m ok t Cj Ok)|].
  apply (proj1 Pre). apply H_halt. eapply act_hc_halt; eauto.
Qed.

Hypothesis Ce : code (q + 1) = Some (IJ err).
Hypothesis Ch : code (q + 2) = Some IHalt.
Hypothesis Er : oval m' err = Some e.

Lemma guard_fall_runs : cond_holds w cc x y = false -> runs (mk (p + 1) m) [] (mk e m').
Proof.
  intros F. change (@nil event) with (@nil event ++ ([] ++ [])).
  eapply runs_trans; [exact Pre|]. eapply runs_trans.
  - apply (runs_next act _ _ None). eapply act_hc_next; eauto.
  - eapply goto_idiom; eauto. replace (q + 1 + 1) with (q + 2) by ring. exact Ch.
Qed.
(* condition fails: what is true without any assumption on ERR *)
Lemma guard_fail_iff : cond_holds w cc x y = false ->
  (Halts (mk p m) <-> Halts (mk e m') /\ Halts (mk t m)).
Proof.
  intros F. pose proof (guard_fall_runs F) as [E _].
  pose proof (act_j p m ok t Cj Ok) as Aj. split.
  - intros H. apply (halts_jump_inv act _ _ _ Aj) in H. tauto.
  - intros [H1 H2]. eapply H_jump; [exact Aj | tauto | exact H2].
Qed.
(* condition fails and ERR is absorbing: the run is committed to ERR, carrying the prelude's
   memory, and never halts *)
Lemma guard_fail_gen : cond_holds w cc x y = false -> ~ Halts (mk e m') ->
  runs (mk p m) [] (mk e m') /\ ~ Halts (mk p m).
Proof.
  intros F N. pose proof (guard_fall_runs F) as R.
  assert (Nf : ~ Halts (mk (p + 1) m)) by (intro H; apply N, (proj1 R), H).
  destruct (runs_jump_fall act _ _ _ (act_j p m ok t Cj Ok) Nf) as [R0 N0].
  split; [|exact N0]. change (@nil event) with (@nil event ++ []). eapply runs_trans; eauto.
Qed.
End Guard.

(* the read-only guards (division `hne r,0`, index `hltu i,len`, VLA length `hleu len,max`):
   j OK; hcc a,b; j ERR; halt; OK = p+4.  Memory is unchanged in both outcomes
   (C15 guard_is_observer for these shapes). *)
Theorem guard_idiom p m ok err e cc a b x y :
  code p = Some (IJ ok) -> oval m ok = Some (p + 4) ->
  code (p + 1) = Some (IHc cc a b) -> oval m a = Some x -> oval m b = Some y ->
  code (p + 2) = Some (IJ err) -> code (p + 3) = Some IHalt -> oval m err = Some e ->
  (cond_holds w cc x y = true -> runs (mk p m) [] (mk (p + 4) m)) /\
  (cond_holds w cc x y = false -> ~ Halts (mk e m) -> runs (mk p m) [] (mk e m) /\ ~ Halts (mk p m)) /\
  (cond_holds w cc x y = false -> (Halts (mk p m) <-> Halts (mk e m) /\ Halts (mk (p + 4) m))).
Proof.
  intros Cj Ok Cc A B Ce Ch Er.
  replace (p + 2) with (p + 1 + 1) in Ce by ring. replace (p + 3) with (p + 1 + 2) in Ch by ring.
  pose proof (runs_refl act (mk (p + 1) m)) as Pre.
  split; [|split].
  - eapply guard_pass_gen; eauto.
  - eapply guard_fail_gen; eauto.
  - eapply guard_fail_iff; eauto.
Qed.
(* consequence used by C03/C05: with an absorbing stub the guard never introduces a halt, and
   when it passes it is invisible *)
Corollary guard_never_halts_on_failure p m ok err e cc a b x y :
  code p = Some (IJ ok) -> oval m ok = Some (p + 4) ->
  code (p + 1) = Some (IHc cc a b) -> oval m a = Some x -> oval m b = Some y ->
  code (p + 2) = Some (IJ err) -> code (p + 3) = Some IHalt -> oval m err = Some e ->
  ~ Halts (mk e m) -> cond_holds w cc x y = false -> ~ Halts (mk p m).
Proof. intros. eapply guard_idiom; eauto. Qed.

(* the entry stack guard (gen_func 356-362):
     p: j NO; p+1: sub [r1],[fp],[ap]; p+2: hgeu [r1],N; p+3: j SO; p+4: halt; NO = p+5.
   The `sub` comes AFTER the jump, so when the guard passes it was only speculated: memory is
   COMPLETELY unchanged, r1 included.  When it fails the run goes to the stub with r1 changed. *)
Theorem entry_guard_idiom p m no so e r1 fp ap N :
  code p = Some (IJ no) -> oval m no = Some (p + 5) ->
  code (p + 1) = Some (IArith Asub (St r1) (St fp) (St ap)) ->
  code (p + 2) = Some (IHc Cgeu (St r1) (Imm N)) ->
  code (p + 3) = Some (IJ so) -> code (p + 4) = Some IHalt ->
  0 <= r1 -> inb m r1 w = true -> inb m fp w = true -> inb m ap w = true ->
  let g := wrap (lw m fp - lw m ap) in
  let m1 := sw m r1 (lw m fp - lw m ap) in
  oval m1 so = Some e ->
  (wrap N <= g -> runs (mk p m) [] (mk (p + 5) m)) /\
  (g < wrap N -> ~ Halts (mk e m1) -> runs (mk p m) [] (mk e m1) /\ ~ Halts (mk p m)) /\
  (g < wrap N -> (Halts (mk p m) <-> Halts (mk e m1) /\ Halts (mk (p + 5) m))).
Proof.
  intros Cj Ok Cs Cc Ce Ch Hr Ir If Ia g m1 Er.
  assert (Pre : runs (mk (p + 1) m) [] (mk (p + 2) m1)).
  { replace (p + 2) with (p + 1 + 1) by ring. apply (runs_next act _ _ None).
    eapply act_arith; eauto using oval_st; reflexivity. }
  assert (A : oval m1 (St r1) = Some g) by (apply oval_st_sw_same; assumption).
  pose proof (oval_imm m1 N) as B.
  replace (p + 3) with (p + 2 + 1) in Ce by ring. replace (p + 4) with (p + 2 + 2) in Ch by ring.
  assert (T : wrap N <= g -> cond_holds w Cgeu g (wrap N) = true) by (intros; apply Z.leb_le; assumption).
  assert (F : g < wrap N -> cond_holds w Cgeu g (wrap N) = false) by (intros; apply Z.leb_gt; assumption).
  split; [|split]; intros Hc.
  - eapply guard_pass_gen; eauto.
  - eapply guard_fail_gen; eauto.
  - eapply guard_fail_iff; eauto.
Qed.

(* the VLA space guard (ArrayInitializer 820-834):
     p: j NO; p+1: sub [r1],[fp],[ap]; p+2: sub [r1],[r1],N'; p+3: hgeu [r1],size;
     p+4: j SO; p+5: halt; NO = p+6        (size = [r0] or an immediate) *)
Theorem vla_space_guard_idiom p m no so e r1 fp ap N' size s :
  code p = Some (IJ no) -> oval m no = Some (p + 6) ->
  code (p + 1) = Some (IArith Asub (St r1) (St fp) (St ap)) ->
  code (p + 2) = Some (IArith Asub (St r1) (St r1) (Imm N')) ->
  code (p + 3) = Some (IHc Cgeu (St r1) size) ->
  code (p + 4) = Some (IJ so) -> code (p + 5) = Some IHalt ->
  0 <= r1 -> inb m r1 w = true -> inb m fp w = true -> inb m ap w = true ->
  let m1 := sw m r1 (lw m fp - lw m ap) in
  let m2 := sw m1 r1 (wrap (lw m fp - lw m ap) - wrap N') in
  let g := wrap (wrap (lw m fp - lw m ap) - wrap N') in
  oval m2 size = Some s -> oval m2 so = Some e ->
  (s <= g -> runs (mk p m) [] (mk (p + 6) m)) /\
  (g < s -> ~ Halts (mk e m2) -> runs (mk p m) [] (mk e m2) /\ ~ Halts (mk p m)) /\
  (g < s -> (Halts (mk p m) <-> Halts (mk e m2) /\ Halts (mk (p + 6) m))).
Proof.
  intros Cj Ok Cs1 Cs2 Cc Ce Ch Hr Ir If Ia m1 m2 g Sz Er.
  assert (I1 : inb m1 r1 w = true) by (unfold m1; now rewrite inb_sw).
  assert (Pre : runs (mk (p + 1) m) [] (mk (p + 3) m2)).
  { change (@nil event) with (@nil event ++ []). eapply runs_trans.
    - apply (runs_next act _ (mk (p + 1 + 1) m1) None).
      eapply act_arith; eauto using oval_st; reflexivity.
    - replace (p + 3) with (p + 1 + 1 + 1) by ring. apply (runs_next act _ _ None).
      replace (p + 1 + 1) with (p + 2) by ring.
      eapply act_arith; eauto.
      + apply oval_st_sw_same; assumption.
      + apply oval_imm.
      + reflexivity. }
  assert (A : oval m2 (St r1) = Some g) by (apply oval_st_sw_same; assumption).
  replace (p + 4) with (p + 3 + 1) in Ce by ring. replace (p + 5) with (p + 3 + 2) in Ch by ring.
  assert (T : s <= g -> cond_holds w Cgeu g s = true) by (intros; apply Z.leb_le; assumption).
  assert (F : g < s -> cond_holds w Cgeu g s = false) by (intros; apply Z.leb_gt; assumption).
  split; [|split]; intros Hc.
  - eapply guard_pass_gen; eauto.
  - eapply guard_fail_gen; eauto.
  - eapply guard_fail_iff; eauto.
Qed.

(* ================================================================================= *)
(* A5  stack_monotone (C18): a guard that passes at gap g passes at every gap g' >= g   *)
(* ================================================================================= *)
(* No-wrap side conditions: the true gaps g = fp - ap, g' = fp' - ap' satisfy 0 <= g <= g' < W.
   They follow from ap <= fp <= stack_end < W, and __post_init__ rejects stacks with
   (stack+5)*w > max_signed < W/2 (GenLayout.stack_size_rejected). *)
(* lifted to the idioms: same code, two memories (e.g. the same program point reached with a
   bigger stack): if the entry guard passes in m it passes in m' *)
Theorem stack_monotone_entry p m m' no so r1 fp ap N e e' :
  code p = Some (IJ no) -> oval m no = Some (p + 5) -> oval m' no = Some (p + 5) ->
  code (p + 1) = Some (IArith Asub (St r1) (St fp) (St ap)) ->
  code (p + 2) = Some (IHc Cgeu (St r1) (Imm N)) ->
  code (p + 3) = Some (IJ so) -> code (p + 4) = Some IHalt ->
  0 <= r1 ->
  inb m r1 w = true -> inb m fp w = true -> inb m ap w = true ->
  inb m' r1 w = true -> inb m' fp w = true -> inb m' ap w = true ->
  oval (sw m r1 (lw m fp - lw m ap)) so = Some e ->
  oval (sw m' r1 (lw m' fp - lw m' ap)) so = Some e' ->
  0 <= lw m fp - lw m ap <= lw m' fp - lw m' ap -> lw m' fp - lw m' ap < W ->
  wrap N <= wrap (lw m fp - lw m ap) ->
  runs (mk p m) [] (mk (p + 5) m) /\ runs (mk p m') [] (mk (p + 5) m').
Proof.
  intros Cj Ok Ok' Cs Cc Ce Ch Hr I1 I2 I3 I1' I2' I3' Er Er' G G' Pass.
  split.
  - eapply (entry_guard_idiom p m no so e r1 fp ap N); eauto.
  - eapply (entry_guard_idiom p m' no so e' r1 fp ap N); eauto.
    apply Z.leb_le. apply (entry_guard_cond_monotone N (lw m fp - lw m ap)); auto.
    apply Z.leb_le. exact Pass.
Qed.
Theorem stack_monotone_vla p m m' no so r1 fp ap N' size s e e' :
  code p = Some (IJ no) -> oval m no = Some (p + 6) -> oval m' no = Some (p + 6) ->
  code (p + 1) = Some (IArith Asub (St r1) (St fp) (St ap)) ->
  code (p + 2) = Some (IArith Asub (St r1) (St r1) (Imm N')) ->
  code (p + 3) = Some (IHc Cgeu (St r1) size) ->
  code (p + 4) = Some (IJ so) -> code (p + 5) = Some IHalt ->
  0 <= r1 ->
  inb m r1 w = true -> inb m fp w = true -> inb m ap w = true ->
  inb m' r1 w = true -> inb m' fp w = true -> inb m' ap w = true ->
  let mm2 := fun m => sw (sw m r1 (lw m fp - lw m ap)) r1 (wrap (lw m fp - lw m ap) - wrap N') in
  oval (mm2 m) size = Some s -> oval (mm2 m') size = Some s ->   (* same requested size *)
  oval (mm2 m) so = Some e -> oval (mm2 m') so = Some e' ->
  0 <= N' <= lw m fp - lw m ap -> lw m fp - lw m ap <= lw m' fp - lw m' ap -> lw m' fp - lw m' ap < W ->
  s <= wrap (wrap (lw m fp - lw m ap) - wrap N') ->
  runs (mk p m) [] (mk (p + 6) m) /\ runs (mk p m') [] (mk (p + 6) m').
Proof.
  intros Cj Ok Ok' Cs1 Cs2 Cc Ce Ch Hr I1 I2 I3 I1' I2' I3' mm2 Sz Sz' Er Er' G G1 G' Pass.
  split.
  - eapply (vla_space_guard_idiom p m no so e r1 fp ap N' size s); eauto.
  - eapply (vla_space_guard_idiom p m' no so e' r1 fp ap N' size s); eauto.
    apply Z.leb_le. apply (vla_space_cond_monotone N' s (lw m fp - lw m ap)); auto.
    apply Z.leb_le. exact Pass.
Qed.

(* ================================================================================= *)
(* A6  IntToBool normalisation, not, neg                                              *)
(* ================================================================================= *)
(* p: j N; p+1: hleu [r],1; p+2: mov [r],1; N = p+3: hgtu [r],1; continuation p+4 *)
Theorem bool_normalise p m n r :
  code p = Some (IJ n) -> oval m n = Some (p + 3) ->
  code (p + 1) = Some (IHc Cleu (St r) (Imm 1)) ->
  code (p + 2) = Some (IMov (St r) (Imm 1)) ->
  code (p + 3) = Some (IHc Cgtu (St r) (Imm 1)) ->
  0 <= r -> inb m r w = true ->
  let x := lw m r in
  let m' := if x <=? 1 then m else sw m r 1 in
  runs (mk p m) [] (mk (p + 4) m') /\
  (0 <= x -> lw m' r = if x =? 0 then 0 else 1).
Proof.
  intros Cj N C1 C2 C3 Hr I x m'.
  assert (W1 : wrap 1 = 1) by (apply (wrap_small w); unfold inrange; pose proof (W_ge w Hw1); lia).
  pose proof (act_j p m n (p + 3) Cj N) as Aj.
  pose proof (oval_st m r I) as A. fold x in A.
  pose proof (oval_imm m 1) as B. rewrite W1 in B.
  split.
  - unfold m'. destruct (Z.leb_spec x 1) as [Le|Gt].
    + (* already 0/1: the fall-through halts at p+1; N's test passes *)
      replace (p + 4) with (p + 3 + 1) by ring.
      eapply runs_branch_taken; [exact Aj | |].
      * eapply act_hc_halt; eauto. cbn [cond_holds]. apply Z.leb_le; lia.
      * eapply act_hc_next; eauto. cbn [cond_holds]. apply Z.ltb_ge; lia.
    + (* x > 1: fall through, store 1, pass N's test; the jump target halts *)
      assert (Hj : Halts (mk (p + 3) m)).
      { apply H_halt. eapply act_hc_halt; eauto. cbn [cond_holds]. apply Z.ltb_lt; lia. }
      assert (R1 : runs (mk (p + 1) m) [] (mk (p + 4) (sw m r 1))).
      { eapply runs_tau.
        { eapply act_hc_next; [exact C1 | exact A | exact B |]. cbn [cond_holds]. apply Z.leb_gt; lia. }
        pcn. eapply runs_tau.
        { eapply act_mov; [exact C2 | exact B | exact I]. }
        pcn. eapply runs_tau.
        { eapply act_hc_next; [exact C3 | apply oval_st_sw_same; assumption | apply oval_imm |].
          rewrite W1. reflexivity. }
        pcn. apply runs_refl. }
      destruct R1 as [E1 P1]. split.
      * split; intro H.
        -- apply (halts_jump_inv act _ _ _ Aj) in H. tauto.
        -- eapply H_jump; [exact Aj | tauto | exact Hj].
      * intros Nh. eapply CS_tau; [|apply P1, Nh].
        eapply C_fall; [exact Aj|]. tauto.
  - intros X0. unfold m'. destruct (Z.leb_spec x 1) as [Le|Gt].
    + fold x. destruct (Z.eqb_spec x 0); lia.
    + rewrite lw_sw_same by (assumption || lia). rewrite W1. destruct (Z.eqb_spec x 0); lia.
Qed.

(* not: sub r,1,x computes 1 - x on {0,1} *)
Theorem not_by_sub p m r xo x :
  code p = Some (IArith Asub (St r) (Imm 1) xo) -> oval m xo = Some x ->
  0 <= r -> inb m r w = true -> (x = 0 \/ x = 1) ->
  let m' := sw m r (1 - x) in
  runs (mk p m) [] (mk (p + 1) m') /\ lw m' r = 1 - x.
Proof.
  intros C A Hr I X m'.
  assert (W1 : wrap 1 = 1) by (apply (wrap_small w); unfold inrange; pose proof (W_ge w Hw1); lia).
  split.
  - apply (runs_next act _ _ None). unfold m'. replace (1 - x) with (wrap 1 - x) by now rewrite W1.
    eapply act_arith; [exact C | apply oval_imm | exact A | reflexivity | exact I].
  - unfold m'. rewrite lw_sw_same by (assumption || lia).
    apply (wrap_small w). unfold inrange. pose proof (W_ge w Hw1). lia.
Qed.
(* neg: sub r,0,x computes the two's-complement negation *)
Theorem neg_by_sub p m r xo x :
  code p = Some (IArith Asub (St r) (Imm 0) xo) -> oval m xo = Some x ->
  0 <= r -> inb m r w = true -> 0 <= x < W ->
  let m' := sw m r (0 - x) in
  runs (mk p m) [] (mk (p + 1) m') /\ lw m' r = wrap (- x) /\
  (sgn x <> - (W / 2) -> sgn (lw m' r) = - sgn x).
Proof.
  intros C A Hr I X m'.
  assert (W0 : wrap 0 = 0) by (apply (wrap_small w); unfold inrange; pose proof (W_ge w Hw1); lia).
  split; [|split].
  - apply (runs_next act _ _ None). unfold m'. replace (0 - x) with (wrap 0 - x) by now rewrite W0.
    eapply act_arith; [exact C | apply oval_imm | exact A | reflexivity | exact I].
  - unfold m'. rewrite lw_sw_same by (assumption || lia). f_equal; lia.
  - intros Nm. unfold m'. rewrite lw_sw_same by (assumption || lia).
    replace (0 - x) with (0 - x) by reflexivity.
    rewrite <- W0 at 1. rewrite (wrap_sub_sgn w Hw1 (wrap 0) x) by (rewrite ?W0; unfold inrange; pose proof (W_pos w Hw1); lia).
    rewrite W0. rewrite (sgn_small w 0) by (pose proof (half_pos w Hw1); lia).
    apply (sgn_wrap_small w Hw1). pose proof (sgn_range w Hw1 x X). lia.
Qed.

End Idioms.

(* ================================================================================= *)
(* A3  why the inverse at the branch target is an obligation                          *)
(* ================================================================================= *)
(* 0: j 4; 1: hne 0,0 (false: passes); 2: halt  -- a later halt on the fall-through path
   3: halt; 4: flag 0 (NO inverse `heq 0,0` here); 5: j 4; 6: halt  -- target loops for ever.
   The condition is false, yet the committed step takes the jump, and the state is not
   `runs`-equivalent to the fall-through continuation (p+2). *)
Definition unsound_branch_code : Z -> option instr :=
  code_of [IJ (Imm 4); IHc Cne (Imm 0) (Imm 0); IHalt; IHalt; IFlag 0; IJ (Imm 4); IHalt].

Theorem branch_without_inverse_unsound :
  exists (code : Z -> option instr) (m : mem) (p L : Z) (cc : cond) (a b : operand) (x y : Z),
    code p = Some (IJ (Imm L)) /\ code (p + 1) = Some (IHc cc a b) /\
    val 2 (zmem 0) (mk p m) a = Some x /\ val 2 (zmem 0) (mk p m) b = Some y /\
    cond_holds 2 cc x y = false /\
    cstep (act 2 code (zmem 0)) (mk p m) None (mk L m) /\
    ~ runs (act 2 code (zmem 0)) (mk p m) [] (mk (p + 2) m).
Proof.
  exists unsound_branch_code, (zmem 8), 0, 4, Cne, (Imm 0), (Imm 0), 0, 0.
  set (A := act 2 unsound_branch_code (zmem 0)).
  assert (H2 : Halts A (mk 2 (zmem 8))) by (apply H_halt; reflexivity).
  assert (H1 : Halts A (mk 1 (zmem 8))) by (eapply H_next; [reflexivity | exact H2]).
  assert (N4 : ~ Halts A (mk 4 (zmem 8))).
  { apply succ_cycle_not_halts. eapply SP_more.
    - eapply S_next. reflexivity.
    - apply SP_one. eapply S_r. reflexivity. }
  repeat (split; [reflexivity|]). split.
  - eapply C_take; [reflexivity | exact H1].
  - intros [E _]. apply N4.
    assert (H0 : Halts A (mk 0 (zmem 8))) by (apply E; exact H2).
    eapply halts_jump_inv in H0; [|reflexivity]. exact (proj2 H0).
Qed.

(* ================================================================================= *)
(* Satisfiability examples (w = 2, 16 bytes of state)                                  *)
(* ================================================================================= *)
Section Examples.
Let m16 := zmem 16.
Let cm := zmem 0.

(* an absorbing stub: `j self; halt` *)
Example stub_absorbing c e m : c e = Some (IJ (Imm e)) -> 0 <= e < 65536 -> ~ Halts (act 2 c cm) (mk e m).
Proof. intros C R. eapply (goto_self_not_halts 2); [exact C|]. cbn. unfold wrap. f_equal. apply Z.mod_small. exact R. Qed.

Example goto_idiom_ex : let c := code_of [IJ (Imm 5); IHalt] in
  runs (act 2 c cm) (mk 0 m16) [] (mk 5 m16).
Proof. intro c. apply (goto_idiom 2 c cm 0 m16 (Imm 5) 5); reflexivity. Qed.
Example goto_reg_ex : let c := code_of [IJ (St 4); IHalt] in
  runs (act 2 c cm) (mk 0 m16) [] (mk 0 m16).
Proof. intro c. apply (goto_reg 2 c cm 0 m16 4); reflexivity. Qed.

(* if ([4] < [6]) with both words 0: condition false, fall-through side *)
Example branch_idiom_ex : let c := code_of [IJ (Imm 4); IHc Clt (St 4) (St 6); IHalt; IHalt; IHc Cge (St 4) (St 6)] in
  runs (act 2 c cm) (mk 0 m16) [] (mk 2 m16).
Proof.
  intro c. apply (branch_idiom_table 2 c cm 0 m16 (Imm 4) 4 Clt Cge (St 4) (St 6) 0 0); try reflexivity; try (cbn; tauto).
Qed.
Example branch_bool_idiom_ex : let c := code_of [IJ (Imm 3); IHc Cne (St 4) (Imm 0); IHalt; IHc Ceq (St 4) (Imm 0)] in
  runs (act 2 c cm) (mk 0 m16) [] (mk 2 m16).
Proof. intro c. apply (branch_bool_idiom 2 ltac:(lia) c cm 0 m16 (Imm 3) 3 (St 4) 0); reflexivity. Qed.

(* division-style guard with the stub at 6; [4] = 0 so `hne [4],0` does not fire: committed to the stub *)
Example guard_idiom_ex : let c := code_of [IJ (Imm 4); IHc Cne (St 4) (Imm 0); IJ (Imm 6); IHalt; IHalt; IHalt; IJ (Imm 6); IHalt] in
  runs (act 2 c cm) (mk 0 m16) [] (mk 6 m16) /\ ~ Halts (act 2 c cm) (mk 0 m16).
Proof.
  intro c.
  refine (proj1 (proj2 (guard_idiom 2 c cm 0 m16 (Imm 4) (Imm 6) 6 Cne (St 4) (Imm 0) 0 0 _ _ _ _ _ _ _ _)) _ _); try reflexivity.
  apply stub_absorbing; [reflexivity | lia].
Qed.
(* and the passing side with [4] = 0, `heq [4],0` *)
Example guard_idiom_pass_ex : let c := code_of [IJ (Imm 4); IHc Ceq (St 4) (Imm 0); IJ (Imm 6); IHalt] in
  runs (act 2 c cm) (mk 0 m16) [] (mk 4 m16).
Proof.
  intro c.
  refine (proj1 (guard_idiom 2 c cm 0 m16 (Imm 4) (Imm 6) 6 Ceq (St 4) (Imm 0) 0 0 _ _ _ _ _ _ _ _) _); reflexivity.
Qed.

(* entry guard: ap=[0], fp=[2], r1=[6]; fp-ap = 0 >= N = 0 passes; N = 5 fails to the stub at 5 *)
Example entry_guard_pass_ex :
  let c := code_of [IJ (Imm 5); IArith Asub (St 6) (St 2) (St 0); IHc Cgeu (St 6) (Imm 0); IJ (Imm 5); IHalt] in
  runs (act 2 c cm) (mk 0 m16) [] (mk 5 m16).
Proof.
  intro c.
  refine (proj1 (entry_guard_idiom 2 ltac:(lia) c cm 0 m16 (Imm 5) (Imm 5) 5 6 2 0 0 _ _ _ _ _ _ _ _ _ _ _) _); try reflexivity; try lia; try (vm_compute; discriminate).
Qed.
Example entry_guard_fail_ex :
  let c := code_of [IJ (Imm 5); IArith Asub (St 6) (St 2) (St 0); IHc Cgeu (St 6) (Imm 5); IJ (Imm 5); IHalt; IJ (Imm 5); IHalt] in
  ~ Halts (act 2 c cm) (mk 0 m16).
Proof.
  intro c.
  refine (proj2 (proj1 (proj2 (entry_guard_idiom 2 ltac:(lia) c cm 0 m16 (Imm 5) (Imm 5) 5 6 2 0 5 _ _ _ _ _ _ _ _ _ _ _)) _ _)); try reflexivity; try lia.
  apply stub_absorbing; [reflexivity | lia].
Qed.

Example bool_normalise_ex :
  let c := code_of [IJ (Imm 3); IHc Cleu (St 4) (Imm 1); IMov (St 4) (Imm 1); IHc Cgtu (St 4) (Imm 1)] in
  runs (act 2 c cm) (mk 0 m16) [] (mk 4 m16).
Proof. intro c. apply (bool_normalise 2 ltac:(lia) c cm 0 m16 (Imm 3) 4); try reflexivity; lia. Qed.
Example not_by_sub_ex : let c := code_of [IArith Asub (St 4) (Imm 1) (St 4)] in
  lw 2 (sw 2 m16 4 (1 - 0)) 4 = 1.
Proof. intro c. apply (not_by_sub 2 ltac:(lia) c cm 0 m16 4 (St 4) 0); try reflexivity; lia. Qed.
Example neg_by_sub_ex : let c := code_of [IArith Asub (St 4) (Imm 0) (Imm 5)] in
  sgn 2 (lw 2 (sw 2 m16 4 (0 - 5)) 4) = - sgn 2 5.
Proof.
  intro c. refine (proj2 (proj2 (neg_by_sub 2 ltac:(lia) c cm 0 m16 4 (Imm 5) 5 _ _ _ _ _)) _); try reflexivity; try lia; zc.
Qed.
(* branch: taken side, [4] = 0 < [6] = 1 *)
Example branch_idiom_ex_taken : let c := code_of [IJ (Imm 4); IHc Clt (St 4) (St 6); IHalt; IHalt; IHc Cge (St 4) (St 6)] in
  let m := sw 2 m16 6 1 in runs (act 2 c cm) (mk 0 m) [] (mk 5 m).
Proof.
  intros c m. apply (branch_idiom_table 2 c cm 0 m (Imm 4) 4 Clt Cge (St 4) (St 6) 0 1); try reflexivity; try (cbn; tauto).
Qed.
(* VLA space guard: fp = [2] = 100, ap = [0] = 10, reserve 20, size [4]: 70 passes, 71 fails *)
Definition m_vla (s : Z) : mem := sw 2 (sw 2 (sw 2 (zmem 16) 2 100) 0 10) 4 s.
Definition c_vla := code_of [IJ (Imm 6); IArith Asub (St 6) (St 2) (St 0); IArith Asub (St 6) (St 6) (Imm 20);
  IHc Cgeu (St 6) (St 4); IJ (Imm 7); IHalt; IFlag 0; IJ (Imm 7); IHalt].
Example vla_space_guard_ex_pass : runs (act 2 c_vla cm) (mk 0 (m_vla 70)) [] (mk 6 (m_vla 70)).
Proof.
  refine (proj1 (vla_space_guard_idiom 2 ltac:(lia) c_vla cm 0 (m_vla 70) (Imm 6) (Imm 7) 7 6 2 0 20 (St 4) 70 _ _ _ _ _ _ _ _ _ _ _ _ _) _);
    try reflexivity; try lia; zc.
Qed.
Example vla_space_guard_ex_fail : ~ Halts (act 2 c_vla cm) (mk 0 (m_vla 71)).
Proof.
  refine (proj2 (proj1 (proj2 (vla_space_guard_idiom 2 ltac:(lia) c_vla cm 0 (m_vla 71) (Imm 6) (Imm 7) 7 6 2 0 20 (St 4) 71 _ _ _ _ _ _ _ _ _ _ _ _ _)) _ _));
    try reflexivity; try lia; try zc.
  apply stub_absorbing; [reflexivity | lia].
Qed.
(* stack_monotone: the entry guard with N = 50 passes at gap 90 (fp=100, ap=10) and at gap 190 *)
Definition m_gap (fp : Z) : mem := sw 2 (sw 2 (zmem 16) 2 fp) 0 10.
Definition c_entry := code_of [IJ (Imm 5); IArith Asub (St 6) (St 2) (St 0); IHc Cgeu (St 6) (Imm 50); IJ (Imm 6); IHalt; IFlag 0; IJ (Imm 6); IHalt].
Example stack_monotone_entry_ex :
  runs (act 2 c_entry cm) (mk 0 (m_gap 100)) [] (mk 5 (m_gap 100)) /\
  runs (act 2 c_entry cm) (mk 0 (m_gap 200)) [] (mk 5 (m_gap 200)).
Proof.
  apply (stack_monotone_entry 2 ltac:(lia) c_entry cm 0 (m_gap 100) (m_gap 200) (Imm 5) (Imm 6) 6 2 0 50 6 6);
    try reflexivity; try lia; zc.
Qed.
Example stack_monotone_vla_ex :
  runs (act 2 c_vla cm) (mk 0 (m_vla 70)) [] (mk 6 (m_vla 70)) /\
  runs (act 2 c_vla cm) (mk 0 (sw 2 (m_vla 70) 2 300)) [] (mk 6 (sw 2 (m_vla 70) 2 300)).
Proof.
  apply (stack_monotone_vla 2 ltac:(lia) c_vla cm 0 (m_vla 70) (sw 2 (m_vla 70) 2 300) (Imm 6) (Imm 7) 6 2 0 20 (St 4) 70 7 7);
    try reflexivity; try lia; zc.
Qed.
End Examples.
