(* Load/store algebra for the trie memory, and evaluation lemmas for `act` used by all
   code-level proofs. *)
From Coq Require Import ZArith List Bool Lia FMapPositive.
From HidV Require Import Machine WordLemmas.
Import ListNotations.
Open Scope Z_scope.
Ltac Zify.zify_post_hook ::= Z.to_euclidean_division_equations.

Arguments Z.mul : simpl never.
Arguments Z.add : simpl never.
Arguments Z.pow : simpl never.
Arguments Z.modulo : simpl never.
Arguments Z.div : simpl never.
Arguments Z.of_nat : simpl never.

Lemma key_inj a b : 0 <= a -> 0 <= b -> key a = key b -> a = b.
Proof. unfold key; intros Ha Hb H. apply Z2Pos.inj in H; lia. Qed.

Lemma getb_setb_same m a v : getb (setb m a v) a = v.
Proof. unfold getb, setb; simpl. now rewrite PositiveMap.gss. Qed.
Lemma getb_setb_other m a v x : 0 <= a -> 0 <= x -> x <> a -> getb (setb m a v) x = getb m x.
Proof.
  intros Ha Hx N. unfold getb, setb; simpl. rewrite PositiveMap.gso; [reflexivity|].
  intro E. apply N. now apply key_inj.
Qed.
Lemma msize_setb m a v : msize (setb m a v) = msize m.
Proof. reflexivity. Qed.

Lemma msize_storen n : forall m a v, msize (storen n m a v) = msize m.
Proof. induction n as [|k IH]; intros; cbn [storen]; [reflexivity|]. now rewrite IH. Qed.

Lemma storen_outside n : forall m a v x, 0 <= a -> 0 <= x -> (x < a \/ a + Z.of_nat n <= x) ->
  getb (storen n m a v) x = getb m x.
Proof.
  induction n as [|k IH]; intros m a v x Ha Hx H; cbn [storen]; [reflexivity|].
  rewrite IH by lia. apply getb_setb_other; lia.
Qed.
Lemma loadn_ext n : forall m m' a, (forall x, a <= x < a + Z.of_nat n -> getb m x = getb m' x) ->
  loadn n m a = loadn n m' a.
Proof.
  induction n as [|k IH]; intros m m' a H; cbn [loadn]; [reflexivity|].
  rewrite (H a) by lia. f_equal. f_equal. apply IH; intros; apply H; lia.
Qed.
Lemma loadn_storen n : forall m a v, 0 <= a -> 0 <= v < 256 ^ Z.of_nat n -> loadn n (storen n m a v) a = v.
Proof.
  induction n as [|k IH]; intros m a v Ha H; cbn [loadn storen].
  - change (Z.of_nat 0) with 0 in H. rewrite Z.pow_0_r in H. lia.
  - rewrite storen_outside by lia. rewrite getb_setb_same.
    rewrite Nat2Z.inj_succ, Z.pow_succ_r in H by lia.
    rewrite IH.
    + pose proof (Z.div_mod v 256); lia.
    + lia.
    + split; [apply Z.div_pos; lia | apply Z.div_lt_upper_bound; lia].
Qed.
(* bytes of a well-formed memory are in [0,256): loaded words are in range *)
Definition wf_mem (m : mem) : Prop := forall a, 0 <= getb m a < 256.
Lemma loadn_range n : forall m a, wf_mem m -> 0 <= loadn n m a < 256 ^ Z.of_nat n.
Proof.
  induction n as [|k IH]; intros m a Hm; cbn [loadn].
  - change (Z.of_nat 0) with 0. rewrite Z.pow_0_r. lia.
  - rewrite Nat2Z.inj_succ, Z.pow_succ_r by lia. pose proof (Hm a). pose proof (IH m (a + 1) Hm). lia.
Qed.
Lemma wf_setb m a v : wf_mem m -> 0 <= a -> 0 <= v < 256 -> wf_mem (setb m a v).
Proof.
  intros Hm Ha Hv x. destruct (Z.eq_dec x a) as [->|N]; [now rewrite getb_setb_same|].
  destruct (Z_lt_le_dec x 0).
  - (* negative addresses alias key 1 = address 0 *)
    unfold getb, setb; simpl. unfold key.
    destruct (Pos.eq_dec (Z.to_pos (x + 1)) (Z.to_pos (a + 1))) as [E|E].
    + rewrite E, PositiveMap.gss. lia.
    + rewrite PositiveMap.gso by assumption. apply Hm.
  - rewrite getb_setb_other by lia. apply Hm.
Qed.
Lemma wf_storen n : forall m a v, wf_mem m -> 0 <= a -> wf_mem (storen n m a v).
Proof.
  induction n as [|k IH]; intros m a v Hm Ha; cbn [storen]; [assumption|].
  apply IH; [|lia]. apply wf_setb; [assumption | lia |]. apply Z.mod_pos_bound; lia.
Qed.

Section WordMem.
Variable w : Z.
Hypothesis Hw : 1 <= w.
Notation W := (Machine.W w).
Notation wrap := (Machine.wrap w).
Notation lw := (Machine.lw w).
Notation sw := (Machine.sw w).

Lemma wn_w : Z.of_nat (Machine.wn w) = w.
Proof. unfold Machine.wn; rewrite Z2Nat.id; lia. Qed.
Lemma W_pow : W = 256 ^ Z.of_nat (Machine.wn w).
Proof.
  unfold Machine.W; rewrite wn_w. replace 256 with (2 ^ 8) by reflexivity.
  rewrite <- Z.pow_mul_r by lia. reflexivity.
Qed.

Lemma lw_sw_same m a v : 0 <= a -> lw (sw m a v) a = wrap v.
Proof.
  intros Ha. unfold Machine.lw, Machine.sw. apply loadn_storen; [assumption|].
  rewrite <- W_pow. apply (wrap_range w Hw).
Qed.
Lemma lw_sw_other m a v b : 0 <= a -> 0 <= b -> (b + w <= a \/ a + w <= b) -> lw (sw m a v) b = lw m b.
Proof.
  intros Ha Hb H. unfold Machine.lw, Machine.sw. apply loadn_ext. intros x Hx. rewrite wn_w in Hx.
  apply storen_outside; [assumption | lia |]. rewrite wn_w. lia.
Qed.
Lemma lb_sw_other m a v b : 0 <= a -> 0 <= b -> (b < a \/ a + w <= b) -> lb (sw m a v) b = lb m b.
Proof. intros Ha Hb H. unfold Machine.lb, Machine.sw. apply storen_outside; try assumption. rewrite wn_w. lia. Qed.
Lemma lw_sb_other m a v b : 0 <= a -> 0 <= b -> (a < b \/ b + w <= a) -> lw (Machine.sb m a v) b = lw m b.
Proof.
  intros Ha Hb H. unfold Machine.lw, Machine.sb. apply loadn_ext. intros x Hx. rewrite wn_w in Hx.
  apply getb_setb_other; lia.
Qed.
Lemma lb_sb_same m a v : lb (Machine.sb m a v) a = v mod 256.
Proof. apply getb_setb_same. Qed.
Lemma lb_sb_other m a v b : 0 <= a -> 0 <= b -> b <> a -> lb (Machine.sb m a v) b = lb m b.
Proof. intros; now apply getb_setb_other. Qed.
Lemma msize_sw m a v : msize (sw m a v) = msize m.
Proof. apply msize_storen. Qed.
Lemma lw_range m a : wf_mem m -> 0 <= lw m a < W.
Proof. intros Hm. unfold Machine.lw. rewrite W_pow. now apply loadn_range. Qed.
Lemma wf_sw m a v : wf_mem m -> 0 <= a -> wf_mem (sw m a v).
Proof. intros. now apply wf_storen. Qed.
Lemma wf_sb m a v : wf_mem m -> 0 <= a -> wf_mem (Machine.sb m a v).
Proof. intros. apply wf_setb; try assumption. apply Z.mod_pos_bound; lia. Qed.

Lemma inb_true m a n : 0 <= a -> a + n <= msize m -> inb m a n = true.
Proof. intros; unfold inb. apply andb_true_intro; split; apply Z.leb_le; lia. Qed.
Lemma inb_sw m a v b n : inb (sw m a v) b n = inb m b n.
Proof. unfold inb. now rewrite msize_sw. Qed.

(* negative immediates: -z as an offset operand *)
Lemma sgn_neg_imm z : 0 < z <= W / 2 -> Machine.sgn w (wrap (- z)) = - z.
Proof. intros H. apply (sgn_wrap_small w Hw). pose proof (half_pos w Hw). lia. Qed.
End WordMem.
