(* Time-travel idioms of the code generator (try/undo, try/stop, preempt, `??`, defeat calls) as
   machine-level theorems.  Bodies are ARBITRARY code: they enter the statements only through
   `Halts`/`runs` hypotheses about the states entering them; the code memory is an abstract
   function constrained only at the idiom's own instructions.  Every w >= 2, all values.

   Source shapes (hidc/codegen/generator.py):
     try/undo     468-478     j H; BODY; j E; halt; H: UNDO; E:
     try/stop     438-474     swso [fp],-k,[ap]; mov [try_fp],[fp]; mov [defeat],H; j B;
                              mov [defeat],halt; B: BODY; j E; halt;
                              H: mov [defeat],prev; mov [fp],[try_fp]; lwso [ap],[fp],-k; STOP; E:
     preempt      479-494     j DO; [hne [defeat],halt;] j END; halt; DO: BLOCK; END:
     ??           713-725     (r_out := right); j E; LEFT; heq l,r; [mov r_out,l;] E:
     defeat call  884-892, 1129-1167   [j [defeat];] halt   /   [j [defeat];] hcc a,b

   Section B of the component `idioms`. *)
From Coq Require Import ZArith List Bool Lia.
From HidV Require Import Machine Halts WordLemmas MemLemmas Idioms.
Import ListNotations.
Open Scope Z_scope.
Ltac Zify.zify_post_hook ::= Z.to_euclidean_division_equations.

Section TimeTravel.
Variable w : Z.
Hypothesis Hw : 2 <= w.
Variable code : Z -> option instr.
Variable cmem : mem.

Notation W := (Machine.W w).
Notation wrap := (Machine.wrap w).
Notation sgn := (Machine.sgn w).
Notation lw := (Machine.lw w).
Notation sw := (Machine.sw w).
Notation act := (Machine.act w code cmem).
Notation Halts := (HidV.Sphinx.Halts.Halts act).
Notation runs := (HidV.Sphinx.Halts.runs act).
Notation cstep := (HidV.Sphinx.Halts.cstep act).
Notation csteps := (HidV.Sphinx.Halts.csteps act).
Notation oval := (Idioms.oval w cmem).

Let Hw1 : 1 <= w. Proof. lia. Qed.

(* the bare Turing jump, in terms of code *)
Lemma jump_falls p m a t : code p = Some (IJ a) -> oval m a = Some t ->
  ~ Halts (mk (p + 1) m) ->
  runs (mk p m) [] (mk (p + 1) m) /\ ~ Halts (mk p m) /\ cstep (mk p m) None (mk (p + 1) m).
Proof.
  intros C A N. pose proof (act_j w code cmem p m a t C A) as Aj.
  destruct (runs_jump_fall act _ _ _ Aj N) as [R N0]. split; [exact R | split; [exact N0|]].
  eapply C_fall; eauto.
Qed.
Lemma jump_taken p m a t : code p = Some (IJ a) -> oval m a = Some t ->
  Halts (mk (p + 1) m) ->
  runs (mk p m) [] (mk t m) /\ cstep (mk p m) None (mk t m).
Proof.
  intros C A H. pose proof (act_j w code cmem p m a t C A) as Aj.
  split; [eapply runs_jump_take; eauto | eapply C_take; eauto].
Qed.

(* ================================================================================= *)
(* B1  try/undo:  p: j H; p+1..: BODY (ends with goto E);  H: UNDO...                  *)
(* ================================================================================= *)
(* sb = state entering the body, sh = state entering the undo block: the SAME memory m, so
   nothing the body did is visible to the undo block. *)
Theorem undo_idiom p m h H :
  code p = Some (IJ h) -> oval m h = Some H ->
  let sb := mk (p + 1) m in
  let sh := mk H m in
  (~ Halts sb -> runs (mk p m) [] sb /\ ~ Halts (mk p m) /\ cstep (mk p m) None sb) /\
  (Halts sb -> runs (mk p m) [] sh /\ cstep (mk p m) None sh).
Proof.
  intros C A sb sh. split; intro X.
  - eapply jump_falls; eauto.
  - eapply jump_taken; eauto.
Qed.
(* with the body's own run: it emits evs, reaches its closing `j E; halt` at q with memory mb,
   and the code after the try (at E) does not halt: the body is committed, events and all *)
Corollary undo_commit p m h H q mb evs e E :
  code p = Some (IJ h) -> oval m h = Some H ->
  runs (mk (p + 1) m) evs (mk q mb) ->
  code q = Some (IJ e) -> code (q + 1) = Some IHalt -> oval mb e = Some E ->
  ~ Halts (mk E mb) ->
  runs (mk p m) evs (mk E mb) /\ ~ Halts (mk p m) /\ csteps (mk p m) evs (mk E mb).
Proof.
  intros C A Rb Cq Ch Ev N.
  pose proof (goto_idiom w code cmem q mb e E Cq Ch Ev) as Rg.
  assert (Rbe : runs (mk (p + 1) m) evs (mk E mb)).
  { replace evs with (evs ++ []) by apply app_nil_r. eapply runs_trans; eauto. }
  assert (Nb : ~ Halts (mk (p + 1) m)) by (intro X; apply N, (proj1 Rbe), X).
  destruct (jump_falls p m h H C A Nb) as [R0 [N0 _]].
  assert (R : runs (mk p m) evs (mk E mb)).
  { change evs with ([] ++ evs). eapply runs_trans; eauto. }
  split; [exact R | split; [exact N0 | exact (proj2 R N)]].
Qed.

(* ================================================================================= *)
(* B2  preempt                                                                        *)
(* ================================================================================= *)
(* static defeat (= halt):  p: j DO; p+1: j END; p+2: halt; DO: BLOCK...; END:
   the block runs iff skipping it leads to halting *)
Theorem preempt_idiom_static p m d D e E :
  code p = Some (IJ d) -> oval m d = Some D ->
  code (p + 1) = Some (IJ e) -> code (p + 2) = Some IHalt -> oval m e = Some E ->
  (Halts (mk E m) -> runs (mk p m) [] (mk D m) /\ cstep (mk p m) None (mk D m)) /\
  (~ Halts (mk E m) -> runs (mk p m) [] (mk E m) /\ ~ Halts (mk p m)).
Proof.
  intros Cd Ad Ce Ch Ae. replace (p + 2) with (p + 1 + 1) in Ch by ring.
  pose proof (goto_idiom w code cmem (p + 1) m e E Ce Ch Ae) as Rg.
  split; intro X.
  - eapply jump_taken; eauto. apply (proj1 Rg), X.
  - assert (Nb : ~ Halts (mk (p + 1) m)) by (intro Y; apply X, (proj1 Rg), Y).
    destruct (jump_falls p m d D Cd Ad Nb) as [R0 [N0 _]].
    split; [|exact N0]. change (@nil event) with (@nil event ++ []). eapply runs_trans; eauto.
Qed.
(* virtual defeat:  p: j DO; p+1: hne [defeat],halt; p+2: j END; p+3: halt; DO:...
   the block runs iff [defeat] <> halt address, or skipping it leads to halting *)
Theorem preempt_idiom_virtual p m d D e E dfo hlo dv hv :
  code p = Some (IJ d) -> oval m d = Some D ->
  code (p + 1) = Some (IHc Cne dfo hlo) -> oval m dfo = Some dv -> oval m hlo = Some hv ->
  code (p + 2) = Some (IJ e) -> code (p + 3) = Some IHalt -> oval m e = Some E ->
  (dv <> hv \/ Halts (mk E m) -> runs (mk p m) [] (mk D m) /\ cstep (mk p m) None (mk D m)) /\
  (dv = hv /\ ~ Halts (mk E m) -> runs (mk p m) [] (mk E m) /\ ~ Halts (mk p m)).
Proof.
  intros Cd Ad Cc Adf Ahl Ce Ch Ae.
  replace (p + 2) with (p + 1 + 1) in Ce by ring. replace (p + 3) with (p + 1 + 1 + 1) in Ch by ring.
  pose proof (goto_idiom w code cmem (p + 1 + 1) m e E Ce Ch Ae) as Rg.
  pose proof (act_hc w code cmem (p + 1) m Cne dfo hlo dv hv Cc Adf Ahl) as Ac.
  cbn [cond_holds] in Ac.
  split.
  - intros X. eapply jump_taken; eauto.
    destruct (Z.eqb_spec dv hv) as [Eq|Ne]; cbn [negb] in Ac.
    + destruct X as [X|X]; [contradiction|].
      eapply H_next; [exact Ac|]. apply (proj1 Rg), X.
    + apply H_halt. exact Ac.
  - intros [Eq N]. destruct (Z.eqb_spec dv hv) as [_|Ne]; [|contradiction]. cbn [negb] in Ac.
    assert (R1 : runs (mk (p + 1) m) [] (mk E m)) by (eapply runs_tau; eauto).
    assert (Nb : ~ Halts (mk (p + 1) m)) by (intro Y; apply N, (proj1 R1), Y).
    destruct (jump_falls p m d D Cd Ad Nb) as [R0 [N0 _]].
    split; [|exact N0]. change (@nil event) with (@nil event ++ []). eapply runs_trans; eauto.
Qed.

(* ================================================================================= *)
(* B3  speculation  right ?? left-with-defeat                                         *)
(* ================================================================================= *)
(* ... r_out := right;  p: j E;  LEFT (evs; ends at q with memory ml, left value l, the saved
   right value r);  q: heq l,r;  q+1: mov [r_out],l;  E = q+2.
   m is the memory at the jump (r_out already holds right).  *)
Theorem speculation_idiom p m e evs q ml lop rop l r rout :
  code p = Some (IJ e) -> oval m e = Some (q + 2) ->
  runs (mk (p + 1) m) evs (mk q ml) ->
  code q = Some (IHc Ceq lop rop) -> oval ml lop = Some l -> oval ml rop = Some r ->
  code (q + 1) = Some (IMov (St rout) lop) -> inb ml rout w = true ->
  let E := q + 2 in
  let m2 := sw ml rout l in
  (* LEFT equals RIGHT: the comparison halts, the jump was taken: LEFT never happened *)
  (l = r -> runs (mk p m) [] (mk E m) /\ cstep (mk p m) None (mk E m)) /\
  (* LEFT differs and the continuation does not halt: LEFT is committed, r_out := l *)
  (l <> r -> ~ Halts (mk E m2) -> runs (mk p m) evs (mk E m2) /\ ~ Halts (mk p m)) /\
  (* LEFT differs but the continuation with LEFT's result halts: RIGHT is used although l <> r *)
  (l <> r -> Halts (mk E m2) -> runs (mk p m) [] (mk E m) /\ cstep (mk p m) None (mk E m)).
Proof.
  intros Cj Ae Rl Cq Al Ar Cm I E m2.
  pose proof (act_hc w code cmem q ml Ceq lop rop l r Cq Al Ar) as Ac. cbn [cond_holds] in Ac.
  split; [|split].
  - intros Eq. eapply jump_taken; eauto. apply (proj1 Rl). apply H_halt.
    rewrite Ac. subst r. now rewrite Z.eqb_refl.
  - intros Ne N. destruct (Z.eqb_spec l r) as [|_]; [contradiction|].
    assert (R2 : runs (mk q ml) [] (mk E m2)).
    { eapply runs_tau; [exact Ac|]. eapply runs_tau; [eapply act_mov; eauto|].
      unfold E. pcn. apply runs_refl. }
    assert (R3 : runs (mk (p + 1) m) evs (mk E m2)).
    { replace evs with (evs ++ []) by apply app_nil_r. eapply runs_trans; eauto. }
    assert (Nb : ~ Halts (mk (p + 1) m)) by (intro Y; apply N, (proj1 R3), Y).
    destruct (jump_falls p m e (q + 2) Cj Ae Nb) as [R0 [N0 _]].
    split; [|exact N0]. change evs with ([] ++ evs). eapply runs_trans; eauto.
  - intros Ne Hh. destruct (Z.eqb_spec l r) as [|_]; [contradiction|].
    eapply jump_taken; eauto. apply (proj1 Rl).
    eapply H_next; [exact Ac|]. eapply H_next; [eapply act_mov; eauto|].
    replace (q + 1 + 1) with (q + 2) by ring. exact Hh.
Qed.
(* LEFT itself is defeated (halts whatever follows): RIGHT is the result, nothing committed *)
Theorem speculation_left_defeated p m e E :
  code p = Some (IJ e) -> oval m e = Some E -> Halts (mk (p + 1) m) ->
  runs (mk p m) [] (mk E m) /\ cstep (mk p m) None (mk E m).
Proof. intros. eapply jump_taken; eauto. Qed.
(* the value of the result register: r_out held r at the jump *)
Corollary speculation_value p m e evs q ml lop rop l r rout :
  code p = Some (IJ e) -> oval m e = Some (q + 2) ->
  runs (mk (p + 1) m) evs (mk q ml) ->
  code q = Some (IHc Ceq lop rop) -> oval ml lop = Some l -> oval ml rop = Some r ->
  code (q + 1) = Some (IMov (St rout) lop) -> inb ml rout w = true -> 0 <= rout ->
  lw m rout = r -> 0 <= l < W ->
  ~ Halts (mk (q + 2) (sw ml rout l)) ->
  exists mf evf, runs (mk p m) evf (mk (q + 2) mf) /\
    lw mf rout = (if l =? r then r else l) /\
    (l = r -> mf = m /\ evf = []) /\ (l <> r -> mf = sw ml rout l /\ evf = evs).
Proof.
  intros Cj Ae Rl Cq Al Ar Cm I Hr Rv Lr N.
  destruct (speculation_idiom p m e evs q ml lop rop l r rout Cj Ae Rl Cq Al Ar Cm I) as [S1 [S2 _]].
  destruct (Z.eqb_spec l r) as [Eq|Ne].
  - exists m, []. split; [apply S1, Eq | split; [exact Rv | split; [tauto | contradiction]]].
  - exists (sw ml rout l), evs. split; [apply S2; assumption | split; [| split; [contradiction | tauto]]].
    rewrite lw_sw_same by (assumption || lia). apply wrap_small. exact Lr.
Qed.
(* variant without the mov (left was computed directly into r_out): E = q+1 *)
Theorem speculation_idiom_nomov p m e evs q ml lop rop l r :
  code p = Some (IJ e) -> oval m e = Some (q + 1) ->
  runs (mk (p + 1) m) evs (mk q ml) ->
  code q = Some (IHc Ceq lop rop) -> oval ml lop = Some l -> oval ml rop = Some r ->
  let E := q + 1 in
  (l = r -> runs (mk p m) [] (mk E m)) /\
  (l <> r -> ~ Halts (mk E ml) -> runs (mk p m) evs (mk E ml) /\ ~ Halts (mk p m)) /\
  (l <> r -> Halts (mk E ml) -> runs (mk p m) [] (mk E m)).
Proof.
  intros Cj Ae Rl Cq Al Ar E.
  pose proof (act_hc w code cmem q ml Ceq lop rop l r Cq Al Ar) as Ac. cbn [cond_holds] in Ac.
  split; [|split].
  - intros Eq. eapply jump_taken; eauto. apply (proj1 Rl). apply H_halt.
    rewrite Ac. subst r. now rewrite Z.eqb_refl.
  - intros Ne N. destruct (Z.eqb_spec l r) as [|_]; [contradiction|].
    assert (R3 : runs (mk (p + 1) m) evs (mk E ml)).
    { replace evs with (evs ++ []) by apply app_nil_r. eapply runs_trans; [exact Rl|].
      eapply runs_tau; [exact Ac | apply runs_refl]. }
    assert (Nb : ~ Halts (mk (p + 1) m)) by (intro Y; apply N, (proj1 R3), Y).
    destruct (jump_falls p m e (q + 1) Cj Ae Nb) as [R0 [N0 _]].
    split; [|exact N0]. change evs with ([] ++ evs). eapply runs_trans; eauto.
  - intros Ne Hh. destruct (Z.eqb_spec l r) as [|_]; [contradiction|].
    eapply jump_taken; eauto. apply (proj1 Rl). eapply H_next; [exact Ac | exact Hh].
Qed.

(* ================================================================================= *)
(* B4  defeat calls                                                                   *)
(* ================================================================================= *)
(* static: a bare halt *)
Theorem defeat_call_static p m : code p = Some IHalt -> Halts (mk p m).
Proof. intros C. apply H_halt. now apply act_halt. Qed.
(* virtual, unconditional: j [defeat]; halt  = goto the handler stored in the defeat word *)
Theorem defeat_call_virtual p m defeat :
  code p = Some (IJ (St defeat)) -> code (p + 1) = Some IHalt -> inb m defeat w = true ->
  runs (mk p m) [] (mk (lw m defeat) m) /\ cstep (mk p m) None (mk (lw m defeat) m).
Proof.
  intros Cj Ch I. split; [now apply goto_reg|].
  eapply jump_taken; eauto using oval_st. apply H_halt. now apply act_halt.
Qed.
(* static, conditional (truth_is_defeat): hcc a,b alone *)
Theorem defeat_call_static_cond p m cc a b x y :
  code p = Some (IHc cc a b) -> oval m a = Some x -> oval m b = Some y ->
  (cond_holds w cc x y = true -> Halts (mk p m)) /\
  (cond_holds w cc x y = false -> runs (mk p m) [] (mk (p + 1) m)).
Proof.
  intros C A B. split; intro T.
  - apply H_halt. eapply act_hc_halt; eauto.
  - apply (runs_next act _ _ None). eapply act_hc_next; eauto.
Qed.
(* virtual, conditional:  p: j [defeat]; p+1: hcc a,b
   (1) cc holds            -> control transfers to the handler address;
   (2) cc fails, continuation does not halt -> continues at p+2;
   (3) cc fails, continuation HALTS -> the jump to the handler is taken although the condition
       is false.  This is why code after a virtual-defeat test must never halt. *)
Theorem defeat_call_virtual_cond p m defeat cc a b x y :
  code p = Some (IJ (St defeat)) -> inb m defeat w = true ->
  code (p + 1) = Some (IHc cc a b) -> oval m a = Some x -> oval m b = Some y ->
  let hd := lw m defeat in
  (cond_holds w cc x y = true -> runs (mk p m) [] (mk hd m) /\ cstep (mk p m) None (mk hd m)) /\
  (cond_holds w cc x y = false -> ~ Halts (mk (p + 2) m) ->
     runs (mk p m) [] (mk (p + 2) m) /\ ~ Halts (mk p m)) /\
  (cond_holds w cc x y = false -> Halts (mk (p + 2) m) ->
     runs (mk p m) [] (mk hd m) /\ cstep (mk p m) None (mk hd m)).
Proof.
  intros Cj I Cc A B hd.
  pose proof (oval_st w cmem m defeat I) as Ad.
  split; [|split].
  - intros T. eapply jump_taken; eauto. apply H_halt. eapply act_hc_halt; eauto.
  - intros F N.
    assert (R1 : runs (mk (p + 1) m) [] (mk (p + 2) m)).
    { eapply runs_tau; [eapply act_hc_next; eauto|]. pcn. apply runs_refl. }
    assert (Nb : ~ Halts (mk (p + 1) m)) by (intro Y; apply N, (proj1 R1), Y).
    destruct (jump_falls p m (St defeat) hd Cj Ad Nb) as [R0 [N0 _]].
    split; [|exact N0]. change (@nil event) with (@nil event ++ []). eapply runs_trans; eauto.
  - intros F Hh. eapply jump_taken; eauto.
    eapply H_next; [eapply act_hc_next; eauto|]. replace (p + 1 + 1) with (p + 2) by ring. exact Hh.
Qed.

(* ================================================================================= *)
(* B5  try/stop                                                                       *)
(* ================================================================================= *)
(* q: mov [defeat],HANDLER; q+1: j BEGIN; q+2: mov [defeat],halt; BEGIN = q+3: BODY...
   (a) the body entered with defeat = halt does not halt: that is the committed run;
   (b) it halts: the body is entered with defeat = HANDLER instead. *)
Theorem stop_idiom q m defeat hdo bg hlo Hd hv :
  code q = Some (IMov (St defeat) hdo) -> oval m hdo = Some Hd ->
  code (q + 1) = Some (IJ bg) ->
  code (q + 2) = Some (IMov (St defeat) hlo) ->
  0 <= defeat -> inb m defeat w = true ->
  let m1 := sw m defeat Hd in
  oval m1 bg = Some (q + 3) -> oval m1 hlo = Some hv ->
  let m2 := sw m1 defeat hv in
  (~ Halts (mk (q + 3) m2) ->
     runs (mk q m) [] (mk (q + 3) m2) /\ ~ Halts (mk q m) /\ lw m2 defeat = wrap hv) /\
  (Halts (mk (q + 3) m2) ->
     runs (mk q m) [] (mk (q + 3) m1) /\ lw m1 defeat = wrap Hd).
Proof.
  intros C0 A0 C1 C2 Hd0 I m1 Ab Ah m2.
  assert (I1 : inb m1 defeat w = true) by (unfold m1; now rewrite inb_sw).
  assert (R0 : runs (mk q m) [] (mk (q + 1) m1)).
  { eapply runs_tau; [eapply act_mov; eauto | apply runs_refl]. }
  assert (R2 : runs (mk (q + 1 + 1) m1) [] (mk (q + 3) m2)).
  { eapply runs_tau; [replace (q + 1 + 1) with (q + 2) by ring; eapply act_mov; eauto|].
    pcn. apply runs_refl. }
  split; intros X.
  - assert (Nb : ~ Halts (mk (q + 1 + 1) m1)) by (intro Y; apply X, (proj1 R2), Y).
    destruct (jump_falls (q + 1) m1 bg (q + 3) C1 Ab Nb) as [R1 [N1 _]].
    split; [|split].
    + change (@nil event) with (@nil event ++ ([] ++ [])).
      eapply runs_trans; [exact R0|]. eapply runs_trans; eauto.
    + intro Y. apply N1, (proj1 R0), Y.
    + unfold m2. now rewrite lw_sw_same by (assumption || lia).
  - assert (Hb : Halts (mk (q + 1 + 1) m1)) by (apply (proj1 R2), X).
    destruct (jump_taken (q + 1) m1 bg (q + 3) C1 Ab Hb) as [R1 _].
    split.
    + change (@nil event) with (@nil event ++ []). eapply runs_trans; eauto.
    + unfold m1. now rewrite lw_sw_same by (assumption || lia).
Qed.

(* the prologue before it (lines 447-451): save ap in the frame slot, save fp in try_fp *)
Theorem stop_prologue q m fp ap tryfp k :
  code q = Some (IStoreO WWord (St fp) (Imm k) (St ap)) ->
  code (q + 1) = Some (IMov (St tryfp) (St fp)) ->
  inb m fp w = true -> inb m ap w = true -> inb m tryfp w = true ->
  let slot := sgn (lw m fp) + sgn (wrap k) in
  inb m slot w = true -> 0 <= slot -> 0 <= fp -> 0 <= tryfp ->
  (fp + w <= slot \/ slot + w <= fp) ->                 (* the slot is not the fp register *)
  (tryfp + w <= slot \/ slot + w <= tryfp) ->
  let m' := sw (sw m slot (lw m ap)) tryfp (lw m fp) in
  runs (mk q m) [] (mk (q + 2) m') /\
  lw m' tryfp = wrap (lw m fp) /\ lw m' slot = wrap (lw m ap).
Proof.
  intros C0 C1 If Ia It slot Is Hs Hf Ht D1 D2 m'.
  split; [|split].
  - eapply runs_tau; [eapply act_swso; eauto using oval_st; apply oval_imm|].
    eapply runs_tau.
    + eapply act_mov; [exact C1 | | now rewrite inb_sw].
      rewrite oval_st_sw_other by (assumption || lia). apply oval_st, If.
    + pcn. apply runs_refl.
  - unfold m'. now rewrite lw_sw_same by (assumption || lia).
  - unfold m'. rewrite lw_sw_other by (assumption || lia). now rewrite lw_sw_same by (assumption || lia).
Qed.

(* the fp/ap restoring part of the handler entry (the whole entry BEFORE commit 9d8b1d9):
     H: mov [fp],[try_fp];  H+1: lwso [ap],[fp],-k      (pop(ap_bubble) emits nothing)
   restores fp from try_fp and ap from the frame slot -- and does NOT touch the defeat word.
   The `_without_reset` lemmas below are about this two-instruction sequence; they are no longer
   statements about the emitted code, they explain why the reset `mov [defeat],prev` is needed. *)
Theorem stop_handler_entry_without_reset H mh fp ap tryfp k defeat :
  code H = Some (IMov (St fp) (St tryfp)) ->
  code (H + 1) = Some (ILoadO WWord SState (St ap) (St fp) (Imm k)) ->
  inb mh fp w = true -> inb mh ap w = true -> inb mh tryfp w = true ->
  0 <= fp -> 0 <= ap -> 0 <= defeat ->
  (fp + w <= ap \/ ap + w <= fp) ->
  (defeat + w <= fp \/ fp + w <= defeat) -> (defeat + w <= ap \/ ap + w <= defeat) ->
  let m1 := sw mh fp (lw mh tryfp) in
  let slot := sgn (wrap (lw mh tryfp)) + sgn (wrap k) in
  inb mh slot w = true ->
  let m' := sw m1 ap (lw m1 slot) in
  runs (mk H mh) [] (mk (H + 2) m') /\
  lw m' fp = wrap (lw mh tryfp) /\
  lw m' ap = wrap (lw m1 slot) /\
  (0 <= slot -> (slot + w <= fp \/ fp + w <= slot) -> lw m' ap = wrap (lw mh slot)) /\
  lw m' defeat = lw mh defeat.
Proof.
  intros C0 C1 If Ia It Hf Ha Hdf Dfa Ddf Dda m1 slot Is m'.
  assert (Lf : lw m1 fp = wrap (lw mh tryfp)) by (unfold m1; now rewrite lw_sw_same by (assumption || lia)).
  assert (R : runs (mk H mh) [] (mk (H + 2) m')).
  { eapply runs_tau; [eapply act_mov; eauto using oval_st|].
    eapply runs_tau.
    - eapply act_lwso; [exact C1 | apply oval_st_sw_same; assumption | apply oval_imm | | ].
      + fold slot. unfold m1. now rewrite inb_sw.
      + unfold m1. now rewrite inb_sw.
    - fold m1 slot m'. pcn. apply runs_refl. }
  split; [exact R | split; [|split; [|split]]].
  - unfold m'. rewrite lw_sw_other by (assumption || lia). exact Lf.
  - unfold m'. now rewrite lw_sw_same by (assumption || lia).
  - intros Hs D. unfold m'. rewrite lw_sw_same by (assumption || lia).
    unfold m1. now rewrite lw_sw_other by (assumption || lia).
  - unfold m', m1. rewrite !lw_sw_other by (assumption || lia). reflexivity.
Qed.

(* WHY THE RESET IS NEEDED (the former defect F2, fixed by 9d8b1d9): with only the two
   restoring instructions, when the stop handler's block starts the defeat word still holds the
   handler address, not the halt address. *)
Theorem stop_leaves_defeat_stale_without_reset H mh fp ap tryfp k defeat HANDLER hv :
  code H = Some (IMov (St fp) (St tryfp)) ->
  code (H + 1) = Some (ILoadO WWord SState (St ap) (St fp) (Imm k)) ->
  inb mh fp w = true -> inb mh ap w = true -> inb mh tryfp w = true ->
  0 <= fp -> 0 <= ap -> 0 <= defeat ->
  (fp + w <= ap \/ ap + w <= fp) ->
  (defeat + w <= fp \/ fp + w <= defeat) -> (defeat + w <= ap \/ ap + w <= defeat) ->
  inb mh (sgn (wrap (lw mh tryfp)) + sgn (wrap k)) w = true ->
  lw mh defeat = HANDLER -> HANDLER <> hv ->
  exists m', runs (mk H mh) [] (mk (H + 2) m') /\ lw m' defeat = HANDLER /\ lw m' defeat <> hv.
Proof.
  intros C0 C1 If Ia It Hf Ha Hdf Dfa Ddf Dda Is Ld Ne.
  destruct (stop_handler_entry_without_reset H mh fp ap tryfp k defeat C0 C1 If Ia It Hf Ha Hdf Dfa Ddf Dda Is)
    as [R [_ [_ [_ Ldf]]]].
  eexists. split; [exact R|]. rewrite Ldf, Ld. split; [reflexivity | exact Ne].
Qed.
(* what a stale word would do: any later virtual defeat call (e.g. !is_defeat() inside a defeat
   function called from a subsequent try/undo body, or a preempt's `hne [defeat],halt`) in a
   memory where the word is still HANDLER re-enters the old handler / is forced *)
Corollary stale_defeat_reenters_handler_without_reset c mc defeat HANDLER :
  code c = Some (IJ (St defeat)) -> code (c + 1) = Some IHalt -> inb mc defeat w = true ->
  lw mc defeat = HANDLER -> cstep (mk c mc) None (mk HANDLER mc).
Proof. intros Cj Ch I L. rewrite <- L. now apply defeat_call_virtual. Qed.
Corollary stale_defeat_forces_preempt_without_reset p m d D e E defeat hlo HANDLER hv :
  code p = Some (IJ d) -> oval m d = Some D ->
  code (p + 1) = Some (IHc Cne (St defeat) hlo) -> inb m defeat w = true -> oval m hlo = Some hv ->
  code (p + 2) = Some (IJ e) -> code (p + 3) = Some IHalt -> oval m e = Some E ->
  lw m defeat = HANDLER -> HANDLER <> hv ->
  cstep (mk p m) None (mk D m).
Proof.
  intros Cd Ad Cc I Ah Ce Ch Ae L Ne.
  refine (proj2 (proj1 (preempt_idiom_virtual p m d D e E (St defeat) hlo HANDLER hv Cd Ad Cc _ Ah Ce Ch Ae) _)).
  - rewrite <- L. now apply oval_st.
  - left. exact Ne.
Qed.

(* A later try/undo, with a fresh and with a stale defeat word.  The undo body reaches a virtual defeat call
   (`j [defeat]; halt`, e.g. !is_defeat() in a defeat function it calls) at c with memory mc.
   With the defeat word FRESH (= the address hv of the stdlib `halt: halt`) the body halts, so
   the undo block runs from the memory at the jump -- the intended behaviour.  With the word
   STALE (= the old stop handler, whose continuation does not halt) the body does not halt: it
   is COMMITTED, events included, and control re-enters the old stop handler. *)
Theorem undo_with_fresh_defeat p m h HU evs c mc defeat hv :
  code p = Some (IJ h) -> oval m h = Some HU ->
  runs (mk (p + 1) m) evs (mk c mc) ->
  code c = Some (IJ (St defeat)) -> code (c + 1) = Some IHalt -> inb mc defeat w = true ->
  lw mc defeat = hv -> code hv = Some IHalt ->
  runs (mk p m) [] (mk HU m) /\ cstep (mk p m) None (mk HU m).
Proof.
  intros Cj Ah Rb Cc Ch I L Chv.
  eapply jump_taken; eauto. apply (proj1 Rb).
  apply (proj1 (defeat_call_virtual c mc defeat Cc Ch I)). rewrite L.
  apply H_halt. now apply act_halt.
Qed.
Theorem undo_with_stale_defeat_without_reset p m h HU evs c mc defeat HANDLER :
  code p = Some (IJ h) -> oval m h = Some HU ->
  runs (mk (p + 1) m) evs (mk c mc) ->
  code c = Some (IJ (St defeat)) -> code (c + 1) = Some IHalt -> inb mc defeat w = true ->
  lw mc defeat = HANDLER -> ~ Halts (mk HANDLER mc) ->
  runs (mk p m) evs (mk HANDLER mc) /\ ~ Halts (mk p m) /\ csteps (mk p m) evs (mk HANDLER mc).
Proof.
  intros Cj Ah Rb Cc Ch I L N. subst HANDLER.
  eapply undo_commit; eauto using oval_st.
Qed.


(* ---------- the handler entry as emitted NOW (lines 463-471, after commit 9d8b1d9) ----------
     H: mov [defeat],prev;  H+1: mov [fp],[try_fp];  H+2: lwso [ap],[fp],-k
   prev = prev_defeat, the `halt` label in a you-function (value hv = the real halt address). *)
Theorem stop_handler_entry H mh fp ap tryfp k defeat pdo hv :
  code H = Some (IMov (St defeat) pdo) -> oval mh pdo = Some hv ->
  code (H + 1) = Some (IMov (St fp) (St tryfp)) ->
  code (H + 2) = Some (ILoadO WWord SState (St ap) (St fp) (Imm k)) ->
  inb mh defeat w = true -> inb mh fp w = true -> inb mh ap w = true -> inb mh tryfp w = true ->
  0 <= fp -> 0 <= ap -> 0 <= defeat -> 0 <= tryfp ->
  (fp + w <= ap \/ ap + w <= fp) ->
  (defeat + w <= fp \/ fp + w <= defeat) -> (defeat + w <= ap \/ ap + w <= defeat) ->
  (defeat + w <= tryfp \/ tryfp + w <= defeat) ->
  let m0 := sw mh defeat hv in
  let m1 := sw m0 fp (lw mh tryfp) in
  let slot := sgn (wrap (lw mh tryfp)) + sgn (wrap k) in
  inb mh slot w = true ->
  let m' := sw m1 ap (lw m1 slot) in
  runs (mk H mh) [] (mk (H + 3) m') /\
  lw m' defeat = wrap hv /\
  lw m' fp = wrap (lw mh tryfp) /\
  lw m' ap = wrap (lw m1 slot) /\
  (0 <= slot -> (slot + w <= fp \/ fp + w <= slot) -> (slot + w <= defeat \/ defeat + w <= slot) ->
     lw m' ap = wrap (lw mh slot)).
Proof.
  intros C0 Ap C1 C2 Id If Ia It Hf Ha Hdf Ht Dfa Ddf Dda Ddt m0 m1 slot Is m'.
  assert (Lt : lw m0 tryfp = lw mh tryfp) by (unfold m0; now rewrite lw_sw_other by (assumption || lia)).
  replace (H + 2) with (H + 1 + 1) in C2 by ring.
  destruct (stop_handler_entry_without_reset (H + 1) m0 fp ap tryfp k defeat C1 C2) as [R [Lf [La [Ls Ld]]]];
    try assumption; try (unfold m0; now rewrite inb_sw).
  { rewrite Lt. unfold m0. now rewrite inb_sw. }
  rewrite Lt in R, Lf, La, Ls, Ld. fold m1 slot m' in R, Lf, La, Ls, Ld.
  replace (H + 1 + 2) with (H + 3) in R by ring.
  split; [|split; [|split; [|split]]].
  - eapply runs_tau; [eapply act_mov; eauto | exact R].
  - rewrite Ld. unfold m0. now rewrite lw_sw_same by (assumption || lia).
  - exact Lf.
  - exact La.
  - intros Hs D1 D2. rewrite (Ls Hs D1). f_equal. unfold m0. now rewrite lw_sw_other by (assumption || lia).
Qed.
(* the positive statement of the clause "with defeat behaving normally again" *)
Theorem stop_handler_entry_resets_defeat H mh fp ap tryfp k defeat pdo hv :
  code H = Some (IMov (St defeat) pdo) -> oval mh pdo = Some hv ->
  code (H + 1) = Some (IMov (St fp) (St tryfp)) ->
  code (H + 2) = Some (ILoadO WWord SState (St ap) (St fp) (Imm k)) ->
  inb mh defeat w = true -> inb mh fp w = true -> inb mh ap w = true -> inb mh tryfp w = true ->
  0 <= fp -> 0 <= ap -> 0 <= defeat -> 0 <= tryfp ->
  (fp + w <= ap \/ ap + w <= fp) ->
  (defeat + w <= fp \/ fp + w <= defeat) -> (defeat + w <= ap \/ ap + w <= defeat) ->
  (defeat + w <= tryfp \/ tryfp + w <= defeat) ->
  inb mh (sgn (wrap (lw mh tryfp)) + sgn (wrap k)) w = true ->
  exists m', runs (mk H mh) [] (mk (H + 3) m') /\ lw m' defeat = wrap hv /\ lw m' fp = wrap (lw mh tryfp).
Proof.
  intros C0 Ap C1 C2 Id If Ia It Hf Ha Hdf Ht Dfa Ddf Dda Ddt Is.
  destruct (stop_handler_entry H mh fp ap tryfp k defeat pdo hv C0 Ap C1 C2 Id If Ia It Hf Ha Hdf Ht Dfa Ddf Dda Ddt Is)
    as [R [Ld [Lf _]]].
  eexists. split; [exact R | split; [exact Ld | exact Lf]].
Qed.

(* try/stop fires, then a later try/undo: defeat behaves normally again.
   (1) the stop prologue at q in m0; the body entered with defeat = halt halts, so (stop_idiom b)
       it is entered with defeat = handler; it emits evs1 and reaches a virtual defeat call
       `j [defeat]; halt` at d with memory mb, not having written the defeat word;
   (2) control enters the handler H = wrap Hd, whose entry resets the word to hv = the address of
       the stdlib `halt: halt`, and the stop block starts at H+3;
   (3) any later try/undo (at p, memory m) whose body reaches `j [defeat]; halt` (at c, memory mc)
       with the word as the handler entry left it is undone: its undo block runs from m. *)
Theorem stop_fired_then_undo_behaves
    q m0 defeat hdo bg hlo Hd hv evs1 d mb fp ap tryfp k pdo :
  (* try/stop prologue *)
  code q = Some (IMov (St defeat) hdo) -> oval m0 hdo = Some Hd ->
  code (q + 1) = Some (IJ bg) -> code (q + 2) = Some (IMov (St defeat) hlo) ->
  0 <= defeat -> inb m0 defeat w = true ->
  let m1 := sw m0 defeat Hd in
  oval m1 bg = Some (q + 3) -> oval m1 hlo = Some hv ->
  Halts (mk (q + 3) (sw m1 defeat hv)) ->
  (* the body, second attempt, up to its defeat call *)
  runs (mk (q + 3) m1) evs1 (mk d mb) ->
  code d = Some (IJ (St defeat)) -> code (d + 1) = Some IHalt -> lw mb defeat = wrap Hd ->
  (* the handler entry at H = wrap Hd *)
  let H := wrap Hd in
  code H = Some (IMov (St defeat) pdo) -> oval mb pdo = Some hv ->
  code (H + 1) = Some (IMov (St fp) (St tryfp)) ->
  code (H + 2) = Some (ILoadO WWord SState (St ap) (St fp) (Imm k)) ->
  inb mb defeat w = true -> inb mb fp w = true -> inb mb ap w = true -> inb mb tryfp w = true ->
  0 <= fp -> 0 <= ap -> 0 <= tryfp ->
  (fp + w <= ap \/ ap + w <= fp) ->
  (defeat + w <= fp \/ fp + w <= defeat) -> (defeat + w <= ap \/ ap + w <= defeat) ->
  (defeat + w <= tryfp \/ tryfp + w <= defeat) ->
  let mh1 := sw (sw mb defeat hv) fp (lw mb tryfp) in
  let slot := sgn (wrap (lw mb tryfp)) + sgn (wrap k) in
  inb mb slot w = true ->
  code (wrap hv) = Some IHalt ->
  let m' := sw mh1 ap (lw mh1 slot) in
  (* the stop block starts at H+3 with the defeat word reset ... *)
  runs (mk q m0) evs1 (mk (H + 3) m') /\ lw m' defeat = wrap hv /\
  (* ... and every later try/undo that sees this word is undone by a virtual defeat call *)
  (forall p m h HU evs c mc,
     code p = Some (IJ h) -> oval m h = Some HU ->
     runs (mk (p + 1) m) evs (mk c mc) ->
     code c = Some (IJ (St defeat)) -> code (c + 1) = Some IHalt -> inb mc defeat w = true ->
     lw mc defeat = lw m' defeat ->
     runs (mk p m) [] (mk HU m) /\ cstep (mk p m) None (mk HU m)).
Proof.
  intros C0 A0 C1 C2 Hdf I0 m1 Ab Ah Hb Rb Cd Cdh Lb H CH Ap CH1 CH2 Id If Ia It Hf Ha Ht Dfa Ddf Dda Ddt mh1 slot Is Chv m'.
  destruct (stop_idiom q m0 defeat hdo bg hlo Hd hv C0 A0 C1 C2 Hdf I0 Ab Ah) as [_ Sb].
  destruct (Sb Hb) as [R0 _].
  destruct (defeat_call_virtual d mb defeat Cd Cdh Id) as [Rd _]. rewrite Lb in Rd. fold H in Rd.
  destruct (stop_handler_entry H mb fp ap tryfp k defeat pdo hv CH Ap CH1 CH2 Id If Ia It Hf Ha Hdf Ht Dfa Ddf Dda Ddt Is)
    as [Rh [Ld _]]. fold mh1 slot m' in Rh, Ld.
  split; [|split; [exact Ld|]].
  - replace evs1 with ([] ++ (evs1 ++ ([] ++ []))) by (cbn; now rewrite app_nil_r).
    eapply runs_trans; [exact R0|]. eapply runs_trans; [exact Rb|]. eapply runs_trans; [exact Rd | exact Rh].
  - intros p m h HU evs c mc Cj Au Ru Cc Cch Ic Lc.
    eapply (undo_with_fresh_defeat p m h HU evs c mc defeat (wrap hv)); eauto. now rewrite Lc.
Qed.

(* return protection of preemptive defeat functions (gen_stmts 544-548):
     p: j nonlocal_preempt; p+1: j [r1]; p+2: halt
   the stub is entered iff the state after returning halts *)
Theorem return_protection_idiom p m nlp N r :
  code p = Some (IJ nlp) -> oval m nlp = Some N ->
  code (p + 1) = Some (IJ (St r)) -> code (p + 2) = Some IHalt -> inb m r w = true ->
  let ra := lw m r in
  (Halts (mk ra m) -> runs (mk p m) [] (mk N m) /\ cstep (mk p m) None (mk N m)) /\
  (~ Halts (mk ra m) -> runs (mk p m) [] (mk ra m) /\ ~ Halts (mk p m)) /\
  (~ Halts (mk N m) -> ~ Halts (mk p m)).
Proof.
  intros Cj An Cr Ch I ra.
  destruct (preempt_idiom_static p m nlp N (St r) ra Cj An Cr Ch (oval_st w cmem m r I)) as [X Y].
  split; [exact X | split; [exact Y|]].
  intros Nn Hp.
  pose proof (act_j w code cmem p m nlp N Cj An) as Aj.
  apply (halts_jump_inv act _ _ _ Aj) in Hp. tauto.
Qed.

End TimeTravel.

(* ================================================================================= *)
(* Satisfiability examples (w = 2, 16 bytes of state, all zero)                        *)
(* ================================================================================= *)
Section Examples.
Let m16 := zmem 16.
Let cm := zmem 0.
Notation A c := (act 2 c cm).

(* body = `j 1; halt` (loops: never halts) -> body committed; body = `halt` -> undo block *)
Example undo_idiom_ex_commit : let c := code_of [IJ (Imm 3); IJ (Imm 1); IHalt; IHalt] in
  runs (A c) (mk 0 m16) [] (mk 1 m16) /\ ~ Halts (A c) (mk 0 m16).
Proof.
  intro c. destruct (undo_idiom 2 c cm 0 m16 (Imm 3) 3) as [X _]; try reflexivity.
  destruct X as [R [N _]]; [|split; assumption].
  apply stub_absorbing; [reflexivity | lia].
Qed.
Example undo_idiom_ex_undo : let c := code_of [IJ (Imm 3); IHalt; IHalt; IFlag 0] in
  runs (A c) (mk 0 m16) [] (mk 3 m16).
Proof.
  intro c. destruct (undo_idiom 2 c cm 0 m16 (Imm 3) 3) as [_ X]; try reflexivity.
  apply X. apply H_halt. reflexivity.
Qed.
Example undo_commit_ex : let c := code_of [IJ (Imm 4); IYield (Imm 65); IJ (Imm 5); IHalt; IHalt; IJ (Imm 5); IHalt] in
  csteps (A c) (mk 0 m16) [EOut 65] (mk 5 m16).
Proof.
  intro c.
  refine (proj2 (proj2 (undo_commit 2 c cm 0 m16 (Imm 4) 4 2 m16 [EOut 65] (Imm 5) 5 _ _ _ _ _ _ _))); try reflexivity.
  - apply (runs_next (A c) (mk 1 m16) (mk 2 m16) (Some (EOut 65))). reflexivity.
  - apply stub_absorbing; [reflexivity | lia].
Qed.

(* preempt, static: END = 4 halts -> block at 3 runs; END = 4 loops -> skipped *)
Example preempt_static_ex_runs : let c := code_of [IJ (Imm 3); IJ (Imm 4); IHalt; IFlag 0; IHalt] in
  runs (A c) (mk 0 m16) [] (mk 3 m16).
Proof.
  intro c. destruct (preempt_idiom_static 2 c cm 0 m16 (Imm 3) 3 (Imm 4) 4) as [X _]; try reflexivity.
  apply X. apply H_halt. reflexivity.
Qed.
Example preempt_static_ex_skips : let c := code_of [IJ (Imm 3); IJ (Imm 4); IHalt; IFlag 0; IJ (Imm 4); IHalt] in
  runs (A c) (mk 0 m16) [] (mk 4 m16) /\ ~ Halts (A c) (mk 0 m16).
Proof.
  intro c. destruct (preempt_idiom_static 2 c cm 0 m16 (Imm 3) 3 (Imm 4) 4) as [_ X]; try reflexivity.
  apply X. apply stub_absorbing; [reflexivity | lia].
Qed.
(* preempt, virtual: defeat word [8] = 0, halt address 9: 0 <> 9 -> block runs *)
Example preempt_virtual_ex : let c := code_of [IJ (Imm 4); IHc Cne (St 8) (Imm 9); IJ (Imm 5); IHalt; IFlag 0; IFlag 0] in
  runs (A c) (mk 0 m16) [] (mk 4 m16).
Proof.
  intro c. destruct (preempt_idiom_virtual 2 c cm 0 m16 (Imm 4) 4 (Imm 5) 5 (St 8) (Imm 9) 0 9) as [X _]; try reflexivity.
  apply X. left. lia.
Qed.
Example preempt_virtual_ex_skips : let c := code_of [IJ (Imm 4); IHc Cne (St 8) (Imm 0); IJ (Imm 5); IHalt; IFlag 0; IJ (Imm 5); IHalt] in
  runs (A c) (mk 0 m16) [] (mk 5 m16) /\ ~ Halts (A c) (mk 0 m16).
Proof.
  intro c. destruct (preempt_idiom_virtual 2 c cm 0 m16 (Imm 4) 4 (Imm 5) 5 (St 8) (Imm 0) 0 0) as [_ X]; try reflexivity.
  apply X. split; [reflexivity|]. apply stub_absorbing; [reflexivity | lia].
Qed.

(* ??: r_out = [4] (0 = right), LEFT = nothing, left = 7 <> right = [6] = 0; continuation loops *)
Example speculation_ex : let c := code_of [IJ (Imm 3); IHc Ceq (Imm 7) (St 6); IMov (St 4) (Imm 7); IJ (Imm 3); IHalt] in
  runs (A c) (mk 0 m16) [] (mk 3 (sw 2 m16 4 7)) /\ ~ Halts (A c) (mk 0 m16).
Proof.
  intro c.
  destruct (speculation_idiom 2 c cm 0 m16 (Imm 3) [] 1 m16 (Imm 7) (St 6) 7 0 4) as [_ [X _]]; try reflexivity.
  - apply runs_refl.
  - apply X; [lia|]. apply stub_absorbing; [reflexivity | lia].
Qed.
Example speculation_ex_equal : let c := code_of [IJ (Imm 3); IHc Ceq (Imm 0) (St 6); IMov (St 4) (Imm 0); IFlag 0] in
  runs (A c) (mk 0 m16) [] (mk 3 m16).
Proof.
  intro c.
  destruct (speculation_idiom 2 c cm 0 m16 (Imm 3) [] 1 m16 (Imm 0) (St 6) 0 0 4) as [X _]; try reflexivity.
  - apply runs_refl.
  - apply X. reflexivity.
Qed.

(* defeat calls: defeat word [8] = 0 -> handler address 0 *)
Example defeat_call_virtual_ex : let c := code_of [IFlag 0; IJ (St 8); IHalt] in
  runs (A c) (mk 1 m16) [] (mk 0 m16).
Proof. intro c. apply (defeat_call_virtual 2 c cm 1 m16 8); reflexivity. Qed.
Example defeat_call_virtual_cond_ex_true : let c := code_of [IFlag 0; IJ (St 8); IHc Ceq (St 4) (Imm 0)] in
  runs (A c) (mk 1 m16) [] (mk 0 m16).
Proof.
  intro c. destruct (defeat_call_virtual_cond 2 c cm 1 m16 8 Ceq (St 4) (Imm 0) 0 0) as [X _]; try reflexivity.
  apply X. reflexivity.
Qed.
Example defeat_call_virtual_cond_ex_false : let c := code_of [IFlag 0; IJ (St 8); IHc Cne (St 4) (Imm 0); IJ (Imm 3); IHalt] in
  runs (A c) (mk 1 m16) [] (mk 3 m16) /\ ~ Halts (A c) (mk 1 m16).
Proof.
  intro c. destruct (defeat_call_virtual_cond 2 c cm 1 m16 8 Cne (St 4) (Imm 0) 0 0) as [_ [X _]]; try reflexivity.
  apply X; [reflexivity|]. apply stub_absorbing; [reflexivity | lia].
Qed.
(* third case: the condition is false, the continuation halts: control goes to the handler *)
Example defeat_call_virtual_cond_ex_hijack : let c := code_of [IFlag 0; IJ (St 8); IHc Cne (St 4) (Imm 0); IHalt] in
  cstep (A c) (mk 1 m16) None (mk 0 m16).
Proof.
  intro c. destruct (defeat_call_virtual_cond 2 c cm 1 m16 8 Cne (St 4) (Imm 0) 0 0) as [_ [_ X]]; try reflexivity.
  apply X; [reflexivity|]. apply H_halt. reflexivity.
Qed.

(* try/stop: defeat word [8], handler 7, halt address 9; body at 3 loops -> committed with halt *)
Example stop_idiom_ex_commit : let c := code_of [IMov (St 8) (Imm 7); IJ (Imm 3); IMov (St 8) (Imm 9); IJ (Imm 3); IHalt] in
  let m2 := sw 2 (sw 2 m16 8 7) 8 9 in
  runs (A c) (mk 0 m16) [] (mk 3 m2) /\ lw 2 m2 8 = 9.
Proof.
  intros c m2.
  destruct (stop_idiom 2 ltac:(lia) c cm 0 m16 8 (Imm 7) (Imm 3) (Imm 9) 7 9) as [X _]; try reflexivity; try lia.
  destruct X as [R [_ L]]; [|split; [exact R | exact L]].
  apply stub_absorbing; [reflexivity | lia].
Qed.
(* body at 3 is a static defeat (halt) -> re-entered with defeat = handler *)
Example stop_idiom_ex_handler : let c := code_of [IMov (St 8) (Imm 7); IJ (Imm 3); IMov (St 8) (Imm 9); IHalt] in
  let m1 := sw 2 m16 8 7 in
  runs (A c) (mk 0 m16) [] (mk 3 m1) /\ lw 2 m1 8 = 7.
Proof.
  intros c m1.
  destruct (stop_idiom 2 ltac:(lia) c cm 0 m16 8 (Imm 7) (Imm 3) (Imm 9) 7 9) as [_ X]; try reflexivity; try lia.
  apply X. apply H_halt. reflexivity.
Qed.
(* prologue + handler entry: ap=[0], fp=[2] (=14), try_fp=[10], defeat=[8], slot = fp-2 = 12 *)
Definition m_stop : mem := sw 2 (zmem 16) 2 14.
Example stop_prologue_ex : let c := code_of [IStoreO WWord (St 2) (Imm (-2)) (St 0); IMov (St 10) (St 2)] in
  exists m', runs (A c) (mk 0 m_stop) [] (mk 2 m') /\ lw 2 m' 10 = 14 /\ lw 2 m' 12 = 0.
Proof.
  intro c.
  destruct (stop_prologue 2 ltac:(lia) c cm 0 m_stop 2 0 10 (-2)) as [R [L1 L2]]; try reflexivity; try zc.
  exists (sw 2 (sw 2 m_stop 12 0) 10 14). split; [exact R|]. split; vm_compute; reflexivity.
Qed.
Definition m_hand : mem := sw 2 (sw 2 (zmem 16) 10 14) 8 7.   (* try_fp = 14, defeat = 7 = handler *)
Example stop_leaves_defeat_stale_ex : let c := code_of [IMov (St 2) (St 10); ILoadO WWord SState (St 0) (St 2) (Imm (-2))] in
  exists m', runs (A c) (mk 0 m_hand) [] (mk 2 m') /\ lw 2 m' 8 = 7 /\ lw 2 m' 8 <> 9.
Proof.
  intro c.
  apply (stop_leaves_defeat_stale_without_reset 2 ltac:(lia) c cm 0 m_hand 2 0 10 (-2) 8 7 9); try reflexivity; try lia; try zc.
Qed.
(* a later try/undo whose body yields 'A' and then calls a virtual defeat ([8] = defeat word) *)
Definition c_undo := code_of [IJ (Imm 5); IYield (Imm 65); IJ (St 8); IHalt; IHalt; IFlag 0; IHalt; IJ (Imm 7); IHalt].
Example undo_with_fresh_defeat_ex :   (* defeat word = 6 where `halt` lives: undo block at 5 runs, no output *)
  cstep (A c_undo) (mk 0 (sw 2 m16 8 6)) None (mk 5 (sw 2 m16 8 6)).
Proof.
  refine (proj2 (undo_with_fresh_defeat 2 c_undo cm 0 (sw 2 m16 8 6) (Imm 5) 5 [EOut 65] 2 (sw 2 m16 8 6) 8 6 _ _ _ _ _ _ _ _)); try reflexivity.
  apply (runs_next (A c_undo) (mk 1 _) (mk 2 _) (Some (EOut 65))). reflexivity.
Qed.
Example undo_with_stale_defeat_ex :   (* defeat word = 7, a stale handler that loops: body committed, 'A' is output *)
  csteps (A c_undo) (mk 0 (sw 2 m16 8 7)) [EOut 65] (mk 7 (sw 2 m16 8 7)).
Proof.
  refine (proj2 (proj2 (undo_with_stale_defeat_without_reset 2 c_undo cm 0 (sw 2 m16 8 7) (Imm 5) 5 [EOut 65] 2 (sw 2 m16 8 7) 8 7 _ _ _ _ _ _ _ _))); try reflexivity.
  - apply (runs_next (A c_undo) (mk 1 _) (mk 2 _) (Some (EOut 65))). reflexivity.
  - apply stub_absorbing; [reflexivity | lia].
Qed.
Example return_protection_ex : let c := code_of [IJ (Imm 3); IJ (St 4); IHalt; IJ (Imm 3); IHalt] in
  ~ Halts (A c) (mk 0 m16).
Proof.
  intro c. refine (proj2 (proj2 (return_protection_idiom 2 c cm 0 m16 (Imm 3) 3 4 _ _ _ _ _)) _); try reflexivity.
  apply stub_absorbing; [reflexivity | lia].
Qed.
Example speculation_nomov_ex : let c := code_of [IJ (Imm 2); IHc Ceq (St 4) (St 6); IFlag 0] in
  runs (A c) (mk 0 m16) [] (mk 2 m16).
Proof.
  intro c. destruct (speculation_idiom_nomov 2 c cm 0 m16 (Imm 2) [] 1 m16 (St 4) (St 6) 0 0) as [X _]; try reflexivity.
  - apply runs_refl.
  - apply X. reflexivity.
Qed.
Example defeat_call_static_ex : let c := code_of [IHalt] in Halts (A c) (mk 0 m16).
Proof. intro c. apply (defeat_call_static 2 c cm). reflexivity. Qed.
Example speculation_left_defeated_ex : let c := code_of [IJ (Imm 2); IHalt; IFlag 0] in
  runs (A c) (mk 0 m16) [] (mk 2 m16).
Proof.
  intro c. refine (proj1 (speculation_left_defeated 2 c cm 0 m16 (Imm 2) 2 _ _ _)); try reflexivity.
  apply H_halt. reflexivity.
Qed.
Example speculation_value_ex : let c := code_of [IJ (Imm 3); IHc Ceq (Imm 7) (St 6); IMov (St 4) (Imm 7); IJ (Imm 3); IHalt] in
  exists mf evf, runs (A c) (mk 0 m16) evf (mk 3 mf) /\ lw 2 mf 4 = 7.
Proof.
  intro c.
  destruct (speculation_value 2 ltac:(lia) c cm 0 m16 (Imm 3) [] 1 m16 (Imm 7) (St 6) 7 0 4) as [mf [evf [R [V _]]]];
    try reflexivity; try lia; try zc.
  - apply runs_refl.
  - apply stub_absorbing; [reflexivity | lia].
  - exists mf, evf. split; [exact R | exact V].
Qed.
Example stale_defeat_reenters_handler_ex : let c := code_of [IFlag 0; IJ (St 8); IHalt] in
  cstep (A c) (mk 1 m16) None (mk 0 m16).
Proof. intro c. apply (stale_defeat_reenters_handler_without_reset 2 c cm 1 m16 8 0); reflexivity. Qed.
Example stale_defeat_forces_preempt_ex :   (* [8] = 0 is "stale" w.r.t. halt address 9; END loops, yet the block runs *)
  let c := code_of [IJ (Imm 4); IHc Cne (St 8) (Imm 9); IJ (Imm 5); IHalt; IFlag 0; IJ (Imm 5); IHalt] in
  cstep (A c) (mk 0 m16) None (mk 4 m16).
Proof.
  intro c. apply (stale_defeat_forces_preempt_without_reset 2 c cm 0 m16 (Imm 4) 4 (Imm 5) 5 8 (Imm 9) 0 9); try reflexivity. lia.
Qed.
(* the handler entry as emitted now: defeat=[8] (stale 7), halt address 9 *)
Example stop_handler_entry_resets_defeat_ex :
  let c := code_of [IMov (St 8) (Imm 9); IMov (St 2) (St 10); ILoadO WWord SState (St 0) (St 2) (Imm (-2))] in
  exists m', runs (A c) (mk 0 m_hand) [] (mk 3 m') /\ lw 2 m' 8 = wrap 2 9 /\ lw 2 m' 2 = wrap 2 (lw 2 m_hand 10).
Proof.
  intro c.
  apply (stop_handler_entry_resets_defeat 2 ltac:(lia) c cm 0 m_hand 2 0 10 (-2) 8 (Imm 9) 9); try reflexivity; try lia; try zc.
Qed.
(* whole story at w = 2.  ap=[0] fp=[2] defeat=[8] try_fp=[10]; fp = try_fp = 14.
    0 mov [8],5 (handler)   1 j 3   2 mov [8],13 (halt)   3 j [8]; 4 halt   (body = !is_defeat())
    5 mov [8],13   6 mov [2],[10]   7 lwso [0],[2],-2   (handler entry)   8 flag 0 (stop block)
    9 j 12 (a later try/undo)   10 j [8]; 11 halt (its body = !is_defeat())   12 flag 0 (undo block)
   13 halt: halt *)
Definition c_story := code_of [IMov (St 8) (Imm 5); IJ (Imm 3); IMov (St 8) (Imm 13); IJ (St 8); IHalt;
  IMov (St 8) (Imm 13); IMov (St 2) (St 10); ILoadO WWord SState (St 0) (St 2) (Imm (-2)); IFlag 0;
  IJ (Imm 12); IJ (St 8); IHalt; IFlag 0; IHalt].
Definition m_story : mem := sw 2 (sw 2 (zmem 16) 10 14) 2 14.
Definition m_story_end : mem := sw 2 (sw 2 (sw 2 (sw 2 m_story 8 5) 8 13) 2 14) 0 0.
Example stop_fired_then_undo_behaves_ex :
  runs (A c_story) (mk 0 m_story) [] (mk 8 m_story_end) /\ lw 2 m_story_end 8 = 13 /\
  cstep (A c_story) (mk 9 m_story_end) None (mk 12 m_story_end).
Proof.
  destruct (stop_fired_then_undo_behaves 2 ltac:(lia) c_story cm
              0 m_story 8 (Imm 5) (Imm 3) (Imm 13) 5 13 [] 3 (sw 2 m_story 8 5) 2 0 10 (-2) (Imm 13))
    as [R [L U]]; try reflexivity; try lia; try zc.
  - (* the body with defeat = halt (13) halts: j [8] -> 13: halt *)
    eapply H_jump; [reflexivity | |]; apply H_halt; reflexivity.
  - apply runs_refl.
  - split; [exact R | split; [exact L|]].
    refine (proj2 (U 9 m_story_end (Imm 12) 12 [] 10 m_story_end _ _ _ _ _ _ _)); try reflexivity.
    apply runs_refl.
Qed.
End Examples.
