(* Sphinx machine model: byte-addressed state/const memories, instruction set, the action of one
   instruction.  Hand-written model of the *target* ISA (assumption A-ISA of DESIGN.md §5),
   validated on every setup against the 52 upstream expectations of tests/test_codegen.py.
   No proofs about programs here: see Halts.v (Turing-jump metatheory), VM.v (verified
   interpreter), MemLemmas.v (load/store algebra). *)
From Coq Require Import ZArith List Bool Lia FMapPositive.
Import ListNotations.
Open Scope Z_scope.

(* ---------- memory: a size and a trie of bytes ---------- *)
Record mem := mkmem { msize : Z; mdata : PositiveMap.t Z }.
Definition key (a : Z) : positive := Z.to_pos (a + 1).
Definition getb (m : mem) (a : Z) : Z :=
  match PositiveMap.find (key a) (mdata m) with Some v => v | None => 0 end.
Definition setb (m : mem) (a v : Z) : mem :=
  mkmem (msize m) (PositiveMap.add (key a) v (mdata m)).

(* little-endian multi-byte load/store *)
Fixpoint loadn (n : nat) (m : mem) (a : Z) : Z :=
  match n with O => 0 | S k => getb m a + 256 * loadn k m (a + 1) end.
Fixpoint storen (n : nat) (m : mem) (a v : Z) : mem :=
  match n with O => m | S k => storen k (setb m a (v mod 256)) (a + 1) (v / 256) end.

Definition inb (m : mem) (a n : Z) : bool := (0 <=? a) && (a + n <=? msize m).

(* memory image from a list of bytes *)
Fixpoint fill (l : list Z) (a : Z) (t : PositiveMap.t Z) : PositiveMap.t Z :=
  match l with [] => t | b :: r => fill r (a + 1) (PositiveMap.add (key a) b t) end.
Definition mem_of_list (l : list Z) : mem := mkmem (Z.of_nat (length l)) (fill l 0 (PositiveMap.empty Z)).

(* structural equality of memories (decides Leibniz equality one way: eqb = true -> eq) *)
Fixpoint tree_eqb (a b : PositiveMap.t Z) : bool :=
  match a, b with
  | PositiveMap.Leaf _, PositiveMap.Leaf _ => true
  | PositiveMap.Node l1 o1 r1, PositiveMap.Node l2 o2 r2 =>
      match o1, o2 with
      | Some x, Some y => Z.eqb x y
      | None, None => true
      | _, _ => false
      end && tree_eqb l1 l2 && tree_eqb r1 r2
  | _, _ => false
  end.
Definition mem_eqb (a b : mem) : bool := Z.eqb (msize a) (msize b) && tree_eqb (mdata a) (mdata b).

(* ---------- instructions ---------- *)
Inductive operand := Imm (z : Z) | St (a : Z) | Cn (a : Z).
Inductive cond := Ceq | Cne | Clt | Cltu | Cgt | Cgtu | Cle | Cleu | Cge | Cgeu.
Inductive aop := Aadd | Asub | Amul | Adiv | Amod | Aand | Aor | Axor | Aasl | Aasr.
Inductive sect := SState | SConst.
Inductive width := WWord | WByte.
Inductive instr :=
| IHalt
| IHc (c : cond) (a b : operand)
| IJ (a : operand)
| IMov (d v : operand)
| IArith (op : aop) (d a b : operand)
| ILoad (wd : width) (sc : sect) (d a : operand)
| ILoadO (wd : width) (sc : sect) (d b o : operand)
| IStore (wd : width) (a v : operand)
| IStoreO (wd : width) (b o v : operand)
| IYield (a : operand)
| ISleep (a : operand)
| IFlag (f : Z).

Inductive event := EOut (b : Z) | EFlag (f : Z) | ESleep (d : Z).

Record state := mk { pc : Z; mm : mem }.

Inductive action :=
| AHalt
| ANext (s' : state) (e : option event)
| AJump (sn sj : state)
| AFault.

Section Machine.
Variable w : Z.                          (* word size in bytes; 2 <= w everywhere it matters *)
Variable code : Z -> option instr.       (* code memory: address = instruction index *)
Variable cmem : mem.                     (* const section *)

Definition W := 2 ^ (8 * w).
Definition wrap (v : Z) := v mod W.
Definition sgn (v : Z) := if v <? W / 2 then v else v - W.
Definition wn := Z.to_nat w.

Definition lw (m : mem) a := loadn wn m a.
Definition sw (m : mem) a v := storen wn m a (wrap v).
Definition lb (m : mem) a := getb m a.
Definition sb (m : mem) a v := setb m a (v mod 256).

(* value of a source operand *)
Definition val (s : state) (o : operand) : option Z :=
  match o with
  | Imm z => Some (wrap z)
  | St a => if inb (mm s) a w then Some (lw (mm s) a) else None
  | Cn a => if inb cmem a w then Some (lw cmem a) else None
  end.

Definition cond_holds (c : cond) (x y : Z) : bool :=
  match c with
  | Ceq => x =? y | Cne => negb (x =? y)
  | Clt => sgn x <? sgn y | Cltu => x <? y
  | Cgt => sgn y <? sgn x | Cgtu => y <? x
  | Cle => sgn x <=? sgn y | Cleu => x <=? y
  | Cge => sgn y <=? sgn x | Cgeu => y <=? x
  end.

(* arithmetic on word values; None = fault (division by zero).  div/mod: floor (A-DIV). *)
Definition arith (op : aop) (x y : Z) : option Z :=
  match op with
  | Aadd => Some (x + y) | Asub => Some (x - y) | Amul => Some (sgn x * sgn y)
  | Adiv => if sgn y =? 0 then None else Some (sgn x / sgn y)
  | Amod => if sgn y =? 0 then None else Some (sgn x mod sgn y)
  | Aand => Some (Z.land x y) | Aor => Some (Z.lor x y) | Axor => Some (Z.lxor x y)
  | Aasl => Some (if (0 <=? sgn y) && (sgn y <? 8 * w) then Z.shiftl (sgn x) (sgn y) else 0)
  | Aasr => Some (if 0 <=? sgn y then Z.shiftr (sgn x) (Z.min (sgn y) (8 * w)) else 0)
  end.

Definition nxt (s : state) := mk (pc s + 1) (mm s).
Definition nxtm (s : state) (m : mem) := mk (pc s + 1) m.

Definition load (wd : width) (sc : sect) (s : state) (a : Z) : option Z :=
  let m := match sc with SState => mm s | SConst => cmem end in
  match wd with
  | WWord => if inb m a w then Some (lw m a) else None
  | WByte => if inb m a 1 then Some (lb m a) else None
  end.
Definition store (wd : width) (s : state) (a v : Z) : option mem :=
  match wd with
  | WWord => if inb (mm s) a w then Some (sw (mm s) a v) else None
  | WByte => if inb (mm s) a 1 then Some (sb (mm s) a v) else None
  end.
Definition setdest (s : state) (d : operand) (v : Z) : action :=
  match d with
  | St a => if inb (mm s) a w then ANext (nxtm s (sw (mm s) a v)) None else AFault
  | _ => AFault
  end.

Definition exec (i : instr) (s : state) : action :=
  match i with
  | IHalt => AHalt
  | IHc c a b =>
      match val s a, val s b with
      | Some x, Some y => if cond_holds c x y then AHalt else ANext (nxt s) None
      | _, _ => AFault
      end
  | IJ a => match val s a with Some t => AJump (nxt s) (mk t (mm s)) | None => AFault end
  | IMov d v => match val s v with Some x => setdest s d x | None => AFault end
  | IArith op d a b =>
      match val s a, val s b with
      | Some x, Some y => match arith op x y with Some r => setdest s d r | None => AFault end
      | _, _ => AFault
      end
  | ILoad wd sc d a =>
      match val s a with
      | Some x => match load wd sc s x with Some v => setdest s d v | None => AFault end
      | None => AFault
      end
  | ILoadO wd sc d b o =>
      match val s b, val s o with
      | Some x, Some y => match load wd sc s (sgn x + sgn y) with Some v => setdest s d v | None => AFault end
      | _, _ => AFault
      end
  | IStore wd a v =>
      match val s a, val s v with
      | Some x, Some y => match store wd s x y with Some m => ANext (nxtm s m) None | None => AFault end
      | _, _ => AFault
      end
  | IStoreO wd b o v =>
      match val s b, val s o, val s v with
      | Some x, Some y, Some z =>
          match store wd s (sgn x + sgn y) z with Some m => ANext (nxtm s m) None | None => AFault end
      | _, _, _ => AFault
      end
  | IYield a => match val s a with Some x => ANext (nxt s) (Some (EOut (x mod 256))) | None => AFault end
  | ISleep a => match val s a with Some x => ANext (nxt s) (Some (ESleep x)) | None => AFault end
  | IFlag f => ANext (nxt s) (Some (EFlag f))
  end.

Definition act (s : state) : action :=
  match code (pc s) with
  | None => AFault
  | Some i => exec i s
  end.

End Machine.
