(* Entitlement monitor for C04 (part of the MODEL: it defines what "an access the instruction is
   entitled to" means on the machine for code emitted by hidc; it proves nothing by itself).
   The VM evaluates it on every executed state, speculative ones included, and stops with OStop
   at the first state whose instruction would perform an un-entitled access.

   Layout of the state section (gen_lines): registers ap fp r0 r1 r2 = words 0..4; the stack
   region [stack_start, stack_end) (arrays grow up from stack_start to [ap]; frames grow down
   from [fp]; the entry arguments and the entry return address sit at its top); global data,
   try_fp and defeat in [stack_end, msize).  Rules (checked builds):
   R1 direct operands [a] are registers or global words, never stack addresses;
   R2 computed accesses never touch the registers and stay inside one region;
   R3 fp-based accesses stay in [ap, fp);
   R4 other computed accesses into the stack region stay below ap (live arrays), except
   R5 inside the runtime library, where computed stores (write_int's digit buffer) must stay in
      [ap, fp) and loads may read arrays or the frame. *)
From Coq Require Import ZArith List Bool.
From HidV Require Import Machine.
Import ListNotations.
Open Scope Z_scope.

Record layout := mklayout {
  l_stack_start : Z; l_stack_end : Z; l_lib_start : Z; l_ap : Z; l_fp : Z }.

Section Mon.
Variable w : Z.
Variable code : Z -> option instr.
Variable cmem : mem.
Variable L : layout.

Definition is_reg (a : Z) : bool := (0 <=? a) && (a <? 5 * w) && (a mod w =? 0).
Definition direct_ok (m : mem) (a : Z) : bool :=
  is_reg a || ((l_stack_end L <=? a) && (a + w <=? msize m)).
Definition operand_ok (m : mem) (o : operand) : bool :=
  match o with St a => direct_ok m a | _ => true end.

Definition in_lib (s : state) : bool := l_lib_start L <=? pc s.

(* a computed access of n bytes at x; [fpbased]: the base operand is [fp]; [st]: it is a store *)
Definition computed_ok (s : state) (fpbased st : bool) (x n : Z) : bool :=
  let m := mm s in
  let ap := lw w m (l_ap L) in
  let fp := lw w m (l_fp L) in
  if x <? l_stack_start L then false
  else if l_stack_end L <=? x then x + n <=? msize m
  else if negb (x + n <=? l_stack_end L) then false
  else if fpbased then (ap <=? x) && (x + n <=? fp)
  else if in_lib s then (if st then (ap <=? x) && (x + n <=? fp) else true)
  else x + n <=? ap.

(* `lbs [r], r` / `sbs g, v`: the address is an immediate = a direct (byte) access to a register or global *)
Definition direct_addr_ok (m : mem) (a n : Z) : bool :=
  ((0 <=? a) && (a + n <=? 5 * w)) || ((l_stack_end L <=? a) && (a + n <=? msize m)).

Definition is_fp (o : operand) : bool := match o with St a => a =? l_fp L | _ => false end.
Definition size_of (wd : width) : Z := match wd with WWord => w | WByte => 1 end.

Definition mon (s : state) : bool :=
  match code (pc s) with
  | None => true
  | Some i =>
      let m := mm s in
      match i with
      | IHalt | IFlag _ => true
      | IHc _ a b => operand_ok m a && operand_ok m b
      | IJ a | IYield a | ISleep a => operand_ok m a
      | IMov d v => operand_ok m d && operand_ok m v
      | IArith _ d a b => operand_ok m d && operand_ok m a && operand_ok m b
      | ILoad wd sc d a =>
          operand_ok m d && operand_ok m a &&
          match sc, a, val w cmem s a with
          | SState, Imm _, Some x => direct_addr_ok m x (size_of wd)
          | SState, _, Some x => computed_ok s false false x (size_of wd)
          | _, _, _ => true
          end
      | ILoadO wd sc d b o =>
          operand_ok m d && operand_ok m b && operand_ok m o &&
          match sc, val w cmem s b, val w cmem s o with
          | SState, Some x, Some y => computed_ok s (is_fp b) false (sgn w x + sgn w y) (size_of wd)
          | _, _, _ => true
          end
      | IStore wd a v =>
          operand_ok m a && operand_ok m v &&
          match a, val w cmem s a with
          | Imm _, Some x => direct_addr_ok m x (size_of wd)
          | _, Some x => computed_ok s false true x (size_of wd)
          | _, None => true
          end
      | IStoreO wd b o v =>
          operand_ok m b && operand_ok m o && operand_ok m v &&
          match val w cmem s b, val w cmem s o with
          | Some x, Some y => computed_ok s (is_fp b) true (sgn w x + sgn w y) (size_of wd)
          | _, _ => true
          end
      end
  end.
End Mon.
