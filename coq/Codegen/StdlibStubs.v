(* The absorbing end states of the regenerated runtime library: all_is_win, all_is_broken and the
   four error stubs.  For every word size w >= 2 and EVERY memory (no well-formedness needed):
   the machine never halts, and its committed events are the flags of the stub followed by
   `sleep 0x7f7f` forever.  Feeds C03 / C05. *)
From Coq Require Import ZArith List Bool Lia.
From HidV Require Import Machine Halts WordLemmas MemLemmas GenStdlib StepTactics StdlibBase.
Import ListNotations.
Open Scope Z_scope.
Ltac Zify.zify_post_hook ::= Z.to_euclidean_division_equations.

Section Stubs.
Variables (w : Z) (code : Z -> option instr) (cmem : mem) (B : Z).
Hypothesis Hw : 2 <= w.
Hypothesis CA : lib_at w code B.
Hypothesis B_range : lib_range w B.

Notation act := (Machine.act w code cmem).
Notation Halts := (Halts.Halts act).
Notation runs := (Halts.runs act).
Notation csteps := (Halts.csteps act).
Notation cstep := (Halts.cstep act).
Notation cplus := (Halts.cplus act).

Definition tnt (m : mem) : state := mk (B + off_tnt) m.
Definition sleep_ev : event := ESleep 32639.

Lemma wrapB k : 0 <= k < stdlib_len -> Machine.wrap w (B + k) = B + k.
Proof. intros Hk. apply wrap_id. destruct B_range. unfold stdlib_len in *. lia. Qed.

(* sleep; j tnt; halt  -- one turn of the loop *)
Lemma tnt_sleep m : cstep (tnt m) (Some sleep_ev) (mk (B + 2) m).
Proof.
  apply C_next. unfold tnt, off_tnt, sleep_ev. at_pc CA 1.
  pose proof (W_ge_65536 w Hw). rewrite wrap_id by lia. norm_pc. reflexivity.
Qed.
Lemma tnt_back m : cstep (mk (B + 2) m) None (tnt m).
Proof.
  eapply C_take with (sn := mk (B + 3) m).
  - at_pc CA 2. rewrite (wrapB 1) by (unfold stdlib_len; lia). norm_pc. reflexivity.
  - apply H_halt. at_pc CA 3. reflexivity.
Qed.
Lemma tnt_cycle m : cplus (tnt m) (tnt m).
Proof. eapply P_more; [apply tnt_sleep|]. eapply P_one. apply tnt_back. Qed.
Lemma tnt_not_halts m : ~ Halts (tnt m).
Proof. apply cycle_not_halts, tnt_cycle. Qed.
Lemma tnt_turn m : csteps (tnt m) [sleep_ev] (tnt m).
Proof. eapply CS_ev; [apply tnt_sleep|]. eapply CS_tau; [apply tnt_back|]. constructor. Qed.
Lemma tnt_forever m n : csteps (tnt m) (repeat sleep_ev n) (tnt m).
Proof.
  induction n as [|n IH]; cbn [repeat]; [constructor|].
  change (sleep_ev :: repeat sleep_ev n) with ([sleep_ev] ++ repeat sleep_ev n).
  eapply csteps_app; [apply tnt_turn | exact IH].
Qed.

(* a prefix `runs` into tnt gives the whole infinite behaviour *)
Definition absorbed (s : state) (flags : list event) : Prop :=
  ~ Halts s /\ runs s flags (tnt (mm s)) /\ cplus (tnt (mm s)) (tnt (mm s)) /\
  forall n, csteps s (flags ++ repeat sleep_ev n) (tnt (mm s)).
Lemma absorbed_of_runs s flags : runs s flags (tnt (mm s)) -> absorbed s flags.
Proof.
  intros R. destruct (runs_not_halts _ _ _ _ R (tnt_not_halts _)) as [N C].
  split; [exact N|]. split; [exact R|]. split; [apply tnt_cycle|].
  intros n. eapply csteps_app; [exact C | apply tnt_forever].
Qed.

Lemma win_runs m : runs (mk (B + off_all_is_win) m) [EFlag 0] (tnt m).
Proof.
  apply (runs_next act _ _ (Some (EFlag 0))). unfold off_all_is_win, tnt, off_tnt.
  at_pc CA 0. norm_pc. reflexivity.
Qed.
Lemma broken_runs m : runs (mk (B + off_all_is_broken) m) [EFlag 1] (tnt m).
Proof.
  change [EFlag 1] with ([EFlag 1] ++ []).
  eapply runs_trans with (s' := mk (B + 5) m).
  - apply (runs_next act _ _ (Some (EFlag 1))). unfold off_all_is_broken. at_pc CA 4. norm_pc. reflexivity.
  - eapply runs_goto with (sn := mk (B + 6) m).
    + at_pc CA 5. rewrite (wrapB 1) by (unfold stdlib_len; lia). norm_pc. reflexivity.
    + at_pc CA 6. reflexivity.
Qed.
(* flag k; j all_is_broken; halt *)
Lemma stub_runs m off k : (off = off_stack_overflow /\ k = 2) \/ (off = off_division_by_zero /\ k = 3) \/
  (off = off_out_of_bounds /\ k = 4) \/ (off = off_nonlocal_preempt /\ k = 5) ->
  runs (mk (B + off) m) [EFlag k; EFlag 1] (tnt m).
Proof.
  intros H.
  change [EFlag k; EFlag 1] with ([EFlag k] ++ [] ++ [EFlag 1]).
  eapply runs_trans with (s' := mk (B + off + 1) m); [|eapply runs_trans with (s' := mk (B + off_all_is_broken) m)].
  - apply (runs_next act _ _ (Some (EFlag k))).
    destruct H as [[-> ->]|[[-> ->]|[[-> ->]|[-> ->]]]];
      unfold off_stack_overflow, off_division_by_zero, off_out_of_bounds, off_nonlocal_preempt;
      [at_pc CA 7 | at_pc CA 10 | at_pc CA 13 | at_pc CA 16]; reflexivity.
  - eapply runs_goto with (sn := mk (B + off + 2) m).
    + destruct H as [[-> ->]|[[-> ->]|[[-> ->]|[-> ->]]]];
      unfold off_stack_overflow, off_division_by_zero, off_out_of_bounds, off_nonlocal_preempt, off_all_is_broken;
      [at_pc CA 8 | at_pc CA 11 | at_pc CA 14 | at_pc CA 17];
      rewrite (wrapB 4) by (unfold stdlib_len; lia); norm_pc; reflexivity.
    + destruct H as [[-> ->]|[[-> ->]|[[-> ->]|[-> ->]]]];
      unfold off_stack_overflow, off_division_by_zero, off_out_of_bounds, off_nonlocal_preempt;
      [at_pc CA 9 | at_pc CA 12 | at_pc CA 15 | at_pc CA 18]; reflexivity.
  - apply broken_runs.
Qed.

Theorem all_is_win_absorbing m : absorbed (mk (B + off_all_is_win) m) [EFlag 0].
Proof. apply absorbed_of_runs, win_runs. Qed.
Theorem all_is_broken_absorbing m : absorbed (mk (B + off_all_is_broken) m) [EFlag 1].
Proof. apply absorbed_of_runs, broken_runs. Qed.
Theorem stack_overflow_absorbing m : absorbed (mk (B + off_stack_overflow) m) [EFlag 2; EFlag 1].
Proof. apply absorbed_of_runs, stub_runs. tauto. Qed.
Theorem division_by_zero_absorbing m : absorbed (mk (B + off_division_by_zero) m) [EFlag 3; EFlag 1].
Proof. apply absorbed_of_runs, stub_runs. tauto. Qed.
Theorem out_of_bounds_absorbing m : absorbed (mk (B + off_out_of_bounds) m) [EFlag 4; EFlag 1].
Proof. apply absorbed_of_runs, stub_runs. tauto. Qed.
Theorem nonlocal_preempt_absorbing m : absorbed (mk (B + off_nonlocal_preempt) m) [EFlag 5; EFlag 1].
Proof. apply absorbed_of_runs, stub_runs. tauto. Qed.

End Stubs.
