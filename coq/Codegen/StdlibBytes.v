(* write(string), write(const byte[]), write(byte[]) of the regenerated runtime library emit exactly
   `length` bytes from the source (nothing for a non-positive length) and return, leaving the
   state section untouched outside r0..r2.  For every word size w >= 2.
   The two copies of the byte loop (const source at offset 32, state source at 48) are proved by
   one script; the state copy is also the tail of write_int (StdlibInt.v). *)
From Coq Require Import ZArith List Bool Lia.
From HidV Require Import Machine Halts WordLemmas MemLemmas GenStdlib StepTactics StdlibBase.
Import ListNotations.
Open Scope Z_scope.
Ltac Zify.zify_post_hook ::= Z.to_euclidean_division_equations.

Section Bytes.
Variables (w : Z) (code : Z -> option instr) (cmem : mem) (B : Z).
Hypothesis Hw : 2 <= w.
Hypothesis CA : lib_at w code B.
Hypothesis B_range : lib_range w B.

Notation act := (Machine.act w code cmem).
Notation runs := (Halts.runs act).
Notation lw := (Machine.lw w).
Notation sw := (Machine.sw w).
Notation W := (Machine.W w).
Notation agree := (agree w).

(* the memory a loop copy reads from *)
Definition srcm (sc : sect) (m0 : mem) : mem := match sc with SState => m0 | SConst => cmem end.
(* which copy: loop label offset and source section *)
Definition loop_copy (L : Z) (sc : sect) : Prop :=
  (L = off_write_string_loop /\ sc = SConst) \/ (L = off_write_state_byte_array_loop /\ sc = SState).
(* a state source must not overlap r0..r2 (the loop's scratch registers) *)
Definition src_clear (sc : sect) (p n : Z) : Prop :=
  match sc with SState => p + n <= 2 * w \/ 5 * w <= p | SConst => True end.

Definition loop_entry (e L : Z) : Prop :=
  (e = 21 /\ L = 32) \/ (e = 28 /\ L = 32) \/ (e = 44 /\ L = 48) \/ (e = 104 /\ L = 48).
(* four goals, in the order e = 21, 28, 44, 104, with L and sc substituted *)
Ltac split_entry He HL :=
  unfold loop_entry, loop_copy, off_write_string_loop, off_write_state_byte_array_loop in He, HL;
  destruct He as [[-> ->]|[[-> ->]|[[-> ->]| [-> ->]]]];
  (destruct HL as [[HL1 ->]|[HL1 ->]]; [try discriminate HL1 | try discriminate HL1]); clear HL1.

Section Loop.
Variables (m0 : mem) (F : Z) (L : Z) (sc : sect).
Hypothesis HL : loop_copy L sc.
Hypothesis Hwf0 : wf_mem m0.
Hypothesis Hwfc : sc = SConst -> wf_mem cmem.
Hypothesis HFP : lw m0 (1 * w) = F.
Hypothesis HF1 : 5 * w <= F - w.
Hypothesis HF2 : F <= msize m0.
Hypothesis HF3 : F < W / 2.

Lemma body_step m p k : agree m m0 -> wf_mem m -> lw m (2 * w) = p -> lw m (3 * w) = k ->
  1 <= k < W / 2 -> 0 <= p -> p + 1 <= msize (srcm sc m0) -> src_clear sc p 1 ->
  let b := getb (srcm sc m0) p in
  let m3 := sw (sw (sw m (4 * w) b) (2 * w) (p + 1)) (3 * w) (k - 1) in
  agree m3 m0 /\ wf_mem m3 /\ lw m3 (2 * w) = Machine.wrap w (p + 1) /\ lw m3 (3 * w) = k - 1 /\
  runs (mk (B + (L + 1)) m) [EOut b] (mk (B + (L + 5)) m3) /\
  act (mk (B + (L + 5)) m3) = AJump (mk (B + (L + 6)) m3) (mk (B + L) m3).
Proof.
  intros Hag Hwf Hr0 Hr1 Hk Hp Hps Hcl. pose proof (W_ge_65536 w Hw) as HW. pose proof (Hw1 w Hw) as Hw1.
  destruct B_range as [HB0 HB1]. unfold stdlib_len in HB1.
  pose proof (agree_msize w m m0 Hag) as Hsz.
  cbv zeta. set (b := getb (srcm sc m0) p).
  set (m1 := sw m (4 * w) b). set (m2 := sw m1 (2 * w) (p + 1)). set (m3 := sw m2 (3 * w) (k - 1)).
  assert (Hs1 : msize m1 = msize m) by apply msize_sw.
  assert (Hs2 : msize m2 = msize m) by (unfold m2; rewrite msize_sw; exact Hs1).
  assert (Hs3 : msize m3 = msize m) by (unfold m3; rewrite msize_sw; exact Hs2).
  assert (Hb : 0 <= b < 256) by (unfold b; destruct sc; cbn [srcm]; [apply Hwf0 | apply Hwfc; reflexivity]).
  assert (Hrd : Machine.load w cmem WByte sc (mk (B + (L + 1)) m) p = Some b).
  { unfold Machine.load, b. destruct sc; cbn [srcm mm] in *.
    - rewrite inb_true by lia. f_equal. apply (agree_lb w m m0 p Hag Hp). cbn [src_clear] in Hcl. lia.
    - rewrite inb_true by lia. reflexivity. }
  assert (A3 : agree m3 m0) by (repeat (apply agree_sw; [lia | | lia]); exact Hag).
  assert (Hwf3 : wf_mem m3) by (repeat (apply wf_sw; [|lia]); exact Hwf).
  assert (S1 : runs (mk (B + (L + 1)) m) [] (mk (B + (L + 2)) m1)).
  { apply (runs_next act _ _ None). unfold loop_copy, off_write_string_loop, off_write_state_byte_array_loop in HL.
    destruct HL as [[-> ->]|[-> ->]]; [at_pc CA 33 | at_pc CA 49]; rewrite Hr0;
      unfold Machine.load in Hrd; cbn [mm] in Hrd; rewrite Hrd; exec_inb; norm_pc; reflexivity. }
  assert (S2 : runs (mk (B + (L + 2)) m1) [EOut b] (mk (B + (L + 3)) m1)).
  { apply (runs_next act _ _ (Some (EOut b))).
    assert (E : lw m1 (4 * w) = b) by (apply lw_sw_byte; lia).
    unfold loop_copy, off_write_string_loop, off_write_state_byte_array_loop in HL.
    destruct HL as [[-> ->]|[-> ->]]; [at_pc CA 34 | at_pc CA 50];
      rewrite E, (Z.mod_small b 256) by lia; norm_pc; reflexivity. }
  assert (S3 : runs (mk (B + (L + 3)) m1) [] (mk (B + (L + 4)) m2)).
  { apply (runs_next act _ _ None).
    assert (E : lw m1 (2 * w) = p) by (unfold m1; rewrite (lw_sw_other w Hw1 m (4 * w) b (2 * w)) by lia; exact Hr0).
    unfold loop_copy, off_write_string_loop, off_write_state_byte_array_loop in HL.
    destruct HL as [[-> ->]|[-> ->]]; [at_pc CA 35 | at_pc CA 51];
      rewrite E, (wrap_id w 1) by lia; norm_pc; reflexivity. }
  assert (S4 : runs (mk (B + (L + 4)) m2) [] (mk (B + (L + 5)) m3)).
  { apply (runs_next act _ _ None).
    assert (E : lw m2 (3 * w) = k).
    { unfold m2, m1. rewrite (lw_sw_other w Hw1 _ (2 * w) (p + 1) (3 * w)) by lia.
      rewrite (lw_sw_other w Hw1 m (4 * w) b (3 * w)) by lia. exact Hr1. }
    unfold loop_copy, off_write_string_loop, off_write_state_byte_array_loop in HL.
    destruct HL as [[-> ->]|[-> ->]]; [at_pc CA 36 | at_pc CA 52];
      rewrite E, (wrap_id w 1) by lia; norm_pc; reflexivity. }
  split; [exact A3|]. split; [exact Hwf3|]. split; [|split; [|split]].
  - unfold m3. rewrite (lw_sw_other w Hw1 m2 (3 * w) (k - 1) (2 * w)) by lia.
    unfold m2. apply (lw_sw_same w Hw1); lia.
  - unfold m3. rewrite (lw_sw_same w Hw1 m2 (3 * w) (k - 1)) by lia. apply wrap_id; lia.
  - change [EOut b] with ([] ++ [EOut b] ++ [] ++ []).
    eapply runs_trans; [exact S1|]. eapply runs_trans; [exact S2|]. eapply runs_trans; [exact S3|]. exact S4.
  - unfold loop_copy, off_write_string_loop, off_write_state_byte_array_loop in HL.
    destruct HL as [[-> ->]|[-> ->]]; [at_pc CA 37 | at_pc CA 53];
      rewrite wrap_id by lia; norm_pc; reflexivity.
Qed.

(* the exit of either loop: lwso [r0],[fp],-1w; j [r0]; halt  at L + 7 *)
Lemma done_runs m : agree m m0 -> wf_mem m ->
  exists m', agree m' m0 /\ wf_mem m' /\ runs (mk (B + (L + 7)) m) [] (mk (lw m0 (F - w)) m').
Proof.
  intros Hag Hwf. pose proof (agree_msize w m m0 Hag) as Hsz.
  assert (E1 : lw m (1 * w) = F) by (rewrite (agree_lw w Hw m m0 (1 * w) Hag) by lia; exact HFP).
  assert (E2 : lw m (F - w) = lw m0 (F - w)) by (apply (agree_lw w Hw m m0 (F - w) Hag); lia).
  exists (sw m (2 * w) (lw m (F - w))). split; [|split].
  - apply agree_sw; [lia | exact Hag | lia].
  - apply wf_sw; [exact Hwf | lia].
  - rewrite <- E2. unfold loop_copy, off_write_string_loop, off_write_state_byte_array_loop in HL.
    destruct HL as [[-> ->]|[-> ->]].
    + apply (ret_runs w code cmem B Hw CA B_range 39 m F); try assumption; lia.
    + apply (ret_runs w code cmem B Hw CA B_range 55 m F); try assumption; lia.
Qed.

(* from the loop body (just after `hle [r1],0` passed) with S n bytes to go *)
Theorem loop_spec : forall n m p, agree m m0 -> wf_mem m -> lw m (2 * w) = p -> lw m (3 * w) = Z.of_nat (S n) ->
  Z.of_nat (S n) < W / 2 -> 0 <= p -> p + Z.of_nat (S n) <= msize (srcm sc m0) -> p + Z.of_nat (S n) <= W ->
  src_clear sc p (Z.of_nat (S n)) ->
  exists m', agree m' m0 /\ wf_mem m' /\
    runs (mk (B + (L + 1)) m) (map EOut (bytes_from (srcm sc m0) p (S n))) (mk (lw m0 (F - w)) m').
Proof.
  pose proof (W_ge_65536 w Hw) as HW. pose proof (Hw1 w Hw) as Hw1.
  destruct B_range as [HB0 HB1]. unfold stdlib_len in HB1.
  induction n as [|n IH]; intros m p Hag Hwf Hr0 Hr1 Hn Hp Hps HpW Hcl.
  - (* last byte: fall out of the loop and return *)
    assert (Hcl1 : src_clear sc p 1) by exact Hcl.
    destruct (body_step m p 1 Hag Hwf Hr0 Hr1 ltac:(lia) Hp ltac:(lia) Hcl1) as (A3 & Hwf3 & H0 & H1 & Rb & J).
    cbv zeta in *. set (b := getb (srcm sc m0) p) in *.
    set (m3 := sw (sw (sw m (4 * w) b) (2 * w) (p + 1)) (3 * w) (1 - 1)) in *.
    pose proof (agree_msize w m3 m0 A3) as Hsz3. change (1 - 1) with 0 in H1.
    assert (BR : runs (mk (B + (L + 5)) m3) [] (mk (B + (L + 7)) m3)).
    { eapply runs_branch_fall; [exact J | |];
      unfold loop_copy, off_write_string_loop, off_write_state_byte_array_loop in HL.
      - destruct HL as [[-> ->]|[-> ->]]; [at_pc CA 38 | at_pc CA 54];
          rewrite H1, (wrap_id w 0), (sgn_small w 0) by lia;
          rewrite Z.ltb_irrefl; norm_pc; reflexivity.
      - destruct HL as [[-> ->]|[-> ->]]; [at_pc CA 32 | at_pc CA 48];
          rewrite H1, (wrap_id w 0), (sgn_small w 0) by lia;
          rewrite Z.leb_refl; reflexivity. }
    destruct (done_runs m3 A3 Hwf3) as (m' & Am' & Hwf' & Rd).
    exists m'. split; [exact Am'|]. split; [exact Hwf'|].
    cbn [bytes_from map]. fold b. change [EOut b] with ([EOut b] ++ [] ++ []).
    eapply runs_trans; [exact Rb|]. eapply runs_trans; [exact BR|]. exact Rd.
  - (* more bytes: branch back, induction hypothesis *)
    assert (Hcl1 : src_clear sc p 1) by (destruct sc; cbn [src_clear] in *; [lia | exact I]).
    destruct (body_step m p (Z.of_nat (S (S n))) Hag Hwf Hr0 Hr1 ltac:(lia) Hp ltac:(lia) Hcl1)
      as (A3 & Hwf3 & H0 & H1 & Rb & J).
    cbv zeta in *. set (b := getb (srcm sc m0) p) in *.
    set (m3 := sw (sw (sw m (4 * w) b) (2 * w) (p + 1)) (3 * w) (Z.of_nat (S (S n)) - 1)) in *.
    pose proof (agree_msize w m3 m0 A3) as Hsz3.
    assert (Hn1 : Z.of_nat (S (S n)) - 1 = Z.of_nat (S n)) by lia.
    rewrite Hn1 in H1. rewrite (wrap_id w (p + 1)) in H0 by lia.
    assert (BR : runs (mk (B + (L + 5)) m3) [] (mk (B + (L + 1)) m3)).
    { eapply runs_branch_taken; [exact J | |];
      unfold loop_copy, off_write_string_loop, off_write_state_byte_array_loop in HL.
      - destruct HL as [[-> ->]|[-> ->]]; [at_pc CA 38 | at_pc CA 54];
          rewrite H1, (wrap_id w 0), (sgn_small w 0), (sgn_small w (Z.of_nat (S n))) by lia;
          (destruct (Z.ltb_spec 0 (Z.of_nat (S n))); [reflexivity | lia]).
      - destruct HL as [[-> ->]|[-> ->]]; [at_pc CA 32 | at_pc CA 48];
          rewrite H1, (wrap_id w 0), (sgn_small w 0), (sgn_small w (Z.of_nat (S n))) by lia;
          (destruct (Z.leb_spec (Z.of_nat (S n)) 0); [lia|]); norm_pc; reflexivity. }
    assert (Hcl' : src_clear sc (p + 1) (Z.of_nat (S n))) by (destruct sc; cbn [src_clear] in *; [lia | exact I]).
    destruct (IH m3 (p + 1) A3 Hwf3 H0 H1 ltac:(lia) ltac:(lia) ltac:(lia) ltac:(lia) Hcl') as (m' & Am' & Hwf' & Rm').
    exists m'. split; [exact Am'|]. split; [exact Hwf'|].
    change (map EOut (bytes_from (srcm sc m0) p (S (S n))))
      with ([EOut b] ++ [] ++ map EOut (bytes_from (srcm sc m0) (p + 1) (S n))).
    eapply runs_trans; [exact Rb|]. eapply runs_trans; [exact BR|]. exact Rm'.
Qed.

(* the entry test shared by all callers of the loop, at offset e (three instructions before it:
   `j loop; hgt [r1],0; j done; halt`): with [r0] = p and [r1] = n already loaded *)
Lemma entry_spec e m p n : loop_entry e L ->
  agree m m0 -> wf_mem m -> lw m (2 * w) = p -> lw m (3 * w) = n ->
  let len := Machine.sgn w n in
  (0 < len -> 0 <= p /\ p + len <= msize (srcm sc m0) /\ p + len <= W /\ src_clear sc p len) ->
  exists m', agree m' m0 /\ wf_mem m' /\
    runs (mk (B + e) m) (map EOut (bytes_from (srcm sc m0) p (Z.to_nat len))) (mk (lw m0 (F - w)) m').
Proof.
  intros He Hag Hwf Hr0 Hr1 len Hsrc. pose proof (W_ge_65536 w Hw) as HW. pose proof (Hw1 w Hw) as Hw1.
  destruct B_range as [HB0 HB1]. unfold stdlib_len in HB1.
  pose proof (agree_msize w m m0 Hag) as Hsz.
  pose proof (lw_range w Hw1 m (3 * w) Hwf) as Hnr. rewrite Hr1 in Hnr.
  pose proof (sgn_range w Hw1 n Hnr) as Hlr. fold len in Hlr.
  assert (J : act (mk (B + e) m) = AJump (mk (B + (e + 1)) m) (mk (B + L) m)).
  { split_entry He HL; [at_pc CA 21 | at_pc CA 28 | at_pc CA 44 | at_pc CA 104];
      rewrite wrap_id by lia; norm_pc; reflexivity. }
  assert (Hdone : exists m', agree m' m0 /\ wf_mem m' /\ runs (mk (B + (L + 7)) m) [] (mk (lw m0 (F - w)) m'))
    by (apply done_runs; assumption).
  destruct (Z_lt_le_dec 0 len) as [Hpos|Hnpos].
  - (* positive length: into the loop *)
    destruct (Hsrc Hpos) as (Hp & Hps & HpW & Hcl).
    assert (En : n = len) by (unfold len, Machine.sgn in *; destruct (Z.ltb_spec n (W / 2)); lia).
    destruct (Z.to_nat len) as [|k] eqn:Ek; [lia|].
    assert (Ek' : Z.of_nat (S k) = len) by lia.
    destruct (loop_spec k m p Hag Hwf Hr0 ltac:(lia) ltac:(lia) Hp ltac:(lia) ltac:(lia) ltac:(rewrite Ek'; exact Hcl))
      as (m' & Am' & Hwf' & Rm').
    assert (BR : runs (mk (B + e) m) [] (mk (B + (L + 1)) m)).
    { eapply runs_branch_taken; [exact J | |].
      - split_entry He HL; [at_pc CA 22 | at_pc CA 29 | at_pc CA 45 | at_pc CA 105];
          rewrite Hr1, (wrap_id w 0), (sgn_small w 0) by lia; fold len;
          (destruct (Z.ltb_spec 0 len); [reflexivity | lia]).
      - split_entry He HL; [at_pc CA 32 | at_pc CA 32 | at_pc CA 48 | at_pc CA 48];
          rewrite Hr1, (wrap_id w 0), (sgn_small w 0) by lia; fold len;
          (destruct (Z.leb_spec len 0); [lia|]); norm_pc; reflexivity. }
    exists m'. split; [exact Am'|]. split; [exact Hwf'|].
    change (map EOut (bytes_from (srcm sc m0) p (S k))) with ([] ++ map EOut (bytes_from (srcm sc m0) p (S k))).
    eapply runs_trans; [exact BR | exact Rm'].
  - (* non-positive length: j done; halt *)
    assert (BR : runs (mk (B + e) m) [] (mk (B + (e + 2)) m)).
    { eapply runs_branch_fall; [exact J | |].
      - split_entry He HL; [at_pc CA 22 | at_pc CA 29 | at_pc CA 45 | at_pc CA 105];
          rewrite Hr1, (wrap_id w 0), (sgn_small w 0) by lia; fold len;
          (destruct (Z.ltb_spec 0 len); [lia|]); norm_pc; reflexivity.
      - split_entry He HL; [at_pc CA 32 | at_pc CA 32 | at_pc CA 48 | at_pc CA 48];
          rewrite Hr1, (wrap_id w 0), (sgn_small w 0) by lia; fold len;
          (destruct (Z.leb_spec len 0); [reflexivity | lia]). }
    assert (G : runs (mk (B + (e + 2)) m) [] (mk (B + (L + 7)) m)).
    { eapply runs_goto with (sn := mk (B + (e + 3)) m).
      - split_entry He HL; [at_pc CA 23 | at_pc CA 30 | at_pc CA 46 | at_pc CA 106];
          rewrite wrap_id by lia; norm_pc; reflexivity.
      - split_entry He HL; [at_pc CA 24 | at_pc CA 31 | at_pc CA 47 | at_pc CA 107]; reflexivity. }
    destruct Hdone as (m' & Am' & Hwf' & Rd).
    exists m'. split; [exact Am'|]. split; [exact Hwf'|].
    replace (Z.to_nat len) with O by lia. cbn [bytes_from map].
    change (@nil event) with (@nil event ++ [] ++ []).
    eapply runs_trans; [exact BR|]. eapply runs_trans; [exact G|]. exact Rd.
Qed.

End Loop.

(* ---------- the three routines ---------- *)

(* write(byte[] in the state section): length word at F-2w, origin word at F-3w *)
Theorem write_state_byte_array_spec m F :
  frame_ok w m F (2 * w) ->
  let p := lw m (F - 3 * w) in
  let len := Machine.sgn w (lw m (F - 2 * w)) in
  let ra := lw m (F - w) in
  (0 < len -> p + len <= msize m /\ p + len <= W /\ (p + len <= 2 * w \/ 5 * w <= p)) ->
  exists m', runs (mk (B + off_write_state_byte_array) m)
                  (map EOut (bytes_from m p (Z.to_nat len))) (mk ra m')
             /\ agree m' m /\ wf_mem m'.
Proof.
  intros (Hwf & HFP & HF1 & HF2 & HF3) p len ra Hsrc. unfold reg_fp, stack_start in *.
  pose proof (W_ge_65536 w Hw) as HW. pose proof (Hw1 w Hw) as Hw1.
  destruct B_range as [HB0 HB1]. unfold stdlib_len in HB1. unfold off_write_state_byte_array.
  pose proof (lw_range w Hw1 m (F - 3 * w) Hwf) as Hpr. fold p in Hpr.
  set (n := lw m (F - 2 * w)) in *.
  set (m1 := sw m (2 * w) p). set (m2 := sw m1 (3 * w) n).
  assert (Hs1 : msize m1 = msize m) by apply msize_sw.
  assert (Hs2 : msize m2 = msize m) by (unfold m2; rewrite msize_sw; exact Hs1).
  assert (A1 : agree m1 m) by (apply agree_sw; [lia | apply agree_refl | lia]).
  assert (A2 : agree m2 m) by (apply agree_sw; [lia | exact A1 | lia]).
  assert (Hwf2 : wf_mem m2) by (repeat (apply wf_sw; [|lia]); exact Hwf).
  assert (S0 : runs (mk (B + 42) m) [] (mk (B + 43) m1)).
  { apply (runs_next act _ _ None). at_pc CA 42.
    rewrite HFP, (sgn_small w F), (sgn_neg_imm w Hw1 (3 * w)) by lia.
    replace (F + - (3 * w)) with (F - 3 * w) by lia. exec_inb. norm_pc. reflexivity. }
  assert (S1 : runs (mk (B + 43) m1) [] (mk (B + 44) m2)).
  { apply (runs_next act _ _ None). at_pc CA 43.
    rewrite (agree_lw w Hw m1 m (1 * w) A1), HFP, (sgn_small w F), (sgn_neg_imm w Hw1 (2 * w)) by lia.
    replace (F + - (2 * w)) with (F - 2 * w) by lia. exec_inb.
    rewrite (agree_lw w Hw m1 m (F - 2 * w) A1) by lia. norm_pc. reflexivity. }
  assert (E0 : lw m2 (2 * w) = p).
  { unfold m2. rewrite (lw_sw_other w Hw1 m1 (3 * w) n (2 * w)) by lia.
    unfold m1. rewrite (lw_sw_same w Hw1 m (2 * w) p) by lia. apply wrap_id. exact Hpr. }
  assert (E1 : lw m2 (3 * w) = n).
  { unfold m2. rewrite (lw_sw_same w Hw1 m1 (3 * w) n) by lia. apply wrap_id. apply (lw_range w Hw1 m _ Hwf). }
  destruct (entry_spec m F 48 SState ltac:(right; split; reflexivity) Hwf ltac:(discriminate) HFP ltac:(lia) HF2 HF3
              44 m2 p n ltac:(unfold loop_entry; tauto) A2 Hwf2 E0 E1) as (m' & Am' & Hwf' & R).
  { cbv zeta. cbn [srcm src_clear]. fold len. intros Hpos. destruct (Hsrc Hpos) as (Ha & Hb & Hc). repeat split; try lia. }
  exists m'. split; [|split; assumption].
  cbn [srcm] in R. fold len in R. fold ra in R.
  change (map EOut (bytes_from m p (Z.to_nat len))) with ([] ++ [] ++ map EOut (bytes_from m p (Z.to_nat len))).
  eapply runs_trans; [exact S0|]. eapply runs_trans; [exact S1|]. exact R.
Qed.

(* write(const byte[]): same convention, source in the const section *)
Theorem write_const_byte_array_spec m F :
  frame_ok w m F (2 * w) -> wf_mem cmem ->
  let p := lw m (F - 3 * w) in
  let len := Machine.sgn w (lw m (F - 2 * w)) in
  let ra := lw m (F - w) in
  (0 < len -> p + len <= msize cmem /\ p + len <= W) ->
  exists m', runs (mk (B + off_write_const_byte_array) m)
                  (map EOut (bytes_from cmem p (Z.to_nat len))) (mk ra m')
             /\ agree m' m /\ wf_mem m'.
Proof.
  intros (Hwf & HFP & HF1 & HF2 & HF3) Hwfc p len ra Hsrc. unfold reg_fp, stack_start in *.
  pose proof (W_ge_65536 w Hw) as HW. pose proof (Hw1 w Hw) as Hw1.
  destruct B_range as [HB0 HB1]. unfold stdlib_len in HB1. unfold off_write_const_byte_array.
  pose proof (lw_range w Hw1 m (F - 3 * w) Hwf) as Hpr. fold p in Hpr.
  set (n := lw m (F - 2 * w)) in *.
  set (m1 := sw m (2 * w) p). set (m2 := sw m1 (3 * w) n).
  assert (Hs1 : msize m1 = msize m) by apply msize_sw.
  assert (Hs2 : msize m2 = msize m) by (unfold m2; rewrite msize_sw; exact Hs1).
  assert (A1 : agree m1 m) by (apply agree_sw; [lia | apply agree_refl | lia]).
  assert (A2 : agree m2 m) by (apply agree_sw; [lia | exact A1 | lia]).
  assert (Hwf2 : wf_mem m2) by (repeat (apply wf_sw; [|lia]); exact Hwf).
  assert (S0 : runs (mk (B + 19) m) [] (mk (B + 20) m1)).
  { apply (runs_next act _ _ None). at_pc CA 19.
    rewrite HFP, (sgn_small w F), (sgn_neg_imm w Hw1 (3 * w)) by lia.
    replace (F + - (3 * w)) with (F - 3 * w) by lia. exec_inb. norm_pc. reflexivity. }
  assert (S1 : runs (mk (B + 20) m1) [] (mk (B + 21) m2)).
  { apply (runs_next act _ _ None). at_pc CA 20.
    rewrite (agree_lw w Hw m1 m (1 * w) A1), HFP, (sgn_small w F), (sgn_neg_imm w Hw1 (2 * w)) by lia.
    replace (F + - (2 * w)) with (F - 2 * w) by lia. exec_inb.
    rewrite (agree_lw w Hw m1 m (F - 2 * w) A1) by lia. norm_pc. reflexivity. }
  assert (E0 : lw m2 (2 * w) = p).
  { unfold m2. rewrite (lw_sw_other w Hw1 m1 (3 * w) n (2 * w)) by lia.
    unfold m1. rewrite (lw_sw_same w Hw1 m (2 * w) p) by lia. apply wrap_id. exact Hpr. }
  assert (E1 : lw m2 (3 * w) = n).
  { unfold m2. rewrite (lw_sw_same w Hw1 m1 (3 * w) n) by lia. apply wrap_id. apply (lw_range w Hw1 m _ Hwf). }
  destruct (entry_spec m F 32 SConst ltac:(left; split; reflexivity) Hwf ltac:(intros _; exact Hwfc) HFP ltac:(lia) HF2 HF3
              21 m2 p n ltac:(unfold loop_entry; tauto) A2 Hwf2 E0 E1) as (m' & Am' & Hwf' & R).
  { cbv zeta. cbn [srcm src_clear]. fold len. intros Hpos. destruct (Hsrc Hpos) as (Ha & Hb). repeat split; try lia. }
  exists m'. split; [|split; assumption].
  cbn [srcm] in R. fold len in R. fold ra in R.
  change (map EOut (bytes_from cmem p (Z.to_nat len))) with ([] ++ [] ++ map EOut (bytes_from cmem p (Z.to_nat len))).
  eapply runs_trans; [exact S0|]. eapply runs_trans; [exact S1|]. exact R.
Qed.

(* write(string): the argument at F-2w is the const-section address sp of a length word followed
   by the bytes *)
Theorem write_string_spec m F :
  frame_ok w m F w -> wf_mem cmem ->
  let sp := lw m (F - 2 * w) in
  let len := Machine.sgn w (lw cmem sp) in
  let ra := lw m (F - w) in
  sp + w <= msize cmem ->
  (0 < len -> sp + w + len <= msize cmem /\ sp + w + len <= W) ->
  exists m', runs (mk (B + off_write_string) m)
                  (map EOut (bytes_from cmem (sp + w) (Z.to_nat len))) (mk ra m')
             /\ agree m' m /\ wf_mem m'.
Proof.
  intros (Hwf & HFP & HF1 & HF2 & HF3) Hwfc sp len ra Hhdr Hsrc. unfold reg_fp, stack_start in *.
  pose proof (W_ge_65536 w Hw) as HW. pose proof (Hw1 w Hw) as Hw1.
  destruct B_range as [HB0 HB1]. unfold stdlib_len in HB1. unfold off_write_string.
  pose proof (lw_range w Hw1 m (F - 2 * w) Hwf) as Hspr. fold sp in Hspr.
  set (n := lw cmem sp) in *.
  pose proof (lw_range w Hw1 cmem sp Hwfc) as Hnr. fold n in Hnr.
  set (m1 := sw m (2 * w) sp). set (m2 := sw m1 (3 * w) n). set (m3 := sw m2 (2 * w) (sp + w)).
  assert (Hs1 : msize m1 = msize m) by apply msize_sw.
  assert (Hs2 : msize m2 = msize m) by (unfold m2; rewrite msize_sw; exact Hs1).
  assert (Hs3 : msize m3 = msize m) by (unfold m3; rewrite msize_sw; exact Hs2).
  assert (A1 : agree m1 m) by (apply agree_sw; [lia | apply agree_refl | lia]).
  assert (A2 : agree m2 m) by (apply agree_sw; [lia | exact A1 | lia]).
  assert (A3 : agree m3 m) by (apply agree_sw; [lia | exact A2 | lia]).
  assert (Hwf3 : wf_mem m3) by (repeat (apply wf_sw; [|lia]); exact Hwf).
  assert (E10 : lw m1 (2 * w) = sp) by (unfold m1; rewrite (lw_sw_same w Hw1 m (2 * w) sp) by lia; apply wrap_id; exact Hspr).
  assert (E20 : lw m2 (2 * w) = sp) by (unfold m2; rewrite (lw_sw_other w Hw1 m1 (3 * w) n (2 * w)) by lia; exact E10).
  assert (S0 : runs (mk (B + 25) m) [] (mk (B + 26) m1)).
  { apply (runs_next act _ _ None). at_pc CA 25.
    rewrite HFP, (sgn_small w F), (sgn_neg_imm w Hw1 (2 * w)) by lia.
    replace (F + - (2 * w)) with (F - 2 * w) by lia. exec_inb. norm_pc. reflexivity. }
  assert (S1 : runs (mk (B + 26) m1) [] (mk (B + 27) m2)).
  { apply (runs_next act _ _ None). at_pc CA 26. rewrite E10. exec_inb. norm_pc. reflexivity. }
  assert (S2 : runs (mk (B + 27) m2) [] (mk (B + 28) m3)).
  { apply (runs_next act _ _ None). at_pc CA 27. rewrite E20, (wrap_id w (1 * w)) by lia.
    replace (sp + 1 * w) with (sp + w) by lia. norm_pc. reflexivity. }
  assert (E0 : lw m3 (2 * w) = Machine.wrap w (sp + w)) by (unfold m3; apply (lw_sw_same w Hw1); lia).
  assert (E1 : lw m3 (3 * w) = n).
  { unfold m3. rewrite (lw_sw_other w Hw1 m2 (2 * w) (sp + w) (3 * w)) by lia.
    unfold m2. rewrite (lw_sw_same w Hw1 m1 (3 * w) n) by lia. apply wrap_id. exact Hnr. }
  destruct (entry_spec m F 32 SConst ltac:(left; split; reflexivity) Hwf ltac:(intros _; exact Hwfc) HFP ltac:(lia) HF2 HF3
              28 m3 _ n ltac:(unfold loop_entry; tauto) A3 Hwf3 E0 E1) as (m' & Am' & Hwf' & R).
  { cbv zeta. cbn [srcm src_clear]. fold len. intros Hpos. destruct (Hsrc Hpos) as (Ha & Hb).
    rewrite (wrap_id w (sp + w)) by lia. repeat split; try lia. }
  exists m'. split; [|split; assumption].
  cbn [srcm] in R. fold len in R. fold ra in R.
  assert (Eb : bytes_from cmem (Machine.wrap w (sp + w)) (Z.to_nat len) = bytes_from cmem (sp + w) (Z.to_nat len)).
  { destruct (Z_lt_le_dec 0 len) as [Hpos|Hnpos].
    - destruct (Hsrc Hpos) as (Ha & Hb). rewrite (wrap_id w (sp + w)) by lia. reflexivity.
    - replace (Z.to_nat len) with O by lia. reflexivity. }
  rewrite Eb in R.
  change (map EOut (bytes_from cmem (sp + w) (Z.to_nat len)))
    with ([] ++ [] ++ [] ++ map EOut (bytes_from cmem (sp + w) (Z.to_nat len))).
  eapply runs_trans; [exact S0|]. eapply runs_trans; [exact S1|]. eapply runs_trans; [exact S2|]. exact R.
Qed.

End Bytes.
