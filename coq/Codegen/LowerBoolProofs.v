(* Component `lowerbool`: semantic correctness of the model of bool_expr_branch
   (LowerBoolModel.lower_branch) on the Turing-jump machine, for ALL expression trees (unbounded
   depth) over comparisons of safe operands, bool literals, bool locals, not, and, or
   (F_proved = what `vars_ok` accepts; arithmetic comparison operands are in the model and in the
   textual correspondence only), every word size w >= 2, arbitrary surrounding code, arbitrary
   straight-line continuations with or without a final goto.

   Structure
     A  placement of abstract lines in an abstract code memory (`placed`), continuations
     B  freshness of the allocated labels; two-pass resolution yields a placement
     C  source semantics (beval), memory effect (run_mem), frame conditions
     D  lower_runs: the induction over the expression tree (uses the idiom theorems of Idioms.v
        with the table entries of GenTables.v)
     E  the theorems stated on `resolve`d code: branch_lowering_correct (goto/goto),
        if_block_lowering_correct (fall-through/goto else), value_lowering_correct (set 1/set 0)
     F  satisfiability examples *)
From Coq Require Import ZArith List Bool Lia.
From HidV Require Import Machine Halts WordLemmas MemLemmas GenTables OpTables Idioms LowerBoolModel.
Import ListNotations.
Open Scope Z_scope.
Ltac Zify.zify_post_hook ::= Z.to_euclidean_division_equations.

(* the safe-operand instance of get_expr_value / pop_value: a literal needs no code, a local is
   read by `lwso [r], [fp], -off` *)
Definition fetch (E : env) (r : reg) (o : iopd) : list aline * sym :=
  match o with
  | OLit z => ([], SLit z)
  | OVar i => ([AInstr (ALwso r (SReg RFp) (SLit (- int_off E i)))], SReg r)
  | OArith _ _ _ => ([], SLit 0)
  end.
(* with safe operands nothing is kept: right operand into r1, then left operand into r0 *)
Lemma compare_operands_safe E a b : is_safe a = true -> is_safe b = true ->
  compare_operands E a b = (fst (fetch E R1 b) ++ fst (fetch E R0 a), snd (fetch E R0 a), snd (fetch E R1 b)).
Proof. destruct a, b; try discriminate; reflexivity. Qed.

(* ================================================================================= *)
(* A  sizes, placement, continuations                                                 *)
(* ================================================================================= *)
Lemma size_app a b : size (a ++ b) = size a + size b.
Proof. induction a as [|[x|i] r IH]; cbn [app size]; lia. Qed.
Lemma size_nonneg l : 0 <= size l.
Proof. induction l as [|[x|i] r IH]; cbn [size]; lia. Qed.
Lemma size_goto l : size (goto l) = 2.
Proof. reflexivity. Qed.
Lemma size_map_instr pre : size (map AInstr pre) = Z.of_nat (length pre).
Proof. induction pre as [|i r IH]; cbn [map size length]; lia. Qed.

(* a continuation in the shape the theorems cover: straight-line instructions, then either a
   goto or nothing (fall through) *)
Definition kl (pre : list ains) (g : option label) : list aline :=
  map AInstr pre ++ match g with Some L => goto L | None => [] end.
(* instructions that neither halt nor jump *)
Definition simple (i : ains) : bool :=
  match i with AJump _ | AHaltI | AHc _ _ _ => false | _ => true end.

Lemma last2_app2 {A} (x : list A) (a b : A) : last2 (x ++ [a; b]) = [a; b].
Proof.
  unfold last2. rewrite app_length. cbn [length].
  replace (length x + 2 - 2)%nat with (length x) by lia.
  rewrite skipn_app, skipn_all, Nat.sub_diag. reflexivity.
Qed.
Lemma ends_goto_kl_some pre L : ends_goto (kl pre (Some L)) = true.
Proof. unfold ends_goto, kl, goto. rewrite last2_app2. reflexivity. Qed.
Lemma ends_goto_in l : ends_goto l = true -> In (AInstr AHaltI) l.
Proof.
  unfold ends_goto, last2. intros H.
  rewrite <- (firstn_skipn (length l - 2) l). apply in_or_app. right.
  destruct (skipn (length l - 2) l) as [|x [|y [|z s]]]; cbn in H; try discriminate.
  - destruct x as [|[]]; discriminate.
  - destruct x as [|[]]; try discriminate. destruct y as [|[]]; try discriminate.
    right. left. reflexivity.
  - destruct x as [|[]]; try discriminate. destruct y as [|[]]; discriminate.
Qed.
Lemma ends_goto_kl_none pre : forallb simple pre = true -> ends_goto (kl pre None) = false.
Proof.
  intros S. destruct (ends_goto (kl pre None)) eqn:G; [|reflexivity]. exfalso.
  apply ends_goto_in in G. unfold kl in G. rewrite app_nil_r in G.
  apply in_map_iff in G. destruct G as [i [Ei Hi]]. inversion Ei; subst.
  rewrite forallb_forall in S. specialize (S _ Hi). discriminate.
Qed.
Lemma kl_none_goto pre L : kl pre None ++ goto L = kl pre (Some L).
Proof. unfold kl. now rewrite app_nil_r. Qed.

Section Place.
Variable R : regmap.
Variable lab : label -> Z.
Variable code : Z -> option instr.

(* the lines l sit at address p: every instruction is in the code memory, resolved under lab,
   and every label defined in l resolves to the address it stands at *)
Fixpoint placed (l : list aline) (p : Z) : Prop :=
  match l with
  | [] => True
  | ALabel x :: r => lab x = p /\ placed r p
  | AInstr i :: r => code p = Some (res_ins R lab i) /\ placed r (p + 1)
  end.
Lemma placed_app a : forall b p, placed (a ++ b) p <-> placed a p /\ placed b (p + size a).
Proof.
  induction a as [|[x|i] r IH]; intros b p; cbn [app placed size].
  - replace (p + 0) with p by lia. tauto.
  - rewrite IH. tauto.
  - rewrite IH. replace (p + 1 + size r) with (p + (1 + size r)) by lia. tauto.
Qed.
End Place.

(* ================================================================================= *)
(* B  label freshness, resolution                                                      *)
(* ================================================================================= *)
Fixpoint deflabels (l : list aline) : list label :=
  match l with [] => [] | ALabel x :: r => x :: deflabels r | AInstr _ :: r => deflabels r end.
Lemma deflabels_app a b : deflabels (a ++ b) = deflabels a ++ deflabels b.
Proof. induction a as [|[x|i] r IH]; cbn [app deflabels]; [reflexivity | now rewrite IH | exact IH]. Qed.
Lemma deflabels_goto l : deflabels (goto l) = [].
Proof. reflexivity. Qed.
Lemma deflabels_labdefs l : forall p, map fst (labdefs l p) = deflabels l.
Proof. induction l as [|[x|i] r IH]; intros p; cbn [labdefs deflabels map fst]; [reflexivity | now rewrite IH | apply IH]. Qed.

Lemma lname_eqb_eq a b : lname_eqb a b = true <-> a = b.
Proof. destruct a, b; cbn; split; intro H; try reflexivity; try discriminate. Qed.
Lemma lname_eqb_refl a : lname_eqb a a = true.
Proof. now apply lname_eqb_eq. Qed.
Lemma label_eqb_eq a b : label_eqb a b = true <-> a = b.
Proof.
  destruct a as [a n], b as [b k]. unfold label_eqb; cbn [fst snd]. rewrite andb_true_iff, lname_eqb_eq, Nat.eqb_eq.
  split; [intros [-> ->]; reflexivity | intros H; inversion H; auto].
Qed.

Lemma NoDup_app_intro {A} (a b : list A) :
  NoDup a -> NoDup b -> (forall x, In x a -> In x b -> False) -> NoDup (a ++ b).
Proof.
  induction a as [|x r IH]; intros Da Db S; cbn [app]; [exact Db|].
  inversion Da; subst. constructor.
  - intro I. apply in_app_or in I. destruct I as [I|I]; [contradiction | eapply S; [left; reflexivity | exact I]].
  - apply IH; [assumption | assumption | intros y I1 I2; eapply S; [right; exact I1 | exact I2]].
Qed.

(* a label is below a state: it was allocated before (or belongs to another name space) *)
Definition below (st : lstate) (x : label) : Prop := (snd x < st (fst x))%nat.
Definition st_le (a b : lstate) : Prop := forall n, (a n <= b n)%nat.
Definition between (a b : lstate) (x : label) : Prop := (a (fst x) <= snd x < b (fst x))%nat.

Lemma add_label_le nm st : st_le st (snd (add_label nm st)).
Proof. intros n; cbn. destruct (lname_eqb n nm) eqn:E; [apply lname_eqb_eq in E; subst|]; lia. Qed.
Lemma add_label_between nm st : between st (snd (add_label nm st)) (fst (add_label nm st)).
Proof. unfold between; cbn. rewrite lname_eqb_refl. lia. Qed.
Lemma st_le_trans a b c : st_le a b -> st_le b c -> st_le a c.
Proof. intros H1 H2 n. specialize (H1 n). specialize (H2 n). lia. Qed.
Lemma between_weaken a b a' b' x : st_le a' a -> st_le b b' -> between a b x -> between a' b' x.
Proof. unfold between. intros H1 H2 H. specialize (H1 (fst x)). specialize (H2 (fst x)). lia. Qed.

Ltac defl := repeat progress (rewrite ?deflabels_app; cbn [deflabels app]).

Lemma pop_value_nolabels r b : deflabels (fst (pop_value r b)) = [].
Proof. destruct b; reflexivity. Qed.
Lemma eval_opd_nolabels E o : forall top r keep, deflabels (fst (eval_opd E top r o keep)) = [].
Proof.
  induction o as [z|i|op x IHx y IHy]; intros top r keep; try reflexivity.
  cbn [eval_opd].
  specialize (IHx top R0 (negb (is_safe y))). destruct (eval_opd E top R0 x (negb (is_safe y))) as [c1 lb].
  specialize (IHy (top_after top lb) R1 false). destruct (eval_opd E (top_after top lb) R1 y false) as [c2 rb].
  pose proof (pop_value_nolabels R1 rb) as P1. destruct (pop_value R1 rb) as [c2' rhs].
  pose proof (pop_value_nolabels R0 lb) as P0. destruct (pop_value R0 lb) as [c3 lhs].
  cbn [fst] in *. destruct keep; cbn [fst]; defl; rewrite ?IHx, ?IHy, ?P1, ?P0; reflexivity.
Qed.
Lemma compare_operands_nolabels E a b : deflabels (fst (fst (compare_operands E a b))) = [].
Proof.
  unfold compare_operands.
  pose proof (eval_opd_nolabels E a (stack_top E) R0 (negb (is_safe b))) as H1.
  destruct (eval_opd E (stack_top E) R0 a (negb (is_safe b))) as [c1 lb].
  pose proof (eval_opd_nolabels E b (top_after (stack_top E) lb) R1 false) as H2.
  destruct (eval_opd E (top_after (stack_top E) lb) R1 b false) as [c2 rb].
  pose proof (pop_value_nolabels R1 rb) as P1. destruct (pop_value R1 rb) as [c2' rhs].
  pose proof (pop_value_nolabels R0 lb) as P0. destruct (pop_value R0 lb) as [c3 lhs].
  cbn [fst] in *. defl. rewrite H1, H2, P1, P0. reflexivity.
Qed.

(* what lower_branch defines: fresh labels only, each once *)
Lemma lower_branch_defs E e : forall kt kf st C st',
  lower_branch E e kt kf st = (C, st') ->
  deflabels kt = [] -> deflabels kf = [] ->
  st_le st st' /\ Forall (between st st') (deflabels C) /\ NoDup (deflabels C).
Proof.
  induction e as [b|j|op a b|e IH|e1 IH1 e2 IH2|e1 IH1 e2 IH2]; intros kt kf st C st' L Nt Nf.
  - (* BLit *) cbn in L. inversion L; subst. split; [intros n; lia|].
    destruct b; rewrite ?Nt, ?Nf; split; constructor.
  - (* BVar *)
    cbn [lower_branch] in L.
    pose proof (add_label_le LIsTrue st) as M1. pose proof (add_label_between LIsTrue st) as B1.
    destruct (add_label LIsTrue st) as [it st1] eqn:A1. cbn [fst snd] in M1, B1.
    pose proof (add_label_le LBoolEnd st1) as M2. pose proof (add_label_between LBoolEnd st1) as B2.
    destruct (add_label LBoolEnd st1) as [be st2] eqn:A2. cbn [fst snd] in M2, B2.
    inversion L; subst C st'; clear L.
    assert (Nm : it <> be) by (inversion A1; inversion A2; subst; intro X; inversion X).
    split; [eapply st_le_trans; eauto|].
    defl. rewrite Nt, Nf.
    assert (Bi : between st st2 it) by (eapply between_weaken; [| |exact B1]; [intros n; lia | exact M2]).
    assert (Bb : between st st2 be) by (eapply between_weaken; [| |exact B2]; [exact M1 | intros n; lia]).
    destruct (ends_goto kf); cbn [deflabels app goto]; split.
    + constructor; [exact Bi | constructor].
    + constructor; [intros [] | constructor].
    + constructor; [exact Bi | constructor; [exact Bb | constructor]].
    + constructor; [intros [X|[]]; apply Nm; auto | constructor; [intros [] | constructor]].
  - (* BCmp *)
    cbn [lower_branch] in L.
    pose proof (add_label_le LCompareIsTrue st) as M1. pose proof (add_label_between LCompareIsTrue st) as B1.
    destruct (add_label LCompareIsTrue st) as [it st1] eqn:A1. cbn [fst snd] in M1, B1.
    pose proof (add_label_le LCompareEnd st1) as M2. pose proof (add_label_between LCompareEnd st1) as B2.
    destruct (add_label LCompareEnd st1) as [be st2] eqn:A2. cbn [fst snd] in M2, B2.
    pose proof (compare_operands_nolabels E a b) as Dc.
    destruct (compare_operands E a b) as [[co lhs] rhs]. cbn [fst] in Dc.
    inversion L; subst C st'; clear L.
    assert (Nm : it <> be) by (inversion A1; inversion A2; subst; intro X; inversion X).
    split; [eapply st_le_trans; eauto|].
    defl. rewrite Nt, Nf, Dc. cbn [app].
    assert (Bi : between st st2 it) by (eapply between_weaken; [| |exact B1]; [intros n; lia | exact M2]).
    assert (Bb : between st st2 be) by (eapply between_weaken; [| |exact B2]; [exact M1 | intros n; lia]).
    destruct (ends_goto kf); cbn [deflabels app goto]; split.
    + constructor; [exact Bi | constructor].
    + constructor; [intros [] | constructor].
    + constructor; [exact Bi | constructor; [exact Bb | constructor]].
    + constructor; [intros [X|[]]; apply Nm; auto | constructor; [intros [] | constructor]].
  - (* BNot *) cbn [lower_branch] in L. eapply IH; eauto.
  - (* BAnd *)
    cbn [lower_branch] in L.
    pose proof (add_label_le LLeftIsTrue st) as M1. pose proof (add_label_between LLeftIsTrue st) as B1.
    destruct (add_label LLeftIsTrue st) as [lt st1] eqn:A1. cbn [fst snd] in M1, B1.
    pose proof (add_label_le LAndEnd st1) as M2. pose proof (add_label_between LAndEnd st1) as B2.
    destruct (add_label LAndEnd st1) as [ae st2] eqn:A2. cbn [fst snd] in M2, B2.
    destruct (lower_branch E e1 (goto lt) (if ends_goto kf then kf else kf ++ goto ae) st2) as [c1 st3] eqn:L1.
    destruct (lower_branch E e2 kt kf st3) as [c2 st4] eqn:L2.
    inversion L; subst C st'; clear L.
    apply IH1 in L1; [|reflexivity | destruct (ends_goto kf); [exact Nf | rewrite deflabels_app, Nf; reflexivity]].
    apply IH2 in L2; [|exact Nt | exact Nf].
    destruct L1 as [M3 [F1 D1]]. destruct L2 as [M4 [F2 D2]].
    assert (Nm : lt <> ae) by (inversion A1; inversion A2; subst; intro X; inversion X).
    assert (M02 : st_le st st2) by (eapply st_le_trans; eauto).
    assert (M24 : st_le st2 st4) by (eapply st_le_trans; eauto).
    split; [eapply st_le_trans; eauto|].
    assert (Bl : between st st2 lt) by (eapply between_weaken; [| |exact B1]; [intros n; lia | exact M2]).
    assert (Ba : between st st2 ae) by (eapply between_weaken; [| |exact B2]; [exact M1 | intros n; lia]).
    assert (F1' : Forall (between st st4) (deflabels c1)).
    { eapply Forall_impl; [|exact F1]. intros x. apply between_weaken; [exact M02 | exact M4]. }
    assert (F2' : Forall (between st st4) (deflabels c2)).
    { eapply Forall_impl; [|exact F2]. intros x. apply between_weaken; [eapply st_le_trans; eauto | intros n; lia]. }
    (* separation facts *)
    assert (S12 : forall x, In x (deflabels c1) -> In x (deflabels c2) -> False).
    { intros x I1 I2. rewrite Forall_forall in F1, F2. specialize (F1 _ I1). specialize (F2 _ I2).
      unfold between in *. lia. }
    assert (Sn1 : forall y, between st st2 y -> In y (deflabels c1) -> False).
    { intros y By I1. rewrite Forall_forall in F1. specialize (F1 _ I1). unfold between in *. lia. }
    assert (Sn2 : forall y, between st st2 y -> In y (deflabels c2) -> False).
    { intros y By I2. rewrite Forall_forall in F2. specialize (F2 _ I2). specialize (M3 (fst y)). unfold between in *. lia. }
    assert (Bl4 : between st st4 lt) by (eapply between_weaken; [| |exact Bl]; [intros n; lia | exact M24]).
    assert (Ba4 : between st st4 ae) by (eapply between_weaken; [| |exact Ba]; [intros n; lia | exact M24]).
    defl.
    destruct (ends_goto kf); cbn [deflabels app]; split.
    + apply Forall_app; split; [exact F1'|]. constructor; [exact Bl4|]. rewrite app_nil_r. exact F2'.
    + rewrite app_nil_r. apply NoDup_app_intro; [exact D1 | | ].
      * constructor; [intro I; exact (Sn2 _ Bl I) | exact D2].
      * intros x I1 [X|I2]; [subst; exact (Sn1 _ Bl I1) | exact (S12 _ I1 I2)].
    + apply Forall_app; split; [exact F1'|]. constructor; [exact Bl4|].
      apply Forall_app; split; [exact F2' | constructor; [exact Ba4 | constructor]].
    + apply NoDup_app_intro; [exact D1 | | ].
      * constructor.
        -- intro I. apply in_app_or in I. destruct I as [I|[X|[]]]; [exact (Sn2 _ Bl I) | congruence].
        -- apply NoDup_app_intro; [exact D2 | constructor; [intros [] | constructor] |].
           intros x I2 [X|[]]. subst. exact (Sn2 _ Ba I2).
      * intros x I1 [X|I2]; [subst; exact (Sn1 _ Bl I1)|].
        apply in_app_or in I2. destruct I2 as [I2|[X|[]]]; [exact (S12 _ I1 I2) | subst; exact (Sn1 _ Ba I1)].
  - (* BOr *)
    cbn [lower_branch] in L.
    pose proof (add_label_le LLeftIsFalse st) as M1. pose proof (add_label_between LLeftIsFalse st) as B1.
    destruct (add_label LLeftIsFalse st) as [lt st1] eqn:A1. cbn [fst snd] in M1, B1.
    pose proof (add_label_le LOrEnd st1) as M2. pose proof (add_label_between LOrEnd st1) as B2.
    destruct (add_label LOrEnd st1) as [ae st2] eqn:A2. cbn [fst snd] in M2, B2.
    destruct (lower_branch E e1 (if ends_goto kt then kt else kt ++ goto ae) (goto lt) st2) as [c1 st3] eqn:L1.
    destruct (lower_branch E e2 kt kf st3) as [c2 st4] eqn:L2.
    inversion L; subst C st'; clear L.
    apply IH1 in L1; [| destruct (ends_goto kt); [exact Nt | rewrite deflabels_app, Nt; reflexivity] | reflexivity].
    apply IH2 in L2; [|exact Nt | exact Nf].
    destruct L1 as [M3 [F1 D1]]. destruct L2 as [M4 [F2 D2]].
    assert (Nm : lt <> ae) by (inversion A1; inversion A2; subst; intro X; inversion X).
    assert (M02 : st_le st st2) by (eapply st_le_trans; eauto).
    assert (M24 : st_le st2 st4) by (eapply st_le_trans; eauto).
    split; [eapply st_le_trans; eauto|].
    assert (Bl : between st st2 lt) by (eapply between_weaken; [| |exact B1]; [intros n; lia | exact M2]).
    assert (Ba : between st st2 ae) by (eapply between_weaken; [| |exact B2]; [exact M1 | intros n; lia]).
    assert (F1' : Forall (between st st4) (deflabels c1)).
    { eapply Forall_impl; [|exact F1]. intros x. apply between_weaken; [exact M02 | exact M4]. }
    assert (F2' : Forall (between st st4) (deflabels c2)).
    { eapply Forall_impl; [|exact F2]. intros x. apply between_weaken; [eapply st_le_trans; eauto | intros n; lia]. }
    assert (S12 : forall x, In x (deflabels c1) -> In x (deflabels c2) -> False).
    { intros x I1 I2. rewrite Forall_forall in F1, F2. specialize (F1 _ I1). specialize (F2 _ I2).
      unfold between in *. lia. }
    assert (Sn1 : forall y, between st st2 y -> In y (deflabels c1) -> False).
    { intros y By I1. rewrite Forall_forall in F1. specialize (F1 _ I1). unfold between in *. lia. }
    assert (Sn2 : forall y, between st st2 y -> In y (deflabels c2) -> False).
    { intros y By I2. rewrite Forall_forall in F2. specialize (F2 _ I2). specialize (M3 (fst y)). unfold between in *. lia. }
    assert (Bl4 : between st st4 lt) by (eapply between_weaken; [| |exact Bl]; [intros n; lia | exact M24]).
    assert (Ba4 : between st st4 ae) by (eapply between_weaken; [| |exact Ba]; [intros n; lia | exact M24]).
    defl.
    destruct (ends_goto kt); cbn [deflabels app]; split.
    + apply Forall_app; split; [exact F1'|]. constructor; [exact Bl4|]. rewrite app_nil_r. exact F2'.
    + rewrite app_nil_r. apply NoDup_app_intro; [exact D1 | | ].
      * constructor; [intro I; exact (Sn2 _ Bl I) | exact D2].
      * intros x I1 [X|I2]; [subst; exact (Sn1 _ Bl I1) | exact (S12 _ I1 I2)].
    + apply Forall_app; split; [exact F1'|]. constructor; [exact Bl4|].
      apply Forall_app; split; [exact F2' | constructor; [exact Ba4 | constructor]].
    + apply NoDup_app_intro; [exact D1 | | ].
      * constructor.
        -- intro I. apply in_app_or in I. destruct I as [I|[X|[]]]; [exact (Sn2 _ Bl I) | congruence].
        -- apply NoDup_app_intro; [exact D2 | constructor; [intros [] | constructor] |].
           intros x I2 [X|[]]. subst. exact (Sn2 _ Ba I2).
      * intros x I1 [X|I2]; [subst; exact (Sn1 _ Bl I1)|].
        apply in_app_or in I2. destruct I2 as [I2|[X|[]]]; [exact (S12 _ I1 I2) | subst; exact (Sn1 _ Ba I1)].
Qed.

(* ---------- resolution yields a placement ---------- *)
Definition code_at (code : Z -> option instr) (B : Z) (l : list instr) : Prop :=
  forall k i, nth_error l k = Some i -> code (B + Z.of_nat k) = Some i.

Lemma lookup_nodup d ext : NoDup (map fst d) -> forall x q, In (x, q) d -> lookup d ext x = q.
Proof.
  unfold lookup. induction d as [|[y r] d IH]; intros D x q I; [contradiction|].
  cbn [map fst] in D. inversion D as [|? ? Ny Dd]; subst. cbn [find fst].
  destruct (label_eqb y x) eqn:Eq.
  - apply label_eqb_eq in Eq. subst y. destruct I as [I|I]; [inversion I; reflexivity|].
    exfalso. apply Ny. apply in_map_iff. exists (x, q). auto.
  - destruct I as [I|I]; [inversion I; subst; rewrite (proj2 (label_eqb_eq x x) eq_refl) in Eq; discriminate|].
    apply IH; assumption.
Qed.
Lemma lookup_notin d ext x : ~ In x (map fst d) -> lookup d ext x = ext x.
Proof.
  unfold lookup. induction d as [|[y r] d IH]; intros N; [reflexivity|].
  cbn [find fst]. destruct (label_eqb y x) eqn:Eq.
  - apply label_eqb_eq in Eq. subst. exfalso. apply N. left. reflexivity.
  - apply IH. intro I. apply N. right. exact I.
Qed.
Lemma labdefs_range l : forall p x q, In (x, q) (labdefs l p) -> p <= q <= p + size l.
Proof.
  induction l as [|[y|i] r IH]; intros p x q I; cbn [labdefs size] in *; [contradiction| |].
  - destruct I as [I|I]; [inversion I; subst; pose proof (size_nonneg r); lia | eauto].
  - apply IH in I. lia.
Qed.

Lemma instrs_placed R lab code l : forall B,
  code_at code B (instrs R lab l) ->
  (forall x q, In (x, q) (labdefs l B) -> lab x = q) ->
  placed R lab code l B.
Proof.
  induction l as [|[y|i] r IH]; intros B C D; cbn [placed instrs labdefs] in *; [exact I | |].
  - split; [apply D; left; reflexivity|]. apply IH; [exact C|]. intros x q H. apply D. right. exact H.
  - split.
    + specialize (C O _ eq_refl). replace (B + Z.of_nat 0) with B in C by lia. exact C.
    + apply IH; [|exact D]. intros k j H. specialize (C (S k) j H).
      replace (B + 1 + Z.of_nat k) with (B + Z.of_nat (S k)) by lia. exact C.
Qed.

(* the label environment computed by resolve *)
Definition labenv (ext : label -> Z) (B : Z) (l : list aline) : label -> Z := lookup (labdefs l B) ext.
Lemma resolve_placed R ext code B l :
  NoDup (deflabels l) -> code_at code B (resolve R ext B l) -> placed R (labenv ext B l) code l B.
Proof.
  intros D C. apply instrs_placed; [exact C|]. intros x q I.
  apply lookup_nodup; [rewrite deflabels_labdefs; exact D | exact I].
Qed.
Lemma labenv_range ext B l Wd :
  (forall x, 0 <= ext x < Wd) -> 0 <= B -> B + size l < Wd -> forall x, 0 <= labenv ext B l x < Wd.
Proof.
  intros He HB Hs x. unfold labenv, lookup.
  destruct (find (fun e => label_eqb (fst e) x) (labdefs l B)) as [[y q]|] eqn:F; [|apply He].
  apply find_some in F. destruct F as [I _]. apply labdefs_range in I. cbn [snd]. lia.
Qed.
Lemma labenv_ext ext B l x : ~ In x (deflabels l) -> labenv ext B l x = ext x.
Proof. intros N. apply lookup_notin. rewrite deflabels_labdefs. exact N. Qed.

(* ================================================================================= *)
(* C  source semantics, memory effect, frame conditions                               *)
(* ================================================================================= *)
Section Sem.
Variable w : Z.
Variable R : regmap.
Variable E : env.
Notation W := (Machine.W w).
Notation wrap := (Machine.wrap w).
Notation sgn := (Machine.sgn w).
Notation lw := (Machine.lw w).
Notation sw := (Machine.sw w).
Notation r0 := (a_r0 R).
Notation r1 := (a_r1 R).
Notation fp := (a_fp R).

(* the frame pointer *)
Definition FP (m : mem) : Z := lw m fp.
(* SOURCE SEMANTICS.  An int local is the word at [fp] - offset read as a signed number, a
   literal is itself; a bool local is true iff its byte is non-zero; comparisons are signed;
   and/or/not are the boolean connectives (short-circuiting is invisible in the VALUE because
   operands have no side effects; it is visible in `run_mem` below). *)
Fixpoint sval (m : mem) (o : iopd) : Z :=
  match o with
  | OLit z => z
  | OVar i => sgn (lw m (FP m - int_off E i))
  | OArith op x y => sgn (wrap (arith_sem op (sval m x) (sval m y)))     (* two's-complement wrap *)
  end.
Definition bval (m : mem) (j : nat) : Z := lb m (FP m - bool_off E j).
Fixpoint beval (m : mem) (e : bexpr) : bool :=
  match e with
  | BLit b => b
  | BVar j => negb (bval m j =? 0)
  | BCmp op a b => cmp_sem op (sval m a) (sval m b)
  | BNot e1 => negb (beval m e1)
  | BAnd e1 e2 => beval m e1 && beval m e2
  | BOr e1 e2 => beval m e1 || beval m e2
  end.

(* MEMORY EFFECT of evaluating e by the lowered code: exactly the register loads of the atoms
   that short-circuit evaluation reaches, left to right (right operand into r1, then left
   operand into r0; a bool local into r1).  Atoms after the deciding one leave no trace. *)
Definition fetch_mem (ra : Z) (o : iopd) (m : mem) : mem :=
  match o with OVar i => sw m ra (lw m (FP m - int_off E i)) | _ => m end.
Fixpoint run_mem (e : bexpr) (m : mem) : mem :=
  match e with
  | BLit _ => m
  | BVar j => sw m r1 (bval m j)
  | BCmp _ a b => fetch_mem r0 a (fetch_mem r1 b m)
  | BNot e1 => run_mem e1 m
  | BAnd e1 e2 => let m1 := run_mem e1 m in if beval m e1 then run_mem e2 m1 else m1
  | BOr e1 e2 => let m1 := run_mem e1 m in if beval m e1 then m1 else run_mem e2 m1
  end.
(* the same, as an explicit trace of evaluated atoms *)
Inductive atom := AtCmp (a b : iopd) | AtVar (j : nat).
Fixpoint trace (m : mem) (e : bexpr) : list atom :=
  match e with
  | BLit _ => []
  | BVar j => [AtVar j]
  | BCmp _ a b => [AtCmp a b]
  | BNot e1 => trace m e1
  | BAnd e1 e2 => trace m e1 ++ (if beval m e1 then trace m e2 else [])
  | BOr e1 e2 => trace m e1 ++ (if beval m e1 then [] else trace m e2)
  end.
Definition atom_mem (m : mem) (x : atom) : mem :=
  match x with
  | AtCmp a b => fetch_mem r0 a (fetch_mem r1 b m)
  | AtVar j => sw m r1 (bval m j)
  end.

(* short-circuiting, in the terms of the theorems below: when the left operand decides, the right
   operand contributes no atom to the trace and no write to the memory *)
Lemma short_circuit_and m e1 e2 : beval m e1 = false ->
  trace m (BAnd e1 e2) = trace m e1 /\ run_mem (BAnd e1 e2) m = run_mem e1 m.
Proof. intros H. cbn [trace run_mem]. rewrite H. now rewrite app_nil_r. Qed.
Lemma short_circuit_or m e1 e2 : beval m e1 = true ->
  trace m (BOr e1 e2) = trace m e1 /\ run_mem (BOr e1 e2) m = run_mem e1 m.
Proof. intros H. cbn [trace run_mem]. rewrite H. now rewrite app_nil_r. Qed.

(* well-formed frame *)
Record layout_ok (m : mem) : Prop := {
  lo_wf : wf_mem m;
  lo_r0 : 0 <= r0; lo_r1 : 0 <= r1; lo_fp : 0 <= fp;
  lo_i0 : inb m r0 w = true; lo_i1 : inb m r1 w = true; lo_if : inb m fp w = true;
  lo_d01 : r0 + w <= r1 \/ r1 + w <= r0;
  lo_d0f : r0 + w <= fp \/ fp + w <= r0;
  lo_d1f : r1 + w <= fp \/ fp + w <= r1;
  lo_F : 0 <= FP m < W / 2 }.
(* [a, a+n) is disjoint from the words r0 and r1 *)
Definition dj (a n : Z) : Prop := (a + n <= r0 \/ r0 + w <= a) /\ (a + n <= r1 \/ r1 + w <= a).
(* a local of n bytes at frame offset off: in bounds, addressable as a signed offset, not a register *)
Definition slot_ok (m : mem) (off n : Z) : Prop :=
  0 < off <= W / 2 /\ 0 <= FP m - off /\ inb m (FP m - off) n = true /\ dj (FP m - off) n.
(* F_proved: the operands the theorems cover are the SAFE ones.  Arithmetic operands are in the
   model and in the textual correspondence, not (yet) in the theorems: opd_ok excludes them. *)
Definition opd_ok (m : mem) (o : iopd) : Prop :=
  match o with
  | OLit z => - (W / 2) <= z < W / 2
  | OVar i => slot_ok m (int_off E i) w
  | OArith _ _ _ => False
  end.
Lemma opd_ok_safe m o : opd_ok m o -> is_safe o = true.
Proof. destruct o; cbn [opd_ok is_safe]; [reflexivity | reflexivity | intros []]. Qed.
Fixpoint vars_ok (m : mem) (e : bexpr) : Prop :=
  match e with
  | BLit _ => True
  | BVar j => slot_ok m (bool_off E j) 1
  | BCmp _ a b => opd_ok m a /\ opd_ok m b
  | BNot e1 => vars_ok m e1
  | BAnd e1 e2 | BOr e1 e2 => vars_ok m e1 /\ vars_ok m e2
  end.
(* FRAME CONDITION: m' differs from m at most in the words r0 and r1 *)
Definition agree (m m' : mem) : Prop :=
  msize m' = msize m /\ (wf_mem m -> wf_mem m') /\
  forall x, 0 <= x -> ~ (r0 <= x < r0 + w) -> ~ (r1 <= x < r1 + w) -> getb m' x = getb m x.

Hypothesis Hw : 2 <= w.
Let Hw1 : 1 <= w. Proof. lia. Qed.

Lemma agree_refl m : agree m m.
Proof. split; [reflexivity|]. split; [tauto|]. reflexivity. Qed.
Lemma agree_trans a b c : agree a b -> agree b c -> agree a c.
Proof.
  intros [S1 [F1 G1]] [S2 [F2 G2]]. split; [congruence|]. split; [tauto|].
  intros x X N0 N1. rewrite G2, G1; auto.
Qed.
Lemma agree_sw m a v : 0 <= a -> a = r0 \/ a = r1 -> agree m (sw m a v).
Proof.
  intros Ha Hr. split; [apply msize_sw|]. split; [intros Wf; apply wf_sw; assumption|].
  intros x X N0 N1. unfold Machine.sw. apply storen_outside; [assumption | assumption|].
  rewrite (wn_w w Hw1). destruct Hr; subst a; lia.
Qed.
Lemma agree_lw m m' a : agree m m' -> 0 <= a -> dj a w -> lw m' a = lw m a.
Proof.
  intros [_ [_ G]] Ha [D0 D1]. unfold Machine.lw. apply loadn_ext. intros x Hx.
  rewrite (wn_w w Hw1) in Hx. apply G; lia.
Qed.
Lemma agree_lb m m' a : agree m m' -> 0 <= a -> dj a 1 -> lb m' a = lb m a.
Proof. intros [_ [_ G]] Ha [D0 D1]. unfold lb. apply G; lia. Qed.
Lemma agree_inb m m' a n : agree m m' -> inb m' a n = inb m a n.
Proof. intros [S _]. unfold inb. now rewrite S. Qed.
Lemma dj_fp m : layout_ok m -> dj fp w.
Proof. intros L. destruct L. unfold dj. lia. Qed.
Lemma FP_agree m m' : layout_ok m -> agree m m' -> FP m' = FP m.
Proof. intros L A. unfold FP. apply agree_lw; [exact A | apply (lo_fp m L) | apply (dj_fp m L)]. Qed.
Lemma layout_ok_agree m m' : layout_ok m -> agree m m' -> layout_ok m'.
Proof.
  intros L A. pose proof (FP_agree m m' L A) as EF. destruct L. constructor; try assumption.
  - apply A; assumption.
  - now rewrite (agree_inb m m').
  - now rewrite (agree_inb m m').
  - now rewrite (agree_inb m m').
  - rewrite EF; assumption.
Qed.
Lemma slot_ok_agree m m' off n : layout_ok m -> agree m m' -> slot_ok m off n -> slot_ok m' off n.
Proof.
  intros L A [H1 [H2 [H3 H4]]]. unfold slot_ok. rewrite (FP_agree m m' L A), (agree_inb m m' _ _ A). tauto.
Qed.
Lemma opd_ok_agree m m' o : layout_ok m -> agree m m' -> opd_ok m o -> opd_ok m' o.
Proof. intros L A. destruct o; cbn [opd_ok]; [auto | apply slot_ok_agree; assumption | auto]. Qed.
Lemma vars_ok_agree m m' e : layout_ok m -> agree m m' -> vars_ok m e -> vars_ok m' e.
Proof.
  intros L A. induction e as [b|j|op a b|e IH|e1 IH1 e2 IH2|e1 IH1 e2 IH2]; cbn [vars_ok]; try tauto.
  - apply slot_ok_agree; assumption.
  - intros [Ha Hb]. split; apply (opd_ok_agree m m'); assumption.
Qed.
Lemma sval_agree m m' o : layout_ok m -> agree m m' -> opd_ok m o -> sval m' o = sval m o.
Proof.
  intros L A. destruct o as [z|i|op x y]; cbn [sval opd_ok]; [reflexivity| |intros []]. intros [H1 [H2 [H3 H4]]].
  rewrite (FP_agree m m' L A). f_equal. apply agree_lw; assumption.
Qed.
Lemma bval_agree m m' j : layout_ok m -> agree m m' -> slot_ok m (bool_off E j) 1 -> bval m' j = bval m j.
Proof.
  intros L A [H1 [H2 [H3 H4]]]. unfold bval. rewrite (FP_agree m m' L A). apply agree_lb; assumption.
Qed.
Lemma beval_agree m m' e : layout_ok m -> agree m m' -> vars_ok m e -> beval m' e = beval m e.
Proof.
  intros L A. induction e as [b|j|op a b|e IH|e1 IH1 e2 IH2|e1 IH1 e2 IH2]; cbn [vars_ok beval]; intros V.
  - reflexivity.
  - now rewrite (bval_agree m m' j L A V).
  - destruct V as [Va Vb]. now rewrite (sval_agree m m' a L A Va), (sval_agree m m' b L A Vb).
  - now rewrite IH.
  - destruct V as [V1 V2]. now rewrite IH1, IH2.
  - destruct V as [V1 V2]. now rewrite IH1, IH2.
Qed.

Lemma fetch_mem_agree m ra o : layout_ok m -> ra = r0 \/ ra = r1 -> agree m (fetch_mem ra o m).
Proof.
  intros L Hr. destruct o as [z|i|op x y]; cbn [fetch_mem]; [apply agree_refl| |apply agree_refl].
  apply agree_sw; [destruct L, Hr; subst; assumption | exact Hr].
Qed.
Lemma run_mem_agree e : forall m, layout_ok m -> vars_ok m e -> agree m (run_mem e m).
Proof.
  induction e as [b|j|op a b|e IH|e1 IH1 e2 IH2|e1 IH1 e2 IH2]; intros m L V; cbn [run_mem vars_ok] in *.
  - apply agree_refl.
  - apply agree_sw; [apply (lo_r1 m L) | right; reflexivity].
  - destruct V as [Va Vb].
    pose proof (fetch_mem_agree m r1 b L (or_intror eq_refl)) as A1.
    eapply agree_trans; [exact A1|]. apply fetch_mem_agree; [eapply layout_ok_agree; eauto | left; reflexivity].
  - apply IH; assumption.
  - destruct V as [V1 V2]. pose proof (IH1 m L V1) as A1. destruct (beval m e1); [|exact A1].
    eapply agree_trans; [exact A1|]. apply IH2; [eapply layout_ok_agree; eauto | eapply vars_ok_agree; eauto].
  - destruct V as [V1 V2]. pose proof (IH1 m L V1) as A1. destruct (beval m e1); [exact A1|].
    eapply agree_trans; [exact A1|]. apply IH2; [eapply layout_ok_agree; eauto | eapply vars_ok_agree; eauto].
Qed.
Lemma trace_agree m m' e : layout_ok m -> agree m m' -> vars_ok m e -> trace m' e = trace m e.
Proof.
  intros L A. induction e as [b|j|op a b|e IH|e1 IH1 e2 IH2|e1 IH1 e2 IH2]; cbn [vars_ok trace]; intros V; try reflexivity.
  - auto.
  - destruct V as [V1 V2]. now rewrite IH1, IH2, (beval_agree m m' e1 L A V1).
  - destruct V as [V1 V2]. now rewrite IH1, IH2, (beval_agree m m' e1 L A V1).
Qed.
(* run_mem is the effect of the trace *)
Lemma run_mem_trace e : forall m, layout_ok m -> vars_ok m e ->
  run_mem e m = fold_left atom_mem (trace m e) m.
Proof.
  induction e as [b|j|op a b|e IH|e1 IH1 e2 IH2|e1 IH1 e2 IH2]; intros m L V; cbn [run_mem vars_ok trace] in *; try reflexivity.
  - apply IH; assumption.
  - destruct V as [V1 V2]. rewrite fold_left_app, <- (IH1 m L V1).
    pose proof (run_mem_agree e1 m L V1) as A1.
    destruct (beval m e1); [|reflexivity].
    rewrite <- (trace_agree m (run_mem e1 m) e2 L A1 V2).
    apply IH2; [eapply layout_ok_agree; eauto | eapply vars_ok_agree; eauto].
  - destruct V as [V1 V2]. rewrite fold_left_app, <- (IH1 m L V1).
    pose proof (run_mem_agree e1 m L V1) as A1.
    destruct (beval m e1); [reflexivity|].
    rewrite <- (trace_agree m (run_mem e1 m) e2 L A1 V2).
    apply IH2; [eapply layout_ok_agree; eauto | eapply vars_ok_agree; eauto].
Qed.

(* address arithmetic of `[fp], -off` *)
Lemma frame_addr m off : layout_ok m -> 0 < off <= W / 2 -> sgn (FP m) + sgn (wrap (- off)) = FP m - off.
Proof.
  intros L Ho. rewrite (sgn_small w (FP m)) by apply (lo_F m L).
  rewrite (sgn_neg_imm w Hw1 off Ho). lia.
Qed.

(* ================================================================================= *)
(* D  the lowered code on the machine                                                 *)
(* ================================================================================= *)
Variable code : Z -> option instr.
Variable cmem : mem.
Variable lab : label -> Z.
Hypothesis lab_range : forall l, 0 <= lab l < W.
Notation act := (Machine.act w code cmem).
Notation Halts := (HidV.Sphinx.Halts.Halts act).
Notation runs := (HidV.Sphinx.Halts.runs act).
Notation oval := (Idioms.oval w cmem).
Notation plc := (placed R lab code).
Notation rs := (res_sym R lab).

(* word value of an operand (what the conditional halt compares) *)
Definition wval (m : mem) (o : iopd) : Z :=
  match o with
  | OLit z => wrap z
  | OVar i => lw m (FP m - int_off E i)
  | OArith op x y => wrap (arith_sem op (sval m x) (sval m y))
  end.
Lemma sgn_wval m o : opd_ok m o -> sgn (wval m o) = sval m o.
Proof. destruct o as [z|i|op x y]; cbn [opd_ok wval sval]; [apply (sgn_wrap_small w Hw1) | reflexivity | intros []]. Qed.
Lemma wval_range m o : wf_mem m -> inrange w (wval m o).
Proof.
  intros Wf. destruct o as [z|i|op x y]; cbn [wval];
    [apply wrap_range; exact Hw1 | apply (lw_range w Hw1); exact Wf | apply wrap_range; exact Hw1].
Qed.

Lemma oval_lab m l : oval m (Imm (lab l)) = Some (lab l).
Proof. rewrite oval_imm. f_equal. apply (wrap_small w). exact (lab_range l). Qed.
Lemma oval_neg_off m off : oval m (Imm (- off)) = Some (wrap (- off)).
Proof. apply oval_imm. Qed.

Lemma act_lbso p m d b o x y : code p = Some (ILoadO WByte SState (St d) b o) ->
  oval m b = Some x -> oval m o = Some y -> inb m (sgn x + sgn y) 1 = true -> inb m d w = true ->
  act (mk p m) = ANext (mk (p + 1) (sw m d (lb m (sgn x + sgn y)))) None.
Proof.
  intros C A B I J. unfold Machine.act; cbn [pc]; rewrite C; cbn [exec].
  rewrite !val_oval; cbn [mm]; rewrite A, B. unfold load; cbn [mm]; rewrite I.
  unfold setdest; cbn [mm]; rewrite J. reflexivity.
Qed.

(* ---------- straight-line continuation prefixes ---------- *)
Definition step_simple (i : ains) (m : mem) : option mem :=
  match exec w cmem (res_ins R lab i) (mk 0 m) with ANext s None => Some (mm s) | _ => None end.
Fixpoint run_simple (pre : list ains) (m : mem) : option mem :=
  match pre with
  | [] => Some m
  | i :: r => match step_simple i m with Some m' => run_simple r m' | None => None end
  end.
Lemma step_simple_act i q m m' : simple i = true -> code q = Some (res_ins R lab i) ->
  step_simple i m = Some m' -> act (mk q m) = ANext (mk (q + 1) m') None.
Proof.
  intros S C. unfold step_simple, Machine.act. cbn [pc]. rewrite C.
  destruct i; try discriminate S; cbn [res_ins exec]; rewrite !val_oval; cbn [mm].
  - (* lwso *) destruct (oval m (rs b)) as [x|]; [|discriminate]. destruct (oval m (rs o)) as [y|]; [|discriminate].
    unfold load; cbn [mm]. destruct (inb m (sgn x + sgn y) w); [|discriminate].
    unfold setdest; cbn [mm]. destruct (inb m (regaddr R d) w); [|discriminate].
    unfold nxtm; cbn [pc mm]. intros H; inversion H; reflexivity.
  - (* lbso *) destruct (oval m (rs b)) as [x|]; [|discriminate]. destruct (oval m (rs o)) as [y|]; [|discriminate].
    unfold load; cbn [mm]. destruct (inb m (sgn x + sgn y) 1); [|discriminate].
    unfold setdest; cbn [mm]. destruct (inb m (regaddr R d) w); [|discriminate].
    unfold nxtm; cbn [pc mm]. intros H; inversion H; reflexivity.
  - (* arith *) destruct (oval m (rs a)) as [x|]; [|discriminate]. destruct (oval m (rs b)) as [y|]; [|discriminate].
    destruct (arith w op x y) as [r|]; [|discriminate].
    unfold setdest; cbn [mm]. destruct (inb m (regaddr R d) w); [|discriminate].
    unfold nxtm; cbn [pc mm]. intros H; inversion H; reflexivity.
  - (* mov *) destruct (oval m (rs v)) as [x|]; [|discriminate].
    unfold setdest; cbn [mm]. destruct (inb m (regaddr R d) w); [|discriminate].
    unfold nxtm; cbn [pc mm]. intros H; inversion H; reflexivity.
  - (* swso *) destruct (oval m (rs b)) as [x|]; [|discriminate]. destruct (oval m (rs o)) as [y|]; [|discriminate].
    destruct (oval m (rs v)) as [z|]; [|discriminate].
    unfold store; cbn [mm]. destruct (inb m (sgn x + sgn y) w); [|discriminate].
    unfold nxtm; cbn [pc mm]. intros H; inversion H; reflexivity.
  - (* sbso *) destruct (oval m (rs b)) as [x|]; [|discriminate]. destruct (oval m (rs o)) as [y|]; [|discriminate].
    destruct (oval m (rs v)) as [z|]; [|discriminate].
    unfold store; cbn [mm]. destruct (inb m (sgn x + sgn y) 1); [|discriminate].
    unfold nxtm; cbn [pc mm]. intros H; inversion H; reflexivity.
Qed.

(* where a continuation leaves: at its goto's target, or at the end of the emitted block *)
Definition kexit (g : option label) (endp : Z) : Z := match g with Some L => lab L | None => endp end.

Lemma kont_runs pre g : forall q m m'', forallb simple pre = true -> plc (kl pre g) q ->
  run_simple pre m = Some m'' ->
  runs (mk q m) [] (mk (kexit g (q + size (kl pre g))) m'').
Proof.
  induction pre as [|i r IH]; intros q m m'' S P Rn.
  - cbn [run_simple] in Rn. inversion Rn; subst m''. unfold kl in *. cbn [map app] in *.
    destruct g as [L|]; cbn [kexit].
    + cbn [goto plc res_ins res_sym] in P. destruct P as [Cj [Ch _]].
      pose proof (goto_label w code cmem q m (lab L) Cj Ch) as G.
      rewrite (wrap_small w (lab L) (lab_range L)) in G. exact G.
    + cbn [size]. replace (q + 0) with q by lia. apply runs_refl.
  - cbn [forallb] in S. apply andb_true_iff in S. destruct S as [Si Sr].
    cbn [run_simple] in Rn. destruct (step_simple i m) as [m1|] eqn:St; [|discriminate].
    unfold kl in P. cbn [map app plc] in P. destruct P as [Ci P].
    eapply runs_tau; [apply (step_simple_act i q m m1 Si Ci St)|].
    specialize (IH (q + 1) m1 m'' Sr P Rn).
    unfold kl. cbn [map app size]. unfold kl in IH.
    replace (q + (1 + size (map AInstr r ++ match g with Some L => goto L | None => [] end)))
      with (q + 1 + size (map AInstr r ++ match g with Some L => goto L | None => [] end)) by lia.
    exact IH.
Qed.

(* ---------- operand fetch ---------- *)
Lemma fetch_runs rg o c s p m : rg = R0 \/ rg = R1 -> fetch E rg o = (c, s) -> plc c p ->
  layout_ok m -> opd_ok m o ->
  runs (mk p m) [] (mk (p + size c) (fetch_mem (regaddr R rg) o m)) /\
  oval (fetch_mem (regaddr R rg) o m) (rs s) = Some (wval m o).
Proof.
  intros Hr F P L O. destruct o as [z|i|op x y]; [| |destruct O];
    cbn [fetch] in F; inversion F; subst c s; clear F; cbn [fetch_mem wval size].
  - replace (p + 0) with p by lia. split; [apply runs_refl | apply oval_imm].
  - cbn [plc res_ins res_sym regaddr] in P. destruct P as [C _].
    cbn [opd_ok] in O. destruct O as [O1 [O2 [O3 O4]]].
    assert (Ir : 0 <= regaddr R rg /\ inb m (regaddr R rg) w = true).
    { destruct L, Hr; subst rg; cbn [regaddr]; split; assumption. }
    destruct Ir as [Ir0 Ir1].
    pose proof (act_lwso w code cmem p m (regaddr R rg) (St fp) (Imm (- int_off E i)) (FP m) (wrap (- int_off E i)) C
                  (oval_st w cmem m fp (lo_if m L)) (oval_imm w cmem m _)) as A.
    rewrite (frame_addr m _ L O1) in A. specialize (A O3 Ir1).
    split.
    + replace (p + (1 + 0)) with (p + 1) by lia. apply (runs_next act _ _ None A).
    + cbn [res_sym]. rewrite (oval_st_sw_same w Hw cmem m _ _ Ir0 Ir1). f_equal.
      apply (wrap_small w). apply (lw_range w Hw1). apply (lo_wf m L).
Qed.
(* fetching the left operand into r0 does not disturb the right operand's value *)
Lemma oval_keep_right a b cr right m : fetch E R1 b = (cr, right) -> layout_ok m ->
  oval (fetch_mem r0 a m) (rs right) = oval m (rs right).
Proof.
  intros F L. destruct a as [z|i|op x y]; cbn [fetch_mem]; [reflexivity| |reflexivity].
  destruct b as [z'|i'|op' x' y']; cbn [fetch] in F; inversion F; subst; cbn [res_sym regaddr]; [reflexivity| |reflexivity].
  destruct L. apply (oval_st_sw_other w Hw); [assumption | assumption | lia].
Qed.
Lemma wval_agree m m' o : layout_ok m -> agree m m' -> opd_ok m o -> wval m' o = wval m o.
Proof.
  intros L A. destruct o as [z|i|op x y]; cbn [wval opd_ok]; [reflexivity| |intros []]. intros [H1 [H2 [H3 H4]]].
  rewrite (FP_agree m m' L A). apply agree_lw; assumption.
Qed.

(* ---------- the tables ---------- *)
Lemma compare_instr_in op : In (op, compare_instr op) compare_map.
Proof. destruct op; vm_compute; repeat (first [left; reflexivity | right]). Qed.
Lemma compare_instr_inv op : In (compare_instr op, invert_instr (compare_instr op)) halt_inversion.
Proof. destruct op; vm_compute; repeat (first [left; reflexivity | right]). Qed.
Lemma compare_instr_sem op x y : inrange w x -> inrange w y ->
  cond_holds w (compare_instr op) x y = cmp_sem op (sgn x) (sgn y).
Proof.
  intros Hx Hy. pose proof (compare_map_correct w Hw1) as F. rewrite Forall_forall in F.
  exact (F _ (compare_instr_in op) x y Hx Hy).
Qed.

(* ---------- the induction over the expression tree ---------- *)
Lemma ends_goto_kl pre g : forallb simple pre = true ->
  ends_goto (kl pre g) = match g with Some _ => true | None => false end.
Proof. intros S. destruct g; [apply ends_goto_kl_some | apply ends_goto_kl_none, S]. Qed.

Ltac szn := repeat progress (rewrite ?size_app; cbn [size goto]).
Ltac szn_in H := repeat progress (rewrite ?size_app in H; cbn [size goto] in H).
Ltac close_with G :=
  szn; szn_in G;
  match goal with |- HidV.Sphinx.Halts.runs _ _ _ (mk ?a _) =>
    match type of G with HidV.Sphinx.Halts.runs _ _ _ (mk ?b _) => replace a with b by lia end end;
  exact G.

Theorem lower_runs e : forall pt gt pf gf st C st' p m,
  lower_branch E e (kl pt gt) (kl pf gf) st = (C, st') ->
  forallb simple pt = true -> forallb simple pf = true ->
  plc C p -> layout_ok m -> vars_ok m e ->
  forall m'', run_simple (if beval m e then pt else pf) (run_mem e m) = Some m'' ->
  runs (mk p m) [] (mk (kexit (if beval m e then gt else gf) (p + size C)) m'').
Proof.
  induction e as [b|j|op a b|e IH|e1 IH1 e2 IH2|e1 IH1 e2 IH2];
    intros pt gt pf gf st C st' p m L Spt Spf P Lo V m'' Rs.
  - (* BLit *)
    cbn [lower_branch] in L. inversion L; subst C st'; clear L. cbn [beval run_mem] in *.
    destruct b; apply kont_runs; assumption.
  - (* BVar *)
    cbn [lower_branch] in L.
    destruct (add_label LIsTrue st) as [it st1]. destruct (add_label LBoolEnd st1) as [be st2].
    inversion L; subst C st'; clear L.
    cbn [app plc] in P. destruct P as [Cl [Cj [Cc P]]].
    apply placed_app in P. destruct P as [Pkf P].
    apply placed_app in P. destruct P as [Pgo P].
    cbn [app plc] in P. destruct P as [Lit [Cc' P]].
    apply placed_app in P. destruct P as [Pkt Pend].
    cbn [res_ins res_sym regaddr] in Cl, Cj, Cc, Cc'.
    cbn [vars_ok] in V. destruct V as [V1 [V2 [V3 V4]]].
    cbn [run_mem beval] in Rs |- *. unfold bval in *.
    set (v := lb m (FP m - bool_off E j)) in *.
    set (m1 := sw m r1 v) in *.
    (* the load *)
    pose proof (act_lbso p m r1 (St fp) (Imm (- bool_off E j)) (FP m) (wrap (- bool_off E j)) Cl
                  (oval_st w cmem m fp (lo_if m Lo)) (oval_imm w cmem m _)) as A.
    rewrite (frame_addr m _ Lo V1) in A. specialize (A V3 (lo_i1 m Lo)). fold v m1 in A.
    eapply runs_tau; [exact A|].
    assert (Ov : oval m1 (St r1) = Some v).
    { unfold m1. rewrite (oval_st_sw_same w Hw cmem m _ _ (lo_r1 m Lo) (lo_i1 m Lo)). f_equal.
      apply (wrap_small w). pose proof (lo_wf m Lo (FP m - bool_off E j)) as Hb. fold (lb m (FP m - bool_off E j)) in Hb.
      fold v in Hb. pose proof (W_ge w Hw1). unfold inrange. lia. }
    rewrite <- Lit in Cc'.
    pose proof (branch_bool_idiom w Hw code cmem (p + 1) m1 (Imm (lab it)) (lab it) (St r1) v Cj Cc (oval_lab m1 it) Cc' Ov) as Br.
    change (@nil event) with (@nil event ++ []). eapply runs_trans; [exact Br|]. clear Br.
    rewrite (ends_goto_kl pf gf Spf) in *.
    szn.
    destruct (v =? 0) eqn:Ev; cbn [negb] in Rs |- *.
    + (* false: fall through into if_false *)
      pose proof (kont_runs pf gf (p + 1 + 1 + 1) m1 m'' Spf Pkf Rs) as K.
      replace (p + 1 + 2) with (p + 1 + 1 + 1) by lia.
      destruct gf as [Lf|]; cbn [kexit] in K |- *; [exact K|].
      change (@nil event) with (@nil event ++ []). eapply runs_trans; [exact K|].
      cbn [goto plc res_ins res_sym] in Pgo. destruct Pgo as [Gj [Gh _]].
      pose proof (goto_label w code cmem _ m'' (lab be) Gj Gh) as G.
      rewrite (wrap_small w (lab be) (lab_range be)) in G.
      cbn [plc] in Pend. destruct Pend as [Lbe _].
      rewrite Lbe in G. close_with G.
    + (* true: the target's test passes, into if_true *)
      rewrite Lit.
      pose proof (kont_runs pt gt _ m1 m'' Spt Pkt Rs) as K.
      destruct gt as [Lt|]; cbn [kexit] in K |- *; [exact K|].
      destruct gf as [Lf|]; close_with K.
  - (* BCmp *)
    cbn [lower_branch] in L.
    destruct (add_label LCompareIsTrue st) as [it st1]. destruct (add_label LCompareEnd st1) as [be st2].
    cbn [vars_ok] in V. destruct V as [Va Vb].
    rewrite (compare_operands_safe E a b (opd_ok_safe m a Va) (opd_ok_safe m b Vb)) in L.
    destruct (fetch E R1 b) as [cr right] eqn:Fb. destruct (fetch E R0 a) as [cl left] eqn:Fa.
    cbn [fst snd] in L. rewrite <- app_assoc in L.
    inversion L; subst C st'; clear L.
    apply placed_app in P. destruct P as [Pcr P].
    apply placed_app in P. destruct P as [Pcl P].
    cbn [app plc] in P. destruct P as [Cj [Cc P]].
    apply placed_app in P. destruct P as [Pkf P].
    apply placed_app in P. destruct P as [Pgo P].
    cbn [app plc] in P. destruct P as [Lit [Cc' P]].
    apply placed_app in P. destruct P as [Pkt Pend].
    cbn [res_ins res_sym regaddr] in Cj, Cc, Cc'.
    cbn [run_mem beval] in Rs |- *.
    (* the two fetches *)
    destruct (fetch_runs R1 b cr right p m (or_intror eq_refl) Fb Pcr Lo Vb) as [Rb Ob].
    cbn [regaddr] in Rb, Ob.
    set (m1 := fetch_mem r1 b m) in *.
    assert (A1 : agree m m1) by (apply fetch_mem_agree; [exact Lo | right; reflexivity]).
    assert (Lo1 : layout_ok m1) by exact (layout_ok_agree m m1 Lo A1).
    assert (Va1 : opd_ok m1 a) by exact (opd_ok_agree m m1 a Lo A1 Va).
    destruct (fetch_runs R0 a cl left _ m1 (or_introl eq_refl) Fa Pcl Lo1 Va1) as [Ra Oa].
    cbn [regaddr] in Ra, Oa.
    set (m2 := fetch_mem r0 a m1) in *.
    rewrite (wval_agree m m1 a Lo A1 Va) in Oa.
    assert (Ob2 : oval m2 (rs right) = Some (wval m b)).
    { unfold m2. rewrite (oval_keep_right a b cr right m1 Fb Lo1). exact Ob. }
    change (@nil event) with (@nil event ++ ([] ++ [])).
    eapply runs_trans; [exact Rb|]. eapply runs_trans; [exact Ra|]. clear Rb Ra.
    (* the branch *)
    rewrite <- Lit in Cc'.
    pose proof (branch_idiom_table w code cmem _ m2 (Imm (lab it)) (lab it) (compare_instr op)
                  (invert_instr (compare_instr op)) (rs left) (rs right) (wval m a) (wval m b)
                  (compare_instr_inv op) Cj Cc (oval_lab m2 it) Cc' Oa Ob2) as Br.
    rewrite (compare_instr_sem op _ _ (wval_range m a (lo_wf m Lo)) (wval_range m b (lo_wf m Lo))) in Br.
    rewrite (sgn_wval m a Va), (sgn_wval m b Vb) in Br.
    change (@nil event) with (@nil event ++ []). eapply runs_trans; [exact Br|]. clear Br.
    rewrite (ends_goto_kl pf gf Spf) in *.
    szn.
    destruct (cmp_sem op (sval m a) (sval m b)) eqn:Ev.
    + (* true *)
      rewrite Lit.
      pose proof (kont_runs pt gt _ m2 m'' Spt Pkt Rs) as K.
      destruct gt as [Lt|]; cbn [kexit] in K |- *; [exact K|].
      destruct gf as [Lf|]; close_with K.
    + (* false *)
      pose proof (kont_runs pf gf (p + size cr + size cl + 1 + 1) m2 m'' Spf Pkf Rs) as K.
      replace (p + size cr + size cl + 2) with (p + size cr + size cl + 1 + 1) by lia.
      destruct gf as [Lf|]; cbn [kexit] in K |- *; [exact K|].
      change (@nil event) with (@nil event ++ []). eapply runs_trans; [exact K|].
      cbn [goto plc res_ins res_sym] in Pgo. destruct Pgo as [Gj [Gh _]].
      pose proof (goto_label w code cmem _ m'' (lab be) Gj Gh) as G.
      rewrite (wrap_small w (lab be) (lab_range be)) in G.
      cbn [plc] in Pend. destruct Pend as [Lbe _].
      rewrite Lbe in G. close_with G.
  - (* BNot *)
    cbn [lower_branch] in L. cbn [vars_ok beval run_mem] in *.
    specialize (IH pf gf pt gt st C st' p m L Spf Spt P Lo V m'').
    destruct (beval m e); cbn [negb] in *; apply IH; exact Rs.
  - (* BAnd *)
    cbn [lower_branch] in L.
    destruct (add_label LLeftIsTrue st) as [lt st1]. destruct (add_label LAndEnd st1) as [ae st2].
    rewrite (ends_goto_kl pf gf Spf) in L.
    cbn [vars_ok] in V. destruct V as [V1 V2].
    pose proof (run_mem_agree e1 m Lo V1) as A1.
    assert (Lo1 : layout_ok (run_mem e1 m)) by exact (layout_ok_agree m _ Lo A1).
    assert (V21 : vars_ok (run_mem e1 m) e2) by exact (vars_ok_agree m _ e2 Lo A1 V2).
    pose proof (beval_agree m (run_mem e1 m) e2 Lo A1 V2) as B2.
    cbn [beval run_mem] in Rs |- *.
    destruct gf as [Lf|].
    + destruct (lower_branch E e1 (goto lt) (kl pf (Some Lf)) st2) as [c1 st3] eqn:L1.
      destruct (lower_branch E e2 (kl pt gt) (kl pf (Some Lf)) st3) as [c2 st4] eqn:L2.
      inversion L; subst C st'; clear L.
      apply placed_app in P. destruct P as [P1 P].
      cbn [app plc] in P. destruct P as [Llt P]. rewrite app_nil_r in P.
      change (goto lt) with (kl [] (Some lt)) in L1.
      specialize (IH1 [] (Some lt) pf (Some Lf) st2 c1 st3 p m L1 eq_refl Spf P1 Lo V1).
      specialize (IH2 pt gt pf (Some Lf) st3 c2 st4 (p + size c1) (run_mem e1 m) L2 Spt Spf P Lo1 V21).
      rewrite B2 in IH2.
      szn. replace (p + (size c1 + (size c2 + 0))) with (p + size c1 + size c2) by lia.
      destruct (beval m e1); cbn [andb] in Rs |- *.
      * specialize (IH1 _ eq_refl). cbn [kexit] in IH1. rewrite Llt in IH1.
        change (@nil event) with (@nil event ++ []). eapply runs_trans; [exact IH1|]. apply IH2. exact Rs.
      * apply IH1. exact Rs.
    + rewrite kl_none_goto in L.
      destruct (lower_branch E e1 (goto lt) (kl pf (Some ae)) st2) as [c1 st3] eqn:L1.
      destruct (lower_branch E e2 (kl pt gt) (kl pf None) st3) as [c2 st4] eqn:L2.
      inversion L; subst C st'; clear L.
      apply placed_app in P. destruct P as [P1 P].
      cbn [app plc] in P. destruct P as [Llt P].
      apply placed_app in P. destruct P as [P2 Pend]. cbn [plc] in Pend. destruct Pend as [Lae _].
      change (goto lt) with (kl [] (Some lt)) in L1.
      specialize (IH1 [] (Some lt) pf (Some ae) st2 c1 st3 p m L1 eq_refl Spf P1 Lo V1).
      specialize (IH2 pt gt pf None st3 c2 st4 (p + size c1) (run_mem e1 m) L2 Spt Spf P2 Lo1 V21).
      rewrite B2 in IH2.
      szn. replace (p + (size c1 + (size c2 + 0))) with (p + size c1 + size c2) by lia.
      destruct (beval m e1); cbn [andb] in Rs |- *.
      * specialize (IH1 _ eq_refl). cbn [kexit] in IH1. rewrite Llt in IH1.
        change (@nil event) with (@nil event ++ []). eapply runs_trans; [exact IH1|]. apply IH2. exact Rs.
      * specialize (IH1 _ Rs). cbn [kexit] in IH1 |- *. rewrite Lae in IH1. exact IH1.
  - (* BOr *)
    cbn [lower_branch] in L.
    destruct (add_label LLeftIsFalse st) as [lf st1]. destruct (add_label LOrEnd st1) as [oe st2].
    rewrite (ends_goto_kl pt gt Spt) in L.
    cbn [vars_ok] in V. destruct V as [V1 V2].
    pose proof (run_mem_agree e1 m Lo V1) as A1.
    assert (Lo1 : layout_ok (run_mem e1 m)) by exact (layout_ok_agree m _ Lo A1).
    assert (V21 : vars_ok (run_mem e1 m) e2) by exact (vars_ok_agree m _ e2 Lo A1 V2).
    pose proof (beval_agree m (run_mem e1 m) e2 Lo A1 V2) as B2.
    cbn [beval run_mem] in Rs |- *.
    destruct gt as [Lt|].
    + destruct (lower_branch E e1 (kl pt (Some Lt)) (goto lf) st2) as [c1 st3] eqn:L1.
      destruct (lower_branch E e2 (kl pt (Some Lt)) (kl pf gf) st3) as [c2 st4] eqn:L2.
      inversion L; subst C st'; clear L.
      apply placed_app in P. destruct P as [P1 P].
      cbn [app plc] in P. destruct P as [Llf P]. rewrite app_nil_r in P.
      change (goto lf) with (kl [] (Some lf)) in L1.
      specialize (IH1 pt (Some Lt) [] (Some lf) st2 c1 st3 p m L1 Spt eq_refl P1 Lo V1).
      specialize (IH2 pt (Some Lt) pf gf st3 c2 st4 (p + size c1) (run_mem e1 m) L2 Spt Spf P Lo1 V21).
      rewrite B2 in IH2.
      szn. replace (p + (size c1 + (size c2 + 0))) with (p + size c1 + size c2) by lia.
      destruct (beval m e1); cbn [orb] in Rs |- *.
      * apply IH1. exact Rs.
      * specialize (IH1 _ eq_refl). cbn [kexit] in IH1. rewrite Llf in IH1.
        change (@nil event) with (@nil event ++ []). eapply runs_trans; [exact IH1|]. apply IH2. exact Rs.
    + rewrite kl_none_goto in L.
      destruct (lower_branch E e1 (kl pt (Some oe)) (goto lf) st2) as [c1 st3] eqn:L1.
      destruct (lower_branch E e2 (kl pt None) (kl pf gf) st3) as [c2 st4] eqn:L2.
      inversion L; subst C st'; clear L.
      apply placed_app in P. destruct P as [P1 P].
      cbn [app plc] in P. destruct P as [Llf P].
      apply placed_app in P. destruct P as [P2 Pend]. cbn [plc] in Pend. destruct Pend as [Loe _].
      change (goto lf) with (kl [] (Some lf)) in L1.
      specialize (IH1 pt (Some oe) [] (Some lf) st2 c1 st3 p m L1 Spt eq_refl P1 Lo V1).
      specialize (IH2 pt None pf gf st3 c2 st4 (p + size c1) (run_mem e1 m) L2 Spt Spf P2 Lo1 V21).
      rewrite B2 in IH2.
      szn. replace (p + (size c1 + (size c2 + 0))) with (p + size c1 + size c2) by lia.
      destruct (beval m e1); cbn [orb] in Rs |- *.
      * specialize (IH1 _ Rs). cbn [kexit] in IH1 |- *. rewrite Loe in IH1. exact IH1.
      * specialize (IH1 _ eq_refl). cbn [kexit] in IH1. rewrite Llf in IH1.
        change (@nil event) with (@nil event ++ []). eapply runs_trans; [exact IH1|]. apply IH2. exact Rs.
Qed.
End Sem.

(* ================================================================================= *)
(* E  theorems on resolved code                                                       *)
(* ================================================================================= *)
Lemma below_not_between st st' x : below st x -> ~ between st st' x.
Proof. unfold below, between. lia. Qed.

Section Top.
Variable w : Z.
Hypothesis Hw : 2 <= w.
Variable code : Z -> option instr.
Variable cmem : mem.
Variable R : regmap.
Variable E : env.
Variable ext : label -> Z.           (* addresses of the labels defined outside the lowered block *)
Hypothesis ext_range : forall x, 0 <= ext x < Machine.W w.
Notation act := (Machine.act w code cmem).
Notation Halts := (HidV.Sphinx.Halts.Halts act).
Notation runs := (HidV.Sphinx.Halts.runs act).
Notation csteps := (HidV.Sphinx.Halts.csteps act).

(* General form: if_true = pt ++ [goto gt], if_false = pf ++ [goto gf], where pt, pf are
   straight-line and the gotos optional.  The code is the two-pass resolution of the model's
   output at base B; labels that the block does not define go through ext. *)
Theorem lowering_correct_gen e pt gt pf gf st B m :
  let C := fst (lower_branch E e (kl pt gt) (kl pf gf) st) in
  let lab := labenv ext B C in
  code_at code B (resolve R ext B C) ->
  0 <= B -> B + size C < Machine.W w ->
  forallb simple pt = true -> forallb simple pf = true ->
  (forall L, gt = Some L -> below st L) -> (forall L, gf = Some L -> below st L) ->
  layout_ok w R m -> vars_ok w R E m e ->
  let b := beval w R E m e in
  let m' := run_mem w R E e m in
  agree w R m m' /\
  m' = fold_left (atom_mem w R E) (trace w R E m e) m /\
  forall m'', run_simple w R cmem lab (if b then pt else pf) m' = Some m'' ->
    runs (mk B m) [] (mk (match (if b then gt else gf) with Some L => ext L | None => B + size C end) m'').
Proof.
  intros C lab CA HB HS Spt Spf Bt Bf Lo V b m'.
  split; [apply run_mem_agree; assumption|]. split; [apply run_mem_trace; assumption|].
  intros m'' Rs.
  destruct (lower_branch E e (kl pt gt) (kl pf gf) st) as [C0 st'] eqn:L. cbn [fst] in C. subst C.
  assert (Dk : forall pre g, deflabels (kl pre g) = []).
  { intros pre g. unfold kl. rewrite deflabels_app.
    assert (X : deflabels (map AInstr pre) = []) by (induction pre as [|i r IH]; [reflexivity | exact IH]).
    rewrite X. destruct g; reflexivity. }
  destruct (lower_branch_defs E e _ _ _ _ _ L (Dk pt gt) (Dk pf gf)) as [_ [Fb Nd]].
  pose proof (resolve_placed R ext code B C0 Nd CA) as P.
  pose proof (labenv_range ext B C0 (Machine.W w) ext_range HB HS) as LR.
  pose proof (lower_runs w R E Hw code cmem lab LR e pt gt pf gf st C0 st' B m L Spt Spf P Lo V m'' Rs) as Rn.
  fold b in Rn.
  replace (match (if b then gt else gf) with Some L0 => ext L0 | None => B + size C0 end)
    with (kexit lab (if b then gt else gf) (B + size C0)); [exact Rn|].
  assert (X : forall g, (forall L0, g = Some L0 -> below st L0) ->
            kexit lab g (B + size C0) = match g with Some L0 => ext L0 | None => B + size C0 end).
  { intros [L0|] Hb; cbn [kexit]; [|reflexivity]. apply labenv_ext. intro I.
    rewrite Forall_forall in Fb. exact (below_not_between st st' L0 (Hb L0 eq_refl) (Fb _ I)). }
  destruct b; apply X; assumption.
Qed.

(* THE FLAGSHIP (DESIGN C01 item 2): both continuations are gotos *)
Theorem branch_lowering_correct e T F st B m :
  let C := fst (lower_branch E e (goto T) (goto F) st) in
  code_at code B (resolve R ext B C) ->
  0 <= B -> B + size C < Machine.W w ->
  below st T -> below st F ->
  layout_ok w R m -> vars_ok w R E m e ->
  let m' := run_mem w R E e m in
  runs (mk B m) [] (mk (if beval w R E m e then ext T else ext F) m') /\
  agree w R m m' /\
  m' = fold_left (atom_mem w R E) (trace w R E m e) m.
Proof.
  intros C CA HB HS BT BF Lo V m'.
  destruct (lowering_correct_gen e [] (Some T) [] (Some F) st B m CA HB HS eq_refl eq_refl) as [A [Tr Rn]]; try assumption.
  - intros L X; inversion X; subst; exact BT.
  - intros L X; inversion X; subst; exact BF.
  - split; [|split; assumption]. specialize (Rn m').
    destruct (beval w R E m e); apply Rn; reflexivity.
Qed.
(* the same, spelled out: Halts is transported both ways, and when the chosen continuation
   does not halt the committed run goes exactly there, silently *)
Corollary branch_lowering_halts e T F st B m :
  let C := fst (lower_branch E e (goto T) (goto F) st) in
  code_at code B (resolve R ext B C) ->
  0 <= B -> B + size C < Machine.W w ->
  below st T -> below st F ->
  layout_ok w R m -> vars_ok w R E m e ->
  let s' := mk (if beval w R E m e then ext T else ext F) (run_mem w R E e m) in
  (Halts (mk B m) <-> Halts s') /\ (~ Halts s' -> csteps (mk B m) [] s').
Proof. intros C CA HB HS BT BF Lo V. exact (proj1 (branch_lowering_correct e T F st B m CA HB HS BT BF Lo V)). Qed.

(* the fall-through form of IfBlock / LoopBlock: if_true = (), if_false = goto else *)
Theorem fallthrough_lowering_correct e Else st B m :
  let C := fst (lower_branch E e [] (goto Else) st) in
  code_at code B (resolve R ext B C) ->
  0 <= B -> B + size C < Machine.W w ->
  below st Else ->
  layout_ok w R m -> vars_ok w R E m e ->
  let m' := run_mem w R E e m in
  runs (mk B m) [] (mk (if beval w R E m e then B + size C else ext Else) m') /\
  agree w R m m' /\
  m' = fold_left (atom_mem w R E) (trace w R E m e) m.
Proof.
  intros C CA HB HS BE Lo V m'.
  destruct (lowering_correct_gen e [] None [] (Some Else) st B m CA HB HS eq_refl eq_refl) as [A [Tr Rn]]; try assumption.
  - intros L X; discriminate X.
  - intros L X; inversion X; subst; exact BE.
  - split; [|split; assumption]. specialize (Rn m').
    destruct (beval w R E m e); apply Rn; reflexivity.
Qed.
(* ... as gen_block uses it: else_N / end_else_N allocated first *)
Theorem if_block_lowering_correct e st B m :
  let C := fst (fst (fst (if_block E e st))) in
  let else_label := snd (fst (fst (if_block E e st))) in
  code_at code B (resolve R ext B C) ->
  0 <= B -> B + size C < Machine.W w ->
  layout_ok w R m -> vars_ok w R E m e ->
  let m' := run_mem w R E e m in
  runs (mk B m) [] (mk (if beval w R E m e then B + size C else ext else_label) m') /\
  agree w R m m' /\
  m' = fold_left (atom_mem w R E) (trace w R E m e) m.
Proof.
  unfold if_block.
  destruct (add_label LElse st) as [el st1] eqn:A1. destruct (add_label LEndElse st1) as [ee st2] eqn:A2.
  destruct (lower_branch E e [] (goto el) st2) as [c st3] eqn:L. cbn [fst snd].
  intros CA HB HS Lo V.
  pose proof (fallthrough_lowering_correct e el st2 B m) as T. rewrite L in T. cbn [fst] in T.
  apply T; try assumption.
  inversion A1; inversion A2; subst. unfold below; cbn. lia.
Qed.

(* C09 item 6: the VALUE lowering of a boolean operator (eval_expr, BooleanOp case, keep = False)
   leaves 1 in r_out iff the expression is true, else 0, and continues after the block *)
Theorem value_lowering_correct e rout st B m :
  let C := fst (value_lowering E e rout st) in
  code_at code B (resolve R ext B C) ->
  0 <= B -> B + size C < Machine.W w ->
  layout_ok w R m -> vars_ok w R E m e ->
  0 <= regaddr R rout -> inb m (regaddr R rout) w = true ->
  let v := if beval w R E m e then 1 else 0 in
  let m'' := Machine.sw w (run_mem w R E e m) (regaddr R rout) v in
  runs (mk B m) [] (mk (B + size C) m'') /\ Machine.lw w m'' (regaddr R rout) = v.
Proof.
  intros C CA HB HS Lo V Hr Ir v m''.
  assert (Hw1 : 1 <= w) by lia.
  destruct (lowering_correct_gen e [AMov rout (SLit 1)] None [AMov rout (SLit 0)] None st B m CA HB HS eq_refl eq_refl) as [A [_ Rn]]; try assumption;
    try (intros L X; discriminate X).
  assert (I' : inb (run_mem w R E e m) (regaddr R rout) w = true) by (rewrite (agree_inb w R _ _ _ _ A); exact Ir).
  assert (Wv : Machine.wrap w v = v).
  { apply (wrap_small w). pose proof (W_ge w Hw1). unfold inrange, v. destruct (beval w R E m e); lia. }
  split.
  - specialize (Rn m''). unfold m'', v in *. clear m'' v.
    destruct (beval w R E m e); apply Rn; cbn [run_simple]; unfold step_simple; cbn [res_ins res_sym exec val];
      unfold setdest; cbn [mm]; rewrite I'; unfold nxtm; cbn [mm pc]; f_equal; unfold Machine.sw; f_equal;
      apply (wrap_wrap w Hw1).
  - unfold m''. rewrite (lw_sw_same w Hw1) by exact Hr. exact Wv.
Qed.
End Top.

(* the semantics does not look at the stack top *)
Lemma sval_with_top w R E t m o : sval w R (with_top E t) m o = sval w R E m o.
Proof. induction o as [z|i|op x IHx y IHy]; cbn [sval]; [reflexivity | reflexivity | now rewrite IHx, IHy]. Qed.
Lemma beval_with_top w R E t m e : beval w R (with_top E t) m e = beval w R E m e.
Proof.
  induction e as [b|j|op a b|e IH|e1 IH1 e2 IH2|e1 IH1 e2 IH2]; cbn [beval];
    rewrite ?sval_with_top, ?IH, ?IH1, ?IH2; reflexivity.
Qed.
Lemma run_mem_with_top w R E t e : forall m, run_mem w R (with_top E t) e m = run_mem w R E e m.
Proof.
  induction e as [b|j|op a b|e IH|e1 IH1 e2 IH2|e1 IH1 e2 IH2]; intros m; cbn [run_mem];
    rewrite ?beval_with_top, ?IH, ?IH1, ?IH2; reflexivity.
Qed.
Lemma vars_ok_with_top w R E t m e : vars_ok w R E m e -> vars_ok w R (with_top E t) m e.
Proof.
  induction e as [b|j|op a b|e IH|e1 IH1 e2 IH2|e1 IH1 e2 IH2]; cbn [vars_ok]; try tauto.
Qed.

Section TopKeep.
Variable w : Z.
Hypothesis Hw : 2 <= w.
Variable code : Z -> option instr.
Variable cmem : mem.
Variable R : regmap.
Variable E : env.
Variable ext : label -> Z.
Hypothesis ext_range : forall x, 0 <= ext x < Machine.W w.
Notation act := (Machine.act w code cmem).
Notation runs := (HidV.Sphinx.Halts.runs act).

(* keep = True (e.g. `bool p = e;`): the result byte is reserved on the frame, one byte above
   the current stack top *)
Theorem value_lowering_keep_correct e st B m :
  let off := stack_top E + 1 in
  let C := fst (value_lowering_keep E e st) in
  code_at code B (resolve R ext B C) ->
  0 <= B -> B + size C < Machine.W w ->
  layout_ok w R m -> vars_ok w R E m e ->
  slot_ok w R m off 1 ->
  let v := if beval w R E m e then 1 else 0 in
  let m'' := Machine.sb (run_mem w R E e m) (FP w R m - off) v in
  runs (mk B m) [] (mk (B + size C) m'') /\ lb m'' (FP w R m - off) = v.
Proof.
  intros off C CA HB HS Lo V [S1 [S2 [S3 S4]]] v m''.
  assert (Hw1 : 1 <= w) by lia.
  set (E' := with_top E off).
  destruct (lowering_correct_gen w Hw code cmem R E' ext ext_range e
              [ASbso (SReg RFp) (SLit (- off)) (SLit 1)] None
              [ASbso (SReg RFp) (SLit (- off)) (SLit 0)] None st B m CA HB HS eq_refl eq_refl) as [A [_ Rn]];
    try assumption; try (intros L X; discriminate X); try (apply vars_ok_with_top; assumption).
  unfold E' in A, Rn. rewrite beval_with_top, run_mem_with_top in Rn. rewrite run_mem_with_top in A.
  set (m' := run_mem w R E e m) in *.
  pose proof (layout_ok_agree w R Hw m m' Lo A) as Lo'.
  pose proof (FP_agree w R Hw m m' Lo A) as EF.
  assert (I' : inb m' (FP w R m - off) 1 = true) by (rewrite (agree_inb w R _ _ _ _ A); exact S3).
  assert (Ad : Machine.sgn w (FP w R m') + Machine.sgn w (Machine.wrap w (- off)) = FP w R m - off).
  { rewrite (frame_addr w R Hw m' off Lo' S1). now rewrite EF. }
  assert (W1 : Machine.wrap w 1 = 1) by (apply (wrap_small w); pose proof (W_ge w Hw1); unfold inrange; lia).
  assert (W0 : Machine.wrap w 0 = 0) by (apply (wrap_small w); pose proof (W_ge w Hw1); unfold inrange; lia).
  split.
  - specialize (Rn m''). unfold m'', v in *. clear m'' v.
    destruct (beval w R E m e); apply Rn; cbn [run_simple]; unfold step_simple; cbn [res_ins res_sym regaddr exec val mm];
      rewrite (lo_if w R m' Lo'); change (Machine.lw w m' (a_fp R)) with (FP w R m');
      rewrite Ad; unfold store; cbn [mm]; rewrite I'; unfold nxtm; cbn [mm pc].
    + rewrite W1. reflexivity.
    + rewrite W0. reflexivity.
  - unfold m''. rewrite lb_sb_same. unfold v. destruct (beval w R E m e); reflexivity.
Qed.
End TopKeep.

(* ================================================================================= *)
(* F  satisfiability examples (w = 2, hidc's register layout, a 64-byte state section)  *)
(* ================================================================================= *)
Lemma code_at_code_of l : code_at (code_of l) 0 l.
Proof.
  intros k i H. unfold code_of. rewrite Z.add_0_l.
  destruct (Z.ltb_spec (Z.of_nat k) 0); [lia|]. now rewrite Nat2Z.id.
Qed.

Section Examples.
Definition ex_zero : mem := mkmem 64 (FMapPositive.PositiveMap.empty Z).
Lemma wf_ex_zero : wf_mem ex_zero.
Proof. intros a. unfold getb, ex_zero; cbn [mdata]. rewrite FMapPositive.PositiveMap.gempty. lia. Qed.
(* fp = 60; int locals a = 5 at 56, b = 7 at 54, c = 0 at 52; bool locals p, q = 0 at 51, 50 *)
Definition ex_mem : mem := Machine.sw 2 (Machine.sw 2 (Machine.sw 2 ex_zero 2 60) 56 5) 54 7.
Lemma wf_ex_mem : wf_mem ex_mem.
Proof. unfold ex_mem. repeat (apply (wf_sw 2); [|lia]). apply wf_ex_zero. Qed.
Definition ex_env : env := is_you_env 2 3.
(* a < b and not (p or c >= 3) *)
Definition ex_e : bexpr := BAnd (BCmp SLt (OVar 0) (OVar 1)) (BNot (BOr (BVar 0) (BCmp SGe (OVar 2) (OLit 3)))).
Definition ex_T : label := (LElse, 0%nat).
Definition ex_F : label := (LEndElse, 0%nat).
Definition ex_st : lstate := fun _ => 1%nat.
Definition ex_ext (l : label) : Z := match fst l with LElse => 100 | _ => 101 end.
Lemma ex_ext_range x : 0 <= ex_ext x < Machine.W 2.
Proof. unfold ex_ext. destruct (fst x); vm_compute; split; (discriminate || reflexivity). Qed.

Lemma ex_layout : layout_ok 2 (hidc_regs 2) ex_mem.
Proof.
  constructor; try apply wf_ex_mem; try (vm_compute; intro; discriminate); try (vm_compute; reflexivity);
    try (vm_compute; first [left; intro; discriminate | right; intro; discriminate]);
    try (vm_compute; split; [intro; discriminate | reflexivity]).
Qed.
Lemma ex_slot off n : In (off, n) [(4, 2); (6, 2); (8, 2); (9, 1); (10, 1)] -> slot_ok 2 (hidc_regs 2) ex_mem off n.
Proof.
  intros I. cbn [In] in I.
  repeat (destruct I as [I|I]; [inversion I; subst; unfold slot_ok, dj; vm_compute;
    repeat split; try (intro; discriminate); try reflexivity;
    first [left; intro; discriminate | right; intro; discriminate]|]).
  contradiction.
Qed.
Lemma ex_vars : vars_ok 2 (hidc_regs 2) ex_env ex_mem ex_e.
Proof.
  cbn [vars_ok ex_e opd_ok ex_env is_you_env int_off bool_off].
  repeat split; try (apply ex_slot; vm_compute; tauto); vm_compute; (discriminate || reflexivity).
Qed.

Definition ex_prog : list instr :=
  resolve (hidc_regs 2) ex_ext 0 (fst (lower_branch ex_env ex_e (goto ex_T) (goto ex_F) ex_st)).
Example branch_lowering_ex :
  let m' := run_mem 2 (hidc_regs 2) ex_env ex_e ex_mem in
  HidV.Sphinx.Halts.runs (Machine.act 2 (code_of ex_prog) (zmem 0)) (mk 0 ex_mem) [] (mk 100 m') /\
  agree 2 (hidc_regs 2) ex_mem m'.
Proof.
  intros m'.
  destruct (branch_lowering_correct 2 ltac:(lia) (code_of ex_prog) (zmem 0) (hidc_regs 2) ex_env ex_ext ex_ext_range
              ex_e ex_T ex_F ex_st 0 ex_mem) as [Rn [A _]].
  - apply code_at_code_of.
  - lia.
  - vm_compute. reflexivity.
  - unfold below, ex_st, ex_T, ex_F; cbn [fst snd]; lia.
  - unfold below, ex_st, ex_T, ex_F; cbn [fst snd]; lia.
  - apply ex_layout.
  - apply ex_vars.
  - split; [|exact A].
    replace (if beval 2 (hidc_regs 2) ex_env ex_mem ex_e then ex_ext ex_T else ex_ext ex_F) with 100 in Rn
      by (vm_compute; reflexivity).
    exact Rn.
Qed.

Definition ex_if_prog : list instr :=
  resolve (hidc_regs 2) ex_ext 0 (fst (fst (fst (if_block ex_env ex_e ex_st)))).
Example if_block_lowering_ex :
  HidV.Sphinx.Halts.runs (Machine.act 2 (code_of ex_if_prog) (zmem 0)) (mk 0 ex_mem) []
    (mk (size (fst (fst (fst (if_block ex_env ex_e ex_st))))) (run_mem 2 (hidc_regs 2) ex_env ex_e ex_mem)).
Proof.
  destruct (if_block_lowering_correct 2 ltac:(lia) (code_of ex_if_prog) (zmem 0) (hidc_regs 2) ex_env ex_ext ex_ext_range
              ex_e ex_st 0 ex_mem) as [Rn _].
  - apply code_at_code_of.
  - lia.
  - vm_compute. reflexivity.
  - apply ex_layout.
  - apply ex_vars.
  - replace (beval 2 (hidc_regs 2) ex_env ex_mem ex_e) with true in Rn by (vm_compute; reflexivity).
    rewrite Z.add_0_l in Rn. exact Rn.
Qed.

Definition ex_val_prog : list instr :=
  resolve (hidc_regs 2) ex_ext 0 (fst (value_lowering ex_env ex_e R0 ex_st)).
Example value_lowering_ex :
  exists m'', HidV.Sphinx.Halts.runs (Machine.act 2 (code_of ex_val_prog) (zmem 0)) (mk 0 ex_mem) []
                (mk (size (fst (value_lowering ex_env ex_e R0 ex_st))) m'') /\
              Machine.lw 2 m'' (a_r0 (hidc_regs 2)) = 1.
Proof.
  destruct (value_lowering_correct 2 ltac:(lia) (code_of ex_val_prog) (zmem 0) (hidc_regs 2) ex_env ex_ext ex_ext_range
              ex_e R0 ex_st 0 ex_mem) as [Rn Lv].
  - apply code_at_code_of.
  - lia.
  - vm_compute. reflexivity.
  - apply ex_layout.
  - apply ex_vars.
  - vm_compute. intro; discriminate.
  - vm_compute. reflexivity.
  - replace (beval 2 (hidc_regs 2) ex_env ex_mem ex_e) with true in Rn, Lv by (vm_compute; reflexivity).
    rewrite Z.add_0_l in Rn. eexists. split; [exact Rn | exact Lv].
Qed.
End Examples.
